/-
  Driver glue: S-expression reader for programs (the generator in vlib/progen.py renders every
  program twice: as BLOC source for the harness and as this S-expression for the model).
  Not part of the model; `partial` allowed here.
-/
import BlocV.Model.Interp
import BlocV.Proto

namespace BlocV.SExp
open BlocV BlocV.Proto

inductive S
  | atom (s : String)
  | list (xs : List S)
  deriving Repr, Inhabited

partial def tokenize (cs : List Char) (cur : List Char) (acc : List String) : List String :=
  let flush := if cur.isEmpty then acc else String.ofList cur.reverse :: acc
  match cs with
  | [] => flush.reverse
  | '(' :: r => tokenize r [] ("(" :: flush)
  | ')' :: r => tokenize r [] (")" :: flush)
  | ' ' :: r => tokenize r [] flush
  | '\n' :: r => tokenize r [] flush
  | c :: r => tokenize r (c :: cur) acc

mutual
  partial def parseS : List String → Option (S × List String)
    | "(" :: r => (parseList r []).map fun (xs, r') => (S.list xs, r')
    | ")" :: _ => none
    | a :: r => some (S.atom a, r)
    | [] => none
  partial def parseList : List String → List S → Option (List S × List String)
    | ")" :: r, acc => some (acc.reverse, r)
    | [], _ => none
    | ts, acc => match parseS ts with
      | some (x, r) => parseList r (x :: acc)
      | none => none
end

def readAll (s : String) : Option (List S) :=
  let rec go (fuel : Nat) (ts : List String) (acc : List S) : Option (List S) :=
    match fuel with
    | 0 => none
    | fuel + 1 =>
      match ts with
      | [] => some acc.reverse
      | _ => match parseS ts with
        | some (x, r) => go fuel r (x :: acc)
        | none => none
  let ts := tokenize s.toList [] []
  go (ts.length + 1) ts []

partial def toExpr : S → Option Expr
  | .list [.atom "lit", .atom v] => (parseVal v).map Expr.lit
  | .list [.atom "var", .atom n] => some (.var n)
  | .list [.atom "un", .atom op, a] => do let o ← unOpOfName op; let x ← toExpr a; pure (.un o x)
  | .list [.atom "bin", .atom op, a, b] => do let o ← binOpOfName op; let x ← toExpr a; let y ← toExpr b; pure (.bin o x y)
  | .list (.atom "call" :: .atom n :: args) => do let xs ← args.mapM toExpr; pure (.call n xs)
  | .list (.atom "fcall" :: .atom n :: args) => do let xs ← args.mapM toExpr; pure (.fcall n xs)
  | .list (.atom "member" :: .atom n :: recv :: args) => do
    let m ← Member.ofName n; let r ← toExpr recv; let xs ← args.mapM toExpr; pure (.member m r xs)
  -- BEGIN INT
  | .list [.atom "error"] => some .errorE
  | .list [.atom "item", .atom n, e] => do let k ← n.toNat?; let x ← toExpr e; pure (.item x k)
  -- END INT
  | _ => none

def toDir : String → Dir
  | "asc" => .asc | "desc" => .desc | _ => .auto

mutual
  partial def toStmt : S → Option Stmt
    | .list [.atom "nop"] => some .nop
    | .list [.atom "let", .atom n, e] => (toExpr e).map (Stmt.letS n)
    | .list [.atom "do", e] => (toExpr e).map Stmt.doS
    | .list (.atom "print" :: es) => (es.mapM toExpr).map Stmt.printS
    | .list (.atom "if" :: rules) => do
      let rs ← rules.mapM fun r => match r with
        | .list (.atom "else" :: body) => do let b ← toStmts body; pure (none, b)
        | .list (c :: body) => do let ce ← toExpr c; let b ← toStmts body; pure (some ce, b)
        | _ => none
      pure (.ifS rs)
    | .list (.atom "while" :: c :: body) => do let ce ← toExpr c; let b ← toStmts body; pure (.whileS ce b)
    | .list (.atom "for" :: .atom v :: b :: e :: st :: .atom dir :: body) => do
      let be ← toExpr b; let ee ← toExpr e
      let se ← match st with
        | .atom "-" => pure none
        | x => (toExpr x).map some
      let bd ← toStmts body
      pure (.forS v be ee se (toDir dir) bd)
    | .list (.atom "forall" :: .atom it :: src :: .atom dir :: body) => do
      let se ← toExpr src
      let bd ← toStmts body
      pure (.forallS it se (toDir dir) bd)
    | .list (.atom "begin" :: .list (.atom "body" :: body) :: whens) => do
      let b ← toStmts body
      let ws ← whens.mapM toWhen
      pure (.beginS b ws)
    | .list [.atom "raise", .atom n] => some (.raiseS n)
    | .list [.atom "return", .atom "-"] => some (.returnS none)
    | .list [.atom "return", e] => (toExpr e).map fun x => Stmt.returnS (some x)
    | .list [.atom "break"] => some .breakS
    | .list [.atom "continue"] => some .continueS
    | .list (.atom "func" :: .atom n :: .list ps :: .atom rts :: .list (.atom "body" :: body) :: whens) => do
      let rt ← (pTy rts.toList).map fun ((t, _), _) => t
      let names ← ps.mapM fun p => match p with
        | .list [.atom a, .atom ty] => (pTy ty.toList).map fun ((t, _), _) => (a, t)
        | _ => none
      let b ← toStmts body
      let ws ← whens.mapM toWhen
      pure (.funcS n names rt b ws)
    | _ => none
  partial def toStmts (xs : List S) : Option (List Stmt) := xs.mapM toStmt
  partial def toWhen : S → Option (String × List Stmt)
    | .list (.atom "when" :: .atom n :: body) => (toStmts body).map fun b => (n, b)
    | _ => none
end

def readProgram (s : String) : Option (List Stmt) := do
  let xs ← readAll s
  toStmts xs

end BlocV.SExp
