/-
  Driver glue of the C09 correspondence (container methods): parses the case lines, runs the
  value-level model (Model/Members.lean) and the specification (Spec/Containers.lean), prints
  canonical outcomes. I/O glue only — not used by any theorem.

  Commands
    mb <member> <recvV> <argV…> [const|opaque]   r = x.member(y, z)
    setitem <recvV> <N> <argV> [opaque]           r = x.set@N(y)
    item <recvV> <N> [opaque]                     r = x@N
    bi tab <V…> | bi tup <V…>                     r = tab(x, y) / tup(x, y, …)
    mseq <recvV> <step>…                          step ::= <member>/<argc> <argV…> | set@<N>/1 <argV>
    forall <tableV> <asc|desc|auto> <op> [<V>]    traversal helpers (see `handleForall`)
  Answers: `model=<out> [spec=<sout>] [kf=<region>]` with
    out  ::= ok <resultV> recv=<receiverV after> | perr <code> | rerr <code> | hazard <h> | unmodelled
    sout ::= ok <resultV> recv=<V> | reject <index|type|range|any> | either ok <resultV> recv=<V>
-/
import BlocV.Proto
import BlocV.Model.Members
import BlocV.Spec.Containers
import BlocV.KF.C09

namespace BlocV.DrvC09
open BlocV BlocV.Proto

def outStr : Res (Val × Val) → String
  | .ok (r, x) => "ok " ++ valStr r ++ " recv=" ++ valStr x
  | .err c a => resStr (.err c a : Res Val)
  | .haz h => resStr (.haz h : Res Val)
  | .unmodelled => "unmodelled"

def soutStr : Spec.SOut → String
  | .ok r x => "ok " ++ valStr r ++ " recv=" ++ valStr x
  | .reject e => "reject " ++ (match e with | .index => "index" | .type => "type" | .range => "range" | .any => "any")
  | .either r x => "either ok " ++ valStr r ++ " recv=" ++ valStr x

def withSpec (model : String) (spec : Option Spec.SOut) (kf : Option String) : String :=
  "model=" ++ model ++ (match spec with | some s => " spec=" ++ soutStr s | none => "")
    ++ (match kf with | some k => " kf=" ++ k | none => "")

def splitFlag (ws : List String) : List String × String :=
  match ws.reverse with
  | "const" :: r => (r.reverse, "const")
  | "opaque" :: r => (r.reverse, "opaque")
  | "hth" :: r => (r.reverse, "hth")
  | "tmp" :: r => (r.reverse, "tmp")
  | _ => (ws, "")

def hazName (h : Hazard) : String := ((resStr (.haz h : Res Val)).drop 7).toString

def memberName : Member → String
  | .concat => "concat" | .at => "at" | .put => "put" | .count => "count" | .delete => "delete" | .insert => "insert"

/-- One member call as the program `r = x.member(y, z)` sees it. -/
def runMember (m : Member) (recv : Val) (args : List Val) (flag : String) : String :=
  if recv.type.major == .obj && recv.type.level == 0 then "model=unmodelled" else
  let static : Option Nat := if flag == "opaque" then none else acceptMember m recv.type (args.map Val.type) false
  let spec := if flag == "const" || flag == "hth" || flag == "tmp" then none else Spec.specMember m recv args
  match static with
  | some code => withSpec ("perr " ++ toString code) spec (KF.memberRegion m recv args)
  | none =>
    -- receiver kind (MemberExpression::receiver()): variable = storage, literal = constant, `(x + "")` = temporary,
    -- `(x + null)` = an lvalue handed through
    let kind : RecvKind := if flag == "const" then .constant else if flag == "hth" then .handedThrough
      else if flag == "tmp" then .temporary else .storage
    let r := memberCallK kind m recv args
    -- A hazard outcome names its own region (`C09.<member>.<hazard>`). None is reachable on well-formed values since
    -- the typed-null dereference of the type-mixing branch was repaired (9e8652f; Proofs/C09 `table_methods_no_hazard`);
    -- the ids C09.{put,insert,concat,set}.nullDeref are `fixed` in known_findings.json, so a model that reached such an
    -- outcome again would be reported as a violation (region not listed as known), never suppressed.
    let kf := match r with
      | .haz h => some ("C09." ++ memberName m ++ "." ++ hazName h)
      | _ => KF.memberRegion m recv args
    withSpec (outStr r) spec kf

def declOfVal : Val → List Ty
  | .tup d _ => d
  | .tab _ d _ => d
  | _ => []

def runSet (recv : Val) (n : Nat) (arg : Val) (flag : String) : String :=
  -- the receiver-type dispatch and the rank literal are checked whatever the static types are
  let exp : Ty := if flag == "opaque" then Ty.none else recv.type
  let decl := if flag == "opaque" then [] else declOfVal recv
  let argTy := if flag == "opaque" then Ty.none else arg.type
  let spec := Spec.specSet recv n arg
  match acceptSet exp decl n argTy false with
  | some code => withSpec ("perr " ++ toString code) spec none
  | none =>
    let r := setItem (m := Res) (.ok recv) n (.ok arg)
    let kf := match r with
      | .haz h => some ("C09.set." ++ hazName h)
      | _ => none
    withSpec (outStr r) spec kf

def valOut : Res Val → Val → Res (Val × Val)
  | .ok r, x => .ok (r, x)
  | .err c a, _ => .err c a
  | .haz h, _ => .haz h
  | .unmodelled, _ => .unmodelled

def runItem (recv : Val) (n : Nat) (flag : String) : String :=
  let exp : Ty := if flag == "opaque" then Ty.none else recv.type
  let spec := Spec.specItem recv n
  match acceptItem exp n with
  | some code => withSpec ("perr " ++ toString code) spec none
  | none => withSpec (outStr (valOut (itemAt (m := Res) (.ok recv) n) recv)) spec none

def runTab (args : List Val) (flag : String := "") : String :=
  match (if flag == "opaque" then acceptTab (args.map fun _ => Ty.none) else acceptTab (args.map Val.type)) with
  | some code => withSpec ("perr " ++ toString code) (Spec.specTab args) (KF.tabRegion args)
  | none =>
    let r := biTab (m := Res) (args.map fun v => Res.ok v)
    withSpec (resStr r) (Spec.specTab args) (KF.tabRegion args)

def runTup (args : List Val) (flag : String := "") : String :=
  let spec := Spec.specTup args
  match (if flag == "opaque" then acceptTup (args.map fun _ => Ty.none) else acceptTup (args.map Val.type)) with
  | some code => withSpec ("perr " ++ toString code) spec none
  | none => withSpec (resStr (biTup (m := Res) (args.map fun v => Res.ok v))) spec none

/-- all scripts of length `k` over the given values -/
def scriptsOf : Nat → List Val → List (List Val)
  | 0, _ => [[]]
  | k + 1, vals => (scriptsOf k vals).flatMap fun sc => vals.map fun v => v :: sc

/-- `bi tabseq <nV> <v…>`: `tab(n, e)` with `e` yielding the script; `bi tabrand <nV> <k> <v…>`: the set of outcomes over all
scripts of length k over the values (the element expression picks one of them at random at every evaluation) -/
def runTabSeq (n : Val) (vs : List Val) : String := "model=" ++ resStr (biTabScript n vs)

def runTabRand (n : Val) (k : Nat) (vals : List Val) : String :=
  let outs := (scriptsOf k vals).map fun sc => resStr (biTabScript n sc)
  "model=" ++ ";;".intercalate (outs.foldl (fun acc o => if acc.contains o then acc else acc ++ [o]) [])

/-! operation sequences on one variable -/

inductive StepOp
  | mem (m : Member) (args : List Val)
  | set (n : Nat) (arg : Val)

def parseSteps : Nat → List String → Option (List StepOp)
  | 0, _ => none
  | _, [] => some []
  | fuel + 1, hd :: rest =>
    match hd.splitOn "/" with
    | [name, cnt] =>
      let k := cnt.toNat?.getD 0
      let argWs := rest.take k
      let rest' := rest.drop k
      match argWs.mapM parseVal with
      | none => none
      | some args =>
        let op : Option StepOp :=
          if name.startsWith "set@" then
            match args with
            | [a] => some (.set ((name.drop 4).toString.toNat?.getD 0) a)
            | _ => none
          else (Member.ofName name).map fun m => .mem m args
        match op, parseSteps fuel rest' with
        | some o, some os => some (o :: os)
        | _, _ => none
    | _ => none

/-- Runs the steps as successive statements `r = x.op(args)` with static types = current value types;
a failed step leaves the variable unchanged; a hazard ends the run. -/
def runSeq : List StepOp → Val → List String → List String
  | [], _, acc => acc.reverse
  | op :: ops, x, acc =>
    let (static, dyn, spec, kf) : Option Nat × Res (Val × Val) × Option Spec.SOut × Option String :=
      match op with
      | .mem m args =>
        (acceptMember m x.type (args.map Val.type) false, memberCall m x args false, Spec.specMember m x args, KF.memberRegion m x args)
      | .set n a =>
        (acceptSet x.type (declOfVal x) n a.type false, setItem (m := Res) (.ok x) n (.ok a), Spec.specSet x n a, none)
    match static with
    | some code => runSeq ops x (withSpec ("perr " ++ toString code) spec kf :: acc)
    | none =>
      match dyn with
      | .ok (r, x') => runSeq ops x' (withSpec (outStr (.ok (r, x'))) spec kf :: acc)
      | .haz h =>
        let nm := match op with | .mem m _ => memberName m | .set _ _ => "set"
        (withSpec (outStr (.haz h)) spec (some ("C09." ++ nm ++ "." ++ hazName h)) :: acc).reverse
      | other => runSeq ops x (withSpec (outStr other) spec kf :: acc)

/-! forall helpers: the visiting order, the values seen, the table after writing through the iterator -/

def handleForall (tbl : Val) (dir : String) (op : String) (arg : Option Val) : String :=
  let desc := dir == "desc"
  match tbl with
  | .tab _ _ es =>
    let order := forallTrace desc es.length (es.length + 1) (forallFirst desc es.length)
    match op with
    | "read" =>
      -- the elements in visiting order
      "model=ok " ++ ",".intercalate (order.map fun i => match es[i]? with | some e => valStr e | none => "?")
    | "write" =>
      -- `e = <arg>` at every step
      match arg with
      | some v =>
        let r := forallFold (fun _ _ (acc : Unit) => .ok (v, acc)) order tbl ()
        (match r with
          | .ok (t', _) => "model=ok " ++ valStr t'
          | .err c a => "model=" ++ resStr (.err c a : Res Val)
          | .haz h => "model=" ++ resStr (.haz h : Res Val)
          | .unmodelled => "model=unmodelled")
      | none => "bad-op"
    | "order" => "model=ok " ++ ",".intercalate (order.map toString)
    | _ => "bad-op"
  | .null _ => "model=ok "
  | _ => "bad-op"

/-! the parse-time lock of forall: `lockp <tableV> [fa:<iter>:<target>]… [post:<k>] call <op> <root> <nchain> <argV>…`
the program is `forall <iter> in <target> loop … r = <root>[.at(0)]^nchain.<op>(0?, args); … end loop;` with the call placed
after the `k` innermost loops have been closed (their body is `x = 1;`). Symbols: t=0, u=1 (a copy of t), e=2, f=3.
Answer: `model=accept | perr <code>` (the first compile error: dispatch, lock, arguments) `lr=<0|1>` (lockRefuses)
`ls=<refused|accepted>` (lockStmt on the statement tree) `fl=<flags of t,u,e,f at the call>`. -/

def symOf : String → Option Nat
  | "t" => some 0 | "u" => some 1 | "e" => some 2 | "f" => some 3 | _ => none

def parseFrames : List String → List (Nat × Nat) → Option (List (Nat × Nat) × List String)
  | w :: rest, acc =>
    match w.splitOn ":" with
    | ["fa", i, t] =>
      match symOf i, symOf t with
      | some a, some b => parseFrames rest (acc ++ [(a, b)])
      | _, _ => none
    | _ => some (acc, w :: rest)
  | [], acc => some (acc, [])

def chainOf : Nat → RecvExp → RecvExp
  | 0, e => e
  | n + 1, e => chainOf n (.chain e)

def chainTy : Nat → Ty → Ty
  | 0, t => t
  | n + 1, t => chainTy n (memberType .at t)

/-- loops that are closed before the call (their body is `x = 1;`: no member call) -/
def closedLoops : List (Nat × Nat) → LStmt
  | [] => .loop 0 .other []
  | [(i, t)] => .loop i (.var t) []
  | (i, t) :: rest => .loop i (.var t) [closedLoops rest]

/-- the statement tree: the frames as nested loops, the call after the `k` innermost ones -/
def progOf : List (Nat × Nat) → Nat → LStmt → List LStmt
  | [], _, call => [call]
  | (i, t) :: rest, k, call =>
    if rest.length < k then [closedLoops ((i, t) :: rest), call]
    else [.loop i (.var t) (progOf rest k call)]

def runLock (tv : Val) (frames : List (Nat × Nat)) (k : Nat) (opName : String) (root : Nat) (nchain : Nat) (args : List Val) : String :=
  let fl0 : Nat → Bool := fun _ => false
  let opened := frames.take (frames.length - k)
  let closedFr := frames.drop (frames.length - k)
  -- static types of the symbols: t, u have the table's type, an iterator the element type of its target
  let tyOf : Nat → Ty := frames.foldl (fun ty (fr : Nat × Nat) => fun s => if s == fr.1 then (ty fr.2).levelDown else ty s)
    (fun s => if s == 0 || s == 1 then tv.type else Ty.none)
  let flOpen := opened.foldl (fun fl (fr : Nat × Nat) => forallEnter fr.1 (some fr.2) fl) fl0
  let flCall := match closedFr with
    | [] => flOpen
    | _ => match lockStmt (closedLoops closedFr) flOpen with
      | some fl' => fl'
      | none => flOpen
  let recv := chainOf nchain (.var root)
  let recvTy := chainTy nchain (tyOf root)
  let locked := recvLocked recv flCall
  let op : Option MemberOp := if opName.startsWith "set@" then some .set else (Member.ofName opName).map MemberOp.m
  let b := fun (x : Bool) => if x then "1" else "0"
  if opName == "assign" then
    -- `<root> = k0;` with k0 of the symbol's own static type: registerSymbol refuses a locked symbol
    let st := LStmt.assign root
    let ls := match lockBody (progOf frames k st) fl0 with | none => "refused" | some _ => "accepted"
    let refused := (lockStmt st flCall).isNone
    "model=" ++ (if refused then "perr " ++ toString Gen.EXC_PARSE_CONST_VIOLATION_S else "accept")
      ++ " lr=" ++ b refused ++ " ls=" ++ ls ++ " fl=" ++ b (flCall 0) ++ b (flCall 1) ++ b (flCall 2) ++ b (flCall 3)
  else
  match op with
  | none => "bad-op"
  | some o =>
    let posTys : List Ty := match o with
      | .m .at | .m .put | .m .insert | .m .delete => [Ty.int]
      | _ => []
    let argTys := posTys ++ args.map Val.type
    let res : Option Nat := match o with
      | .m m => acceptMember m recvTy argTys locked
      | .set =>
        let rank := (opName.drop 4).toString.toNat?.getD 0
        let decl := if recvTy.major == .tup then declOfVal tv else []
        acceptSet recvTy decl rank (match args with | a :: _ => a.type | [] => Ty.none) locked
    let call := LStmt.call o recv
    let prog : List LStmt := progOf frames k call
    let ls := match lockBody prog fl0 with | none => "refused" | some _ => "accepted"
    "model=" ++ (match res with | some c => "perr " ++ toString c | none => "accept")
      ++ " lr=" ++ b (lockRefuses o recv flCall) ++ " ls=" ++ ls
      ++ " fl=" ++ b (flCall 0) ++ b (flCall 1) ++ b (flCall 2) ++ b (flCall 3)

def handleLock (ws : List String) : String :=
  match ws with
  | tvS :: rest =>
    match parseVal tvS, parseFrames rest [] with
    | some tv, some (frames, rest1) =>
      let (k, rest2) : Nat × List String := match rest1 with
        | w :: r => if w.startsWith "post:" then ((w.drop 5).toString.toNat?.getD 0, r) else (0, w :: r)
        | [] => (0, [])
      match rest2 with
      | "call" :: opName :: rootS :: nS :: argWs =>
        match symOf rootS, nS.toNat?, argWs.mapM parseVal with
        | some root, some n, some args => runLock tv frames k opName root n args
        | _, _, _ => "bad-op"
      | _ => "bad-op"
    | _, _ => "bad-op"
  | [] => "bad-op"

def handle (words : List String) : Option String :=
  match words with
  | "lockp" :: rest => some (handleLock rest)
  | "mb" :: name :: rest =>
    let (ws, flag) := splitFlag rest
    match Member.ofName name, ws.mapM parseVal with
    | some m, some (recv :: args) =>
      -- `nc=1`: a value of the case is outside `Spec.canon` (the domain of the `*_refines` theorems): never expected
      some (runMember m recv args flag ++ (if (recv :: args).all Spec.canon then "" else " nc=1"))
    | _, _ => some "bad-op"
  | "setitem" :: rest =>
    let (ws, flag) := splitFlag rest
    match ws with
    | [rv, n, av] =>
      match parseVal rv, n.toNat?, parseVal av with
      | some recv, some k, some a => some (runSet recv k a flag ++ (if Spec.canon recv && Spec.canon a then "" else " nc=1"))
      | _, _, _ => some "bad-op"
    | _ => some "bad-op"
  | "item" :: rest =>
    let (ws, flag) := splitFlag rest
    match ws with
    | [rv, n] =>
      match parseVal rv, n.toNat? with
      | some recv, some k => some (runItem recv k flag)
      | _, _ => some "bad-op"
    | _ => some "bad-op"
  | "bi" :: "tabseq" :: nS :: vs =>
    match parseVal nS, vs.mapM parseVal with
    | some n, some vals => some (runTabSeq n vals)
    | _, _ => some "bad-op"
  | "bi" :: "tabrand" :: nS :: kS :: vs =>
    match parseVal nS, kS.toNat?, vs.mapM parseVal with
    | some n, some k, some vals => some (runTabRand n k vals)
    | _, _, _ => some "bad-op"
  | "bi" :: "tab" :: vs0 =>
    let (vs, flag) := splitFlag vs0
    match vs.mapM parseVal with
    | some args => some (runTab args flag)
    | none => some "bad-op"
  | "bi" :: "tup" :: vs0 =>
    let (vs, flag) := splitFlag vs0
    match vs.mapM parseVal with
    | some args => some (runTup args flag)
    | none => some "bad-op"
  | "mseq" :: rv :: steps =>
    match parseVal rv, parseSteps (steps.length + 1) steps with
    | some recv, some ops => some (";;".intercalate (runSeq ops recv []))
    | _, _ => some "bad-op"
  | ["forall", tv, dir, op] =>
    match parseVal tv with
    | some t => some (handleForall t dir op none)
    | none => some "bad-op"
  | ["forall", tv, dir, op, av] =>
    match parseVal tv, parseVal av with
    | some t, some a => some (handleForall t dir op (some a))
    | _, _ => some "bad-op"
  | _ => none

end BlocV.DrvC09
