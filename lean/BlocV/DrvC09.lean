/-
  Driver glue of the C09 correspondence (container methods): parses the case lines, runs the
  value-level model (Model/Members.lean) and the specification (Spec/Containers.lean), prints
  canonical outcomes. I/O glue only — not used by any theorem.

  Commands
    mb <member> <recvV> <argV…> [const|opaque]   r = x.member(y, z)
    setitem <recvV> <N> <argV> [opaque]           r = x.set@N(y)
    item <recvV> <N> [opaque]                     r = x@N
    bi tab <V…> | bi tup <V…>                     r = tab(x, y) / tup(x, y, …)
    mseq <recvV> <step>…                          step ::= <member>/<argc> <argV…> | set@<N>/1 <argV>
    forall <tableV> <asc|desc|auto> <op> [<V>]    traversal helpers (see `handleForall`)
  Answers: `model=<out> [spec=<sout>] [kf=<region>]` with
    out  ::= ok <resultV> recv=<receiverV after> | perr <code> | rerr <code> | hazard <h> | unmodelled
    sout ::= ok <resultV> recv=<V> | reject <index|type|range|any> | either ok <resultV> recv=<V>
-/
import BlocV.Proto
import BlocV.Model.Members
import BlocV.Spec.Containers
import BlocV.KF.C09

namespace BlocV.DrvC09
open BlocV BlocV.Proto

def outStr : Res (Val × Val) → String
  | .ok (r, x) => "ok " ++ valStr r ++ " recv=" ++ valStr x
  | .err c a => resStr (.err c a : Res Val)
  | .haz h => resStr (.haz h : Res Val)
  | .unmodelled => "unmodelled"

def soutStr : Spec.SOut → String
  | .ok r x => "ok " ++ valStr r ++ " recv=" ++ valStr x
  | .reject e => "reject " ++ (match e with | .index => "index" | .type => "type" | .range => "range" | .any => "any")
  | .either r x => "either ok " ++ valStr r ++ " recv=" ++ valStr x

def withSpec (model : String) (spec : Option Spec.SOut) (kf : Option String) : String :=
  "model=" ++ model ++ (match spec with | some s => " spec=" ++ soutStr s | none => "")
    ++ (match kf with | some k => " kf=" ++ k | none => "")

def splitFlag (ws : List String) : List String × String :=
  match ws.reverse with
  | "const" :: r => (r.reverse, "const")
  | "opaque" :: r => (r.reverse, "opaque")
  | _ => (ws, "")

def hazName (h : Hazard) : String := ((resStr (.haz h : Res Val)).drop 7).toString

def memberName : Member → String
  | .concat => "concat" | .at => "at" | .put => "put" | .count => "count" | .delete => "delete" | .insert => "insert"

/-- One member call as the program `r = x.member(y, z)` sees it. -/
def runMember (m : Member) (recv : Val) (args : List Val) (flag : String) : String :=
  if recv.type.major == .obj && recv.type.level == 0 then "model=unmodelled" else
  let static : Option Nat := if flag == "opaque" then none else acceptMember m recv.type (args.map Val.type) false
  let spec := if flag == "const" then none else Spec.specMember m recv args
  match static with
  | some code => withSpec ("perr " ++ toString code) spec (KF.memberRegion m recv args)
  | none =>
    let r := memberCall m recv args (flag == "const")
    -- A hazard outcome names its own region (`C09.<member>.<hazard>`). None is reachable on well-formed values since
    -- the typed-null dereference of the type-mixing branch was repaired (9e8652f; Proofs/C09 `table_methods_no_hazard`);
    -- the ids C09.{put,insert,concat,set}.nullDeref are `fixed` in known_findings.json, so a model that reached such an
    -- outcome again would be reported as a violation (region not listed as known), never suppressed.
    let kf := match r with
      | .haz h => some ("C09." ++ memberName m ++ "." ++ hazName h)
      | _ => KF.memberRegion m recv args
    withSpec (outStr r) spec kf

def declOfVal : Val → List Ty
  | .tup d _ => d
  | .tab _ d _ => d
  | _ => []

def runSet (recv : Val) (n : Nat) (arg : Val) (flag : String) : String :=
  -- the receiver-type dispatch and the rank literal are checked whatever the static types are
  let exp : Ty := if flag == "opaque" then Ty.none else recv.type
  let decl := if flag == "opaque" then [] else declOfVal recv
  let argTy := if flag == "opaque" then Ty.none else arg.type
  let spec := Spec.specSet recv n arg
  match acceptSet exp decl n argTy false with
  | some code => withSpec ("perr " ++ toString code) spec none
  | none =>
    let r := setItem (m := Res) (.ok recv) n (.ok arg)
    let kf := match r with
      | .haz h => some ("C09.set." ++ hazName h)
      | _ => none
    withSpec (outStr r) spec kf

def valOut : Res Val → Val → Res (Val × Val)
  | .ok r, x => .ok (r, x)
  | .err c a, _ => .err c a
  | .haz h, _ => .haz h
  | .unmodelled, _ => .unmodelled

def runItem (recv : Val) (n : Nat) (flag : String) : String :=
  let exp : Ty := if flag == "opaque" then Ty.none else recv.type
  let spec := Spec.specItem recv n
  match acceptItem exp n with
  | some code => withSpec ("perr " ++ toString code) spec none
  | none => withSpec (outStr (valOut (itemAt (m := Res) (.ok recv) n) recv)) spec none

def runTab (args : List Val) : String :=
  match acceptTab (args.map Val.type) with
  | some code => withSpec ("perr " ++ toString code) (Spec.specTab args) (KF.tabRegion args)
  | none =>
    let r := biTab (m := Res) (args.map fun v => Res.ok v)
    withSpec (resStr r) (Spec.specTab args) (KF.tabRegion args)

def runTup (args : List Val) : String :=
  match acceptTup (args.map Val.type) with
  | some code => "model=perr " ++ toString code
  | none => "model=" ++ resStr (biTup (m := Res) (args.map fun v => Res.ok v))

/-! operation sequences on one variable -/

inductive StepOp
  | mem (m : Member) (args : List Val)
  | set (n : Nat) (arg : Val)

def parseSteps : Nat → List String → Option (List StepOp)
  | 0, _ => none
  | _, [] => some []
  | fuel + 1, hd :: rest =>
    match hd.splitOn "/" with
    | [name, cnt] =>
      let k := cnt.toNat?.getD 0
      let argWs := rest.take k
      let rest' := rest.drop k
      match argWs.mapM parseVal with
      | none => none
      | some args =>
        let op : Option StepOp :=
          if name.startsWith "set@" then
            match args with
            | [a] => some (.set ((name.drop 4).toString.toNat?.getD 0) a)
            | _ => none
          else (Member.ofName name).map fun m => .mem m args
        match op, parseSteps fuel rest' with
        | some o, some os => some (o :: os)
        | _, _ => none
    | _ => none

/-- Runs the steps as successive statements `r = x.op(args)` with static types = current value types;
a failed step leaves the variable unchanged; a hazard ends the run. -/
def runSeq : List StepOp → Val → List String → List String
  | [], _, acc => acc.reverse
  | op :: ops, x, acc =>
    let (static, dyn, spec, kf) : Option Nat × Res (Val × Val) × Option Spec.SOut × Option String :=
      match op with
      | .mem m args =>
        (acceptMember m x.type (args.map Val.type) false, memberCall m x args false, Spec.specMember m x args, KF.memberRegion m x args)
      | .set n a =>
        (acceptSet x.type (declOfVal x) n a.type false, setItem (m := Res) (.ok x) n (.ok a), Spec.specSet x n a, none)
    match static with
    | some code => runSeq ops x (withSpec ("perr " ++ toString code) spec kf :: acc)
    | none =>
      match dyn with
      | .ok (r, x') => runSeq ops x' (withSpec (outStr (.ok (r, x'))) spec kf :: acc)
      | .haz h =>
        let nm := match op with | .mem m _ => memberName m | .set _ _ => "set"
        (withSpec (outStr (.haz h)) spec (some ("C09." ++ nm ++ "." ++ hazName h)) :: acc).reverse
      | other => runSeq ops x (withSpec (outStr other) spec kf :: acc)

/-! forall helpers: the visiting order, the values seen, the table after writing through the iterator -/

def handleForall (tbl : Val) (dir : String) (op : String) (arg : Option Val) : String :=
  let desc := dir == "desc"
  match tbl with
  | .tab _ _ es =>
    let order := forallTrace desc es.length (es.length + 1) (forallFirst desc es.length)
    match op with
    | "read" =>
      -- the elements in visiting order
      "model=ok " ++ ",".intercalate (order.map fun i => match es[i]? with | some e => valStr e | none => "?")
    | "write" =>
      -- `e = <arg>` at every step
      match arg with
      | some v =>
        let r := forallFold (fun _ _ (acc : Unit) => .ok (v, acc)) order tbl ()
        (match r with
          | .ok (t', _) => "model=ok " ++ valStr t'
          | .err c a => "model=" ++ resStr (.err c a : Res Val)
          | .haz h => "model=" ++ resStr (.haz h : Res Val)
          | .unmodelled => "model=unmodelled")
      | none => "bad-op"
    | "order" => "model=ok " ++ ",".intercalate (order.map toString)
    | _ => "bad-op"
  | .null _ => "model=ok "
  | _ => "bad-op"

def handle (words : List String) : Option String :=
  match words with
  | "mb" :: name :: rest =>
    let (ws, flag) := splitFlag rest
    match Member.ofName name, ws.mapM parseVal with
    | some m, some (recv :: args) => some (runMember m recv args flag)
    | _, _ => some "bad-op"
  | "setitem" :: rest =>
    let (ws, flag) := splitFlag rest
    match ws with
    | [rv, n, av] =>
      match parseVal rv, n.toNat?, parseVal av with
      | some recv, some k, some a => some (runSet recv k a flag)
      | _, _, _ => some "bad-op"
    | _ => some "bad-op"
  | "item" :: rest =>
    let (ws, flag) := splitFlag rest
    match ws with
    | [rv, n] =>
      match parseVal rv, n.toNat? with
      | some recv, some k => some (runItem recv k flag)
      | _, _ => some "bad-op"
    | _ => some "bad-op"
  | "bi" :: "tab" :: vs =>
    match vs.mapM parseVal with
    | some args => some (runTab args)
    | none => some "bad-op"
  | "bi" :: "tup" :: vs =>
    match vs.mapM parseVal with
    | some args => some (runTup args)
    | none => some "bad-op"
  | "mseq" :: rv :: steps =>
    match parseVal rv, parseSteps (steps.length + 1) steps with
    | some recv, some ops => some (";;".intercalate (runSeq ops recv []))
    | _, _ => some "bad-op"
  | ["forall", tv, dir, op] =>
    match parseVal tv with
    | some t => some (handleForall t dir op none)
    | none => some "bad-op"
  | ["forall", tv, dir, op, av] =>
    match parseVal tv, parseVal av with
    | some t, some a => some (handleForall t dir op (some a))
    | _, _ => some "bad-op"
  | _ => none

end BlocV.DrvC09
