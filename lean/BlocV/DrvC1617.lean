/-
  Driver commands of the C16 / C17 correspondence (`perm …`, `hops …`, `obj …`): I/O glue only. Imports Model, never
  the proofs. Line formats: NOTES-C16C17.md §4.
-/
import BlocV.Model.Plugin
import BlocV.Model.ObjProg

namespace BlocV.DrvC1617
open BlocV.Plugin

/-! ### C16: `perm <word>…` -/
namespace P
open Perm

def parseSimple (w : String) : Option Simple :=
  match w.splitOn "." with
  | ["c", m] => some (.ctor m)
  | ["t", m] => some (.typedDecl m)
  | ["in", n] => some (.importName n)
  | ["ip", p] => some (.importPath p)
  | ["call", f] => some (.call f)
  | ["tr", b] => some (.trace (b == "1"))
  | ["raise"] => some .raise
  | ["bad"] => some .bad
  | _ => none

/-- tops separated by `;`; a function is `f.<name>(<simple>,<simple>…)`; an include `inc.<file>` -/
def parseTop (w : String) : Option Top :=
  if w.startsWith "f." then
    match (w.drop 2).toString.splitOn "(" with
    | [name, rest] =>
      let inner := (rest.dropEnd 1).toString
      let parts := if inner.isEmpty then [] else inner.splitOn ","
      match parts.mapM parseSimple with
      | some body => some (.func name body)
      | none => none
    | _ => none
  else if w.startsWith "inc." then some (.incl (w.drop 4).toString)
  else (parseSimple w).map .simple

def parseProg (w : String) : Option (List Top) :=
  if w == "-" then some [] else (w.splitOn ";").mapM parseTop

def modules : List String := ["vmod", "vmod2", "csv"]

/-- the loader of the test bed: the three modules by exact name; paths `P_<name>` -/
def mkExt (files : List (String × List Top)) : Ext :=
  { byName := fun n => if modules.contains n then some ⟨n, n⟩ else none
    byPath := fun p => if p.startsWith "P_" && modules.contains (p.drop 2).toString then some ⟨(p.drop 2).toString, (p.drop 2).toString⟩ else none
    source := fun f => (files.find? (·.1 == f)).map (·.2) }

def errName : PErr → String
  | .restrictedCtor => "restricted-ctor"
  | .restrictedPath => "restricted-path"
  | .restrictedInclude => "restricted-include"
  | .importFailed => "import-failed"
  | .undefinedSymbol => "undefined"
  | .includeFailed => "include-failed"
  | .tooNested => "too-nested"
  | .syntaxError => "syntax"

def nat (s : String) : Nat := s.toNat?.getD 0

/-- one word = one host operation; answers its outcome -/
def stepWord (ext : Ext) (w : World) (word : String) : World × String :=
  match word.splitOn ":" with
  | ["unban", n] => (hostStep ext w (.unban n), "ok")
  | ["clear"] => (hostStep ext w .clearPerms, "ok")
  | ["new", t] => (hostStep ext w (.newCtx (t == "t")), "ok")
  | ["trust", k, b] => (hostStep ext w (.setTrusted (nat k) (b == "1")), "ok")
  | ["settrace", k, b] => (hostStep ext w (.setTrace (nat k) (b == "1")), "ok")
  | ["istrace", k] => (w, "tc=" ++ (match getCtx w (nat k) with | some c => (if c.trace then "1" else "0") | none => "?"))
  | ["clone", k] => (hostStep ext w (.clone (nat k)), "ok")
  | ["free", k] => (hostStep ext w (.free (nat k)), "ok")
  | ["purge", k] => (hostStep ext w (.purge (nat k)), "ok")
  | ["freex", x] => (hostStep ext w (.freeExe (nat x)), "ok")
  | ["compile", k, prog] =>
    match parseProg prog with
    | none => (w, "bad-prog")
    | some p =>
      let w' := hostStep ext w (.compile (nat k) p)
      (w', match w'.lastErr with | none => "ok" | some e => "perr:" ++ errName e)
  | ["run", x, k] =>
    let before := match getCtx w (nat k) with | some c => c.objs.length | none => 0
    let w' := hostStep ext w (.run (nat x) (nat k))
    let created := match getCtx w' (nat k) with | some c => c.objs.drop before | none => []
    let bad := created.any fun o => !o.t.ctxTrusted && !o.t.granted
    let ran := (getExe w (nat x)).isSome && (getCtx w (nat k)).isSome
    (w', "run=" ++ ",".intercalate (created.map (·.m)) ++ (if bad then "!spec" else "") ++
      (if ran && w'.lastRaised then "!rerr" else ""))
  | ["loaded", n] => (w, "ld=" ++ (if w.proc.isLoaded n then "1" else "0"))
  | ["banned", n] => (w, "bn=" ++ (if w.proc.isGranted n then "0" else "1"))
  | ["istrusted", k] => (w, "t=" ++ (match getCtx w (nat k) with | some c => (if c.trusted then "1" else "0") | none => "?"))
  | _ => (w, "bad-op")

def handle (words : List String) : String :=
  let fileWords := words.filter (·.startsWith "file:")
  let ops := words.filter (fun w => !w.startsWith "file:")
  let files := fileWords.filterMap fun w =>
    match (w.drop 5).toString.splitOn "=" with
    | [name, prog] => (parseProg prog).map fun p => (name, p)
    | _ => none
  let ext := mkExt files
  let (_, outs) := ops.foldl (fun (acc : World × List String) word =>
    let (w', o) := stepWord ext acc.1 word
    (w', acc.2 ++ [o])) (World.init, [])
  "model=" ++ "|".intercalate outs

end P

/-! ### C17, handle level: `hops <script>` -/
namespace Hh
open H

def num (cs : String) : Nat := cs.toNat?.getD 0

def parseOp (t : String) : Option HOp :=
  if t == "n" then some .new else
  let k := t.take 1 |>.toString
  let rest := (t.drop 1).toString
  match rest.splitOn "." with
  | [i] =>
    if k == "c" then some (.copy (num i)) else if k == "m" then some (.move (num i))
    else if k == "d" then some (.dtor (num i)) else none
  | [i, j] =>
    if k == "a" then some (.assign (num i) (num j)) else if k == "s" then some (.swap (num i) (num j))
    else if k == "x" then some (.swapMove (num i) (num j)) else none
  | _ => none

def evStr : Ev → String
  | .create o => "C" ++ toString (o + 1)
  | .destroy o => "D" ++ toString (o + 1)

def errStr : HErr → String
  | .nullDeref => "hazard nullDeref"
  | .dangling => "hazard oob"
  | .illFormed => "unmodelled"

def handle (script : String) : String :=
  match (script.splitOn ",").filter (· ≠ "") |>.mapM parseOp with
  | none => "bad-op"
  | some ops =>
    match run HState.init ops with
    | .ok s => "model=ok log=" ++ ",".intercalate (s.log.map evStr) ++
        " live=" ++ toString ((List.range s.nobj).filter fun o => !s.freed o).length
    | .error e => "model=" ++ errStr e ++ (if e == .nullDeref then " kf=C17.moved_from_handle_null_deref" else "")

end Hh

/-! ### C17, program level: `obj <word>…` -/
namespace O
open ObjProg S H

def nat (s : String) : Nat := s.toNat?.getD 0
def int (s : String) : Int := s.toInt?.getD 0

/-- instructions until the matching `]` (or the end); tokens are consumed -/
def parseBlock : Nat → List String → Option (List Instr × List String)
  | 0, _ => none
  | _ + 1, [] => some ([], [])
  | fuel + 1, tok :: rest =>
    if tok == "]" then some ([], rest) else
    let one (i : Instr) (rest : List String) : Option (List Instr × List String) :=
      match parseBlock fuel rest with
      | some (is, r) => some (i :: is, r)
      | none => none
    match tok.splitOn "." with
    | ["new", x, k] => one (.new x (int k)) rest
    | ["cp", x, y] => one (.cp x y) rest
    | ["nul", x] => one (.nul x) rest
    | ["self", x, y] => one (.self x y) rest
    | ["spawn", x, y, k] => one (.spawn x y (int k)) rest
    | ["id", y] => one (.id y) rest
    | ["peer", y, z] => one (.peer y z) rest
    | ["tnew", t, n, x] => one (.tnew t (nat n) x) rest
    | ["tput", t, i, x] => one (.tput t (nat i) x) rest
    | ["tat", x, t, i] => one (.tat x t (nat i)) rest
    | ["tmp", k] => one (.tmp (int k)) rest
    | ["tdel", t, i] => one (.tdel t (nat i)) rest
    | ["tins", t, i, x] => one (.tins t (nat i) x) rest
    | ["tcat", t, x] => one (.tcat t x) rest
    | ["fall", t] => one (.fall t) rest
    | ["mthrow", k] => one (.mthrow (int k)) rest
    | ["newf", x, b] => one (.newf x (b == "1")) rest
    | ["ret", x] => one (.ret x) rest
    | ["stop"] => one .stop rest
    | "call" :: x :: f :: args => one (.call x f args) rest
    | "callt" :: f :: more =>
      match more.reverse with
      | y :: revArgs => one (.callThrow f revArgs.reverse y) rest
      | [] => none
    | ["try"] =>
      match rest with
      | "[" :: r1 =>
        match parseBlock fuel r1 with
        | some (body, "[" :: r2) =>
          match parseBlock fuel r2 with
          | some (handler, r3) => one (.try_ body handler) r3
          | none => none
        | _ => none
      | _ => none
    | ["loop", n] =>
      match rest with
      | "[" :: r1 =>
        match parseBlock fuel r1 with
        | some (body, r2) => one (.loop (nat n) body) r2
        | none => none
      | _ => none
    | _ => none

def parseInstrs (s : String) : Option (List Instr) :=
  let toks := (s.splitOn ",").filter (· ≠ "")
  match parseBlock (toks.length + 2) toks with
  | some (is, []) => some is
  | _ => none

structure Host where
  st : St
  frames : List (Nat × Frame)      -- probe slot ↦ frame
  segs : List String               -- finished event segments
  outs : List String
  returned : List (Nat × V) := []  -- probe slot ↦ the value a `return` left in that context (never taken by the host)

def frameOf (h : Host) (k : Nat) : Option Frame := (h.frames.find? (·.1 == k)).map (·.2)

def setFrame (h : Host) (k : Nat) (f : Frame) : Host :=
  { h with frames := (h.frames.filter (·.1 != k)) ++ [(k, f)] }

def closeSeg (h : Host) (out : String) : Host :=
  { h with segs := h.segs ++ ["~".intercalate h.st.evs], outs := h.outs ++ [out], st := { h.st with evs := [] } }

def hazOut (e : HErr) : String := match e with
  | .nullDeref => "hazard nullDeref" | .dangling => "hazard oob" | .illFormed => "unmodelled"

def execFuel : Nat := 4000

def hostWord (funcs : List Func) (h : Host) (word : String) : Host :=
  match word.splitOn ":" with
  | ["new", k] =>
    match sop h.st .newCtx with
    | .ok st' => closeSeg (setFrame { h with st := st' } (nat k) ⟨h.st.s.ctxs.length, []⟩) "ok"
    | .error e => closeSeg h (hazOut e)
  | ["prog", k, toks] =>
    match frameOf h (nat k), parseInstrs toks with
    | some fr, some is =>
      match execList funcs fr.cid execFuel is h.st fr with
      | (st', fr', .ok) => closeSeg (setFrame { h with st := st' } (nat k) fr') "ok"
      | (st', fr', .ret _) => closeSeg (setFrame { h with st := st' } (nat k) fr') "ok"
      | (st', fr', .err _) => closeSeg (setFrame { h with st := st' } (nat k) fr') "rerr"
      | (st', fr', .haz e) => closeSeg (setFrame { h with st := st' } (nat k) fr') (hazOut e)
    | _, _ => closeSeg h "bad-op"
  | ["retprog", k, toks] =>
    -- a host that runs a program and does not take the returned value (probe op `retrun`)
    match frameOf h (nat k), parseInstrs toks with
    | some fr, some is =>
      match execList funcs fr.cid execFuel is h.st fr with
      | (st', fr', .ret v) =>
        let old := (h.returned.find? (·.1 == nat k)).map (·.2)
        match saveReturned st' old v with
        | .ok (st2, some v2) =>
          closeSeg (setFrame { h with st := st2, returned := (h.returned.filter (·.1 != nat k)) ++ [(nat k, v2)] } (nat k) fr') "ret"
        | .ok (st2, none) => closeSeg (setFrame { h with st := st2 } (nat k) fr') "ret"
        | .error e => closeSeg h (hazOut e)
      | (st', fr', .ok) => closeSeg (setFrame { h with st := st' } (nat k) fr') "ok"
      | (st', fr', .err _) => closeSeg (setFrame { h with st := st' } (nat k) fr') "rerr"
      | (st', fr', .haz e) => closeSeg (setFrame { h with st := st' } (nat k) fr') (hazOut e)
    | _, _ => closeSeg h "bad-op"
  | ["dropret", k] =>
    let old := (h.returned.find? (·.1 == nat k)).map (·.2)
    match dropReturned h.st old with
    | .ok (st2, _) => closeSeg { h with st := st2, returned := h.returned.filter (·.1 != nat k) } (if old.isSome then "ok" else "none")
    | .error e => closeSeg h (hazOut e)
  | ["clone", k, j] =>
    match frameOf h (nat k) with
    | some fr =>
      match sop h.st .newCtx with
      | .error e => closeSeg h (hazOut e)
      | .ok st1 =>
        let c := h.st.s.ctxs.length
        let r := fr.vars.foldlM (m := Except HErr) (fun (acc : St × List (String × V)) e =>
          match cloneV acc.1 e.2 c with
          | .ok (st', v) => Except.ok (st', acc.2 ++ [(e.1, v)])
          | .error er => Except.error er) (st1, [])
        match r with
        | .ok (st2, vars) => closeSeg (setFrame { h with st := st2 } (nat j) ⟨c, vars⟩) "ok"
        | .error e => closeSeg h (hazOut e)
    | none => closeSeg h "bad-op"
  | [op, k] =>
    if op == "free" || op == "purge" then
      match frameOf h (nat k) with
      | some fr =>
        match sop h.st (.release fr.cid) with
        | .ok st' => closeSeg { h with st := st', frames := h.frames.filter (·.1 != nat k), returned := h.returned.filter (·.1 != nat k) } "ok"
        | .error e => closeSeg h (hazOut e)
      | none => closeSeg h "ok"
    else if op == "pwm" then closeSeg h "ok"
    else closeSeg h "bad-op"
  | _ => closeSeg h "bad-op"

def parseFunc (w : String) : Option Func :=
  match w.splitOn ":" with
  | ["func", name, n, body] => (parseInstrs body).map fun b => ⟨name, nat n, b⟩
  | _ => none

def handle (words : List String) : String :=
  let funcs := (words.filter (·.startsWith "func:")).filterMap parseFunc
  let ops := words.filter (fun w => !w.startsWith "func:")
  let h0 : Host := ⟨{ s := SState.init, evs := [], cache := [] }, [], [], [], []⟩
  let h := ops.foldl (hostWord funcs) h0
  let s := h.st.s.h
  let leaked := (List.range s.nobj).filter fun o => s.destroyed o == 0
  "model=" ++ "|".intercalate h.outs ++ " ev=" ++ "/".intercalate h.segs ++
    " leak=" ++ ",".intercalate (leaked.map objName) ++
    " inv=" ++ ",".intercalate (h.st.involved.map fun p => objName p.1 ++ "@" ++ toString p.2)

end O

/-! ### C17, module level: `meth <word>…` (part M of the model) -/
namespace Mm
open H S M

def nat (s : String) : Nat := s.toNat?.getD 0

/-- an argument `O:@<slot>` names the object the handle in that slot refers to when the call is made -/
def resolveArg (s : MState) (a : String) : String :=
  if a.startsWith "O:@" then
    match s.s.h.slots[nat (a.drop 3).toString]? with
    | some (.ref o) => "O:#" ++ toString (o + 1)
    | _ => "O:?"
  else a

def parseOp (s : MState) (w : String) : Option MOp :=
  match w.splitOn "." with
  | ["nc"] => some (.store .newCtx)
  | ["cc", k] => some (.store (.childCtx (nat k)))
  | ["c", k, m] => some (.construct (nat k) (nat m))
  | ["cf", k, m] => some (.constructFail (nat k) (nat m))
  | ["cl", i, k] => some (.store (.clone (nat i) (nat k)))
  | ["clr", i] => some (.store (.clear (nat i)))
  | ["gv", i, k] => some (.store (.give (nat i) (nat k)))
  | ["rel", k] => some (.store (.release (nat k)))
  | ["dei"] => some .deinit
  | "m" :: i :: m :: name :: args => some (.method (nat i) (nat m) name (args.map (resolveArg s)))
  | _ => none

def handle (words : List String) : String :=
  let r := words.foldl (fun (acc : Except String MState) w =>
    match acc with
    | .error e => .error e
    | .ok s =>
      match parseOp s w with
      | none => .error "bad-op"
      | some op =>
        match mstep s op with
        | .ok s' => .ok s'
        | .error e => .error (Hh.errStr e)) (.ok MState.init)
  match r with
  | .error e => "model=" ++ e
  | .ok s =>
    "model=ok calls=" ++ ",".intercalate (s.calls.map fun c =>
        toString c.o ++ "/" ++ toString c.m ++ "/" ++ toString c.pos ++ "/" ++ c.name ++ "/" ++ ";".intercalate c.args) ++
      " mods=" ++ ",".intercalate (s.modOf.map toString) ++
      " failed=" ++ toString s.failed ++ " refused=" ++ toString s.refused ++
      " log=" ++ ",".intercalate (s.s.h.log.map Hh.evStr)

end Mm

def handle (words : List String) : Option String :=
  match words with
  | "perm" :: rest => some (P.handle rest)
  | ["hops", script] => some (Hh.handle script)
  | ["hops"] => some (Hh.handle "")
  | "obj" :: rest => some (O.handle rest)
  | "meth" :: rest => some (Mm.handle rest)
  | _ => none

end BlocV.DrvC1617
