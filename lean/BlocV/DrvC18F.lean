/-
  Driver commands of the C18 correspondence, file and sqlite3 halves (`fil …`, `sql …`): I/O glue only.
  Imports the models, never the proofs. Line formats: see vlib/props/c18f.py (which builds the same case for the
  real modules through harness/blocprobe) and notes/NOTES-C18F.md.

    fil <maxOff> <pathhex> <init> <op> <op> …      init: hex | `.` (empty file) | `-` (no file)
        -> model=<res>;<res>;… final=<hex|.|-> [kf=<id>]
    sql <emptyBuf:0|1> <op> <op> …
        -> model=<res>;<res>;… db=<rows|.|-> [kf=<id>]
-/
import BlocV.Model.Mod.File
import BlocV.Model.Mod.FileAbs
import BlocV.Model.Mod.Sqlite
import BlocV.Model.Mod.SqliteAbs

namespace BlocV.DrvC18F
open BlocV.Mod

def hexDigit (n : Nat) : Char := if n < 10 then Char.ofNat (48 + n) else Char.ofNat (87 + n)

def hexVal (c : Char) : Nat :=
  if c.isDigit then c.toNat - 48 else if 'a' ≤ c ∧ c ≤ 'f' then c.toNat - 87 else c.toNat - 55

def bytesOfHexChars : List Char → List UInt8
  | a :: b :: rest => UInt8.ofNat (hexVal a * 16 + hexVal b) :: bytesOfHexChars rest
  | _ => []

def hexB (b : List UInt8) : String :=
  String.ofList (b.flatMap fun x => [hexDigit (x.toNat / 16), hexDigit (x.toNat % 16)])

def unhex (s : String) : List UInt8 := bytesOfHexChars s.toList

/-- `.` = empty, otherwise hex -/
def showDot (b : List UInt8) : String := if b.isEmpty then "." else hexB b

def parseDot (s : String) : List UInt8 := if s = "." then [] else unhex s

def hexNatVal (s : String) : Nat := s.toList.foldl (fun a c => a * 16 + hexVal c) 0

def hex16 (n : Nat) : String :=
  let d := Nat.toDigits 16 n
  String.ofList (List.replicate (16 - d.length) '0' ++ d)

def b01 (b : Bool) : String := if b then "1" else "0"

/-! ### fil -/

def KF_SEQ := "C18.file_update_without_reposition"

/-- `null`, `.` or hex; `@` = the path of the case -/
def optBytes (path : List UInt8) (s : String) : Option (List UInt8) :=
  if s = "null" then none else if s = "@" then some path else some (parseDot s)

def optI64 (s : String) : Option (Option Int64) :=
  if s = "null" then some none else
  match s.toInt? with
  | some i => some (some (Int64.ofInt i))
  | none => none

def parseFileOp (path : List UInt8) (tok : String) : Option File.Op :=
  match tok.splitOn ":" with
  | ["n0"] => some .ctor0
  | ["n", p, m] => some (.ctor (optBytes path p) (optBytes path m))
  | ["o", p, m] => some (.open (optBytes path p) (optBytes path m))
  | ["c"] => some .close
  | ["ws", d] => some (.writeS (optBytes path d))
  | ["wb", d] => some (.writeB (optBytes path d))
  | ["rs", n] => (optI64 n).map .readS
  | ["rb", n] => (optI64 n).map .readB
  | ["l"] => some .readln
  | ["f"] => some .flush
  | ["ss", n] => (optI64 n).map .seekSet
  | ["sc", n] => (optI64 n).map .seekCur
  | ["se", n] => (optI64 n).map .seekEnd
  | ["p"] => some .position
  | ["io"] => some .isOpen
  | ["m"] => some .mode
  | ["fn"] => some .filename
  | ["fd"] => some .fdirname
  | ["fb"] => some .fbasename
  | ["fs"] => some .fstat
  | ["st", p] => some (.stat (optBytes path p))
  | ["di", p] => some (.dir (optBytes path p))
  | ["sep"] => some .separator
  | ["dn", p] => some (.dirname (optBytes path p))
  | ["bn", p] => some (.basename (optBytes path p))
  | _ => none

def showFileRes (op : File.Op) : File.Res → String
  | .int i => "I:" ++ toString i
  | .bool b => "B:" ++ b01 b
  | .str s => "S:" ++ hexB s
  | .rd n d => "I:" ++ toString n ++ "," ++ (match op with | .readB _ => "R:" | _ => "S:") ++ hexB d
  | .ln ok line => "B:" ++ b01 ok ++ (match line with | some l => ",S:" ++ hexB l | none => "")
  | .err => "E"
  | .hazard .foreignException => "H:foreignException"
  | .hazard .nullArg => "H:nullArg"
  | .unmodelled => "U"
  | .undefinedSeq => "U!"

/-- runs the ops (stopping after a hazard, which no call produces any more: `H:` would be reported as a violation
    by the check); returns results (reversed), final world, known-finding tag, and the answers of the SPECIFICATION
    (`Spec.File.sstep` on a stream state of its own, started from the abstraction of the handle after every successful
    open / constructor; `*` = not a stream call, or no open stream, or after a `U!`) -/
def runFile : File.World → Option Spec.File.SStream → List File.Op → List String → List String → Option String →
    List String × List String × File.World × Option String
  | w, _, [], acc, sacc, kf => (acc, sacc, w, kf)
  | w, ss, op :: ops, acc, sacc, kf =>
    let (w', r) := File.step w op
    match r with
    | .hazard _ => (showFileRes op r :: acc, "*" :: sacc, w', kf)
    | .undefinedSeq => (showFileRes op r :: acc, "*" :: sacc, w', some KF_SEQ)
    | .unmodelled =>
      match op with
      -- an open / constructor outside the model (mode with `,` or the mmap flag `m`): the real handle is in a state the
      -- model does not know; nothing after this point is compared (`U!` without a finding tag)
      | .open _ _ | .ctor _ _ => ("U!" :: acc, "*" :: sacc, w', kf)
      | _ => runFile w' ss ops (showFileRes op r :: acc) ("*" :: sacc) kf
    | _ =>
      -- the specification's side
      let (ss', stok) :=
        match op with
        | .open _ _ | .ctor _ _ | .ctor0 | .close =>
          ((match w'.h.file with | some f => some (File.absS w' f) | none => none), "*")
        | _ =>
          match ss with
          | some s =>
            if File.isStreamOp op then
              let (s', sr) := Spec.File.sstep w.fs.maxOff s (File.toS op)
              (some s', showFileRes op (File.resOf sr))
            else (ss, "*")
          | none => (none, "*")
      runFile w' ss' ops (showFileRes op r :: acc) (stok :: sacc) kf

def handleFil (maxOff pathHex init : String) (toks : List String) : String :=
  let path := unhex pathHex
  let get : File.Path → Option File.Bytes :=
    if init = "-" then fun _ => none else fun q => if q = File.cstr path then some (parseDot init) else none
  let w : File.World := { fs := { get := get, maxOff := maxOff.toNat! }, h := {} }
  match toks.mapM (parseFileOp path) with
  | none => "bad-op"
  | some ops =>
    let (acc, sacc, w', kf) := runFile w none ops [] [] none
    let fin := match w'.content path with | none => "-" | some c => showDot c
    "model=" ++ ";".intercalate acc.reverse ++ " final=" ++ fin ++ " spec=" ++ ";".intercalate sacc.reverse ++
      (match kf with | some k => " kf=" ++ k | none => "")

/-! ### sql -/

def KF_BOOL := "C18.sqlite_bool_as_integer"
def KF_NAN := "C18.sqlite_nan_as_null"
def KF_EMPTY_BYTES := "C18.sqlite_empty_bytes_as_null"
def KF_STALE := "C18.sqlite_unbound_item_keeps_old_binding"

def tyLetter : Sqlite.BTy → String
  | .noType => "?" | .boolean => "b" | .integer => "i" | .decimal => "d" | .string => "s" | .bytes => "r" | .object => "o"

def letterTy (s : String) : Sqlite.BTy :=
  if s = "b" then .boolean else if s = "i" then .integer else if s = "d" then .decimal else if s = "s" then .string
  else if s = "r" then .bytes else if s = "o" then .object else .noType

def showBVal : Sqlite.BVal → String
  | .null t => "N:" ++ tyLetter t ++ "0"
  | .bool b => "B:" ++ b01 b
  | .int i => "I:" ++ toString i.toInt
  | .dec d => "D:" ++ hex16 d.toNat
  | .str s => "S:" ++ hexB s
  | .bytes b => "R:" ++ hexB b
  | .obj => "O"

def parseBVal (s : String) : Option Sqlite.BVal :=
  if s = "O" then some .obj else
  match s.splitOn ":" with
  | ["N", t] => some (.null (letterTy (t.take 1).toString))
  | ["B", b] => some (.bool (b == "1"))
  | ["I", i] => i.toInt?.map fun x => .int (Int64.ofInt x)
  | ["D", h] => some (.dec (UInt64.ofNat (hexNatVal h)))
  | ["S", h] => some (.str (unhex h))
  | ["R", h] => some (.bytes (unhex h))
  | _ => none

/-- `null` = null tuple, `-` = empty tuple, else values joined by `,` -/
def parseArgs (s : String) : Option (Option (List Sqlite.BVal)) :=
  if s = "null" then some none else if s = "-" then some (some []) else
  ((s.splitOn ",").mapM parseBVal).map some

def parseSqlOp (tok : String) : Option Sqlite.Op :=
  match tok.splitOn "=" with
  | ["n0"] => some .ctor0
  | ["op"] => some .open
  | ["cl"] => some .close
  | ["io"] => some .isOpen
  | ["em"] => some .errmsg
  | ["cr"] => some .create
  | ["cn"] => some .createNN
  | ["xn"] => some .execNull
  | ["in", a] => (parseArgs a).map .insert
  | ["qa"] => some .queryAll
  | ["qp", a] => (parseArgs a).map .queryParam
  | ["pi"] => some (.prepare (some .insert))
  | ["ps"] => some (.prepare (some .select))
  | ["pn"] => some (.prepare none)
  | ["pb"] => some .prepareBad
  | ["bi", a] => (parseArgs a).map (Sqlite.Op.bind · false)
  | ["bt", a] => (parseArgs a).map (Sqlite.Op.bind · true)
  | ["ex"] => some .execute
  | ["hd"] => some .header
  | ["fe"] => some .fetch
  | ["fi"] => some .finalize
  | ["de"] => some .destroy
  | _ => none

def showRow (r : Sqlite.Row) : String := showBVal r.1 ++ "/S:" ++ hexB r.2

def showSqlRes : Sqlite.Res → String
  | .bool b => "B:" ++ b01 b
  | .table rows d => "T:" ++ tyLetter d ++ ":" ++ "+".intercalate (rows.map showRow)
  | .nullTable => "N"
  | .row r => "W:" ++ showRow r
  | .header a b => "HD:" ++ hexB a ++ "/" ++ hexB b
  | .err => "E"
  | .sqlErr => "Q"
  | .hazard .useAfterFree => "H:useAfterFree"
  | .unmodelled => "U"

def showSVal : Sqlite.SVal → String
  | .null => "n"
  | .integer i => "i" ++ toString i.toInt
  | .real d => "r" ++ hex16 d.toNat
  | .text t => "t" ++ hexB t
  | .blob b => "b" ++ hexB b

/-- the known-finding region a bound value falls into -/
def kfOfVal (emptyBuf : Bool) : Sqlite.BVal → Option String
  | .bool _ => some KF_BOOL
  | .dec d => if Sqlite.isNaN d then some KF_NAN else none
  | .bytes b => if b.isEmpty && !emptyBuf then some KF_EMPTY_BYTES else none
  | _ => none

def kfOfOp (emptyBuf : Bool) : Sqlite.Op → Option String
  | .insert (some (v :: _)) => kfOfVal emptyBuf v
  | .queryParam (some (v :: _)) => kfOfVal emptyBuf v
  | .bind (some (.obj :: _)) _ => some KF_STALE
  | .bind (some (v :: _)) _ => kfOfVal emptyBuf v
  | _ => none

def runSql : Sqlite.World → List Sqlite.Op → List String → Option String → List String × Sqlite.World × Option String
  | w, [], acc, kf => (acc, w, kf)
  | w, op :: ops, acc, kf =>
    let kf1 := if kf.isNone then kfOfOp w.emptyBuf op else kf
    let (w', r) := Sqlite.step w op
    match r with
    | .hazard _ => (showSqlRes r :: acc, w', kf)
    | _ => runSql w' ops (showSqlRes r :: acc) kf1

/-! `spec=` of `sql`: when the line starts `op (cr|cn) pi`, the calls that follow — as long as they are calls of a client
    holding the prepared INSERT (`SqliteAbs.InsCall`) — are ALSO run on the specification `Spec.Sqlite.run` (one parameter
    slot, execute stores its current content): `spec=<a>,<a>,…/<rows>` with `T` = stored a row, `R` = refused, `-` = not an
    executing call; `<rows>` = what the specification says the table holds after them. -/

def parseInsCall (tok : String) : Option SqliteAbs.InsCall :=
  match tok.splitOn "=" with
  | ["bi", "null"] => some (.bindNull false)
  | ["bt", "null"] => some (.bindNull true)
  | ["bi", a] => match parseArgs a with | some (some l) => some (.bind l false) | _ => none
  | ["bt", a] => match parseArgs a with | some (some l) => some (.bind l true) | _ => none
  | ["ex"] => some .execute
  | ["in", a] => match parseArgs a with | some (some l) => some (.exec l) | _ => none
  | ["fe"] => some .fetch
  | ["hd"] => some .header
  | ["io"] => some .isOpen
  | ["qa"] => some .queryAll
  | ["qp", a] => (parseArgs a).map .queryParam
  | _ => none

def insPrefix : List String → List SqliteAbs.InsCall
  | [] => []
  | t :: ts => match parseInsCall t with
    | some c => c :: insPrefix ts
    | none => []

def specOfSql (eb : Bool) (toks : List String) : String :=
  match toks with
  | "op" :: c :: "pi" :: rest =>
    if c = "cr" ∨ c = "cn" then
      let calls := insPrefix rest
      let r := BlocV.Spec.Sqlite.run (SqliteAbs.okNN (c == "cn")) ⟨Sqlite.SVal.null, []⟩ (calls.map (·.toCall eb))
      let ans := r.2.map fun a => match a with | some true => "T" | some false => "R" | none => "-"
      " spec=" ++ ",".intercalate ans ++ "/" ++ (if r.1.rows.isEmpty then "." else "+".intercalate (r.1.rows.map showSVal))
    else ""
  | _ => ""

def handleSql (eb : String) (toks : List String) : String :=
  match toks.mapM parseSqlOp with
  | none => "bad-op"
  | some ops =>
    let (acc, w', kf) := runSql { emptyBuf := eb == "1" } ops [] none
    let db := match w'.table with
      | none => "-"
      | some [] => "."
      | some rows => "+".intercalate (rows.map showSVal)
    "model=" ++ ";".intercalate acc.reverse ++ " db=" ++ db ++ specOfSql (eb == "1") toks
      ++ (match kf with | some k => " kf=" ++ k | none => "")

def handle (words : List String) : Option String :=
  match words with
  | "fil" :: maxOff :: path :: init :: toks => some (handleFil maxOff path init toks)
  | "sql" :: eb :: toks => some (handleSql eb toks)
  | _ => none

end BlocV.DrvC18F
