/-
  Driver commands of the C18 correspondence (`csv …`, `u8 …`): I/O glue only. Imports Model and Spec,
  never the proofs. Line formats are described in harness/modprobe.cpp and NOTES-C18.md.
-/
import BlocV.Model.Mod.Csv
import BlocV.Model.Mod.CsvPlugin
import BlocV.Model.Mod.Utf8
import BlocV.Model.Mod.Utf8Case
import Std.Data.HashMap
import BlocV.Spec.Csv
import BlocV.Spec.Utf8

namespace BlocV.DrvC18
open BlocV.Mod

def hexDigit (n : Nat) : Char := if n < 10 then Char.ofNat (48 + n) else Char.ofNat (87 + n)

def hexVal (c : Char) : Nat :=
  if c.isDigit then c.toNat - 48 else if 'a' ≤ c ∧ c ≤ 'f' then c.toNat - 87 else c.toNat - 55

def bytesOfHexChars : List Char → List UInt8
  | a :: b :: rest => UInt8.ofNat (hexVal a * 16 + hexVal b) :: bytesOfHexChars rest
  | _ => []

/-- hex, or `.` for the empty byte string -/
def parseBytes (s : String) : List UInt8 := if s = "." then [] else bytesOfHexChars s.toList

def showBytes (b : List UInt8) : String :=
  if b.isEmpty then "." else String.ofList (b.flatMap fun x => [hexDigit (x.toNat / 16), hexDigit (x.toNat % 16)])

/-- `-` = no element; otherwise elements joined by `,` -/
def parseList (s : String) : List (List UInt8) :=
  if s = "-" then [] else (s.splitOn ",").map parseBytes

def showList (l : List (List UInt8)) : String :=
  if l.isEmpty then "-" else ",".intercalate (l.map showBytes)

def hexNat (n : Nat) : String := String.ofList (Nat.toDigits 16 n)

def parseInt (s : String) : Option (Option Int64) :=
  if s = "null" then some none else
  match s.toInt? with
  | some i => some (some (Int64.ofInt i))
  | none => none

def b01 (b : Bool) : String := if b then "1" else "0"

/-! ### csv -/

def psStr (ps : Csv.PState) : String := "err=" ++ b01 ps.error ++ " pos=" ++ toString ps.errorPos

def KF_NUL := "C18.utf8_nul_dropped"

/-- `lines`: the client loop (`deserialize`, then `deserialize_next` while it returns true). -/
def linesLoop (cfg : Csv.Cfg) : List (List UInt8) → Nat → Bool → Csv.Row → Csv.PState → Option (Nat × Bool × Csv.Row × Csv.PState) × Nat
  | [], used, ret, out, ps => (some (used, ret, out, ps), used)
  | l :: ls, used, ret, out, ps =>
    if ret then
      match Csv.deserializeNext cfg ps out l with
      | .done r o p => linesLoop cfg ls (used + 1) r o p
      | .hazardEmptyBack => (none, used)
    else (some (used, ret, out, ps), used)

/-- `feed`: first line through `deserialize`, every further line through `deserialize_next`. -/
def feedLoop (cfg : Csv.Cfg) : List (List UInt8) → String → Csv.Row → Csv.PState → String
  | [], rets, out, ps => "rets=" ++ rets ++ " " ++ psStr ps ++ " out=" ++ showList out
  | l :: ls, rets, out, ps =>
    match Csv.deserializeNext cfg ps out l with
    | .done r o p => feedLoop cfg ls (rets ++ b01 r) o p
    | .hazardEmptyBack => "rets=" ++ rets ++ " hazard=emptyback"

def csvCmd (cfg : Csv.Cfg) (op arg : String) : String :=
  match op with
  | "ser" => "model=ser=" ++ showBytes (Csv.serialize cfg (parseList arg))
  | "de" =>
    match Csv.deserialize cfg {} (parseBytes arg) with
    | .done r o p => "model=ret=" ++ b01 r ++ " " ++ psStr p ++ " out=" ++ showList o
    | .hazardEmptyBack => "model=hazard=emptyback"
  | "rt" =>
    let row := parseList arg
    let s := Csv.serialize cfg row
    let m := match Csv.deserialize cfg {} s with
      | .done r o p => "model=ser=" ++ showBytes s ++ " ret=" ++ b01 r ++ " " ++ psStr p ++ " out=" ++ showList o
      | .hazardEmptyBack => "model=hazard=emptyback"
    -- the domain of theorem csv_roundtrip
    if cfg.sep ≠ cfg.enc ∧ row ≠ [[]] then
      m ++ " spec=ser=" ++ showBytes s ++ " ret=0 err=0 pos=0 out=" ++ showList row
    else m
  | "lines" =>
    let row := parseList arg
    let s := Csv.serialize cfg row
    let ls := Spec.Csv.splitAfterLF s
    let k := ls.length
    let pre := "ser=" ++ showBytes s ++ " nlines=" ++ toString k
    let m := match ls with
      | [] => match Csv.deserialize cfg {} [] with
        | .done r o p => "model=" ++ pre ++ " used=0 ret=" ++ b01 r ++ " " ++ psStr p ++ " out=" ++ showList o
        | .hazardEmptyBack => "model=" ++ pre ++ " used=0 hazard=emptyback"
      | l :: rest => match Csv.deserialize cfg {} l with
        | .done r o p =>
          match linesLoop cfg rest 1 r o p with
          | (some (used, r, o, p), _) =>
            "model=" ++ pre ++ " used=" ++ toString used ++ " ret=" ++ b01 r ++ " " ++ psStr p ++ " out=" ++ showList o
          | (none, used) => "model=" ++ pre ++ " used=" ++ toString used ++ " hazard=emptyback"
        | .hazardEmptyBack => "model=" ++ pre ++ " used=0 hazard=emptyback"
    -- the domain of theorem csv_linewise
    if cfg.sep ≠ cfg.enc ∧ cfg.sep ≠ Csv.LF ∧ cfg.enc ≠ Csv.LF ∧ row ≠ [[]] then
      m ++ " spec=" ++ pre ++ " used=" ++ toString k ++ " ret=0 err=0 pos=0 out=" ++ showList row
    else m
  | "feed" | "feedraw" =>
    match parseList arg with
    | [] => "bad-op"
    | l :: ls =>
      match Csv.deserialize cfg {} l with
      | .done r o p => "model=" ++ feedLoop cfg ls (b01 r) o p
      | .hazardEmptyBack => "model=rets= hazard=emptyback"
  | _ => "bad-op"

/-! ### utf8 -/

def cpsStr (l : List Nat) : String := if l.isEmpty then "-" else ",".intercalate (l.map hexNat)

def stateStr (s : Utf8.UStr) : String :=
  "n=" ++ toString (Utf8.size s) ++ " raw=" ++ toString s.rawSize ++ " cps=" ++ cpsStr s.store ++ " s=" ++
    (match Utf8.toStdString s with
     | some b => showBytes b
     | none => "hazard-rawsize")

/-- What the independent decoder says the object should hold. -/
def specState (cps : List Nat) : String :=
  let enc := Spec.Utf8.encodeAll cps
  "n=" ++ toString cps.length ++ " raw=" ++ toString enc.length ++ " cps=" ++ cpsStr (cps.map Spec.Utf8.pack) ++
    " s=" ++ showBytes enc

def u8Cmd (op : String) (args : List String) : String :=
  match op, args with
  | "tableid", [] => "model=bad=0"
  | "dec", [h] =>
    let bytes := parseBytes h
    let m := "model=" ++ stateStr (Utf8.ofBytes bytes)
    match Spec.Utf8.decode bytes with
    | some cps =>
      -- valid UTF-8: the independent decoder is the oracle; U+0000 is the recorded finding
      m ++ " spec=" ++ specState cps ++ (if cps.contains 0 then " kf=" ++ KF_NUL else "")
    | none =>
      -- ill-formed: "discarded" made precise (Spec.Utf8.lenient), NULs dropped as the code does
      m ++ " spec=" ++ specState ((Spec.Utf8.lenient bytes).filter (· ≠ 0))
  | "at", [h, p] | "atraw", [h, p] =>
    match parseInt p with
    | none => "bad-op"
    | some a0 =>
      match Utf8.pluginAt (Utf8.ofBytes (parseBytes h)) a0 with
      | .ok v => "model=ok I:" ++ toString v
      | .invalidArgs => "model=rerr invalid"
      | .indexRange => "model=rerr range"
      | .hazardOob => "model=hazard oob"
  | "substr", [h, p, n] =>
    let s := Utf8.ofBytes (parseBytes h)
    let r := match parseInt p, (if n = "-" then none else parseInt n) with
      | some a0, none => some (Utf8.pluginSubstr1 s a0)
      | some a0, some a1 => some (Utf8.pluginSubstr2 s a0 a1)
      | none, _ => none
    match r with
    | some (.ok b) => "model=ok S:" ++ showBytes b
    | some .invalidArgs => "model=rerr invalid"
    | some .indexRange => "model=rerr range"
    | some .hazardOob => "model=hazard oob"
    | none => "bad-op"
  | "remove", [h, p, n] =>
    match parseInt p, parseInt n with
    | some a0, some a1 =>
      match Utf8.pluginRemove (Utf8.ofBytes (parseBytes h)) a0 a1 with
      | .ok (b, s) => "model=ok B:" ++ b01 b ++ " " ++ stateStr s
      | .invalidArgs => "model=rerr invalid"
      | .indexRange => "model=rerr range"
      | .hazardOob => "model=hazard oob"
    | _, _ => "bad-op"
  | "insert", [h, p, u] =>
    match parseInt p, parseInt u with
    | some a0, some a1 =>
      match Utf8.pluginInsert (Utf8.ofBytes (parseBytes h)) a0 a1 with
      | .ok (b, s) => "model=ok B:" ++ b01 b ++ " " ++ stateStr s
      | .invalidArgs => "model=rerr invalid"
      | .indexRange => "model=rerr range"
      | .hazardOob => "model=hazard oob"
    | _, _ => "bad-op"
  | "insertc", [h, p, h2] =>
    match parseInt p with
    | some a0 =>
      let o := if h2 = "null" then none else some (Utf8.ofBytes (parseBytes h2))
      match Utf8.pluginInsertC (Utf8.ofBytes (parseBytes h)) a0 o with
      | .ok (k, s) => "model=ok I:" ++ toString k ++ " " ++ stateStr s
      | .invalidArgs => "model=rerr invalid"
      | .indexRange => "model=rerr range"
      | .hazardOob => "model=hazard oob"
    | none => "bad-op"
  | _, _ => "bad-op"

/-! ### utf8: the plugin's method table on an object (`u8p`), run against the REAL plugin by vlib/props/c18f.py

    u8p <memLimit> <U: hex | . | null> <V: hex | .> <op> <op> …
        -> model=<res>,<count>,<rawsize>,<string hex>;…  [kf=<id>]      (a hazard token `H:<what>` ends the line)
    ops: em ct rw rv:<n> cl ap:<n> al:<hex|.|null> cc:<s|o|null> st at:<i> rm:<a>:<b> in:<a>:<b> ic:<a>:<s|o|null> s1:<a> s2:<a>:<b>
    (integers: decimal or `null`) -/

def parseWho (s : String) : Option (Option Utf8.Who) :=
  if s = "null" then some none else if s = "s" then some (some .self) else if s = "o" then some (some .other) else none

def parsePOp (tok : String) : Option Utf8.POp :=
  match tok.splitOn ":" with
  | ["em"] => some .empty
  | ["ct"] => some .count
  | ["rw"] => some .rawsize
  | ["rv", n] => (parseInt n).map .reserve
  | ["cl"] => some .clear
  | ["ap", n] => (parseInt n).map .append
  | ["al", h] => some (.appendL (if h = "null" then none else some (parseBytes h)))
  | ["cc", w] => (parseWho w).map .concat
  | ["st"] => some .string
  | ["at", i] => (parseInt i).map .at
  | ["rm", a, b] => match parseInt a, parseInt b with | some x, some y => some (.remove x y) | _, _ => none
  | ["in", a, b] => match parseInt a, parseInt b with | some x, some y => some (.insert x y) | _, _ => none
  | ["ic", a, w] => match parseInt a, parseWho w with | some x, some y => some (.insertC x y) | _, _ => none
  | ["s1", a] => (parseInt a).map .substr1
  | ["s2", a, b] => match parseInt a, parseInt b with | some x, some y => some (.substr2 x y) | _, _ => none
  | _ => none

def showPVal : Utf8.PVal → String
  | .bool b => "B:" ++ b01 b
  | .int n => "I:" ++ toString n
  | .str b => "S:" ++ showBytes b
  | .this => "T"
  | .invalidArgs => "Ei"
  | .indexRange => "Er"
  | .hazardOob => "H:oob"
  | .hazardOverrun => "H:overrun"
  | .outOfRange => "Eo"

def pStateStr (s : Utf8.UStr) : String :=
  toString (Utf8.size s) ++ "," ++ toString s.rawSize ++ "," ++
    (match Utf8.toStdString s with
     | some b => showBytes b
     | none => "H:overrun")

def runP (memLimit : Nat) (v : Utf8.UStr) : Utf8.UStr → List Utf8.POp → List String → Option String → List String × Option String
  | _, [], acc, kf => (acc, kf)
  | u, op :: ops, acc, kf =>
    let r := Utf8.pstep memLimit u v op
    if r.2.isHazard then (showPVal r.2 :: acc, kf)
    else runP memLimit v r.1 ops ((showPVal r.2 ++ "," ++ pStateStr r.1) :: acc) kf

def u8pCmd (mem uh vh : String) (toks : List String) : String :=
  let u := if uh = "null" then ({} : Utf8.UStr) else Utf8.ofBytes (parseBytes uh)
  let v := Utf8.ofBytes (parseBytes vh)
  match toks.mapM parsePOp with
  | none => "bad-op"
  | some ops =>
    let (acc, kf) := runP mem.toNat! v u ops [] none
    "model=" ++ ";".intercalate acc.reverse ++ (match kf with | some k => " kf=" ++ k | none => "")

/-! ### utf8: the case transformations and the transformation that stays installed (`u8t`), against the REAL plugin

    u8t <table> <U: hex | .> <op> <op> …
        table: `-` or entries `code:upper:lower:category:translate` (hex; `translate` = the bytes of the string packed big-endian) joined by `,` — the entries of the REAL character table
               (utf8helper_charmap.cpp, read by vlib/props/c18f.py) for the sequences the case can touch; a sequence that is
               not listed has no page
        ops: tu (toupper) | tl (tolower) | tc (capitalize) | tn (normalize) | tt (translit) | al:<hex|.|null> (append(string)) |
             ap:<int|null> (append(integer)) | cl (clear)
        -> model=<count>,<rawsize>,<string hex>;…
    (no `kf=`: the transformation that stayed installed after toupper() / tolower() — former finding
    C18.utf8_transform_sticky — is repaired; an append(string) after a transformation is an ordinary case) -/

def hexToNat (s : String) : Nat := s.toList.foldl (fun a c => a * 16 + hexVal c) 0

def parseEntries (s : String) : List (Nat × Nat × Nat × Nat × Nat) :=
  if s = "-" then [] else (s.splitOn ",").filterMap fun e =>
    match e.splitOn ":" with
    | [a, b, c, d, t] => some (hexToNat a, hexToNat b, hexToNat c, hexToNat d, hexToNat t)
    | [a, b, c, d] => some (hexToNat a, hexToNat b, hexToNat c, hexToNat d, hexToNat a)
    | _ => none

def parseCharMap (s : String) : Utf8.CharMapC × Utf8.CharMapT :=
  let entries := parseEntries s
  let hm : Std.HashMap Nat (Nat × Nat × Nat) := entries.foldl (fun m e => m.insert e.1 (e.2.1, e.2.2.1, e.2.2.2.1)) {}
  let ht : Std.HashMap Nat Nat := entries.foldl (fun m e => m.insert e.1 e.2.2.2.2) {}
  (fun u => hm[u]?, fun u => ht[u]?)

def parseTOp (tok : String) : Option Utf8.TOpC :=
  match tok.splitOn ":" with
  | ["tu"] => some (.base .toupper)
  | ["tl"] => some (.base .tolower)
  | ["tc"] => some .capitalize
  | ["tn"] => some .normalize
  | ["tt"] => some .translit
  | ["al", h] => some (.base (.appendL (if h = "null" then none else some (parseBytes h))))
  | ["ap", n] => (parseInt n).map fun x => .base (.append x)
  | ["cl"] => some (.base .clear)
  | _ => none

def runT (cm : Utf8.CharMapC × Utf8.CharMapT) : Utf8.TStr → List Utf8.TOpC → List String → List String
  | _, [], acc => acc
  | t, op :: ops, acc =>
    let t' := Utf8.tstepC cm.1 cm.2 t op
    runT cm t' ops (pStateStr t'.u :: acc)

def u8tCmd (tbl uh : String) (toks : List String) : String :=
  match toks.mapM parseTOp with
  | none => "bad-op"
  | some ops =>
    let acc := runT (parseCharMap tbl) { u := Utf8.ofBytes (parseBytes uh) } ops []
    "model=" ++ ";".intercalate acc.reverse

/-! ### csv: the plugin glue (`csvp`), run against the REAL plugin by vlib/props/c18f.py

    csvp <ctor> <table> <op> <op> …     ctor: d | f:<hex|.|null> | c:<int|null>:<int|null>
                                         table (the variable T): null | - (empty) | elements joined by `,` (`.` = "", `~` = null)
                                         ops: se | de:<hex|.|null> | dn:<hex|.|null> | ie | ep
        -> model=<ok|E>;<res>|<table>;…  [kf=<id>]     (a failed constructor or a hazard token `H:<what>` ends the line) -/

def parseBStr (s : String) : CsvPlugin.BStr := if s = "null" then none else some (parseBytes s)

def parseTable (s : String) : Option CsvPlugin.BTable :=
  if s = "null" then none else if s = "-" then some []
  else some ((s.splitOn ",").map fun e => if e = "~" then none else some (parseBytes e))

def showTable : Option CsvPlugin.BTable → String
  | none => "null"
  | some [] => "-"
  | some t => ",".intercalate (t.map fun e => match e with | none => "~" | some b => showBytes b)

def parseCtor (s : String) : Option CsvPlugin.Ctor :=
  match s.splitOn ":" with
  | ["d"] => some .default
  | ["f", h] => some (.fmt (parseBStr h))
  | ["c", a, b] => match parseInt a, parseInt b with | some x, some y => some (.codes x y) | _, _ => none
  | _ => none

def parseCsvOp (s : String) : Option CsvPlugin.Op :=
  match s.splitOn ":" with
  | ["se"] => some .serialize
  | ["de", h] => some (.deserialize (parseBStr h))
  | ["dn", h] => some (.deserializeNext (parseBStr h))
  | ["ie"] => some .inError
  | ["ep"] => some .errorPos
  | _ => none

def showCsvRes : CsvPlugin.Res → String
  | .bool b => "B:" ++ b01 b
  | .int n => "I:" ++ toString n
  | .str none => "N"
  | .str (some b) => "S:" ++ showBytes b
  | .err => "E"
  | .hazardEmptyBack => "H:emptyback"

def runCsvP : CsvPlugin.World → List CsvPlugin.Op → List String → Option String → List String × Option String
  | _, [], acc, kf => (acc, kf)
  | w, op :: ops, acc, kf =>
    let r := CsvPlugin.step w op
    if r.2.isHazard then
      (showCsvRes r.2 :: acc, kf)
    else runCsvP r.1 ops ((showCsvRes r.2 ++ "|" ++ showTable r.1.tbl) :: acc) kf

def csvpCmd (ctor tbl : String) (toks : List String) : String :=
  match parseCtor ctor, toks.mapM parseCsvOp with
  | some c, some ops =>
    match CsvPlugin.ctorCfg c with
    | none => "model=E"
    | some cfg =>
      let (acc, kf) := runCsvP { cfg := cfg, tbl := parseTable tbl } ops [] none
      "model=" ++ ";".intercalate ("ok" :: acc.reverse) ++ (match kf with | some k => " kf=" ++ k | none => "")
  | _, _ => "bad-op"

def handle (words : List String) : Option String :=
  match words with
  | "csv" :: s :: e :: op :: arg :: [] =>
    match parseBytes s, parseBytes e with
    | [sep], [enc] => some (csvCmd ⟨sep, enc⟩ op arg)
    | _, _ => some "bad-op"
  | "u8" :: op :: args => some (u8Cmd op args)
  | "u8p" :: mem :: uh :: vh :: toks => some (u8pCmd mem uh vh toks)
  | "csvp" :: ctor :: tbl :: toks => some (csvpCmd ctor tbl toks)
  | "u8t" :: tbl :: uh :: toks => some (u8tCmd tbl uh toks)
  | _ => none

end BlocV.DrvC18
