/-
  C17, program level: a small language of object-handling statements, executed on top of the store-level model
  (Model/Plugin.lean, part S). Every copy of a value is `S.clone`, every overwritten / dropped value is `S.clear`,
  a constructor call is `S.construct`, passing an rvalue is `S.give`; so the destroy events of a run are exactly those
  the handle model emits. Expression temporaries are released at the end of their statement and the locals of a
  function when it returns — the EARLIEST moment the library may release them (the library keeps temporaries in a
  pool until the slot is reused, and locals in a cached runtime context until the next call or the release of the
  root context). The model's destroy point is therefore a LOWER bound for the library's, the release of the contexts
  involved the upper bound; constructor and method events, with their arguments, are exact.

  A call whose later argument raises (`callThrow`) is modelled as `FunctorManager::createEnv` does it: the runtime
  context — taken from the function's cache (then its slots were reset first, which releases what they still held) or
  newly created — goes back to the FRONT of the cache, and the parameter values already bound STAY in its slots
  (`St.held`). They are released when that context is recycled by the next call of the function under the same root
  (before the new parameters are bound), or when the root context is released (`S.release` destructs every handle
  owned by a context cached under the root). For these objects the model's destroy point is exact.

  Rendering of each instruction as BLOC source: vlib/props/c17.py (`render`).
-/
import BlocV.Model.Plugin

namespace BlocV.ObjProg
open BlocV.Plugin BlocV.Plugin.H BlocV.Plugin.S

inductive Instr
  | new (x : String) (k : Int)                 -- X = vmod(k);
  | cp (x y : String)                          -- X = Y;
  | nul (x : String)                           -- X = ZN;           (ZN : vmod, never assigned: a typed null)
  | self (x y : String)                        -- X = Y.self();
  | spawn (x y : String) (k : Int)             -- X = Y.spawn(k);
  | id (y : String)                            -- NN = Y.id();
  | peer (y z : String)                        -- NN = Y.peer(Z);
  | tnew (t : String) (n : Nat) (x : String)   -- T = tab(n, X);
  | tput (t : String) (i : Nat) (x : String)   -- T.put(i, X);
  | tat (x t : String) (i : Nat)               -- X = T.at(i);
  | tmp (k : Int)                              -- NN = vmod(k).id();
  | call (x f : String) (args : List String)   -- X = F(A, B);
  | callThrow (f : String) (args : List String) (y : String)   -- CT = G(A, B, Y.fail(1));
  | ret (x : String)                           -- return X;
  | stop                                       -- raise BOOM;
  | try_ (body handler : List Instr)           -- begin … exception when others then … end;
  | loop (n : Nat) (body : List Instr)         -- for II in 1 to n loop … end loop;
  | tdel (t : String) (i : Nat)                -- T.delete(i);            (member_delete.cpp: erase, the element's value is destructed)
  | tins (t : String) (i : Nat) (x : String)   -- T.insert(i, X);         (member_insert.cpp: a clone of X inserted, i = size allowed)
  | tcat (t : String) (x : String)             -- T.concat(X);            (member_concat.cpp: a clone of X appended, a null X too)
  | fall (t : String)                          -- forall EE in T loop NN = EE.id(); end loop;   (the iterator POINTS to the element: no copy)
  | mthrow (k : Int)                           -- NN = vmod(k).fail(1);   (an object is built, the method raises before anything is stored)
  | newf (x : String) (b : Bool)               -- X = vmod(b);            (the constructor fails: returns nothing / raises — no object)

inductive V
  | null
  | obj (h : Nat)
  | tab (hs : List (Option Nat))
  deriving Repr

structure Func where
  name : String
  nparams : Nat
  body : List Instr

/-- one context of the interpreter = one S-context + its variables -/
structure Frame where
  cid : Nat
  vars : List (String × V)

structure St where
  s : SState
  evs : List String                       -- events of the current host operation, oldest first
  cache : List ((Nat × String) × List Nat)  -- (root context, function) ↦ cached runtime contexts (front = next to be reused)
  involved : List (Nat × Nat) := []       -- (object, root context) for every handle a context under that root ever owned
  held : List (Nat × List (String × V)) := []  -- cached runtime context ↦ the values left in its slots by a call that failed in createEnv

inductive Out
  | ok
  | ret (v : V)     -- a `return` is unwinding
  | err (catchable : Bool)   -- a BLOC run-time error is unwinding; only user exceptions (and OUT_OF_RANGE, DIVIDE_BY_ZERO)
                    -- are caught by `when others`: INDEX_RANGE and a module's EXC_RT_OTHER_S are not (exception_runtime.cpp THROWABLES)
  | haz (e : HErr)  -- the model itself hit a C-level hazard / malformed operation (never expected)

def objName (o : Nat) : String := "vmod#" ++ toString (o + 1)

/-- run one S operation, appending the destroy events it caused and noting which root context got hold of which object -/
def sop (st : St) (op : SOp) : Except HErr St :=
  match sstep st.s op with
  | .error e => .error e
  | .ok s' =>
    let newEvs := (s'.h.log.drop st.s.h.log.length).filterMap fun
      | .destroy o => some ("D " ++ objName o)
      | .create _ => none
    let objAt (i : Nat) : Option Nat := match s'.h.slots[i]? with
      | some (.ref o) => some o
      | _ => none
    let inv : List (Nat × Nat) := match op with
      | .construct k => [(st.s.h.nobj, rootOf s' k)]
      | .clone _ k => match objAt st.s.h.slots.length with
        | some o => [(o, rootOf s' k)]
        | none => []
      | .give i k => match objAt i with
        | some o => [(o, rootOf s' k)]
        | none => []
      | _ => []
    .ok { st with s := s', evs := st.evs ++ newEvs, involved := st.involved ++ inv.filter (fun p => !st.involved.contains p) }

def objOf (st : St) (h : Nat) : Option Nat :=
  match st.s.h.slots[h]? with
  | some (.ref o) => some o
  | _ => none

def lookup (vars : List (String × V)) (x : String) : V :=
  match vars.find? (·.1 == x) with
  | some e => e.2
  | none => .null

def setVar (vars : List (String × V)) (x : String) (v : V) : List (String × V) :=
  if vars.any (·.1 == x) then vars.map (fun e => if e.1 == x then (x, v) else e) else vars ++ [(x, v)]

def handlesOf : V → List Nat
  | .null => []
  | .obj h => [h]
  | .tab hs => hs.filterMap id

/-- `Value::_clear` of a whole value -/
def clearV (st : St) (v : V) : Except HErr St :=
  (handlesOf v).foldlM (m := Except HErr) (fun st h => sop st (.clear h)) st

/-- `Value::clone` of a whole value, the copy owned by context `k` -/
def cloneV (st : St) (v : V) (k : Nat) : Except HErr (St × V) :=
  match v with
  | .null => .ok (st, .null)
  | .obj h =>
    match sop st (.clone h k) with
    | .ok st' => .ok (st', .obj st.s.h.slots.length)
    | .error e => .error e
  | .tab hs =>
    match hs.foldlM (m := Except HErr) (fun (acc : St × List (Option Nat)) oh =>
        match oh with
        | none => Except.ok (acc.1, acc.2 ++ [none])
        | some h =>
          match sop acc.1 (.clone h k) with
          | .ok st' => Except.ok (st', acc.2 ++ [some acc.1.s.h.slots.length])
          | .error e => Except.error e) (st, []) with
    | .ok (st', hs') => .ok (st', .tab hs')
    | .error e => .error e

/-- store an rvalue (already owned by the frame's context) into a variable: the old value is cleared -/
def storeVar (st : St) (fr : Frame) (x : String) (v : V) : Except HErr (St × Frame) :=
  match clearV st (lookup fr.vars x) with
  | .ok st' => .ok (st', { fr with vars := setVar fr.vars x v })
  | .error e => .error e

def getCache (st : St) (root : Nat) (f : String) : List Nat :=
  match st.cache.find? (fun e => e.1.1 == root && e.1.2 == f) with
  | some e => e.2
  | none => []

def setCache (st : St) (root : Nat) (f : String) (l : List Nat) : St :=
  if st.cache.any (fun e => e.1.1 == root && e.1.2 == f) then
    { st with cache := st.cache.map fun e => if e.1.1 == root && e.1.2 == f then (e.1, l) else e }
  else { st with cache := st.cache ++ [((root, f), l)] }

def paramName (i : Nat) : String := "P" ++ toString (i + 1)

/-- what a cached runtime context still holds in its slots -/
def heldOf (st : St) (c : Nat) : List (String × V) :=
  match st.held.find? (·.1 == c) with
  | some e => e.2
  | none => []

/-- `createEnv`, recycled context: every slot is assigned a fresh typed null (`_storage_pool[i].value = Value(symbol)`),
which releases what the slot held -/
def resetSlots (st : St) (c : Nat) : Except HErr St :=
  match (heldOf st c).foldlM (m := Except HErr) (fun st e => clearV st e.2) st with
  | .ok st' => .ok { st' with held := st'.held.filter (·.1 != c) }
  | .error e => .error e

def argDump (st : St) (v : V) : String :=
  match v with
  | .obj h => match objOf st h with
    | some o => "O:" ++ objName o
    | none => "O:?"
  | _ => "N"

/-- `Context::saveReturned` (context.cpp:431): the value a previous `return` left in the context and that the host never
took (`bloc_drop_returned`) is deleted, then the new one is kept (an lvalue was cloned by `ret`). The slot is also
emptied by `purge` and by the destructor of the context (both are `S.release` here: the handles are owned by the context). -/
def saveReturned (st : St) (old : Option V) (v : V) : Except HErr (St × Option V) :=
  match old with
  | some w =>
    match clearV st w with
    | .ok st' => .ok (st', some v)
    | .error e => .error e
  | none => .ok (st, some v)

/-- `Context::dropReturned` + the host deleting the value -/
def dropReturned (st : St) (old : Option V) : Except HErr (St × Option V) :=
  match old with
  | some w =>
    match clearV st w with
    | .ok st' => .ok (st', none)
    | .error e => .error e
  | none => .ok (st, none)

abbrev Step := St × Frame × Out

def failHaz (st : St) (fr : Frame) (e : HErr) : Step := (st, fr, .haz e)

/-- clear every variable of a frame (the locals of a returning function) -/
def clearFrame (st : St) (fr : Frame) : Except HErr St :=
  fr.vars.foldlM (m := Except HErr) (fun st e => clearV st e.2) st

mutual
/-- one instruction in frame `fr` (root context `root`); `fuel` bounds call depth × statement nesting -/
def exec (funcs : List Func) (root : Nat) : Nat → Instr → St → Frame → Step
  | 0, _, st, fr => (st, fr, .haz .illFormed)
  | fuel + 1, ins, st, fr =>
    match ins with
    | .new x k =>
      let o := st.s.h.nobj
      let h := st.s.h.slots.length
      match sop st (.construct fr.cid) with
      | .error e => failHaz st fr e
      | .ok st1 =>
        let st1 := { st1 with evs := st1.evs ++ ["C " ++ objName o ++ " 0 I:" ++ toString k] }
        match storeVar st1 fr x (.obj h) with
        | .ok (st2, fr2) => (st2, fr2, .ok)
        | .error e => failHaz st fr e
    | .cp x y =>
      if x == y then (st, fr, .ok) else
      match cloneV st (lookup fr.vars y) fr.cid with
      | .error e => failHaz st fr e
      | .ok (st1, v) =>
        match storeVar st1 fr x v with
        | .ok (st2, fr2) => (st2, fr2, .ok)
        | .error e => failHaz st fr e
    | .nul x =>
      match storeVar st fr x .null with
      | .ok (st2, fr2) => (st2, fr2, .ok)
      | .error e => failHaz st fr e
    | .self x y =>
      match lookup fr.vars y with
      | .obj h =>
        match objOf st h with
        | none => failHaz st fr .illFormed
        | some o =>
          let st0 := { st with evs := st.evs ++ ["M " ++ objName o ++ " self -"] }
          -- the method's own copy is deleted at once (member_complex.cpp:72-77); the receiver's value is returned
          if x == y then (st0, fr, .ok) else
          match cloneV st0 (.obj h) fr.cid with
          | .error e => failHaz st fr e
          | .ok (st1, v) =>
            match storeVar st1 fr x v with
            | .ok (st2, fr2) => (st2, fr2, .ok)
            | .error e => failHaz st fr e
      | _ =>
        -- a null receiver: the method is not executed, the (null) receiver is the result
        if x == y then (st, fr, .ok) else
        match storeVar st fr x .null with
        | .ok (st2, fr2) => (st2, fr2, .ok)
        | .error e => failHaz st fr e
    | .spawn x y k =>
      match lookup fr.vars y with
      | .obj h =>
        match objOf st h with
        | none => failHaz st fr .illFormed
        | some o =>
          let o2 := st.s.h.nobj
          let h2 := st.s.h.slots.length
          let st0 := { st with evs := st.evs ++ ["M " ++ objName o ++ " spawn I:" ++ toString k] }
          match sop st0 (.construct fr.cid) with
          | .error e => failHaz st fr e
          | .ok st1 =>
            let st1 := { st1 with evs := st1.evs ++ ["C " ++ objName o2 ++ " 0 I:" ++ toString k] }
            match storeVar st1 fr x (.obj h2) with
            | .ok (st2, fr2) => (st2, fr2, .ok)
            | .error e => failHaz st fr e
      | _ =>
        if x == y then (st, fr, .ok) else
        match storeVar st fr x .null with
        | .ok (st2, fr2) => (st2, fr2, .ok)
        | .error e => failHaz st fr e
    | .id y =>
      match lookup fr.vars y with
      | .obj h =>
        match objOf st h with
        | some o => ({ st with evs := st.evs ++ ["M " ++ objName o ++ " id -"] }, fr, .ok)
        | none => failHaz st fr .illFormed
      | _ => (st, fr, .ok)
    | .peer y z =>
      match lookup fr.vars y with
      | .obj h =>
        match objOf st h with
        | some o => ({ st with evs := st.evs ++ ["M " ++ objName o ++ " peer " ++ argDump st (lookup fr.vars z)] }, fr, .ok)
        | none => failHaz st fr .illFormed
      | _ => (st, fr, .ok)
    | .tnew t n x =>
      -- builtin tab(n, X): n copies of X
      let src := lookup fr.vars x
      match (List.range n).foldlM (m := Except HErr) (fun (acc : St × List (Option Nat)) _ =>
          match src with
          | .obj h =>
            match sop acc.1 (.clone h fr.cid) with
            | .ok st' => Except.ok (st', acc.2 ++ [some acc.1.s.h.slots.length])
            | .error e => Except.error e
          | _ => Except.ok (acc.1, acc.2 ++ [none])) (st, []) with
      | .error e => failHaz st fr e
      | .ok (st1, hs) =>
        match storeVar st1 fr t (.tab hs) with
        | .ok (st2, fr2) => (st2, fr2, .ok)
        | .error e => failHaz st fr e
    | .tput t i x =>
      match lookup fr.vars t with
      | .tab hs =>
        if i < hs.length then
          match cloneV st (lookup fr.vars x) fr.cid with
          | .error e => failHaz st fr e
          | .ok (st1, v) =>
            let nh := match v with | .obj h => some h | _ => none
            let old := match hs[i]? with | some (some h) => V.obj h | _ => V.null
            match clearV st1 old with
            | .error e => failHaz st fr e
            | .ok st2 => (st2, { fr with vars := setVar fr.vars t (.tab (hs.set i nh)) }, .ok)
        else (st, fr, .err false)       -- index out of range: EXC_RT_INDEX_RANGE_S, not catchable
      | _ => (st, fr, .ok)        -- null table: the member call on null does nothing
    | .tat x t i =>
      match lookup fr.vars t with
      | .tab hs =>
        if i < hs.length then
          let src := match hs[i]? with | some (some h) => V.obj h | _ => V.null
          match cloneV st src fr.cid with
          | .error e => failHaz st fr e
          | .ok (st1, v) =>
            match storeVar st1 fr x v with
            | .ok (st2, fr2) => (st2, fr2, .ok)
            | .error e => failHaz st fr e
        else (st, fr, .err false)
      | _ =>
        match storeVar st fr x .null with
        | .ok (st2, fr2) => (st2, fr2, .ok)
        | .error e => failHaz st fr e
    | .tmp k =>
      let o := st.s.h.nobj
      let h := st.s.h.slots.length
      match sop st (.construct fr.cid) with
      | .error e => failHaz st fr e
      | .ok st1 =>
        let st1 := { st1 with evs := st1.evs ++ ["C " ++ objName o ++ " 0 I:" ++ toString k, "M " ++ objName o ++ " id -"] }
        -- the temporary is released at the end of the statement (earliest)
        match sop st1 (.clear h) with
        | .ok st2 => (st2, fr, .ok)
        | .error e => failHaz st fr e
    | .ret x =>
      -- saveReturned: an lvalue is cloned into the returned slot
      match cloneV st (lookup fr.vars x) fr.cid with
      | .error e => failHaz st fr e
      | .ok (st1, v) => (st1, fr, .ret v)
    | .stop => (st, fr, .err true)
    | .try_ body handler =>
      match execList funcs root fuel body st fr with
      | (st1, fr1, .err true) => execList funcs root fuel handler st1 fr1
      | r => r
    | .loop n body => execLoop funcs root fuel n body st fr
    | .tdel t i =>
      match lookup fr.vars t with
      | .tab hs =>
        if i < hs.length then
          let old := match hs[i]? with | some (some h) => V.obj h | _ => V.null
          match clearV st old with
          | .error e => failHaz st fr e
          | .ok st1 => (st1, { fr with vars := setVar fr.vars t (.tab (hs.eraseIdx i)) }, .ok)
        else (st, fr, .err false)       -- EXC_RT_INDEX_RANGE_S
      | _ => (st, fr, .err false)       -- null table: EXC_RT_INDEX_RANGE_S as well
    | .tins t i x =>
      match lookup fr.vars t with
      | .tab hs =>
        if i ≤ hs.length then
          match cloneV st (lookup fr.vars x) fr.cid with
          | .error e => failHaz st fr e
          | .ok (st1, v) =>
            let nh := match v with | .obj h => some h | _ => none
            (st1, { fr with vars := setVar fr.vars t (.tab (hs.take i ++ [nh] ++ hs.drop i)) }, .ok)
        else (st, fr, .err false)
      | _ => (st, fr, .err false)
    | .tcat t x =>
      match lookup fr.vars t with
      | .tab hs =>
        match cloneV st (lookup fr.vars x) fr.cid with
        | .error e => failHaz st fr e
        | .ok (st1, v) =>
          let nh := match v with | .obj h => some h | _ => none
          (st1, { fr with vars := setVar fr.vars t (.tab (hs ++ [nh])) }, .ok)
      | _ => (st, fr, .haz .illFormed)  -- concat on a null table makes a new table: not generated
    | .fall t =>
      match lookup fr.vars t with
      | .tab hs =>
        let evs := hs.filterMap fun oh => match oh with
          | some h => (objOf st h).map fun o => "M " ++ objName o ++ " id -"
          | none => none
        ({ st with evs := st.evs ++ evs }, fr, .ok)
      | _ => (st, fr, .ok)
    | .mthrow k =>
      let o := st.s.h.nobj
      let h := st.s.h.slots.length
      match sop st (.construct fr.cid) with
      | .error e => failHaz st fr e
      | .ok st1 =>
        let st1 := { st1 with evs := st1.evs ++ ["C " ++ objName o ++ " 0 I:" ++ toString k, "M " ++ objName o ++ " fail I:1"] }
        -- the run-time error purges the working memory: the temporary is released at once
        match sop st1 (.clear h) with
        | .ok st2 => (st2, fr, .err false)
        | .error e => failHaz st fr e
    | .newf _ b => ({ st with evs := st.evs ++ ["F vmod ctor B:" ++ (if b then "1" else "0")] }, fr, .err false)
    | .call x f args => doCall funcs root fuel x f args none st fr
    | .callThrow f args y => doCall funcs root fuel "CT" f args (some y) st fr

def execList (funcs : List Func) (root : Nat) : Nat → List Instr → St → Frame → Step
  | 0, _, st, fr => (st, fr, .haz .illFormed)
  | _ + 1, [], st, fr => (st, fr, .ok)
  | fuel + 1, i :: rest, st, fr =>
    match exec funcs root fuel i st fr with
    | (st1, fr1, .ok) => execList funcs root fuel rest st1 fr1
    | r => r

def execLoop (funcs : List Func) (root : Nat) : Nat → Nat → List Instr → St → Frame → Step
  | 0, _, _, st, fr => (st, fr, .haz .illFormed)
  | _ + 1, 0, _, st, fr => (st, fr, .ok)
  | fuel + 1, n + 1, body, st, fr =>
    match execList funcs root fuel body st fr with
    | (st1, fr1, .ok) => execLoop funcs root fuel n body st1 fr1
    | r => r

/-- FunctorExpression::value + FunctorManager::createEnv. `thrower = some y`: one more argument `Y.fail(1)` follows the
listed ones; if `Y` holds an object its evaluation raises after the listed parameters were bound: `createEnv` catches,
pushes the runtime context back to the front of the function's cache and rethrows; the bound values stay in the slots
of that context (`held`) until it is recycled (slots reset) or released with its root. -/
def doCall (funcs : List Func) (root : Nat) : Nat → String → String → List String → Option String → St → Frame → Step
  | 0, _, _, _, _, st, fr => (st, fr, .haz .illFormed)
  | fuel + 1, x, f, args, thrower, st, fr =>
    match funcs.find? (·.name == f) with
    | none => (st, fr, .haz .illFormed)
    | some fn =>
      -- take a cached runtime context or create one
      let cached := getCache st root f
      let r : Except HErr (St × Nat) :=
        match cached with
        | c :: more =>
          -- a recycled context starts like a new one: its slots are reset before the parameters are bound
          match resetSlots (setCache st root f more) c with
          | .ok st' => .ok (st', c)
          | .error e => .error e
        | [] =>
          match sop st (.childCtx fr.cid) with
          | .ok st' => .ok (st', st.s.ctxs.length)
          | .error e => .error e
      match r with
      | .error e => failHaz st fr e
      | .ok (st1, c) =>
        -- bind the listed parameters: the caller's variables are cloned into the callee
        let bound := ((List.range args.length).zip args).foldlM (m := Except HErr) (fun (acc : St × List (String × V)) (ia : Nat × String) =>
          match cloneV acc.1 (lookup fr.vars ia.2) c with
          | .ok (st', v) => Except.ok (st', acc.2 ++ [(paramName ia.1, v)])
          | .error e => Except.error e) (st1, ([] : List (String × V)))
        match bound with
        | .error e => failHaz st fr e
        | .ok (st2, vars) =>
          let throws : Option Nat := match thrower with
            | some y => match lookup fr.vars y with
              | .obj h => objOf st2 h
              | _ => none
            | none => none
          match throws with
          | some o =>
            -- the last argument raises: Env is never built; createEnv hands the context back to the cache (front) with
            -- the parameters bound so far still in its slots
            let st3 := { st2 with evs := st2.evs ++ ["M " ++ objName o ++ " fail I:1"],
                                  held := (c, vars) :: st2.held.filter (·.1 != c) }
            (setCache st3 root f (c :: getCache st3 root f), fr, .err false)
          | none =>
            match execList funcs root fuel fn.body st2 ⟨c, vars⟩ with
            | (st3, cfr, out) =>
              -- the locals are dropped (earliest: at return), the context goes back to the cache
              match clearFrame st3 cfr with
              | .error e => failHaz st fr e
              | .ok st4 =>
                let st5 := setCache st4 root f (c :: getCache st4 root f)
                match out with
                | .ret v =>
                  -- the returned value moves to the caller
                  match (handlesOf v).foldlM (m := Except HErr) (fun st h => sop st (.give h fr.cid)) st5 with
                  | .error e => failHaz st fr e
                  | .ok st6 =>
                    match storeVar st6 fr x v with
                    | .ok (st7, fr7) => (st7, fr7, .ok)
                    | .error e => failHaz st fr e
                | .ok =>
                  match storeVar st5 fr x .null with
                  | .ok (st7, fr7) => (st7, fr7, .ok)
                  | .error e => failHaz st fr e
                | .err c => (st5, fr, .err c)
                | .haz e => (st5, fr, .haz e)
end

end BlocV.ObjProg
