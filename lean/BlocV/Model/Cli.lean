/-
  Model — the `bloc` command line (apps/main.cpp, main_options.cpp, cli_parser.cpp, read_file.cpp).

  What is transcribed, function by function:
  * `cmdOption` / `getCmd` (main_options.cpp): options are recognised by PREFIX (`strncmp`), in the
    order --debug, --parse, --cli|-i, --color, --expr|-e, --out; the first argument that does not
    start with '-' (or is exactly "-") starts the program vector and everything after it belongs to it.
  * `main` (main.cpp): bad option → message on STDOUT, exit 1 (also for -h and --help: usage, exit 1);
    interactive mode when `-i` or no program word; else expression mode when `-e`; else program mode
    (output file, program file or stdin, `$ARG`, parse, run, `output()`, `ret` → exit status).
  * `output()` (main.cpp): rendering of the returned value by type, WITHOUT a newline; tables,
    bytes and objects print nothing.
  * `ReadFile::read` (read_file.cpp): every CR is dropped.
  * `cli_parser` (cli_parser.cpp:121-296): the interactive statement loop — parse one statement,
    execute it with a bare `execute` loop, report an error on STDOUT and CONTINUE, echo a returned
    value with `output_cli` (a different rendering than `output()`), clear the stop condition.

  The parser is not modelled: what `Parser::parse`, `parseExpression` and `parseStatement` make of a
  text is a field of `Env` (theorems are stated for every `Env`); the driver instantiates it from the
  generator's AST. Message texts (`Error::what()`) are a field of `Env` too.
-/
import BlocV.Model.Interp
import BlocV.Model.Lex
import BlocV.Model.Elab

namespace BlocV.Cli
open BlocV

/-- ASCII text as bytes (kernel-reducible, unlike `String.toUTF8`). -/
def str (s : String) : Bytes := s.toList.map fun c => UInt8.ofNat c.toNat

/-! ### main_options.cpp -/

structure Options where
  debug : Bool := false
  parse : Bool := false
  docli : Bool := false
  color : Bool := false
  doexp : Bool := false
  dbgHints : Bytes := []
  fileSout : Bytes := []
  deriving DecidableEq, Repr, Inhabited

/-- `strncmp(str, option, strlen(option)) == 0` on NUL-free strings. -/
def hasPrefix : Bytes → Bytes → Bool
  | _, [] => true
  | [], _ :: _ => false
  | c :: s, o :: opt => c == o && hasPrefix s opt

/-- `cmdOption(str, option, &value)`: (matched, new value). The value is assigned only when the byte
right after the option name is '='; otherwise the previous value stays. -/
def cmdOption (s opt : Bytes) (old : Bytes) : Bool × Bytes :=
  if hasPrefix s opt then
    match s.drop opt.length with
    | 61 :: v => (true, v)
    | _ => (true, old)
  else (false, old)

/-- One option word applied to the options (the if-chain of `getCmd`); `none` = unknown option. -/
def applyOption (o : Options) (a : Bytes) : Option Options :=
  if (cmdOption a (str "--debug") o.dbgHints).1 then some { o with debug := true, dbgHints := (cmdOption a (str "--debug") o.dbgHints).2 }
  else if hasPrefix a (str "--parse") then some { o with parse := true }
  else if hasPrefix a (str "--cli") || hasPrefix a (str "-i") then some { o with docli := true }
  else if hasPrefix a (str "--color") then some { o with color := true }
  else if hasPrefix a (str "--expr") || hasPrefix a (str "-e") then some { o with doexp := true }
  else if (cmdOption a (str "--out") o.fileSout).1 then some { o with fileSout := (cmdOption a (str "--out") o.fileSout).2 }
  else none

/-- The test `cmd || **it != '-' || strlen(*it) == 1` negated: the word is looked at as an option. -/
def optionShaped (a : Bytes) : Bool := a.head? == some 45 && a.length != 1

inductive CmdRes
  | bad (arg : Bytes)
  | ok (o : Options) (prog : List Bytes)
  deriving DecidableEq, Repr, Inhabited

/-- `getCmd(argv + 1, argv + argc, options, prog)`. -/
def getCmd : Options → List Bytes → CmdRes
  | o, [] => .ok o []
  | o, a :: rest =>
    if optionShaped a then
      match applyOption o a with
      | some o' => getCmd o' rest
      | none => .bad a
    else .ok o (a :: rest)

/-! ### values as the command prints them -/

/-- `Value::readableLiteral` (string items of a tuple): quoted, C-style escapes. -/
def readableLiteral (s : Bytes) : Bytes :=
  [34] ++ (s.map fun c =>
    if c == 7 then str "\\a" else if c == 8 then str "\\b" else if c == 12 then str "\\f"
    else if c == 10 then str "\\n" else if c == 13 then str "\\r" else if c == 9 then str "\\t"
    else if c == 92 then str "\\\\" else if c == 34 then str "\\\"" else [c]).flatten ++ [34]

/-- `Value::readableImaginary`: `"(%.16g %s %.16g * ii)"`, sign taken by `b < 0` (false for −0.0 and NaN), `fabs(b)`. -/
def readableImaginary (a b : UInt64) : Bytes :=
  let neg := Num.sign b && !Num.isZero b && !Num.isNaN b
  [40] ++ Fmt.fmt16g a ++ (if neg then str " - " else str " + ") ++ Fmt.fmt16g (b &&& 0x7fffffffffffffff) ++ str " * ii)"

/-- `std::to_string(size_t)`. -/
def natStr (n : Nat) : Bytes := Fmt.natStr n

/-- `Type::typeName(TypeMajor)`. -/
def majorName : Major → String
  | .none => "undefined" | .bool => "boolean" | .int => "integer" | .num => "decimal" | .str => "string"
  | .obj => "object" | .raw => "bytes" | .tup => "tuple" | .ptr => "pointer" | .imag => "complex"

/-- `TupleDecl::Decl::tupleName` (object items would need the module name: not modelled, printed as "object"). -/
def tupleName (decl : List Ty) : Bytes :=
  [123] ++ ([44] : Bytes).intercalate (decl.map fun t => 32 :: str (majorName t.major)) ++ str " }"

/-- `Type::typeName(nickname)`: `level` brackets around the name. -/
def levelName (level : Nat) (nick : Bytes) : Bytes :=
  List.replicate level 91 ++ nick ++ List.replicate level 93

/-- One item of `Value::readableTuple`. -/
def readableItem : Val → Bytes
  | .null _ => str "null"
  | .bool b => str (if b then "TRUE" else "FALSE")
  | .int i => intToString i
  | .num d => Fmt.fmt16g d
  | .imag a b => readableImaginary a b
  | .str s => readableLiteral s
  | .raw s => str "bytes[" ++ natStr s.length ++ [93]
  | _ => []                                   -- objects: name(pointer), not modelled; nested compounds cannot occur

def readableTuple (items : List Val) : Bytes := (str ", ").intercalate (items.map readableItem)

/-- `output()` of main.cpp: what is written for the returned value — no newline; a string through
`fputs(c_str())` (stops at a NUL); tables (level > 0), bytes and objects: nothing. -/
def outputVal : Val → Bytes
  | .null _ => str "null"
  | .bool b => str (if b then "TRUE" else "FALSE")
  | .int i => intToString i
  | .num d => Fmt.fmt16g d
  | .str s => s.takeWhile (· != 0)
  | .tup _ items => (readableTuple items).takeWhile (· != 0)
  | .imag a b => readableImaginary a b
  | .raw _ => []
  | .tab _ _ _ => []
  | .obj _ _ => []

def hex2 (c : UInt8) : Bytes :=
  let d (n : Nat) : UInt8 := if n < 10 then UInt8.ofNat (48 + n) else UInt8.ofNat (87 + n)
  [d (c.toNat / 16), d (c.toNat % 16)]

/-- `Value::outputTabchar(v, stdout, 1)`: the first line of the hex dump (nothing for empty bytes). -/
def tabcharLine (v : Bytes) : Bytes :=
  if v.isEmpty then [] else
  let row := v.take 16
  str "00000000:  " ++ (row.map fun c => hex2 c ++ [32]).flatten ++ (List.replicate (16 - row.length) (str "   ")).flatten
    ++ [32] ++ (row.map fun c => if c > 32 && c < 127 then c else 46) ++ [10]

/-- `output_cli()` of cli_parser.cpp: the echo of a returned value in interactive mode — with a
newline; a string cut to 79 bytes (`snprintf(buf, 80, "%s")`); bytes as one dump line; a table as
`typeName[size]`. -/
def outputCli : Val → Bytes
  | .null _ => str "null\n"
  | .bool b => str (if b then "TRUE\n" else "FALSE\n")
  | .int i => intToString i ++ [10]
  | .num d => Fmt.fmt16g d ++ [10]
  | .imag a b => readableImaginary a b ++ [10]
  | .str s => (s.takeWhile (· != 0)).take 79 ++ [10]
  | .raw s => tabcharLine s
  | .tup _ items => (readableTuple items).takeWhile (· != 0) ++ [10]
  | .tab t decl elems =>
    (levelName t.level (if t.major == .tup then tupleName decl else str (majorName t.major))) ++ [91] ++ natStr elems.length ++ str "]\n"
  | .obj _ _ => []

/-! ### the environment: everything the command takes from outside the modelled code -/

/-- Result of `Parser::parse` on a text. A `ParseError` carries a token (→ line:column) or not. -/
inductive CompileRes
  | ok (prog : List Stmt)
  | perr (pos : Option (Nat × Nat)) (what : Bytes)
  deriving Inhabited

/-- Result of `parseExpression` on a text. -/
inductive ExprRes
  | ok (e : Expr)
  | perr (what : Bytes)
  deriving Inhabited

/-- One unit of the interactive input: a statement (with the number of input lines it spans, for
the prompts), a text `parseStatement` rejects, or the CLI keyword `exit`. -/
inductive IItem
  | stmt (s : Stmt) (lines : Nat)
  | bad (pos : Option (Nat × Nat)) (what : Bytes) (lines : Nat)
  | exit
  deriving Inhabited

structure Env where
  fuel : Nat := 100000
  /-- `Parser::parse` (batch) of the text delivered by the reader -/
  compile : Bytes → CompileRes
  /-- `Parser::parseExpression` of the text built by the `-e` branch -/
  parseExpr : Bytes → ExprRes
  /-- the interactive parser on the whole of stdin -/
  parseInteractive : Bytes → List IItem
  /-- `fopen(path, "r")` and the file's bytes -/
  readFile : Bytes → Option Bytes
  /-- `fopen(path, "w")` succeeds -/
  canWrite : Bytes → Bool
  /-- `RuntimeError::what()` -/
  what : Nat → Bytes → Bytes
  usage : Bytes := []
  /-- `Context::versionHeader()` -/
  header : Bytes := []

/-! ### the process, as observed from outside -/

inductive Exit
  | code (n : Nat)
  | hazard (h : Hazard)
  | unmodelled
  | oof
  deriving DecidableEq, Repr, Inhabited

/-- A piece of the interactive transcript on stdout. -/
inductive Seg
  | prompt (cont : Bool)        -- ">>> " / "... " (+ the echoed line when readline reads a pipe)
  | text (b : Bytes)             -- written with PRINT/PRINTF on the C stream `stdout`
  | out (b : Bytes)              -- written by the program through the context's own stream (dup of fd 1)
  | elapsed                     -- "\nElapsed: %f\n"
  deriving DecidableEq, Repr, Inhabited

structure Proc where
  exit : Exit
  stdout : Bytes := []
  stderr : Bytes := []
  /-- the `--out=` file when it was opened: (path, content) -/
  outFile : Option (Bytes × Bytes) := none
  /-- interactive mode only: stdout in pieces (`stdout` is its plain rendering) -/
  transcript : List Seg := []
  deriving Repr, Inhabited

def errLine (what : Bytes) : Bytes := str "Error: " ++ what ++ [10]
def errLinePos (l c : Nat) (what : Bytes) : Bytes :=
  str "Error (" ++ natStr l ++ [58] ++ natStr c ++ str "): " ++ what ++ [10]

/-- `ReadFile::read`: every CR byte is dropped. -/
def dropCr (t : Bytes) : Bytes := t.filter (· != 13)

/-! ### the reader (apps/read_file.cpp), byte by byte

```
int ReadFile::read(bloc::Parser *, char * buf, int max_size) {
  int read = 0;
  while (read < max_size) {
    if (::fread(&buf[read], sizeof(char), 1, _file) == 1) {
      if (buf[read] == '\r') continue;          // the slot is overwritten by the next byte
      if (buf[read++] != '\n') continue;
    }
    break;                                      // end of file, or the newline has been stored
  }
  return read;
}
```
`readCall max acc stream`: the loop, `acc` = `buf[0..read)` most recent byte first, `stream` = what `_file`
still holds. Result: (the `read` bytes stored in `buf`, the stream after the call). The capacity test comes
BEFORE the `fread`: a byte is taken from the stream only when there is room for it. -/
def readCall (max : Nat) : Bytes → Bytes → Bytes × Bytes
  | acc, [] => (acc.reverse, [])                               -- `read == max_size`, or `fread` returns 0
  | acc, c :: t =>
    if acc.length < max then
      if c == 13 then readCall max acc t                       -- `continue` without `read++`
      else if c != 10 then readCall max (c :: acc) t           -- `buf[read++] != '\n'` → `continue`
      else ((c :: acc).reverse, t)                             -- newline stored → `break`
    else (acc.reverse, c :: t)                                 -- loop condition false: nothing consumed

/-- The calls `tokenizer_buf` makes (tokenizer.lex:156-171): one `read(buf, max)` per scanner buffer, until a
call returns 0 bytes (`n > 0` fails → end of input). `fuel` bounds the number of calls (`readChunks` gives
one more than the stream has bytes: a call that returns at least one byte consumes at least one). -/
def readChunksF (max : Nat) : Nat → Bytes → List Bytes
  | 0, _ => []
  | fuel + 1, stream =>
    let r := readCall max [] stream
    if r.1.isEmpty then [] else r.1 :: readChunksF max fuel r.2

def readChunks (max : Nat) (file : Bytes) : List Bytes := readChunksF max (file.length + 1) file

/-- The program text the parser gets from `ReadFile` through `tokenizer_buf` (1023 bytes asked per call). -/
def readText (file : Bytes) : Bytes := (readChunks Lex.chunkMax file).flatten

/-- The table `$ARG`: `Collection(type_literal.levelUp())` filled with one `Literal` per word. -/
def argTable (args : List Bytes) : Val := .tab Ty.str.levelUp [] (args.map Val.str)

def initState (args : List Bytes) : St := { vars := [("$ARG", argTable args)] }

/-- The three modes of `main` after option parsing. -/
inductive Mode
  | badOption (arg : Bytes)
  | interactive (o : Options) (args : List Bytes)
  | expr (o : Options) (words : List Bytes)
  | program (o : Options) (file : Bytes) (args : List Bytes)
  deriving DecidableEq, Repr, Inhabited

def modeOf (argv : List Bytes) : Mode :=
  match getCmd {} argv with
  | .bad a => .badOption a
  | .ok o [] => .interactive o []
  | .ok o (f :: args) =>
    if o.docli then .interactive o (f :: args)       -- `load_args(ctx, args)`: the program word is an argument too
    else if o.doexp then .expr o (f :: args)
    else .program o f args

/-- Where the program's output goes. -/
inductive Sel | stdout | file (path : Bytes)
  deriving DecidableEq, Repr, Inhabited

def selOf (o : Options) : Sel := if o.fileSout.isEmpty then .stdout else .file o.fileSout

/-- Deliver `out` on the selected stream. -/
def deliver (sel : Sel) (out err : Bytes) (ex : Exit) : Proc :=
  match sel with
  | .stdout => { exit := ex, stdout := out, stderr := err }
  | .file p => { exit := ex, stdout := [], stderr := err, outFile := some (p, out) }

/-- What the library did with the program: the input of the decision logic of `main`. -/
inductive LibOutcome
  | compileError (pos : Option (Nat × Nat)) (what : Bytes)
  | ran (r : RunResult)

/-- The tail of `main` in program mode, from the library's outcome: lines 191–222 + `output()`. -/
def finish (env : Env) (sel : Sel) : LibOutcome → Proc
  | .compileError (some (l, c)) w => deliver sel [] (errLinePos l c w) (.code 1)
  | .compileError none w => deliver sel [] (errLine w) (.code 1)
  | .ran r =>
    match r.outcome with
    | .ok none => deliver sel r.st.output [] (.code 0)
    | .ok (some v) => deliver sel (r.st.output ++ outputVal v) [] (.code 0)
    | .err c a =>
      if c == oofCode then deliver sel r.st.output [] .oof
      else deliver sel r.st.output (errLine (env.what c a)) (.code 1)
    | .haz h => deliver sel r.st.output [] (.hazard h)
    | .unmodelled => deliver sel r.st.output [] .unmodelled

/-- The library on a program text: `Parser::parse` then `Executable::run` in a context holding `$ARG`. -/
def library (env : Env) (text : Bytes) (args : List Bytes) : LibOutcome :=
  match env.compile text with
  | .perr pos w => .compileError pos w
  | .ok prog => .ran (runProgram env.fuel prog (initState args))

/-- Program mode (main.cpp:143-219). -/
def runProgramMode (env : Env) (o : Options) (file : Bytes) (args : List Bytes) (stdin : Bytes) : Proc :=
  let sel := selOf o
  if (match sel with | .file p => !env.canWrite p | .stdout => false) then
    { exit := .code 1, stdout := str "Failed to open file '" ++ o.fileSout ++ str "' for write." }
  else
    let src : Option Bytes := if file == [45] then some stdin else env.readFile file
    match src with
    | none =>
      -- the output file has been created (empty) already
      { exit := .code 1, stdout := str "Failed to open file '" ++ file ++ str "' for read.",
        outFile := match sel with | .file p => some (p, []) | .stdout => none }
    | some text => finish env sel (library env (readText text) args)

/-- The text handed to the expression parser: every word followed by a blank, then ";". -/
def exprText (words : List Bytes) : Bytes := (words.map (· ++ [32])).flatten ++ [59]

/-- Expression mode (main.cpp:115-141). `--out=` is ignored; there is no `$ARG`. -/
def runExprMode (env : Env) (words : List Bytes) : Proc :=
  match env.parseExpr (exprText words) with
  | .perr w => { exit := .code 1, stderr := errLine w }
  | .ok e =>
    match eval [] 0 env.fuel e ({} : St) with
    | (.ok v, _) => { exit := .code 0, stdout := outputVal v }
    | (.err c a, _) => if c == oofCode then { exit := .oof } else { exit := .code 1, stderr := errLine (env.what c a) }
    | (.haz h, _) => { exit := .hazard h }
    | (.unmodelled, _) => { exit := .unmodelled }

/-! ### the interactive loop -/

/-- One step of `collectFuncs` (the parser's `createOrReplace` when it meets a declaration). -/
def declStep (fs : List Func) (st : Stmt) : List Func :=
  match st with
  | .funcS n ps rt b c =>
    let f0 : Func := { name := n, params := ps, ret := rt, body := b, catches := c }
    let fs0 := addFunc fs f0
    let tab0 : SymTab := ps.map fun (pn, pt) => (pn, pt, pt)
    let tab := declCatches fs0 1000 (declList fs0 1000 tab0 b) c
    addFunc fs { f0 with decls := tab.first }
  | _ => fs

/-- What one turn of the loop did. -/
structure StepRes where
  lines : Nat
  /-- result of executing the statement; `none` for a text the parser rejected -/
  res : Option (Res Flow)
  perr : Option (Option (Nat × Nat) × Bytes) := none
  /-- what the statement printed -/
  delta : Bytes := []
  /-- the value echoed by `output_cli` after a `return` -/
  echo : Option Val := none
  deriving Inhabited

/-- What a statement added to the output (chunks are prepended to `St.out`). -/
def deltaOut (before after : St) : Bytes :=
  (after.out.take (after.out.length - before.out.length)).reverse.flatten

def stops : Res Flow → Bool
  | .ok _ => false
  | .err c _ => c == oofCode
  | _ => true

/-- cli_parser.cpp:169-276. Statement at a time: declare / parse, execute, report, continue. The
fuel is spent exactly as `execList` spends it (one unit per list element), so that the two runners
can be compared on the same `fuel`. -/
def interLoop : Nat → List IItem → List Func → St → List StepRes × List Func × St
  | 0, [], fs, s => ([], fs, s)
  | 0, _ :: _, fs, s => ([{ lines := 0, res := some (.err oofCode) }], fs, s)
  | _ + 1, [], fs, s => ([], fs, s)
  | _ + 1, .exit :: _, fs, s => ([], fs, s)
  | fuel + 1, .bad pos w n :: rest, fs, s =>
    let r := interLoop fuel rest fs s
    ({ lines := n, res := none, perr := some (pos, w) } :: r.1, r.2)
  | fuel + 1, .stmt st n :: rest, fs, s =>
    let fs' := declStep fs st
    let r := exec fs' 0 fuel st s
    let isRet := match r.1 with | .ok .ret => true | _ => false
    let sr : StepRes := { lines := n, res := some r.1, delta := deltaOut s r.2, echo := if isRet then r.2.returned else none }
    if stops r.1 then ([sr], fs', r.2)
    else
      -- `ctx.returnCondition(false)` + `dropReturned()`
      let s' : St := if isRet then { r.2 with returned := none } else r.2
      let k := interLoop fuel rest fs' s'
      (sr :: k.1, k.2)

def promptSegs (lines : Nat) : List Seg :=
  if lines == 0 then [] else Seg.prompt false :: List.replicate (lines - 1) (Seg.prompt true)

/-- The stdout pieces of one turn (cli_parser.cpp:196-262). -/
def stepSegs (env : Env) (r : StepRes) : List Seg :=
  promptSegs r.lines ++
  match r.res, r.perr with
  | none, some (some (l, c), w) => [.text (errLinePos l c w)]
  | none, some (none, w) => [.text (errLine w)]
  | none, none => []
  | some res, _ =>
    [.out r.delta] ++
    (match res with
     | .err c a => if c == oofCode then [] else [.text (str "Error: " ++ env.what c a)]     -- no newline here
     | _ => []) ++
    (if stops res then [] else [.elapsed]) ++
    (match r.echo with
     | some v => [.text (outputCli v)]
     | none => [])

def renderSeg : Seg → Bytes
  | .prompt false => str ">>> "
  | .prompt true => str "... "
  | .text b => b
  | .out b => b
  | .elapsed => str "\nElapsed: ?\n"

def banner (env : Env) : Bytes :=
  env.header ++ str "\nType \"help\" , \"copyright\" or \"license\" for more information.\n"

def stmtsOf : List IItem → List Stmt
  | [] => []
  | .stmt s _ :: r => s :: stmtsOf r
  | _ :: r => stmtsOf r

/-- The state the loop starts from: `$ARG`, and a slot for every symbol of the input.
(MODELLING NOTE: the C++ registers a symbol when the statement naming it is parsed. A text the parser
accepts never reads a name before the statement registering it, so registering all of them up front
is not observable on accepted input; the parser itself is outside this model.) -/
def interInit (prog : List Stmt) (args : List Bytes) : St :=
  let init := initState args
  let funcs := collectFuncs prog
  { init with vars := (mainDecls funcs prog).foldl (fun vs (n, t) => if vs.any (·.1 == n) then vs else vs ++ [(n, Val.null t)]) init.vars }

def lastExit (rs : List StepRes) : Exit :=
  match rs.getLast? with
  | some r =>
    match r.res with
    | some (.haz h) => .hazard h
    | some .unmodelled => .unmodelled
    | some (.err c _) => if c == oofCode then .oof else .code 0
    | _ => .code 0
  | none => .code 0

/-- Interactive mode (`cli_parser`): the exit status is 0 whatever the statements did; everything,
error messages included, goes to stdout. -/
def runInteractive (env : Env) (args : List Bytes) (stdin : Bytes) : Proc :=
  let items := env.parseInteractive stdin
  let r := interLoop env.fuel items [] (interInit (stmtsOf items) args)
  let ex := lastExit r.1
  -- the prompt at which end of input (or `exit`) is read
  let segs := [Seg.text (banner env)] ++ (r.1.map (stepSegs env)).flatten ++ (if ex == .code 0 then [Seg.prompt false] else [])
  { exit := ex, stdout := (segs.map renderSeg).flatten, transcript := segs }

/-- `main`. -/
def run (env : Env) (argv : List Bytes) (stdin : Bytes) : Proc :=
  match modeOf argv with
  | .badOption a =>
    if a == str "-h" || a == str "--help" then { exit := .code 1, stdout := env.usage }
    else { exit := .code 1, stdout := str "Unknown command option: " ++ a ++ [10] }
  | .interactive _ args => runInteractive env args stdin
  | .expr _ words => runExprMode env words
  | .program o file args => runProgramMode env o file args stdin

/-! ### `Env.compile` instantiated with the model's own front end -/

/-- Marker message for a text the parser model accepts but the interpreter model cannot express
(`Elab.ElabErr.unsupported`): OUTSIDE the domain of the theorems below (the driver answers `unsupported`). -/
def feUnsupported : Bytes := str "front end: construct outside the interpreter model"

/-- `base` with `compile` := reader chunks → scanner → parser → elaboration (`Elab.frontEnd`), the program then
run by `runProgram` as before. A text the parser model rejects is a compile error (the front end gives the
error code, not the token position: `pos = none`). -/
def feEnv (base : Env) : Env :=
  { base with compile := fun text =>
      match Elab.frontEnd text with
      | .error c => .perr none (base.what c [])
      | .ok (.error _) => .perr none feUnsupported
      | .ok (.ok prog) => .ok prog }


end BlocV.Cli
