/-
  Model — the INTERPRETER of the tables that extract/optypes.py regenerates from the C++ source on every run
  (lean/BlocV/Gen/OpTypes.lean): what each operator's `type()`, the operand checks of its production in
  parse_expression.cpp and the case labels of its `value()` say, read as functions over static types / operand majors.

  Nothing here is transcribed by hand from the C++: the only hand-written parts are the meaning of the five-constructor
  condition language (`evalCond`, `evalRes`), of the three operand checks (`evalCheck`, in terms of `typeChecking` /
  `typeUniform` of Model/Typing.lean) and the map from the model's `BinOp` / `UnOp` to the generated definitions (if an
  operator file disappears, that map stops compiling).  Proofs/C02G.lean proves the hand-written `typeBin`, `typeUn`,
  `acceptBin`, `acceptUn`, `evalBin`, `evalUn` equal to / characterised by these functions.
-/
import BlocV.Model.Typing
import BlocV.Model.Members
import BlocV.Gen.OpTypes
import BlocV.Gen.MemberSigs

namespace BlocV.GenEval
open Gen

/-! ### `type()` -/

def evalCond : TCond → Ty → Ty → Bool
  | .t1is m, t1, _ => t1.major == m
  | .t2is m, _, t2 => t2.major == m
  | .and a b, t1, t2 => evalCond a t1 t2 && evalCond b t1 t2
  | .or a b, t1, t2 => evalCond a t1 t2 || evalCond b t1 t2

/-- `Value::type_xxx` is `Type(MAJOR)`: minor 0, level 0. -/
def evalRes : TRes → Ty → Ty → Ty
  | .const m, _, _ => { major := m }
  | .arg1, t1, _ => t1
  | .arg2, _, t2 => t2

def evalChain : List (TCond × TRes) → TRes → Ty → Ty → Ty
  | [], d, t1, t2 => evalRes d t1 t2
  | (c, r) :: rest, d, t1, t2 => if evalCond c t1 t2 then evalRes r t1 t2 else evalChain rest d t1 t2

def evalRule (r : TRule) (t1 t2 : Ty) : Ty := evalChain r.chain r.dflt t1 t2

def binRule : BinOp → TRule
  | .add => Op.add_type | .sub => Op.sub_type | .mul => Op.mul_type | .div => Op.div_type | .exp => Op.exp_type
  | .mod => Op.mod_type | .and => Op.and_type | .ior => Op.ior_type | .xor => Op.xor_type | .pop => Op.pop_type
  | .pus => Op.pus_type | .eq => Op.eq_type | .ne => Op.ne_type | .lt => Op.lt_type | .le => Op.le_type
  | .gt => Op.gt_type | .ge => Op.ge_type | .band => Op.band_type | .bior => Op.bior_type | .bxor => Op.bxor_type

def unRule : UnOp → TRule
  | .neg => Op.neg_type | .pos => Op.pos_type | .not => Op.not_type | .bnot => Op.bnot_type

/-- The static type of a binary operator node, as `OpXXXExpression::type` is written today. -/
def typeBin (op : BinOp) (t1 t2 : Ty) : Ty := evalRule (binRule op) t1 t2

/-- Unary: there is no second operand (the extractor refuses a unary `type()` that mentions one). -/
def typeUn (op : UnOp) (t1 : Ty) : Ty := evalRule (unRule op) t1 t1

/-! ### the operand checks of parse_expression.cpp -/

def evalPType : PType → Ty → Ty
  | .const m, _ => { major := m }
  | .arg1, t1 => t1

/-- `operand` is the static type of the checked operand, `t1` that of the first operand (`result->type(ctx)`). -/
def evalCheck : PCheck → Ty → Ty → Bool
  | .nocheck, _, _ => true
  | .assertType p, operand, t1 => typeChecking operand (evalPType p t1)
  | .assertUniform p, operand, t1 => typeUniform operand (evalPType p t1)

def binChecks : BinOp → PCheck × PCheck
  | .add => (Op.add_check1, Op.add_check2) | .sub => (Op.sub_check1, Op.sub_check2) | .mul => (Op.mul_check1, Op.mul_check2)
  | .div => (Op.div_check1, Op.div_check2) | .exp => (Op.exp_check1, Op.exp_check2) | .mod => (Op.mod_check1, Op.mod_check2)
  | .and => (Op.and_check1, Op.and_check2) | .ior => (Op.ior_check1, Op.ior_check2) | .xor => (Op.xor_check1, Op.xor_check2)
  | .pop => (Op.pop_check1, Op.pop_check2) | .pus => (Op.pus_check1, Op.pus_check2) | .eq => (Op.eq_check1, Op.eq_check2)
  | .ne => (Op.ne_check1, Op.ne_check2) | .lt => (Op.lt_check1, Op.lt_check2) | .le => (Op.le_check1, Op.le_check2)
  | .gt => (Op.gt_check1, Op.gt_check2) | .ge => (Op.ge_check1, Op.ge_check2) | .band => (Op.band_check1, Op.band_check2)
  | .bior => (Op.bior_check1, Op.bior_check2) | .bxor => (Op.bxor_check1, Op.bxor_check2)

def unCheck : UnOp → PCheck
  | .neg => Op.neg_check | .pos => Op.pos_check | .not => Op.not_check | .bnot => Op.bnot_check

/-- Does the production accept operands of these static types? (Both checks must pass; the order in which the two
`assertType` calls of one constructor expression run is unspecified in C++ and does not matter for acceptance.) -/
def acceptBin (op : BinOp) (t1 t2 : Ty) : Bool :=
  evalCheck (binChecks op).2 t2 t1 && evalCheck (binChecks op).1 t1 t1

def acceptUn (op : UnOp) (t1 : Ty) : Bool := evalCheck (unCheck op) t1 t1

/-! ### `value()`: which operand majors reach a result -/

def binShape : BinOp → VShape
  | .add => Op.add_value | .sub => Op.sub_value | .mul => Op.mul_value | .div => Op.div_value | .exp => Op.exp_value
  | .mod => Op.mod_value | .and => Op.and_value | .ior => Op.ior_value | .xor => Op.xor_value | .pop => Op.pop_value
  | .pus => Op.pus_value | .eq => Op.eq_value | .ne => Op.ne_value | .lt => Op.lt_value | .le => Op.le_value
  | .gt => Op.gt_value | .ge => Op.ge_value | .band => Op.band_value | .bior => Op.bior_value | .bxor => Op.bxor_value

def unShape : UnOp → VShape
  | .neg => Op.neg_value | .pos => Op.pos_value | .not => Op.not_value | .bnot => Op.bnot_value

/-- The case-label pairs of a `nested` / `lazy` / `eqchain` value(); for `ord` the pairs that reach a comparison:
the `if (a2.type() == …)` tests of the case plus the type of the accessor the fall-through reads a2 with. -/
def pairsOf : VShape → List (Major × Major)
  | .nested ps | .lazy ps | .eqchain ps => ps
  | .ord cs => cs.flatMap fun (m1, ifs, acc) => (ifs ++ [acc]).map fun m2 => (m1, m2)
  | .regex => [(.str, .str)]
  | .unary _ => []

/-- The case labels of the switch on the first operand. -/
def rowsOf : VShape → List Major
  | .nested ps | .lazy ps | .eqchain ps => (ps.map (·.1)).eraseDups
  | .ord cs => cs.map (·.1)
  | .regex => [.str]
  | .unary ms => ms

/-- Do operands of these types reach a `case` of the operator's `value()`?  For the switch forms (`nested`, `lazy`,
`unary`) a miss is `throw RuntimeError(EXC_RT_INV_EXPRESSION)`; the level guard in front of the switch is part of the
shape the extractor asserts. -/
def inTable (sh : VShape) (t1 t2 : Ty) : Bool :=
  t1.level == 0 && t2.level == 0 && (pairsOf sh).contains (t1.major, t2.major)

def inTableUn (sh : VShape) (t1 : Ty) : Bool :=
  t1.level == 0 && (rowsOf sh).contains t1.major

/-- What the generated tables predict for the KIND of outcome of a binary node on non-short-circuited operands:
`"inv"` = EXC_RT_INV_EXPRESSION, `"acc"` = a typed accessor throws (ordering operators), `"null"` = boolean null
(null test first), `"val"` = some value / arithmetic error of the cell. Used by the driver word `gop`. -/
def predictBin (op : BinOp) (a b : Val) : String :=
  match binShape op with
  | .nested _ => if inTable (binShape op) a.type b.type then "val" else "inv"
  | .lazy _ =>
    if !inTableUn (binShape op) a.type then "inv"
    else if (op == .band && a == .bool false) || (op == .bior && a == .bool true) then "val"
    else if inTable (binShape op) a.type b.type then "val" else "inv"
  | .eqchain _ => if a.isNull || b.isNull then "null" else "val"
  | .ord _ =>
    if a.isNull || b.isNull then "null"
    else if !(rowsOf (binShape op)).contains a.type.major then "val"
    else if inTable (binShape op) a.type b.type then "val" else "acc"
  | _ => "?"

def predictUn (op : UnOp) (a : Val) : String :=
  if inTableUn (unShape op) a.type then "val" else "inv"

/-! ### member methods: the receiver side of `MemberXXXExpression::parse` (Gen/MemberSigs.lean) -/

def recvOf : Member → MemberRecv
  | .concat => Memb.concat_recv | .at => Memb.at_recv | .put => Memb.put_recv
  | .count => Memb.count_recv | .delete => Memb.delete_recv | .insert => Memb.insert_recv

/-- Does a receiver of this static type pass the method's first `switch (exp_type.major())`? (guarded by
`if (exp_type.level() == 0)`: every table passes) -/
def recvOk (m : Member) (exp : Ty) : Bool := exp.level != 0 || (recvOf m).receivers.contains exp.major

/-! ### member methods: the value argument of put / insert / concat on a level-0 receiver (Gen/MemberSigs.lean `*_arg0`) -/

def evalArgRule : ArgRule → Ty → Bool
  | .any, _ => true
  | .oneOf ms orInt, t => ms.contains t.major || (orInt && typeChecking t Ty.int)

/-- level-0 receiver: is the value argument accepted? (`none` = the receiver's major has no case in the switch) -/
def arg0Ok (tbl : List (Major × ArgRule)) (exp arg : Ty) : Option Bool :=
  (tbl.find? (·.1 == exp.major)).map fun r => evalArgRule r.2 arg

def arg0Of : Member → List (Major × ArgRule)
  | .put => Memb.put_arg0 | .insert => Memb.insert_arg0 | .concat => Memb.concat_arg0 | _ => []

/-- the arguments in front of the value argument (the position) -/
def lead : Member → List Ty
  | .put | .insert => [Ty.int]
  | _ => []

end BlocV.GenEval
