/-
  Model of the BLOC scanner and of the way a source text reaches it (C13).

  Transcribed from
    blocc/tokenizer.lex      the flex rule list (what is compiled is blocc/lex._tokenizer.c, generated
                             from it): start conditions INITIAL / COMMENT / LITERAL, the rules in their
                             ORDER, `tokenizer_buf` (one reader call = one chunk = one `yy_scan_string`),
                             `tokenizer_lex` (SPACE kept because the parser enables it);
    blocc/parser.cpp         `Parser::next_token` (reassembly of LITERALBEG/STR/END, comments, spaces,
                             newline) and `Parser::pop`;
    blocc/string_reader.cpp, apps/read_file.cpp   the two line readers (identical discipline).

  How the scanner is modelled.  Every rule of tokenizer.lex is written down as a regular expression
  `Re` (only the constructs that occur in that file: byte class, literal string, sequence,
  alternative, option, class*, class+), in the order of the file, with its start condition and its
  `^` anchor.  `matchLens r s` is the list of the lengths of ALL prefixes of `s` matched by `r`;
  `pick` applies flex's disambiguation: longest match, and among equal lengths the rule listed first.
  Nothing about newlines, token classes or chunk boundaries is built into `pick`/`lexAll`: the
  facts C13 needs (no rule but the one-byte rules matches a text containing '\n', …) are *proved*
  about the rule list in Proofs/Lemmas/Lex.lean.

  What flex does that is relevant and is modelled:
    * an empty match is never returned (the default rule `.|\n` always offers one byte);
    * `yy_at_bol` is 1 at the start of every buffer made by `yy_scan_string` (i.e. of every chunk),
      and after a match it is `yytext[yyleng-1] == '\n'`; the `^` rule is a candidate only then;
    * the start condition (`yy_start`, with its one-deep push/pop stack) belongs to the scanner, not
      to the buffer: it is the ONLY thing that survives from one chunk to the next;
    * `yy_scan_string` copies `strlen` bytes: a chunk is cut at its first NUL;
    * the action of the default rule returns nothing for a NUL byte (cannot happen through
      `yy_scan_string`, kept so that `lexWhole` is defined on every text).
  Not modelled: `tokenizer_clear` (only reached from `Parser::clear`, after a parse error) and the
  line/column bookkeeping of `next_token`.
-/
import BlocV.Model.Basic

namespace BlocV.Lex
open BlocV

/-! ## Regular expressions of tokenizer.lex -/

inductive Re where
  | cls (p : UInt8 → Bool)
  | lit (s : Bytes)
  | seq (a b : Re)
  | alt (a b : Re)
  | opt (a : Re)
  | star (p : UInt8 → Bool)
  | plus (p : UInt8 → Bool)

/-- Lengths of the prefixes of `s` made of bytes of class `p` (0, 1, …, up to the whole run). -/
def starLens (p : UInt8 → Bool) : Bytes → List Nat
  | [] => [0]
  | c :: t => if p c then 0 :: (starLens p t).map (· + 1) else [0]

/-- `l` is a prefix of `s`. -/
def isPre : Bytes → Bytes → Bool
  | [], _ => true
  | _ :: _, [] => false
  | a :: l, b :: s => a == b && isPre l s

/-- All the lengths `n` such that `r` matches `s.take n`. -/
def matchLens : Re → Bytes → List Nat
  | .cls p, s => match s with
    | c :: _ => if p c then [1] else []
    | [] => []
  | .lit l, s => if isPre l s then [l.length] else []
  | .seq a b, s => (matchLens a s).flatMap fun n => (matchLens b (s.drop n)).map (n + ·)
  | .alt a b, s => matchLens a s ++ matchLens b s
  | .opt a, s => 0 :: matchLens a s
  | .star p, s => starLens p s
  | .plus p, s => match s with
    | c :: t => if p c then (starLens p t).map (· + 1) else []
    | [] => []

def maxL : List Nat → Nat
  | [] => 0
  | n :: t => max n (maxL t)

/-- Length of the longest non-empty match of `r` at the head of `s`; 0 = no (non-empty) match. -/
def longest (r : Re) (s : Bytes) : Nat := maxL (matchLens r s)

/-! ## Byte classes and named definitions of tokenizer.lex -/

def isDigit (c : UInt8) : Bool := 48 ≤ c && c ≤ 57
def isLetter (c : UInt8) : Bool := (97 ≤ c && c ≤ 122) || (65 ≤ c && c ≤ 90) || c == 95 || c == 36
def isAlnum (c : UInt8) : Bool := isDigit c || isLetter c
def isHex (c : UInt8) : Bool := isDigit c || (97 ≤ c && c ≤ 102) || (65 ≤ c && c ≤ 70)
def isWs (c : UInt8) : Bool := c == 32 || c == 9 || c == 11 || c == 12      -- [ \t\v\f]
def isSpTab (c : UInt8) : Bool := c == 32 || c == 9                          -- [ \t]
def notNl (c : UInt8) : Bool := c != 10                                      -- `.`
def anyByte (_ : UInt8) : Bool := true                                       -- `.|\n`
def isXx (c : UInt8) : Bool := c == 120 || c == 88
def isEe (c : UInt8) : Bool := c == 101 || c == 69
def isPm (c : UInt8) : Bool := c == 43 || c == 45

def reKEYWORD : Re := .seq (.plus isLetter) (.star isAlnum)              -- {LETTER}+[0-9a-zA-Z_$]*
def reINTEGER : Re := .plus isDigit                                         -- {DIGIT}+
def reD1 : Re := .seq (.plus isDigit) (.seq (.lit [46]) (.plus isDigit))   -- {DIGIT}+{DOT}{DIGIT}+
def reD2 : Re := .seq (.lit [46]) (.plus isDigit)                          -- {DOT}{DIGIT}+
def reDOUBLE : Re := .alt reD1 reD2
/-- `({DIGIT}+|{DOUBLE})([eE][+-]?){DIGIT}+` -/
def reFLOAT : Re :=
  .seq (.alt (.plus isDigit) reDOUBLE) (.seq (.seq (.cls isEe) (.opt (.cls isPm))) (.plus isDigit))
def reHEXANUM : Re := .seq (.lit [48]) (.seq (.cls isXx) (.plus isHex))   -- [0][xX][0-9a-fA-F]+
/-- `(u8|u|U|L)` -/
def reSP : Re := .alt (.lit [117, 56]) (.alt (.lit [117]) (.alt (.lit [85]) (.lit [76])))

/-! ## Rules -/

/-- Token codes of tokenizer.h (from the generated table). -/
abbrev tSPACE := Gen.TOKEN_SPACE
abbrev tINTEGER := Gen.TOKEN_INTEGER
abbrev tDOUBLE := Gen.TOKEN_DOUBLE
abbrev tFLOAT := Gen.TOKEN_FLOAT
abbrev tKEYWORD := Gen.TOKEN_KEYWORD
abbrev tLITERALBEG := Gen.TOKEN_LITERALBEG
abbrev tLITERALSTR := Gen.TOKEN_LITERALSTR
abbrev tLITERALEND := Gen.TOKEN_LITERALEND
abbrev tCOMMENTBEG := Gen.TOKEN_COMMENTBEG
abbrev tCOMMENTSTR := Gen.TOKEN_COMMENTSTR
abbrev tCOMMENTEND := Gen.TOKEN_COMMENTEND
abbrev tCOMMENT := Gen.TOKEN_COMMENT
abbrev tDIRECTIVE := Gen.TOKEN_DIRECTIVE
abbrev tHEXANUM := Gen.TOKEN_HEXANUM

/-- One rule: the token code its action returns (`none`: the default rule, which returns the byte
itself), whether it carries the `^` anchor, its pattern, and the pattern as written in the file
(compared on every run with the rules section of /repo/blocc/tokenizer.lex). -/
structure Rule where
  code : Option Nat
  bol : Bool := false
  re : Re
  src : String

/-- Start conditions (`%x COMMENT`, `%x LITERAL`; both exclusive). -/
inductive St | initial | comment | literal
  deriving DecidableEq, Repr, Inhabited

def rulesInitial : List Rule := [
  { code := some tCOMMENTBEG, re := .lit [47, 42], src := "\"/*\"" },
  { code := some tLITERALBEG, re := .seq (.opt reSP) (.lit [34]), src := "({SP}?\\\")" },
  { code := some tCOMMENT, re := .seq (.lit [47, 47]) (.star notNl), src := "\"//\".*" },
  { code := some tDIRECTIVE, bol := true, re := .seq (.star isSpTab) (.seq (.lit [35]) (.star notNl)),
    src := "^[ \\t]*#.*" },
  { code := some tINTEGER, re := reINTEGER, src := "{INTEGER}" },
  { code := some tHEXANUM, re := reHEXANUM, src := "{HEXANUM}" },
  { code := some tDOUBLE, re := reDOUBLE, src := "{DOUBLE}" },
  { code := some tFLOAT, re := reFLOAT, src := "{FLOAT}" },
  { code := some tSPACE, re := .star isWs, src := "{SPACE}" },
  { code := some Gen.TOKEN_ISEQUAL, re := .lit [61, 61], src := "\"==\"" },
  { code := some Gen.TOKEN_ISEQMORE, re := .lit [62, 61], src := "\">=\"" },
  { code := some Gen.TOKEN_ISEQLESS, re := .lit [60, 61], src := "\"<=\"" },
  { code := some Gen.TOKEN_ISNOTEQ, re := .lit [33, 61], src := "\"!=\"" },
  { code := some Gen.TOKEN_ISNOTEQ, re := .lit [60, 62], src := "\"<>\"" },
  { code := some Gen.TOKEN_ASSIGN, re := .lit [58, 61], src := "\":=\"" },
  { code := some Gen.TOKEN_POPLEFT, re := .lit [60, 60], src := "\"<<\"" },
  { code := some Gen.TOKEN_PUSHRIGHT, re := .lit [62, 62], src := "\">>\"" },
  { code := some Gen.TOKEN_INCREMENT, re := .lit [43, 43], src := "\"++\"" },
  { code := some Gen.TOKEN_DECREMENT, re := .lit [45, 45], src := "\"--\"" },
  { code := some Gen.TOKEN_POWER, re := .lit [42, 42], src := "\"**\"" },
  { code := some Gen.TOKEN_AND, re := .lit [38, 38], src := "\"&&\"" },
  { code := some Gen.TOKEN_OR, re := .lit [124, 124], src := "\"||\"" },
  { code := some tKEYWORD, re := reKEYWORD, src := "{KEYWORD}" },
  { code := none, re := .cls anyByte, src := ".|\\n" } ]

def rulesComment : List Rule := [
  { code := some tCOMMENTEND, re := .lit [42, 47], src := "<COMMENT>\"*/\"" },
  { code := some tCOMMENTSTR, re := .cls anyByte, src := "<COMMENT>.|\\n" } ]

/-- `<LITERAL>.|\n|"\\\\"|"\"\""|"\\\""`: one byte, or `\\`, or `""`, or `\"`. -/
def rulesLiteral : List Rule := [
  { code := some tLITERALEND, re := .lit [34], src := "<LITERAL>\"\\\"\"" },
  { code := some tLITERALSTR,
    re := .alt (.cls anyByte) (.alt (.lit [92, 92]) (.alt (.lit [34, 34]) (.lit [92, 34]))),
    src := "<LITERAL>.|\\n|\"\\\\\\\\\"|\"\\\"\\\"\"|\"\\\\\\\"\"" } ]

def rulesOf : St → List Rule
  | .initial => rulesInitial
  | .comment => rulesComment
  | .literal => rulesLiteral

/-- The rule patterns in file order, for the comparison with tokenizer.lex. -/
def ruleSources : List String :=
  -- file order interleaves the start conditions: /* , <COMMENT>…, ({SP}?\"), <LITERAL>…, the rest
  (rulesInitial.take 1 ++ rulesComment ++ (rulesInitial.drop 1).take 1 ++ rulesLiteral
    ++ rulesInitial.drop 2).map (·.src)

/-- What rule `r` offers at the head of `s`: the length of its longest non-empty match; an anchored
rule offers nothing unless the scanner is at the beginning of a line. -/
def cand (r : Rule) (bol : Bool) (s : Bytes) : Nat :=
  if r.bol && !bol then 0 else longest r.re s

/-- flex's choice: the longest match, and among matches of that length the rule listed first.
Result: (code of the chosen rule, length); length 0 = nothing matched. -/
def pick : List Rule → Bool → Bytes → Option Nat × Nat
  | [], _, _ => (none, 0)
  | r :: rs, bol, s =>
    if (pick rs bol s).2 ≤ cand r bol s ∧ 0 < cand r bol s then (r.code, cand r bol s) else pick rs bol s

/-- `yy_push_state` / `yy_pop_state` in the actions (pushes happen only from INITIAL, so the stack
is one deep and a pop returns to INITIAL). -/
def nextSt (st : St) (code : Option Nat) : St :=
  if code == some tCOMMENTBEG then .comment
  else if code == some tLITERALBEG then .literal
  else if code == some tCOMMENTEND || code == some tLITERALEND then .initial
  else st

structure Tok where
  code : Nat
  text : Bytes
  deriving DecidableEq, Repr, Inhabited

/-- What `yylex` returns for a match: the rule's code, or for the default rule the byte itself
(`(unsigned char) yytext[0]`), nothing when that byte is NUL. -/
def emit (code : Option Nat) (text : Bytes) : List Tok :=
  match code with
  | some c => [⟨c, text⟩]
  | none => match text with
    | b :: _ => if b == 0 then [] else [⟨b.toNat, text⟩]
    | [] => []

/-- `yy_at_bol` after a match. -/
def endsNl (text : Bytes) : Bool := text.getLast? == some 10

/-- Scan one buffer to its end: tokens and the start condition left behind. `fuel` bounds the
number of matches (every match consumes at least one byte: `lex` gives `s.length`). -/
def lexAll : Nat → St → Bool → Bytes → List Tok × St
  | 0, st, _, _ => ([], st)
  | _ + 1, st, _, [] => ([], st)
  | fuel + 1, st, bol, c :: t =>
    let m := pick (rulesOf st) bol (c :: t)
    if m.2 = 0 then ([], st) else
    let text := (c :: t).take m.2
    let r := lexAll fuel (nextSt st m.1) (endsNl text) ((c :: t).drop m.2)
    (emit m.1 text ++ r.1, r.2)

def lex (st : St) (bol : Bool) (s : Bytes) : List Tok × St := lexAll s.length st bol s

/-! ## Chunks: `tokenizer_buf` / `tokenizer_lex` -/

/-- `yy_scan_string`: the chunk up to its first NUL. -/
def truncNul : Bytes → Bytes
  | [] => []
  | c :: t => if c == 0 then [] else c :: truncNul t

/-- The token stream of a sequence of reader results. An empty result is end of input
(`tokenizer_buf` returns 0 when `n <= 0`); each chunk is scanned as a fresh buffer
(beginning-of-line set) in the start condition left by the previous one. -/
def lexChunksFrom : St → List Bytes → List Tok
  | _, [] => []
  | _, [] :: _ => []
  | st, (c :: t) :: cs =>
    let r := lex st true (truncNul (c :: t))
    r.1 ++ lexChunksFrom r.2 cs

def lexChunks (frags : List Bytes) : List Tok := lexChunksFrom .initial frags

/-! ## Parser side: `Parser::next_token` as seen through `Parser::pop` -/

/-- `keepNl`: the parser is not in state `Parsing` (interactive parser before a statement starts:
the newline token is handed to the caller). In state `Parsing` newlines are dropped. -/
def reasm (keepNl : Bool) : Bytes → List Tok → List Tok
  | _, [] => []
  | buf, t :: ts =>
    if t.code = 10 then (if keepNl then t :: reasm keepNl buf ts else reasm keepNl buf ts)
    else if t.code = tSPACE then reasm keepNl buf ts
    else if t.code = tLITERALBEG then reasm keepNl t.text ts
    else if t.code = tLITERALSTR then reasm keepNl (buf ++ t.text) ts
    else if t.code = tLITERALEND then ⟨tLITERALSTR, buf ++ t.text⟩ :: reasm keepNl (buf ++ t.text) ts
    else if t.code = tCOMMENTBEG then reasm keepNl t.text ts
    else if t.code = tCOMMENTSTR then reasm keepNl (buf ++ t.text) ts
    else if t.code = tCOMMENTEND then reasm keepNl (buf ++ t.text) ts
    else if t.code = tCOMMENT || t.code = tDIRECTIVE then reasm keepNl buf ts
    else t :: reasm keepNl buf ts

/-- The `(code, text)` stream `Parser::pop()` yields until end of input. -/
def popStream (keepNl : Bool) (frags : List Bytes) : List Tok := reasm keepNl [] (lexChunks frags)

/-! ## Readers -/

/-- The line discipline of `StringReader::read` / `ReadFile::read` on bytes that are stored:
a chunk ends right after a '\n' or when it holds `max` bytes. (`max = 0`: never by size.) -/
def lineSplitAux (max : Nat) : Bytes → Bytes → List Bytes
  | cur, [] => if cur.isEmpty then [] else [cur.reverse]
  | cur, c :: t =>
    if c == 10 || (c :: cur).length == max then (c :: cur).reverse :: lineSplitAux max [] t
    else lineSplitAux max (c :: cur) t

def lineSplit (max : Nat) (s : Bytes) : List Bytes := lineSplitAux max [] s

/-- "discard cr to fix source formated msdos": every byte 13 is skipped, wherever it stands. -/
def stripCr (s : Bytes) : Bytes := s.filter (· != 13)

/-- The library's readers, called with `maxsize = max` (1023 from `tokenizer_buf`). -/
def lineReader (max : Nat) (text : Bytes) : List Bytes := lineSplit max (stripCr text)

/-- Size of the scanner's buffer minus the terminator: what `tokenizer_buf` asks for. -/
def chunkMax : Nat := Gen.LEX_BUFFER - 1

/-- A stream reader that answers the k-th call with `sizes[k]` bytes (the last size repeats; an
empty list means "as much as asked"), never more than asked, at least one. -/
def fragSplit : Nat → List Nat → Nat → Bytes → List Bytes
  | 0, _, _, _ => []
  | _ + 1, _, _, [] => []
  | fuel + 1, sizes, last, c :: t =>
    let want := match sizes with
      | [] => last
      | n :: _ => n
    let w := Nat.max 1 (Nat.min want chunkMax)
    ((c :: t).take w) :: fragSplit fuel sizes.tail want ((c :: t).drop w)

def fragReader (sizes : List Nat) (text : Bytes) : List Bytes :=
  fragSplit text.length sizes chunkMax text

/-! ## Regions of the recorded findings (used by the driver and by the proofs) -/

def endsWithNl (c : Bytes) : Bool := c.getLast? == some 10

/-- Every chunk but the last ends right after a '\n'. -/
def aligned : List Bytes → Bool
  | [] => true
  | [_] => true
  | c :: cs => endsWithNl c && aligned cs

def noNul (s : Bytes) : Bool := s.all (· != 0)

/-- A byte 13 that is not followed by a byte 10. -/
def loneCr : Bytes → Bool
  | [] => false
  | [c] => c == 13
  | c :: d :: t => (c == 13 && d != 10) || loneCr (d :: t)

end BlocV.Lex
