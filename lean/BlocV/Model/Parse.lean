/-
  Model of the BLOC parser (C12): from the `(code, text)` token stream of `Parser::pop()` to a parse
  tree that keeps exactly what `unparse` needs.

  Transcribed from
    blocc/parse_expression.cpp   `ParseExpression::logic / relation / bitlogic / bitshift / sum / term /
                                 primary / factor / element / member` (precedence levels 9 … 1);
    blocc/expression_builtin.cpp + blocc/builtin/builtin_*.cpp  (`parse`: '(' args ')' with the arity
                                 each built-in accepts; the ten constants without parentheses);
    blocc/expression_functor.cpp, expression_variable.cpp, expression_item.cpp, expression_member.cpp,
    blocc/member/member_*.cpp    (member call, `set@N(x)`, item `@N`);
    blocc/value.cpp              `parseLiteral`, `parseInteger` (std::stoull !), `parseNumeric` (std::stod);
    blocc/parse_statement.cpp + every statement_*.cpp `parse`;
    blocc/parser.cpp             `Parser::parse` (separators skipped, statements until end of input).

  What is NOT modelled (and therefore which programs are in the domain): every *type* check of the
  C++ parser (`assertType`, `typeChecking`, symbol existence, function existence/arity, constness,
  `trace` needs a boolean, …) — that is Model/Typing.lean's business. The model accepts a superset of
  what the C++ accepts; C12 speaks about the programs the C++ accepts. `import`, `include` and module
  constructors / methods are left out (`eUnmodelled`).
  Because the type checks are left out, the order in which g++ evaluates constructor arguments
  (right to left: `new OpMULExpression(assertType(result,…), assertType(primary(),…))` parses the right
  operand BEFORE it checks the left one) does not show in this model: it only decides which of two
  errors is reported.

  Keywords are compared byte for byte (`strcmp`, `std::string::operator==`): `PRINT` is not a keyword.
  Names (variables, functions, parameters, exception names) are upper-cased by the parser (`::toupper`).

  All functions are total and fuelled (`eOOF` = out of fuel, never an error of the C++): fuel bounds the
  depth of the call tree, `tokens.length + …` always suffices for the driver.
-/
import BlocV.Model.Lex
import BlocV.Model.Num
import BlocV.Model.Strtod
import BlocV.Gen.Keywords

namespace BlocV.Parse
open BlocV

abbrev Tok := Lex.Tok

/-- bytes of an ASCII string (reduces in the kernel, unlike `String.toUTF8`). -/
def bytesOf (s : String) : Bytes := s.toList.map fun c => UInt8.ofNat c.toNat

/-! ## Parse trees -/

inductive POp
  | add | sub | mul | div | mod | exp | and | ior | xor | pop | pus
  | eq | ne | lt | le | gt | ge | matches | band | bior | bxor
  deriving DecidableEq, Repr, Inhabited

inductive PUn
  | neg | pos | not | bnot
  deriving DecidableEq, Repr, Inhabited

/-- Expression nodes. `enc` is the flag `enclosed(true)` sets on an *operator* node that was written
between parentheses; on every other node `enclosed(bool)` is a no-op, so `(x)` and `x` give the same tree. -/
inductive PExpr
  | int (v : Int64)                                   -- IntegerExpression
  | num (bits : UInt64)                               -- NumericExpression (IEEE bit pattern)
  | str (s : Bytes)                                   -- LiteralExpression
  | var (name : Bytes)                                -- VariableExpression (upper-cased name)
  | kw (name : Bytes)                                 -- null true false error phi pi ee ii (`on`/`off` become true/false)
  | call (name : Bytes) (args : List PExpr)           -- built-in function with parentheses
  | fcall (name : Bytes) (args : List PExpr)          -- FunctorExpression (upper-cased name)
  | member (e : PExpr) (name : Bytes) (args : List PExpr)   -- concat at put count delete insert
  | setm (e : PExpr) (no : Nat) (arg : PExpr)         -- e.set@no(arg)
  | item (e : PExpr) (no : Nat)                       -- e@no   (`no` as written, reduced mod 2^32)
  | un (op : PUn) (enc : Bool) (e : PExpr)
  | bin (op : POp) (enc : Bool) (a b : PExpr)
  deriving Repr, Inhabited

inductive PDir | auto | asc | desc
  deriving DecidableEq, Repr, Inhabited

/-- Statements. The END / END IF / END LOOP statements the C++ appends to the last clause are implicit.
Only LET and LETN can carry a chained statement (`chain_statement`). -/
inductive PStmt
  | nop | brk | cont
  | trace (e : PExpr)
  | ret (e : Option PExpr)
  | letS (name : Bytes) (e : PExpr) (next : Option PStmt)
  | letn (name : Bytes) (ty : Bytes) (next : Option PStmt)       -- ty: the type keyword as unparse prints it
  | print (args : List PExpr)
  | put (args : List PExpr)
  | doS (e : PExpr)
  | raise (name : Bytes)
  | ifS (rules : List (PExpr × List PStmt)) (els : Option (List PStmt))
  | whileS (c : PExpr) (body : List PStmt)
  | forS (v : Bytes) (b e : PExpr) (step : Option PExpr) (dir : PDir) (body : List PStmt)
  | forall (v : Bytes) (e : PExpr) (dir : PDir) (body : List PStmt)
  | begin (body : List PStmt) (catches : List (Bytes × List PStmt))
  | func (name : Bytes) (params : List (Bytes × Bytes)) (ret : Bytes) (body : List PStmt) (catches : List (Bytes × List PStmt))
  deriving Repr, Inhabited

/-! ## Results -/

/-- `Except code`: the numeric `EXC_PARSE_*` code, or one of the pseudo codes below. -/
abbrev PR := Except Nat

def eEOF : Nat := Gen.EXC_PARSE_EOF
/-- out of fuel (not an outcome of the C++) -/
def eOOF : Nat := 9999
/-- an exception that is not a ParseError escapes (`std::stoul` on `@99999999999999999999`) -/
def eForeign : Nat := 9998
/-- construct left out of this model (import, include) -/
def eUnmodelled : Nat := 9997

/-! ## Token codes -/

def cINT := Gen.TOKEN_INTEGER
def cHEX := Gen.TOKEN_HEXANUM
def cDBL := Gen.TOKEN_DOUBLE
def cFLT := Gen.TOKEN_FLOAT
def cKW := Gen.TOKEN_KEYWORD
def cSTR := Gen.TOKEN_LITERALSTR
def cLP : Nat := 40      -- (
def cRP : Nat := 41      -- )
def cCOMMA : Nat := 44   -- Parser::Chain
def cSEMI : Nat := 59    -- Parser::Separator
def cCOLON : Nat := 58   -- Parser::Colon
def cDOT : Nat := 46     -- MemberExpression::OPERATOR
def cAT : Nat := 64      -- ItemExpression::OPERATOR
def cEQ : Nat := 61

def kw (s : String) : Tok := ⟨cKW, bytesOf s⟩
def ch (c : Nat) : Tok := ⟨c, [UInt8.ofNat c]⟩

def isKw (t : Tok) (s : String) : Bool := t.code == cKW && t.text == bytesOf s

/-! ## Operators: which token is which operator at which precedence level -/

/-- The binary operator a token denotes at level `L` (9 logic, 8 relation, 7 bitlogic, 6 bitshift,
5 sum, 4 term, 2 factor). -/
def opAt (L : Nat) (t : Tok) : Option POp :=
  if L == 9 then
    if t.code == cKW then
      if t.text == bytesOf "and" then some .band
      else if t.text == bytesOf "or" then some .bior
      else if t.text == bytesOf "xor" then some .bxor
      else none
    else if t.code == Gen.TOKEN_AND then some .band
    else if t.code == Gen.TOKEN_OR then some .bior
    else none
  else if L == 8 then
    if t.code == Gen.TOKEN_ISNOTEQ then some .ne
    else if t.code == Gen.TOKEN_ISEQUAL then some .eq
    else if t.code == Gen.TOKEN_ISEQLESS then some .le
    else if t.code == 60 then some .lt
    else if t.code == Gen.TOKEN_ISEQMORE then some .ge
    else if t.code == 62 then some .gt
    else if t.code == cKW && t.text == bytesOf "matches" then some .matches
    else none
  else if L == 7 then
    if t.code == 38 then some .and else if t.code == 124 then some .ior else if t.code == 94 then some .xor else none
  else if L == 6 then
    if t.code == Gen.TOKEN_POPLEFT then some .pop else if t.code == Gen.TOKEN_PUSHRIGHT then some .pus else none
  else if L == 5 then
    if t.code == 43 then some .add else if t.code == 45 then some .sub else none
  else if L == 4 then
    if t.code == 42 then some .mul else if t.code == 47 then some .div else if t.code == 37 then some .mod else none
  else if L == 2 then
    if (t.code == cKW && t.text == bytesOf "power") || t.code == Gen.TOKEN_POWER then some .exp else none
  else none

/-- `ParseExpression::primary`: the prefix operators. -/
def unAt (t : Tok) : Option PUn :=
  if t.code == cKW && t.text == bytesOf "not" then some .bnot
  else if t.code == 33 then some .bnot
  else if t.code == 126 then some .not
  else if t.code == 45 then some .neg
  else if t.code == 43 then some .pos
  else none

def lvlOf : POp → Nat
  | .band | .bior | .bxor => 9
  | .eq | .ne | .lt | .le | .gt | .ge | .matches => 8
  | .and | .ior | .xor => 7
  | .pop | .pus => 6
  | .add | .sub => 5
  | .mul | .div | .mod => 4
  | .exp => 2

/-- `Expression::enclosed(true)`: only operator nodes remember it. -/
def setEnc : PExpr → PExpr
  | .un op _ e => .un op true e
  | .bin op _ a b => .bin op true a b
  | e => e

/-! ## Literals (value.cpp) -/

/-- `::toupper` in the C locale, byte by byte. -/
def upperB (c : UInt8) : UInt8 := if 97 ≤ c && c ≤ 122 then c - 32 else c
def upper (s : Bytes) : Bytes := s.map upperB

/-- The body of the loop of `Value::parseLiteral`: `bs` = the opening quote was seen, `pc` = the
pending byte (0 = none — which is why a NUL byte can never be part of a literal). The output is
produced in order; the last pending byte (the closing quote) is dropped at the end. -/
def plGo : Bool → UInt8 → Bytes → Bytes
  | _, _, [] => []
  | false, pc, c :: t => plGo (c == 34) pc t
  | true, pc, c :: t =>
    if pc == 92 then
      if c == 97 then 7 :: plGo true 0 t
      else if c == 98 then 8 :: plGo true 0 t
      else if c == 102 then 12 :: plGo true 0 t
      else if c == 110 then 10 :: plGo true 0 t
      else if c == 114 then 13 :: plGo true 0 t
      else if c == 116 then 9 :: plGo true 0 t
      else if c == 92 then 92 :: plGo true 0 t
      else if c == 34 then 34 :: plGo true 0 t
      else plGo true c t                      -- unknown escape: the backslash is dropped
    else if pc == 34 && c == 34 then 34 :: plGo true 0 t     -- doubled quote
    else if pc != 0 then pc :: plGo true c t
    else plGo true c t

/-- `Value::parseLiteral(text)`; `text` is the whole token, quotes (and prefix u8/u/U/L) included. -/
def parseLiteral (text : Bytes) : Bytes := plGo false 0 text

def digitVal (c : UInt8) : Option Nat :=
  if 48 ≤ c && c ≤ 57 then some (c.toNat - 48)
  else if 97 ≤ c && c ≤ 102 then some (c.toNat - 87)
  else if 65 ≤ c && c ≤ 70 then some (c.toNat - 55)
  else none

/-- value of a digit string in `base` (all bytes are digits of the base: guaranteed by the scanner). -/
def natOfDigits (base : Nat) (ds : Bytes) : Nat :=
  ds.foldl (fun n c => n * base + (digitVal c).getD 0) 0

/-- `Value::parseInteger` = `Integer(std::stoull(text, nullptr, base))`: UNSIGNED conversion, then
the implicit conversion to `int64_t`; `std::out_of_range` only from 2^64 on. So `9223372036854775808`
is accepted and is the integer −2^63, `18446744073709551615` is −1. -/
def parseInteger (ds : Bytes) (base : Nat) : Option Int64 :=
  let n := natOfDigits base ds
  if n < 2 ^ 64 then some (Int64.ofNat n) else none

def parseDec (text : Bytes) : Option Int64 := parseInteger text 10
/-- `0x…` / `0X…`: stoull skips the prefix. -/
def parseHex (text : Bytes) : Option Int64 := parseInteger (text.drop 2) 16

/-- `roundHalfEven (num / den)`. -/
def rhe (num den : Nat) : Nat :=
  let q := num / den
  let r := num % den
  if 2 * r < den then q else if 2 * r > den then q + 1 else if q % 2 == 0 then q else q + 1

/-- `strtod` on the exact positive rational `num / den` (round to nearest, ties to even), as glibc
does it; `none` = ERANGE (overflow, or a subnormal/zero result that is not exact), which `std::stod`
turns into `std::out_of_range`. -/
def strtodPos (num den : Nat) : Option UInt64 :=
  if num == 0 then some 0 else
  -- l = floor(log2 (num/den))
  let l0 : Int := (Nat.log2 num : Int) - (Nat.log2 den : Int)
  let ge (x : Int) : Bool := if x ≥ 0 then num ≥ den * 2 ^ x.toNat else num * 2 ^ (-x).toNat ≥ den
  let l : Int := if ge (l0 + 1) then l0 + 1 else if ge l0 then l0 else l0 - 1
  let e0 : Int := l - 52
  let e : Int := if e0 < -1074 then -1074 else e0
  let q0 : Nat := if e ≥ 0 then rhe num (den * 2 ^ e.toNat) else rhe (num * 2 ^ (-e).toNat) den
  let exact : Bool := if e ≥ 0 then q0 * (den * 2 ^ e.toNat) == num else q0 * den == num * 2 ^ (-e).toNat
  let (q, e) := if q0 == 2 ^ 53 then (2 ^ 52, e + 1) else (q0, e)
  if q < 2 ^ 52 then
    -- subnormal (or zero): ERANGE unless exact
    if exact && q != 0 then some (UInt64.ofNat q) else none
  else
    let biased : Int := e + 1075
    if biased ≥ 2047 then none
    else some (UInt64.ofNat (biased.toNat * 2 ^ 52 + (q - 2 ^ 52)))

/-- Split a DOUBLE / FLOAT token `digits [. digits] [e [+-] digits]` into (mantissa digits without
the dot, number of fraction digits, exponent). -/
def splitNum (text : Bytes) : Bytes × Nat × Int :=
  let ip := text.takeWhile (fun c => 48 ≤ c && c ≤ 57)
  let r1 := text.drop ip.length
  let (fp, r2) := match r1 with
    | 46 :: r => (r.takeWhile (fun c => 48 ≤ c && c ≤ 57), r.drop (r.takeWhile (fun c => 48 ≤ c && c ≤ 57)).length)
    | _ => ([], r1)
  let ex : Int := match r2 with
    | _ :: 45 :: ds => -((natOfDigits 10 ds : Nat) : Int)
    | _ :: 43 :: ds => (natOfDigits 10 ds : Nat)
    | _ :: ds => (natOfDigits 10 ds : Nat)
    | [] => 0
  (ip ++ fp, fp.length, ex)

/-- The first model of the literal reader (`splitNum` + `strtodPos`), kept under its own name: it differs from
`std::stod` in the window just below DBL_MIN (`2.22507385850720119781e-308` rounds to 2^-1022 but is TINY AFTER
ROUNDING and inexact, so glibc sets ERANGE and `std::stod` throws; `strtodPos` answered 2^-1022). -/
def parseNumericOld (text : Bytes) : Option UInt64 :=
  let (ms, k, ex) := splitNum text
  let m := natOfDigits 10 ms
  let p : Int := ex - k
  if p ≥ 0 then strtodPos (m * 10 ^ p.toNat) 1 else strtodPos m (10 ^ (-p).toNat)

/-- `Value::parseNumeric` = `Numeric(std::stod(text))` on a DOUBLE / FLOAT token (value.cpp:585; the caller,
parse_expression.cpp:174, turns `std::out_of_range` into EXC_PARSE_OUT_OF_RANGE). `std::stod` is the exact model of
Model/Strtod.lean (glibc's correctly rounded conversion with its ERANGE rule: overflow, or tiny after rounding and
inexact); a token always starts with a digit or `.digit`, so `invalid` cannot happen (mapped to `none` as well). -/
def parseNumeric (text : Bytes) : Option UInt64 :=
  match Strtod.stod text with
  | .val b => some b
  | _ => none

/-! ## Keyword tables -/

def builtinKws : List Bytes := Gen.builtinKeywords.map bytesOf
def stmtKws : List Bytes := Gen.stmtKeywords.map bytesOf
def isBuiltinKw (s : Bytes) : Bool := builtinKws.contains s
def isStmtKw (s : Bytes) : Bool := stmtKws.contains s
/-- `Parser::reservedKeyword` (module type names are left out). -/
def reserved (s : Bytes) : Bool := isStmtKw s || isBuiltinKw s

/-- The built-ins written without parentheses, with the keyword their node unparses as. -/
def constKw (s : Bytes) : Option Bytes :=
  if s == bytesOf "null" then some (bytesOf "null")
  else if s == bytesOf "true" || s == bytesOf "on" then some (bytesOf "true")
  else if s == bytesOf "false" || s == bytesOf "off" then some (bytesOf "false")
  else if s == bytesOf "error" then some (bytesOf "error")
  else if s == bytesOf "phi" then some (bytesOf "phi")
  else if s == bytesOf "pi" then some (bytesOf "pi")
  else if s == bytesOf "ee" then some (bytesOf "ee")
  else if s == bytesOf "ii" then some (bytesOf "ii")
  else none

/-- (min, max) number of arguments the `parse` of a built-in accepts (`none` = unbounded);
`tab` accepts 0 or 2. Read off builtin_*.cpp (the regular ones agree with `Gen.builtinSigs`). -/
def builtinArity : List (String × Nat × Option Nat) := [
  ("max", 2, some 2), ("min", 2, some 2), ("floor", 1, some 1), ("abs", 1, some 1), ("sign", 1, some 1),
  ("str", 0, some 1), ("num", 0, some 1), ("ceil", 1, some 1), ("round", 1, some 2), ("sin", 1, some 1),
  ("cos", 1, some 1), ("tan", 1, some 1), ("atan", 1, some 1), ("int", 0, some 1), ("pow", 2, some 2),
  ("sqrt", 1, some 1), ("log", 1, some 1), ("exp", 1, some 1), ("log10", 1, some 1), ("mod", 2, some 2),
  ("asin", 1, some 1), ("acos", 1, some 1), ("sinh", 1, some 1), ("cosh", 1, some 1), ("tanh", 1, some 1),
  ("clamp", 3, some 3), ("isnull", 1, some 1), ("atan2", 2, some 2), ("hex", 1, some 2), ("read", 1, some 2),
  ("readln", 1, some 1), ("isnum", 1, some 1), ("raw", 0, some 2), ("tab", 0, some 2), ("tup", 0, none),
  ("getsys", 1, some 1), ("getenv", 1, some 1), ("random", 0, some 1), ("bool", 0, some 1), ("input", 1, some 2),
  ("lsubstr", 2, some 2), ("rsubstr", 2, some 2), ("substr", 2, some 3), ("chr", 1, some 1), ("strlen", 1, some 1),
  ("ltrim", 1, some 1), ("rtrim", 1, some 1), ("trim", 1, some 1), ("upper", 1, some 1), ("lower", 1, some 1),
  ("strpos", 2, some 3), ("replace", 3, some 3), ("subraw", 2, some 3), ("hash", 1, some 2), ("imag", 1, some 1),
  ("iphase", 1, some 1), ("iconj", 1, some 1), ("tokenize", 2, some 3), ("b64enc", 1, some 1), ("b64dec", 1, some 1),
  ("typeof", 1, some 1)]

def arityOk (name : Bytes) (n : Nat) : Bool :=
  match builtinArity.find? (fun e => bytesOf e.1 == name) with
  | some (_, lo, hi) =>
    lo ≤ n && (match hi with | some h => n ≤ h | none => true) && !(name == bytesOf "tab" && n == 1)
  | none => false

/-- Members of MemberExpression::KEYWORDS with the number of arguments their `parse` takes (`set` apart). -/
def memberArity : List (String × Nat) :=
  [("concat", 1), ("at", 1), ("put", 2), ("count", 0), ("delete", 1), ("insert", 2)]

/-- The type keywords accepted after `:` and `return` (intrinsic_type.h `typeName` / `nameType`, plus `table`). -/
def typeKws : List Bytes := ["undefined", "boolean", "integer", "decimal", "string", "object", "bytes", "tuple",
  "pointer", "complex", "table"].map bytesOf

/-! ## Expressions -/

mutual
  /-- `ParseExpression::logic()` is `pLevel fuel 9`; level 1 is `element()`. -/
  def pLevel : Nat → Nat → List Tok → PR (PExpr × List Tok)
    | 0, _, _ => .error eOOF
    | f + 1, L, ts =>
      if L == 1 then pElem f ts
      else if L == 3 then
        -- primary(): one optional prefix operator; its operand is factor(), not primary()
        match ts with
        | [] => .error eEOF
        | t :: ts1 =>
          match unAt t with
          | some op => do
            let (x, ts2) ← pLevel f 2 ts1
            pure (.un op false x, ts2)
          | none => pLevel f 2 ts
      else if L == 2 then do
        -- factor(): element [ ** factor ]   (right to left)
        let (a, ts1) ← pLevel f 1 ts
        match ts1 with
        | [] => .error eEOF
        | t :: ts2 =>
          match opAt 2 t with
          | some op => do
            let (b, ts3) ← pLevel f 2 ts2
            pure (.bin op false a b, ts3)
          | none => pure (a, ts1)
      else if L == 8 then do
        -- relation(): bitlogic [ relop bitlogic ]   (not recursive)
        let (a, ts1) ← pLevel f 7 ts
        match ts1 with
        | [] => .error eEOF
        | t :: ts2 =>
          match opAt 8 t with
          | some op => do
            let (b, ts3) ← pLevel f 7 ts2
            pure (.bin op false a b, ts3)
          | none => pure (a, ts1)
      else do
        -- logic / bitlogic / bitshift / sum / term: next level, then the left-to-right loop
        let (a, ts1) ← pLevel f (L - 1) ts
        pLoop f L a ts1

  /-- The `while (!done)` loop of the five left-associative levels. -/
  def pLoop : Nat → Nat → PExpr → List Tok → PR (PExpr × List Tok)
    | 0, _, _, _ => .error eOOF
    | f + 1, L, acc, ts =>
      match ts with
      | [] => .error eEOF
      | t :: ts1 =>
        match opAt L t with
        | some op => do
          let (b, ts2) ← pLevel f (L - 1) ts1
          pLoop f L (.bin op false acc b) ts2
        | none => pure (acc, ts)

  /-- `ParseExpression::element()`. -/
  def pElem : Nat → List Tok → PR (PExpr × List Tok)
    | 0, _ => .error eOOF
    | f + 1, ts =>
      match ts with
      | [] => .error eEOF
      | t :: ts1 =>
        if t.code == cINT then
          match parseDec t.text with
          | some v => pure (.int v, ts1)
          | none => .error Gen.EXC_PARSE_OUT_OF_RANGE
        else if t.code == cHEX then
          match parseHex t.text with
          | some v => pure (.int v, ts1)
          | none => .error Gen.EXC_PARSE_OUT_OF_RANGE
        else if t.code == cDBL || t.code == cFLT then
          match parseNumeric t.text with
          | some d => pure (.num d, ts1)
          | none => .error Gen.EXC_PARSE_OUT_OF_RANGE
        else if t.code == cSTR then pMember f (.str (parseLiteral t.text)) ts1
        else if t.code == cKW then
          if isBuiltinKw t.text then
            match constKw t.text with
            | some k => pMember f (.kw k) ts1
            | none =>
              -- every builtin_*.cpp `parse`: '(' [expr {, expr}] ')' with its own arity
              match ts1 with
              | [] => .error eEOF
              | t2 :: ts2 =>
                if t2.code != cLP then .error Gen.EXC_PARSE_FUNC_ARG_NUM_S else
                match ts2 with
                | [] => .error eEOF
                | t3 :: ts3 =>
                  if t3.code == cRP then
                    if arityOk t.text 0 then pMember f (.call t.text []) ts3 else .error Gen.EXC_PARSE_UNEXPECTED_LEX_S
                  else do
                    let (args, ts4) ← pArgs f ts2
                    if arityOk t.text args.length then pMember f (.call t.text args) ts4
                    else .error Gen.EXC_PARSE_FUNC_ARG_NUM_S
          else
            match ts1 with
            | [] => .error eEOF                   -- `p.front()` at the end of the input
            | t2 :: ts2 =>
              if t2.code == cLP then
                -- FunctorExpression::parse
                match ts2 with
                | [] => .error eEOF
                | t3 :: ts3 =>
                  if t3.code == cRP then pMember f (.fcall (upper t.text) []) ts3
                  else do
                    let (args, ts4) ← pArgs f ts2
                    pMember f (.fcall (upper t.text) args) ts4
              else pMember f (.var (upper t.text)) ts1
        else if t.code == cLP then do
          let (e, ts2) ← pLevel f 9 ts1
          match ts2 with
          | [] => .error eEOF
          | t3 :: ts3 =>
            if t3.code != cRP then .error Gen.EXC_PARSE_MM_PARENTHESIS
            else pMember f (setEnc e) ts3
        else .error Gen.EXC_PARSE_UNEXPECTED_LEX_S

  /-- `expr {, expr} )` — at least one expression; consumes the closing parenthesis. -/
  def pArgs : Nat → List Tok → PR (List PExpr × List Tok)
    | 0, _ => .error eOOF
    | f + 1, ts => do
      let (e, ts1) ← pLevel f 9 ts
      match ts1 with
      | [] => .error eEOF
      | t :: ts2 =>
        if t.code == cCOMMA then do
          let (es, ts3) ← pArgs f ts2
          pure (e :: es, ts3)
        else if t.code == cRP then pure ([e], ts2)
        else .error Gen.EXC_PARSE_EXPRESSION_END_S

  /-- `ParseExpression::member(exp)`: any number of `.name(args)` / `.set@N(arg)` / `@N`. -/
  def pMember : Nat → PExpr → List Tok → PR (PExpr × List Tok)
    | 0, _, _ => .error eOOF
    | f + 1, e, ts =>
      match ts with
      | [] => .error eEOF
      | t :: ts1 =>
        if t.code == cDOT then
          match ts1 with
          | [] => .error eEOF
          | k :: ts2 =>
            if k.text == bytesOf "set" then
              match ts2 with
              | a :: n :: lp :: ts3 =>
                if a.code != cAT || n.code != cINT || lp.code != cLP then .error Gen.EXC_PARSE_BAD_MEMB_CALL_S
                else if natOfDigits 10 n.text ≥ 2 ^ 32 then .error Gen.EXC_PARSE_OUT_OF_INDICE   -- repo 7b31e38: beyond UINT_MAX (std::out_of_range of std::stoul included) is a parse error; the `% 2 ^ 32` below is the identity
                else do
                  let (x, ts4) ← pLevel f 9 ts3
                  match ts4 with
                  | [] => .error eEOF
                  | rp :: ts5 =>
                    if rp.code != cRP then .error Gen.EXC_PARSE_MEMB_ARG_NUM_S
                    else pMember f (.setm e (natOfDigits 10 n.text % 2 ^ 32) x) ts5
              | _ => .error Gen.EXC_PARSE_BAD_MEMB_CALL_S
            else
              match memberArity.find? (fun m => bytesOf m.1 == k.text) with
              | none => .error Gen.EXC_PARSE_MEMB_NOT_IMPL_S
              | some (_, ar) =>
                match ts2 with
                | [] => .error eEOF
                | lp :: ts3 =>
                  if lp.code != cLP then .error Gen.EXC_PARSE_BAD_MEMB_CALL_S else
                  match ts3 with
                  | [] => .error eEOF
                  | t3 :: ts4 =>
                    if t3.code == cRP then
                      if ar == 0 then pMember f (.member e k.text []) ts4 else .error Gen.EXC_PARSE_UNEXPECTED_LEX_S
                    else do
                      let (args, ts5) ← pArgs f ts3
                      if args.length == ar then pMember f (.member e k.text args) ts5
                      else .error Gen.EXC_PARSE_MEMB_ARG_NUM_S
        else if t.code == cAT then
          match ts1 with
          | [] => .error eEOF
          | n :: ts2 =>
            if n.code != cINT then .error Gen.EXC_PARSE_INV_EXPRESSION
            else if natOfDigits 10 n.text ≥ 2 ^ 32 then .error Gen.EXC_PARSE_OUT_OF_INDICE   -- repo 7b31e38: beyond UINT_MAX (std::out_of_range of std::stoul included) is a parse error; the `% 2 ^ 32` below is the identity
            else pMember f (.item e (natOfDigits 10 n.text % 2 ^ 32)) ts2
        else pure (e, ts)
end

/-- `ParseExpression::expression`. -/
def pExpr (fuel : Nat) (ts : List Tok) : PR (PExpr × List Tok) := pLevel fuel 9 ts

/-! ## Statements -/

/-- pop one token that must be the keyword `s` (error `code` otherwise). -/
def expectKw (s : String) (code : Nat) : List Tok → PR (List Tok)
  | [] => .error eEOF
  | t :: ts => if isKw t s then pure ts else .error code

/-- `beyond_statement`: the separator. -/
def beyond : List Tok → PR (List Tok)
  | [] => .error eEOF
  | t :: ts =>
    if t.code == cRP then .error Gen.EXC_PARSE_MM_PARENTHESIS
    else if t.code != cSEMI then .error Gen.EXC_PARSE_STATEMENT_END_S
    else pure ts

/-- a name token that is not a reserved word, upper-cased -/
def popName (codeNotKw : Nat) : List Tok → PR (Bytes × List Tok)
  | [] => .error eEOF
  | t :: ts =>
    if t.code != cKW then .error codeNotKw
    else if reserved t.text then .error Gen.EXC_PARSE_RESERVED_WORD_S
    else pure (upper t.text, ts)

/-- a type keyword as `unparse` will print it (`undefined` parameters print nothing: `[]`) -/
def popType : List Tok → PR (Bytes × List Tok)
  | [] => .error eEOF
  | t :: ts =>
    if t.code != cKW then .error Gen.EXC_PARSE_UNEXPECTED_LEX_S
    else if typeKws.contains t.text then pure (t.text, ts)
    else .error Gen.EXC_PARSE_UNDEFINED_SYMBOL_S

/-- optional `asc` / `desc` -/
def popDir : List Tok → PDir × List Tok
  | t :: ts => if isKw t "asc" then (.asc, ts) else if isKw t "desc" then (.desc, ts) else (.auto, t :: ts)
  | [] => (.auto, [])

/-- parameters of a function after `(`: `name[:type] {, name[:type]} )` -/
def pParams : Nat → List Tok → PR (List (Bytes × Bytes) × List Tok)
  | 0, _ => .error eOOF
  | f + 1, ts =>
    match ts with
    | [] => .error eEOF
    | t :: ts1 =>
      if t.code != cKW then .error Gen.EXC_PARSE_UNEXPECTED_LEX_S else
      let name := upper t.text
      let cont (ty : Bytes) (rest : List Tok) : PR (List (Bytes × Bytes) × List Tok) :=
        match rest with
        | [] => .error eEOF
        | t2 :: ts2 =>
          if t2.code == cCOMMA then do
            let (ps, ts3) ← pParams f ts2
            pure ((name, ty) :: ps, ts3)
          else if t2.code == cRP then pure ([(name, ty)], ts2)
          else .error Gen.EXC_PARSE_MM_PARENTHESIS
      match ts1 with
      | [] => .error eEOF
      | c :: ts2 =>
        if c.code == cCOLON then do
          let (ty, ts3) ← popType ts2
          cont (if ty == bytesOf "undefined" then [] else ty) ts3
        else cont [] ts1

/-- after `end` of a loop: `loop` `;` -/
def pEndLoop : List Tok → PR (List Tok)
  | _ :: l :: s :: ts =>
    if l.text != bytesOf "loop" then .error Gen.EXC_PARSE_OTHER_S
    else if s.code != cSEMI then .error Gen.EXC_PARSE_STATEMENT_END_S
    else pure ts
  | _ => .error eEOF

/-- after `end` of an IF: `if` `;` -/
def pEndIf : List Tok → PR (List Tok)
  | l :: s :: ts =>
    if l.text != bytesOf "if" then .error Gen.EXC_PARSE_OTHER_S
    else if s.code != cSEMI then .error Gen.EXC_PARSE_STATEMENT_END_S
    else pure ts
  | _ => .error eEOF

/-- after `end` of a BEGIN block: `;` ("Extra input beyond END keyword" otherwise) -/
def pEndBlock : List Tok → PR (List Tok)
  | s :: ts => if s.code != cSEMI then .error Gen.EXC_PARSE_OTHER_S else pure ts
  | [] => .error eEOF

mutual
  /-- `ParseStatement::parse`. `nested` = `ctx.execLevel() > 0` (inside any block, also inside a
  function body). Result `none` = a lone separator. -/
  def pStmt : Nat → Bool → List Tok → PR (Option PStmt × List Tok)
    | 0, _, _ => .error eOOF
    | f + 1, nested, ts =>
      match ts with
      | [] => .error eEOF
      | t :: ts1 =>
        if t.code == cSEMI then pure (none, ts1)
        else if t.code != cKW then .error Gen.EXC_PARSE_NOT_A_STATEMENT
        else if isStmtKw t.text then
          if isKw t "nop" then do let r ← beyond ts1; pure (some .nop, r)
          else if isKw t "break" then do let r ← beyond ts1; pure (some .brk, r)
          else if isKw t "continue" then do let r ← beyond ts1; pure (some .cont, r)
          else if isKw t "trace" then do
            let (e, ts2) ← pExpr f ts1
            let r ← beyond ts2
            pure (some (.trace e), r)
          else if isKw t "return" then
            match ts1 with
            | [] => .error eEOF
            | t2 :: _ =>
              if t2.code == cSEMI then do let r ← beyond ts1; pure (some (.ret none), r)
              else do
                let (e, ts2) ← pExpr f ts1
                let r ← beyond ts2
                pure (some (.ret (some e)), r)
          else if isKw t "let" then pLet f nested ts1
          else if isKw t "print" then do
            let (args, ts2) ← pItems f ts1
            let r ← beyond ts2
            pure (some (.print args), r)
          else if isKw t "put" then do
            let (args, ts2) ← pItems f ts1
            let r ← beyond ts2
            pure (some (.put args), r)
          else if isKw t "do" then do
            let (e, ts2) ← pExpr f ts1
            let r ← beyond ts2
            pure (some (.doS e), r)
          else if isKw t "raise" then do
            let (n, ts2) ← popName Gen.EXC_PARSE_UNEXPECTED_LEX_S ts1
            let r ← beyond ts2
            pure (some (.raise n), r)
          else if isKw t "if" then do
            let (s, r) ← pIf f ts1
            pure (some s, r)
          else if isKw t "while" then do
            let (c, ts2) ← pExpr f ts1
            match ts2 with
            | [] => .error eEOF
            | t2 :: ts3 =>
              if t2.code == cRP then .error Gen.EXC_PARSE_MM_PARENTHESIS
              else if !isKw t2 "loop" then .error Gen.EXC_PARSE_OTHER_S
              else do
                let (body, ts4) ← pBlock f [bytesOf "end"] true ts3
                let ts5 ← pEndLoop ts4
                pure (some (.whileS c body), ts5)
          else if isKw t "for" then do
            let (v, ts2) ← popName Gen.EXC_PARSE_OTHER_S ts1
            let ts3 ← expectKw "in" Gen.EXC_PARSE_OTHER_S ts2
            let (b, ts4) ← pExpr f ts3
            match ts4 with
            | [] => .error eEOF
            | t4 :: ts5 =>
              if t4.code == cRP then .error Gen.EXC_PARSE_MM_PARENTHESIS
              else if !isKw t4 "to" then .error Gen.EXC_PARSE_OTHER_S
              else do
                let (e, ts6) ← pExpr f ts5
                match ts6 with
                | [] => .error eEOF
                | t6 :: ts7 =>
                  if t6.code == cRP then .error Gen.EXC_PARSE_MM_PARENTHESIS else do
                  let (step, ts8) ← (if isKw t6 "step" then do
                      let (s, r) ← pExpr f ts7
                      pure (some s, r)
                    else pure (none, ts6) : PR (Option PExpr × List Tok))
                  match ts8 with
                  | [] => .error eEOF
                  | t8 :: _ =>
                    if t8.code == cRP then .error Gen.EXC_PARSE_MM_PARENTHESIS else
                    let (dir, ts9) := popDir ts8
                    match ts9 with
                    | [] => .error eEOF
                    | t9 :: ts10 =>
                      if !isKw t9 "loop" then .error Gen.EXC_PARSE_OTHER_S else do
                      let (body, ts11) ← pBlock f [bytesOf "end"] true ts10
                      let ts12 ← pEndLoop ts11
                      pure (some (.forS v b e step dir body), ts12)
          else if isKw t "forall" then do
            let (v, ts2) ← popName Gen.EXC_PARSE_OTHER_S ts1
            let ts3 ← expectKw "in" Gen.EXC_PARSE_OTHER_S ts2
            let (e, ts4) ← pExpr f ts3
            match ts4 with
            | [] => .error eEOF
            | t4 :: _ =>
              if t4.code == cRP then .error Gen.EXC_PARSE_MM_PARENTHESIS else
              let (dir, ts5) := popDir ts4
              match ts5 with
              | [] => .error eEOF
              | t5 :: ts6 =>
                if !isKw t5 "loop" then .error Gen.EXC_PARSE_OTHER_S else do
                let (body, ts7) ← pBlock f [bytesOf "end"] true ts6
                let ts8 ← pEndLoop ts7
                pure (some (.forall v e dir body), ts8)
          else if isKw t "begin" then do
            let ((body, catches), r) ← pBegin f ts1
            pure (some (.begin body catches), r)
          else if isKw t "function" then
            if nested then .error Gen.EXC_PARSE_OTHER_S else do
            let (name, ts2) ← popName Gen.EXC_PARSE_OTHER_S ts1
            match ts2 with
            | [] => .error eEOF
            | t2 :: ts3 => do
              let (params, ts4) ← (if t2.code == cLP then
                  match ts3 with
                  | [] => .error eEOF
                  | t3 :: ts3' => if t3.code == cRP then pure ([], ts3') else pParams f ts3
                else pure ([], ts2) : PR (List (Bytes × Bytes) × List Tok))
              let ts5 ← expectKw "return" Gen.EXC_PARSE_OTHER_S ts4
              let (rt, ts6) ← popType ts5
              let ts7 ← expectKw "is" Gen.EXC_PARSE_OTHER_S ts6
              let ts8 ← expectKw "begin" Gen.EXC_PARSE_OTHER_S ts7
              let ((body, catches), r) ← pBegin f ts8
              pure (some (.func name params rt body catches), r)
          else if isKw t "import" || isKw t "include" then .error eUnmodelled
          else .error Gen.EXC_PARSE_NOT_A_STATEMENT          -- then else elsif loop in to end …
        else
          match ts1 with
          | [] => .error eEOF
          | t2 :: _ =>
            if t2.code == cEQ || t2.code == Gen.TOKEN_ASSIGN then pLet f nested ts
            else if t2.code == cCOLON then pLetn f nested ts
            else do
              let (e, ts2) ← pExpr f ts
              let r ← beyond ts2
              pure (some (.doS e), r)

  /-- `LETStatement::parse` + `chain_statement`. -/
  def pLet : Nat → Bool → List Tok → PR (Option PStmt × List Tok)
    | 0, _, _ => .error eOOF
    | f + 1, nested, ts => do
      let (name, ts1) ← popName Gen.EXC_PARSE_NOT_A_STATEMENT ts
      match ts1 with
      | [] => .error eEOF
      | t :: ts2 =>
        if !(t.code == cEQ || t.code == Gen.TOKEN_ASSIGN) then .error Gen.EXC_PARSE_NOT_A_STATEMENT else do
        let (e, ts3) ← pExpr f ts2
        match ts3 with
        | [] => .error eEOF
        | t3 :: ts4 =>
          if t3.code == cCOMMA then do
            let (nx, r) ← pStmt f nested ts4
            pure (some (.letS name e nx), r)
          else do
            let r ← beyond ts3
            pure (some (.letS name e none), r)

  /-- `LETNStatement::parse` + `chain_statement`. -/
  def pLetn : Nat → Bool → List Tok → PR (Option PStmt × List Tok)
    | 0, _, _ => .error eOOF
    | f + 1, nested, ts => do
      let (name, ts1) ← popName Gen.EXC_PARSE_NOT_A_STATEMENT ts
      match ts1 with
      | [] => .error eEOF
      | t :: ts2 =>
        if t.code != cCOLON then .error Gen.EXC_PARSE_NOT_A_STATEMENT else do
        let (ty, ts3) ← popType ts2
        match ts3 with
        | [] => .error eEOF
        | t3 :: ts4 =>
          if t3.code == cCOMMA then do
            let (nx, r) ← pStmt f nested ts4
            pure (some (.letn name ty nx), r)
          else do
            let r ← beyond ts3
            pure (some (.letn name ty none), r)

  /-- `PRINTStatement::parse` / `PUTStatement::parse`: expressions until the separator is in front. -/
  def pItems : Nat → List Tok → PR (List PExpr × List Tok)
    | 0, _ => .error eOOF
    | f + 1, ts =>
      match ts with
      | [] => .error eEOF
      | t :: _ =>
        if t.code == cSEMI then pure ([], ts)
        else do
          let (e, ts1) ← pExpr f ts
          let (es, ts2) ← pItems f ts1
          pure (e :: es, ts2)

  /-- `parse_clause` / `parse_catch` / the body loop of BEGIN: statements until one of the `enders`
  is in front (left in the stream). `nonEmpty`: "requires at least one statement, even NOP". -/
  def pBlock : Nat → List Bytes → Bool → List Tok → PR (List PStmt × List Tok)
    | 0, _, _, _ => .error eOOF
    | f + 1, enders, nonEmpty, ts =>
      match ts with
      | [] => .error eEOF
      | t :: ts1 =>
        if t.code == cSEMI then pBlock f enders nonEmpty ts1
        else if t.code == cKW && enders.contains t.text then
          if nonEmpty then .error Gen.EXC_PARSE_UNEXPECTED_LEX_S else pure ([], ts)
        else do
          let (s, ts2) ← pStmt f true ts
          let (ss, ts3) ← pBlock f enders false ts2
          match s with
          | some s => pure (s :: ss, ts3)
          | none => pure (ss, ts3)

  /-- `IFStatement::parse` after the keyword `if`. -/
  def pIf : Nat → List Tok → PR (PStmt × List Tok)
    | 0, _ => .error eOOF
    | f + 1, ts => do
      let (c, ts1) ← pExpr f ts
      match ts1 with
      | [] => .error eEOF
      | t :: ts2 =>
        if t.code == cRP then .error Gen.EXC_PARSE_MM_PARENTHESIS
        else if !isKw t "then" then .error Gen.EXC_PARSE_OTHER_S
        else do
          let (body, ts3) ← pBlock f [bytesOf "end", bytesOf "elsif", bytesOf "else"] true ts2
          match ts3 with
          | [] => .error eEOF
          | t3 :: ts4 =>
            if t3.text == bytesOf "elsif" then do
              let (rest, r) ← pIf f ts4
              match rest with
              | .ifS rules els => pure (.ifS ((c, body) :: rules) els, r)
              | _ => .error eOOF
            else if t3.text == bytesOf "else" then do
              let (eb, ts5) ← pBlock f [bytesOf "end", bytesOf "elsif", bytesOf "else"] true ts4
              match ts5 with
              | [] => .error eEOF
              | t5 :: ts6 =>
                if t5.text != bytesOf "end" then .error Gen.EXC_PARSE_OTHER_S else do
                let r ← pEndIf ts6
                pure (.ifS [(c, body)] (some eb), r)
            else do
              let r ← pEndIf ts4
              pure (.ifS [(c, body)] none, r)

  /-- `BEGINStatement::parse` after the keyword `begin`. -/
  def pBegin : Nat → List Tok → PR ((List PStmt × List (Bytes × List PStmt)) × List Tok)
    | 0, _ => .error eOOF
    | f + 1, ts => do
      let (body, ts1) ← pBlock f [bytesOf "end", bytesOf "exception"] false ts
      match ts1 with
      | [] => .error eEOF
      | t :: ts2 =>
        if t.text == bytesOf "exception" then do
          let (catches, ts3) ← pCatches f ts2
          let r ← pEndBlock ts3
          pure ((body, catches), r)
        else do
          let r ← pEndBlock ts2
          pure ((body, []), r)

  /-- the `when NAME then …` clauses; stops after the keyword `end` has been consumed. -/
  def pCatches : Nat → List Tok → PR (List (Bytes × List PStmt) × List Tok)
    | 0, _ => .error eOOF
    | f + 1, ts =>
      match ts with
      | [] => .error eEOF
      | t :: ts1 =>
        if !isKw t "when" then .error Gen.EXC_PARSE_OTHER_S else do
        let (name, ts2) ← popName Gen.EXC_PARSE_UNEXPECTED_LEX_S ts1
        let ts3 ← expectKw "then" Gen.EXC_PARSE_OTHER_S ts2
        let (body, ts4) ← pBlock f [bytesOf "end", bytesOf "when"] true ts3
        match ts4 with
        | [] => .error eEOF
        | t4 :: ts5 =>
          if t4.text != bytesOf "end" then do
            let (cs, r) ← pCatches f ts4
            pure ((name, body) :: cs, r)
          else pure ([(name, body)], ts5)
end

/-- `Parser::parse`: separators skipped, statements until the end of the input. -/
def pProgram : Nat → List Tok → PR (List PStmt)
  | 0, _ => .error eOOF
  | f + 1, ts =>
    match ts with
    | [] => pure []
    | t :: ts1 =>
      if t.code == cSEMI then pProgram f ts1
      else do
        let (s, ts2) ← pStmt f false ts
        let ss ← pProgram f ts2
        match s with
        | some s => pure (s :: ss)
        | none => pure ss

/-- The tokens of a source text as `Parser::parse` sees them (parser state `Parsing`: newlines are
dropped), through the library's `StringReader` and the chunked scanner. -/
def tokensOf (text : Bytes) : List Tok := Lex.popStream false (Lex.lineReader Lex.chunkMax text)

/-- fuel `parseText` gives the (fuelled, total) parser: a bound on the depth of the call tree. One pair of parentheses
costs eleven levels (logic … element) and is two tokens, so `2 * tokens` was NOT enough for deeply parenthesised
expressions (`((((((((((1))))))))))` ran out of fuel where the C++ accepts); `64 * tokens + 64` covers the bound of
`C12.program_roundtrip` (`C12.parse_fuel_suffices`). -/
def parseFuel (ts : List Tok) : Nat := 64 * ts.length + 64

def parseText (text : Bytes) : PR (List PStmt) :=
  let ts := tokensOf text
  pProgram (parseFuel ts) ts

end BlocV.Parse
