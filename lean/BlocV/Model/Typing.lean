/-
  Model — parse-time typing of operators: the checks of blocc/parse_expression.cpp
  (`typeChecking`, `assertType`, `assertTypeUniform` at each precedence level) and the static result
  types of blocc/operator/op_*.{h,cpp} (`type()`).

  `t == Type::X` in the C++ compares the *major* only (`Type::operator==(TypeMajor)`); `t == u` on
  two `Type`s compares (major, minor, level).
-/
import BlocV.Model.Ops
import BlocV.Gen.Sigs

namespace BlocV

/-- `ParseExpression::typeChecking(exp, type)`. -/
def typeChecking (exp ty : Ty) : Bool :=
  exp == ty || ty.major == .none || exp.major == .none ||
  (exp.level == ty.level && (
    (exp.major == .num && (ty.major == .int || ty.major == .imag)) ||
    (exp.major == .int && (ty.major == .num || ty.major == .imag)) ||
    (exp.major == .imag && (ty.major == .num || ty.major == .int)) ||
    (exp.major == .tup && ty.major == .tup && (exp.minor == 0 || ty.minor == 0))))

/-- `ParseExpression::assertTypeUniform(exp, type)`. -/
def typeUniform (exp ty : Ty) : Bool :=
  exp == ty || ty.major == .none || exp.major == .none

/-- The static type of a binary operator node (`OpXXXExpression::type`). -/
def typeBin (op : BinOp) (t1 t2 : Ty) : Ty :=
  match op with
  | .add =>
    if t1.major == .str then Ty.str
    else if t1.major == .imag || t2.major == .imag then Ty.imag
    else if t1.major == .int && t2.major == .int then Ty.int
    else if t1.major == .num || t2.major == .num then Ty.num
    else Ty.none
  | .sub | .mul | .div | .exp =>
    if t1.major == .imag || t2.major == .imag then Ty.imag
    else if t1.major == .int && t2.major == .int then Ty.int
    else Ty.num
  | .mod => if t1.major == .int && t2.major == .int then Ty.int else Ty.num
  | .and | .ior | .xor | .pop | .pus => Ty.int
  | .eq | .ne | .lt | .le | .gt | .ge | .band | .bior | .bxor => Ty.bool

def typeUn (op : UnOp) (t1 : Ty) : Ty :=
  match op with
  | .neg | .pos => t1
  | .not => Ty.int
  | .bnot => Ty.bool

/-- Does the parser accept `e1 op e2` given the static operand types (parse_expression.cpp)? -/
def acceptBin (op : BinOp) (t1 t2 : Ty) : Bool :=
  match op with
  | .mul | .div | .mod | .exp | .sub => typeChecking t2 Ty.num && typeChecking t1 Ty.num
  | .add => typeChecking t2 t1
  | .pop | .pus | .and | .ior | .xor => typeUniform t2 Ty.int && typeUniform t1 Ty.int
  | .eq | .ne => true
  | .lt | .le | .gt | .ge => typeChecking t2 t1
  | .band | .bior | .bxor => typeChecking t2 Ty.bool && typeChecking t1 Ty.bool

def acceptUn (op : UnOp) (t1 : Ty) : Bool :=
  match op with
  | .bnot => typeChecking t1 Ty.bool
  | .not | .neg | .pos => typeChecking t1 Ty.num

end BlocV

namespace BlocV
open Gen

/-- One parse-time check of a built-in's argument (generated `Gen.ArgCheck`, see extract/sigs.py). -/
def checkArg (c : ArgCheck) (t : Ty) : Bool :=
  match c with
  | .tc m => typeChecking t { major := m }
  | .tcor a b => typeChecking t { major := a } || typeChecking t { major := b }
  | .level0 => t.level == 0
  | .accept ms => ms.contains t.major
  | .reject ms => !ms.contains t.major

/-- Walk of a built-in's `parse()`: `none` = accepted, `some code` = the ParseError raised. -/
def acceptArgs : List ArgSpec → List Ty → Option Nat
  | [], [] => none
  | [], _ :: _ => some EXC_PARSE_FUNC_ARG_NUM_S
  | s :: _, [] => if s.optional then none else some EXC_PARSE_FUNC_ARG_NUM_S
  | s :: ss, t :: ts =>
    if !s.checks.all (checkArg · t) then some EXC_PARSE_FUNC_ARG_TYPE_S
    else
      -- `raw`: a first argument that type-checks as a string closes the argument list
      let stop := s.checks.any fun c => match c with
        | .tcor a _ => typeChecking t { major := a }
        | _ => false
      if stop then (if ts.isEmpty then none else some EXC_PARSE_FUNC_ARG_NUM_S) else acceptArgs ss ts

def acceptBuiltin (name : String) (tys : List Ty) : Option (Option Nat) :=
  (builtinSigs.find? (·.1 == name)).map fun (_, sig) => acceptArgs sig tys

end BlocV
