/-
  Model, storage level, extended ("L1x") — table / tuple ELEMENTS as locations, the in-place members,
  the constructors `tab` / `tup`, assignment and user-function calls.

  Transcribed line by line from
    blocc/member/member_at.cpp, member_count.cpp, member_put.cpp, member_insert.cpp, member_delete.cpp,
    member_concat.cpp, member_set.cpp, blocc/expression_item.cpp            (which cell a node returns / writes)
    blocc/builtin/builtin_tab.cpp, builtin_tup.cpp                           (`lvalue()` ? clone : move)
    blocc/context.cpp `storeVariable`, blocc/statement_let.cpp               (assignment)
    blocc/functor_manager.cpp `createEnv`, blocc/expression_functor.cpp, context.cpp `saveReturned`
    blocc/value.cpp (move ctor / move assignment / `swap(Value&&)` / `clone`), collection.cpp, tuple.cpp.
  The VALUES computed by the members are those of Model/Members.lean (`memberCall`, `itemAtV`, `setItemV`,
  `tabHeader`); this file adds WHERE the result lives, WHICH cell is overwritten and which source cell is
  left in the moved-from state.

  Facts of the C++ the model rests on (each one read in the source, see notes/NOTES-C05.md):
  * `x.at(i)` on a table and `x@N` return a reference INTO the receiver: `rv->at(p).to_lvalue(val.lvalue())`.
    The element is not copied, and its LVALUE bit is *assigned* from the receiver's at every access. Elements do
    NOT carry LVALUE invariantly (`Value::clone` gives flags = NOTNULL only, `swap(std::move(a))` copies the
    temporary's flags): the physical bit of an element is a cache that every access path (`at`, `@`, the
    `forall` iterator: `tgt->at(i).to_lvalue(true)`) rewrites before anybody reads it. Hence: a location is a
    ROOT cell (variable slot, constant node, pool slot) plus a PATH of indices, and its flag is the root's.
  * put / insert / delete / concat / set@ work on `val = receiver(ctx)` and `return val;` — they never test
    `val.lvalue()` themselves. Until 876bec0 `val` was whatever cell the receiver expression returned, so a receiver
    that hands an operand's cell through (`(s + null)`, `substr("", 0)`, …) made the member write into that variable
    or into a CONSTANT node (`("abc" + null).concat("x")` printed abcx, abcxx, abcxxx in a loop; `null.concat("abc")`
    overwrote the literal `null` until a40085e) — found with this model, see notes/NOTES-C05.md. Since 876bec0
    `receiver()` clones such a value into a temporary (`recvCell`, `XExpr.isStorage`); the model follows the code.
  * a reference into a container (non-empty path) that is held while an argument is evaluated dangles when that
    argument changes the same variable in place (vector reallocation / erase): `t.at(0).put(0, t.concat(t).count())`
    is a heap-use-after-free. The model reports `hazard oob` whenever a held element reference's root was written
    in place during the evaluation of a later operand (`checkHeld`; conservative: every in-place write counts).
  * a moved-from Value keeps its type and loses NOTNULL: `Val.null v.type`.
-/
import BlocV.Model.Store
import BlocV.Model.Members
import BlocV.Model.Interp

namespace BlocV

/-- A location: a root cell and the path of element / item indices below it. -/
structure XLoc where
  root : Loc
  path : List Nat
  deriving DecidableEq, Repr, Inhabited

/-- The element Values of a non-null table / the item Values of a non-null tuple. -/
def Val.kids : Val → Option (List Val)
  | .tab _ _ es => some es
  | .tup _ is => some is
  | _ => none

def Val.withKids : Val → List Val → Val
  | .tab t d _, ks => .tab t d ks
  | .tup d _, ks => .tup d ks
  | v, _ => v

def Val.getP : Val → List Nat → Option Val
  | v, [] => some v
  | v, n :: p =>
    match v.kids with
    | some ks =>
      match ks[n]? with
      | some k => Val.getP k p
      | none => none
    | none => none

def Val.setP : Val → List Nat → Val → Option Val
  | _, [], w => some w
  | v, n :: p, w =>
    match v.kids with
    | some ks =>
      match ks[n]? with
      | some k =>
        match Val.setP k p w with
        | some k' => some (v.withKids (ks.set n k'))
        | none => none
      | none => none
    | none => none

/-- Root cells without a default: an index the parser never produces has no cell. -/
def Store.root? (σ : Store) : Loc → Option Cell
  | .var i => σ.vars[i]?
  | .cst i => σ.csts[i]?
  | .tmp i => σ.pool[i]?

/-- The cell a `Value&` denotes: the value found under the path, the flag of the root (see header). -/
def Store.getX (σ : Store) (x : XLoc) : Option Cell :=
  match σ.root? x.root with
  | some c =>
    match c.val.getP x.path with
    | some v => some { val := v, lv := c.lv }
    | none => none
  | none => none

/-- Overwrite the payload of the Value at `x`; the root keeps its flag. -/
def Store.setX (σ : Store) (x : XLoc) (v : Val) : Option Store :=
  match σ.root? x.root with
  | some c =>
    match c.val.setP x.path v with
    | some v' => some (σ.set x.root { val := v', lv := c.lv })
    | none => none
  | none => none

/-- Evaluation state: the store and the log of NON-temporary roots written in place by an in-place member
(the dynamic footprint; most recent first). -/
structure XS where
  st : Store
  log : List Loc := []
  deriving Inhabited

def XM (α : Type) := XS → Res (α × XS)

namespace XM
def pure {α} (a : α) : XM α := fun s => .ok (a, s)
def bind {α β} (m : XM α) (f : α → XM β) : XM β := fun s =>
  match m s with
  | .ok (a, s') => f a s'
  | .err c x => .err c x
  | .haz h => .haz h
  | .unmodelled => .unmodelled
/-- a value-level computation (no storage effect) -/
def lift {α} (r : Res α) : XM α := fun s =>
  match r with
  | .ok a => .ok (a, s)
  | .err c x => .err c x
  | .haz h => .haz h
  | .unmodelled => .unmodelled
def fail {α} (r : Res Unit) : XM α := fun _ =>
  match r with
  | .ok _ => .unmodelled
  | .err c x => .err c x
  | .haz h => .haz h
  | .unmodelled => .unmodelled
end XM

instance : Monad XM where
  pure := XM.pure
  bind := XM.bind

/-! ### primitives -/

/-- read through a reference; a reference whose path no longer exists dangles -/
def xget (x : XLoc) : XM Cell := fun s =>
  match s.st.getX x with
  | some c => .ok (c, s)
  | none => .haz .oob

/-- `Context::allocate` -/
def xalloc (v : Val) : XM XLoc := fun s =>
  .ok ({ root := (alloc s.st v).1, path := [] }, { s with st := (alloc s.st v).2 })

/-- `LVAL1(V, A)` and every `if (val.lvalue()) return ctx.allocate(v); val.swap(v); return val;`. -/
def xlval1 (v : Val) (a : XLoc) : XM XLoc := fun s =>
  match s.st.getX a with
  | some c =>
    if c.lv then xalloc v s
    else
      match s.st.setX a v with
      | some σ' => .ok (a, { s with st := σ' })
      | none => .haz .oob
  | none => .haz .oob

/-- `LVAL2(V, A, B)` -/
def xlval2 (v : Val) (a b : XLoc) : XM XLoc := fun s =>
  match s.st.getX a with
  | some ca =>
    if ca.lv then xlval1 v b s
    else
      match s.st.setX a v with
      | some σ' => .ok (a, { s with st := σ' })
      | none => .haz .oob
  | none => .haz .oob

def xplace (p : Place) (v : Val) (x1 x2 : XLoc) : XM XLoc :=
  match p with
  | .ret1 => XM.pure x1
  | .ret2 => XM.pure x2
  | .l1 => xlval1 v x1
  | .l2 => xlval2 v x1 x2

/-- `a.lvalue() ? a.clone() : std::move(a)`: the payload taken from an argument cell. An lvalue is cloned
(the cell is untouched), anything else is moved out and left null of its type. -/
def takeArg (x : XLoc) : XM Val := fun s =>
  match s.st.getX x with
  | some c =>
    if c.lv then .ok (c.val, s)
    else
      match s.st.setX x (.null c.val.type) with
      | some σ' => .ok (c.val, { s with st := σ' })
      | none => .haz .oob
  | none => .haz .oob

/-- The write of an in-place member into `val` (no flag test in the C++). A non-temporary root is logged. -/
def wrRecv (x : XLoc) (v : Val) : XM Unit := fun s =>
  match s.st.setX x v with
  | some σ' =>
    .ok ((), { st := σ', log := match x.root with
                                 | .tmp _ => s.log
                                 | r => r :: s.log })
  | none => .haz .oob

def logLen : XM Nat := fun s => .ok (s.log.length, s)

/-- A reference INTO a container (non-empty path) obtained when the log had `n0` entries is used now: if its
root was written in place meanwhile the C++ reference may dangle (reallocated / erased vector): hazard. -/
def checkHeld (x : XLoc) (n0 : Nat) : XM Unit := fun s =>
  if !x.path.isEmpty && (s.log.take (s.log.length - n0)).contains x.root then .haz .oob else .ok ((), s)

/-- direct store into a variable slot (`slot.value.swap(… .to_lvalue(true))`); the target is logged -/
def xsetVar (i : Nat) (v : Val) : XM Unit := fun s =>
  if i < s.st.vars.length then .ok ((), { st := s.st.set (.var i) { val := v, lv := true }, log := .var i :: s.log })
  else .unmodelled

/-- `Context::storeVariable(id, e)` with `e` the cell at `x` (both type branches store alike):
not an lvalue: moved in; an lvalue other than the slot itself: cloned in; the slot itself: nothing. -/
def xstoreVar (i : Nat) (x : XLoc) : XM Unit :=
  if x = { root := .var i, path := [] } then XM.pure ()
  else XM.bind (takeArg x) (fun v => xsetVar i v)

def xendStatement : XM Unit := fun s => .ok ((), { s with st := endStatement s.st })

/-! ### syntax -/

inductive XExpr
  | cst (i : Nat)
  | var (i : Nat)
  | un (op : UnOp) (e : XExpr)
  | bin (op : BinOp) (a b : XExpr)
  | mem (m : Member) (recv : XExpr) (args : List XExpr)
  | item (recv : XExpr) (idx : Nat)                       -- `e@N`, idx = N - 1
  | setItem (recv : XExpr) (idx : Nat) (arg : XExpr)      -- `e.set@N(a)`
  | tab0                                                   -- `tab()`
  | tab (n : XExpr) (e : XExpr)                            -- `tab(n, e)`
  | tup (args : List XExpr)
  | call (f : Nat) (args : List XExpr)
  | bi (name : String) (args : List XExpr)                 -- a built-in of two and more arguments (see `biPlace`)
  deriving Repr, Inhabited

inductive XStmt
  | assign (i : Nat) (e : XExpr)
  | doE (e : XExpr)
  | ret (e : XExpr)
  deriving Repr, Inhabited

/-- A user function: its private context has `locals` symbols (the parameters first, then the others, each
starting as a null of its compiled type). The constant nodes of its body are nodes of the program like any
other: they live in the one `csts` list, which every context sees and which survives the call. -/
structure XFun where
  nparams : Nat
  locals : List Ty
  body : List XStmt
  deriving Repr, Inhabited

/-- `Expression::isConst()`: the receiver node is a literal. -/
def XExpr.isCst : XExpr → Bool
  | .cst _ => true
  | _ => false

/-- `Expression::isStorage()` (876bec0): the expression designates a storage that a type method may manipulate in
place — a variable, or an element, an item or the result of a type method (other than `count`) of such an expression. -/
def XExpr.isStorage : XExpr → Bool
  | .var _ => true
  | .item r _ => r.isStorage
  | .setItem r _ _ => r.isStorage
  | .mem m r _ => m != .count && r.isStorage
  | _ => false

/-- `MemberExpression::receiver(ctx)` (876bec0), first line of put / insert / delete / concat / set@: the value of the
receiver expression — or a temporary CLONE of it when that value is an lvalue which the expression merely hands
through (not a literal node, not a storage): `(s + null).concat(x)` no longer writes into `s`. -/
def recvCell (r : XExpr) (x : XLoc) : XM XLoc :=
  XM.bind (xget x) (fun c =>
  if c.lv && !r.isCst && !r.isStorage then xalloc c.val else XM.pure x)

/-- the callee context of `createEnv` before the parameters are bound (its view of the constant nodes is
installed by `inCallee`) -/
def calleeStore (f : XFun) : Store :=
  { vars := f.locals.map (fun t => { val := .null t, lv := true }), csts := [], pool := [], wm := 0 }

def Loc.isCst : Loc → Bool
  | .cst _ => true
  | _ => false

/-! ### the members on a receiver cell -/

/-- The end of put / insert / delete / concat / set@: `return val;` after the in-place change — or, for a string
receiver that is a literal node, a new temporary (`if (_exp->isConst()) … return ctx.allocate(v)`); since a40085e
also for the literal `null` as the receiver of concat (case NO_TYPE). -/
def finishInPlace (x : XLoc) (old res recv' : Val) (recvIsCst : Bool) : XM XLoc :=
  if recvIsCst && (old.type == Ty.str || old.type == Ty.none) then xalloc res
  else XM.bind (wrRecv x recv') (fun _ => XM.pure x)

/-- Where `at` finds its result: the element itself for a table, a new integer for string / bytes. -/
def atResult (x : XLoc) (recv a0 res : Val) : XM XLoc :=
  match recv, a0 with
  | .tab _ _ _, .int p => XM.pure { root := x.root, path := x.path ++ [idxOf p] }
  | _, _ => xalloc res

/-- one more evaluation of the element expression of `tab(n, e)`: type test, then clone or move -/
def tabStep (ev : XM XLoc) (itemTy : Ty) : Nat → List Val → XM (List Val)
  | 0, acc => XM.pure acc
  | k + 1, acc =>
    XM.bind ev (fun x =>
    XM.bind (xget x) (fun c =>
    if c.val.type != itemTy then XM.fail (.err Gen.EXC_RT_VARYING_COLLECTION)
    else XM.bind (takeArg x) (fun v => tabStep ev itemTy k (acc ++ [v]))))

/-- the items of `tup(…)`: each evaluated, tested, cloned or moved, in order -/
def tupStep (ev : XExpr → XM XLoc) : List XExpr → List Val → XM (List Val)
  | [], acc => XM.pure acc
  | a :: as, acc =>
    XM.bind (ev a) (fun x =>
    XM.bind (xget x) (fun c =>
    if c.val.type.major == .none then XM.fail (.err Gen.EXC_RT_COMPOUND_OPAQUE)
    -- "nesting and table are not allowed", also at run time (4db32b5)
    else if c.val.type.level > 0 || c.val.type.major == .tup then XM.fail (.err Gen.EXC_RT_FUNC_ARG_TYPE_S)
    else XM.bind (takeArg x) (fun v => tupStep ev as (acc ++ [v]))))

/-- `createEnv`: parameter `k` = the value of the k-th argument expression, evaluated in the CALLER and stored
at once into the callee context (`VariableExpression(symbol).store(*_ctx, caller, pvals[i++])`): an lvalue is
cloned, a temporary is moved. The callee store is threaded as a plain value: the two contexts share nothing. -/
def bindArgs (ev : XExpr → XM XLoc) : List XExpr → Nat → Store → XM Store
  | [], _, callee => XM.pure callee
  | a :: as, k, callee =>
    XM.bind (ev a) (fun x =>
    XM.bind (takeArg x) (fun v =>
    if k < callee.vars.length then bindArgs ev as (k + 1) (callee.set (.var k) { val := v, lv := true })
    else XM.fail .unmodelled))

/-- The body of a function in its own context: statements in order until `return`; the returned payload
(`saveReturned`: an lvalue is cloned, a temporary swapped out) or `none`. -/
def execBody (ev : XExpr → XM XLoc) : List XStmt → XM (Option Val)
  | [] => XM.pure none
  | .assign i e :: rest =>
    XM.bind (ev e) (fun x => XM.bind (xstoreVar i x) (fun _ => XM.bind xendStatement (fun _ => execBody ev rest)))
  | .doE e :: rest =>
    XM.bind (ev e) (fun _ => XM.bind xendStatement (fun _ => execBody ev rest))
  | .ret e :: _ =>
    XM.bind (ev e) (fun x => XM.bind (takeArg x) (fun v => XM.pure (some v)))

/-- run a computation of the callee in its private context: own variables, own pool; the constant nodes are
the program's. Its result comes back, and whatever it did to constant nodes. -/
def inCallee {α} (callee : Store) (m : XM α) : XM α := fun s =>
  match m { st := { callee with csts := s.st.csts }, log := [] } with
  | .ok (a, s') => .ok (a, { st := { s.st with csts := s'.st.csts }, log := s'.log.filter Loc.isCst ++ s.log })
  | .err c x => .err c x
  | .haz h => .haz h
  | .unmodelled => .unmodelled

/-! ### built-ins of two and more arguments: which cell receives the result

Read in blocc/builtin/builtin_{atan2,max,min,mod,pow,strpos,replace,clamp,round,hex,hash,raw,substr,lsubstr,rsubstr,
subraw,tokenize}.cpp (the end of every `value()`): the result is written into an operand only when that operand is NOT
flagged LVALUE, in a fixed order, otherwise into a new pool slot:
* `if (!a0.lvalue()) {a0.swap(v); return a0;} if (!a1.lvalue()) {a1.swap(v); return a1;} return ctx.allocate(v);`
  (atan2, max, min, mod, strpos, replace; the macro LVAL2 in pow) = `xlval2 v x0 x1`; a third argument is never reused;
* `if (a0.lvalue()) return ctx.allocate(v); a0.swap(v); return a0;` (clamp, round, hex, hash, raw, tokenize, and the
  substr family, which edits a temporary string in place: `val.literal()->assign(…)`) = `xlval1 v x0`;
* `return val;` — the cell of the first argument handed through unchanged (null / degenerate cases) = `thru`;
* `hex(null, …)`: a new slot whatever the argument = `fresh`.
`input` and `read` store into their first argument BY DESIGN (it names the variable that receives the line / the bytes);
they are output parameters, not operands, and are not in this table. The VALUE is Model/Builtins.lean's `evalBuiltin`
(tied by C10). Simplification, stated: every argument is evaluated, left to right, before the built-in looks at any of
them; the C++ skips the later arguments in some null branches of substr / tokenize / replace / strpos / raw / hex — not
observable for arguments without effects, which is what the correspondence family generates. -/

inductive BiPlace
  | thru | fresh | l1 | l2
  deriving DecidableEq, Repr

def biEmpty : Val → Bool
  | .str [] => true
  | .raw [] => true
  | _ => false

/-- the `return val;` branches of substr / subraw (`three` = a length argument may follow) and lsubstr / rsubstr -/
def subThru (three : Bool) (vs : List Val) : Bool :=
  match vs with
  | a0 :: a1 :: rest =>
    a0.type.major != .none &&
      (a1.isNull || a0.isNull || (three && (match rest with | a2 :: _ => a2.isNull | [] => false)) || biEmpty a0)
  | _ => false

/-- Placement of every built-in of arity ≥ 2, from the argument VALUES (the flags are read by `xplaceBi`). -/
def biPlace (name : String) (vs : List Val) : Option BiPlace :=
  let a0 := vs.headD (.null Ty.none)
  let a1 := (vs.drop 1).headD (.null Ty.none)
  let a2 := (vs.drop 2).headD (.null Ty.none)
  match name with
  | "atan2" | "max" | "min" | "mod" | "pow" => some .l2
  | "strpos" =>
    -- an untyped third argument with non-null strings: `if (val.lvalue()) allocate else val.swap(v)`
    if vs.length > 2 && a0.type.major == .str && !a0.isNull && !a1.isNull && a2.type.major == .none then some .l1 else some .l2
  | "replace" =>
    if a0.type.major == .str && (a1.isNull || a0.isNull) then some .thru
    else if a0.type.major == .str && biEmpty a1 then some .l1       -- `val.lvalue() ? allocate(val.clone()) : val`
    else some .l2
  | "clamp" =>
    if (a0.type.major == .int || a0.type.major == .num) && (a0.isNull || a1.isNull || a2.isNull) then some .thru else some .l1
  | "round" =>
    if (a0.type.major == .num || a0.type.major == .imag) && a0.isNull then some .thru else some .l1
  | "hex" => if a0.isNull then some .fresh else some .l1
  | "hash" | "tokenize" => some .l1
  | "raw" => (match a0 with | .raw _ => some .thru | _ => some .l1)
  | "substr" | "subraw" => if subThru true vs then some .thru else some .l1
  | "lsubstr" | "rsubstr" => if subThru false vs then some .thru else some .l1
  | _ => none

/-- the value: Model/Builtins.lean -/
def biValue (name : String) (vs : List Val) : Res Val :=
  match evalBuiltin (m := Res) Fmt.fmt16g name (vs.map fun v => Res.ok v) with
  | some r => r
  | none => .unmodelled

def xplaceBi (p : BiPlace) (v : Val) (xs : List XLoc) : XM XLoc :=
  match p, xs with
  | .thru, x0 :: _ => XM.pure x0
  | .fresh, _ => xalloc v
  | .l1, x0 :: _ => xlval1 v x0
  | .l2, x0 :: x1 :: _ => xlval2 v x0 x1
  | _, _ => XM.fail .unmodelled

/-- the argument cells, in order, each with the log length at the time it was obtained (for `checkHeld`) -/
def biArgs (ev : XExpr → XM XLoc) : List XExpr → List (XLoc × Nat) → XM (List (XLoc × Nat))
  | [], acc => XM.pure acc
  | a :: as, acc => XM.bind (ev a) (fun x => XM.bind logLen (fun n => biArgs ev as (acc ++ [(x, n)])))

def biHeld : List (XLoc × Nat) → XM Unit
  | [] => XM.pure ()
  | (x, n) :: rest => XM.bind (checkHeld x n) (fun _ => biHeld rest)

def xgets : List XLoc → XM (List Val)
  | [] => XM.pure []
  | x :: rest => XM.bind (xget x) (fun c => XM.bind (xgets rest) (fun vs => XM.pure (c.val :: vs)))

/-! ### `Expression::value(ctx)` -/

/-- The location of the result and the state after. `fuel` bounds the nesting (sub-expressions and calls);
running out is the pseudo error `oofCode`, never produced by the C++. The recursion limit of `createEnv`
(RECURSION_LIMIT nested calls) is not modelled: deeper programs run out of fuel instead. -/
def evalX (F : List XFun) : Nat → XExpr → XM XLoc
  | 0, _ => XM.fail (.err oofCode)
  | fuel + 1, e =>
    match e with
    | .cst i => fun s => if i < s.st.csts.length then .ok ({ root := .cst i, path := [] }, s) else .unmodelled
    | .var i => fun s => if i < s.st.vars.length then .ok ({ root := .var i, path := [] }, s) else .unmodelled
    | .un op a =>
      XM.bind (evalX F fuel a) (fun x =>
      XM.bind (xget x) (fun c =>
      XM.bind (XM.lift (evalUn op c.val)) (fun v =>
      xplace (unPlace op c.val) v x x)))
    | .bin op a b =>
      XM.bind (evalX F fuel a) (fun x1 =>
      XM.bind (xget x1) (fun c1 =>
      if !rightForced op c1.val then
        XM.bind (XM.lift (evalBin op c1.val (.null Ty.none))) (fun v => xlval1 v x1)
      else
        XM.bind logLen (fun n0 =>
        XM.bind (evalX F fuel b) (fun x2 =>
        XM.bind (checkHeld x1 n0) (fun _ =>
        XM.bind (xget x1) (fun c1' =>
        XM.bind (xget x2) (fun c2 =>
        XM.bind (XM.lift (evalBin op c1'.val c2.val (x1 == x2))) (fun v =>
        xplace (binPlace op c1'.val c2.val) v x1 x2))))))))
    | .mem m r args =>
      XM.bind (evalX F fuel r) (fun xr =>
      XM.bind (if m == .count || m == .at then XM.pure xr else recvCell r xr) (fun x =>
      XM.bind logLen (fun n0 =>
      match m, args with
      | .count, [] =>
        XM.bind (xget x) (fun c =>
        XM.bind (XM.lift (mCount c.val)) (fun rr => xlval1 rr.1 x))
      | .at, [a0] =>
        XM.bind (evalX F fuel a0) (fun x0 =>
        XM.bind (checkHeld x n0) (fun _ =>
        XM.bind (xget x) (fun c =>
        XM.bind (xget x0) (fun c0 =>
        XM.bind (XM.lift (mAt c.val c0.val)) (fun rr => atResult x c.val c0.val rr.1)))))
      | .delete, [a0] =>
        XM.bind (evalX F fuel a0) (fun x0 =>
        XM.bind (checkHeld x n0) (fun _ =>
        XM.bind (xget x) (fun c =>
        XM.bind (xget x0) (fun c0 =>
        XM.bind (XM.lift (mDelete c.val c0.val r.isCst)) (fun rr =>
        finishInPlace x c.val rr.1 rr.2 r.isCst)))))
      | .concat, [a0] =>
        XM.bind (evalX F fuel a0) (fun x0 =>
        XM.bind (checkHeld x n0) (fun _ =>
        XM.bind (xget x) (fun c =>
        XM.bind (xget x0) (fun c0 =>
        XM.bind (XM.lift (mConcat c.val c0.val r.isCst)) (fun rr =>
        XM.bind (takeArg x0) (fun _ =>
        finishInPlace x c.val rr.1 rr.2 r.isCst))))))
      | .put, [a0, a1] =>
        XM.bind (evalX F fuel a0) (fun x0 =>
        XM.bind (checkHeld x n0) (fun _ =>
        XM.bind (xget x) (fun c =>
        XM.bind (xget x0) (fun c0 =>
        if c.val.isNull || c0.val.isNull then XM.fail idxErr else
        XM.bind logLen (fun n1 =>
        XM.bind (evalX F fuel a1) (fun x1 =>
        XM.bind (checkHeld x n0) (fun _ =>
        XM.bind (checkHeld x0 n1) (fun _ =>
        XM.bind (xget x) (fun c' =>
        XM.bind (xget x0) (fun c0' =>
        XM.bind (xget x1) (fun c1 =>
        XM.bind (XM.lift (mPut c'.val c0'.val c1.val r.isCst)) (fun rr =>
        XM.bind (takeArg x1) (fun _ =>
        finishInPlace x c'.val rr.1 rr.2 r.isCst)))))))))))))
      | .insert, [a0, a1] =>
        XM.bind (evalX F fuel a0) (fun x0 =>
        XM.bind (checkHeld x n0) (fun _ =>
        XM.bind (xget x) (fun c =>
        XM.bind (xget x0) (fun c0 =>
        if c.val.isNull || c0.val.isNull then XM.fail idxErr else
        XM.bind logLen (fun n1 =>
        XM.bind (evalX F fuel a1) (fun x1 =>
        XM.bind (checkHeld x n0) (fun _ =>
        XM.bind (checkHeld x0 n1) (fun _ =>
        XM.bind (xget x) (fun c' =>
        XM.bind (xget x0) (fun c0' =>
        XM.bind (xget x1) (fun c1 =>
        XM.bind (XM.lift (mInsert c'.val c0'.val c1.val r.isCst)) (fun rr =>
        XM.bind (takeArg x1) (fun _ =>
        finishInPlace x c'.val rr.1 rr.2 r.isCst)))))))))))))
      | _, _ => XM.fail .unmodelled)))
    | .item r idx =>
      XM.bind (evalX F fuel r) (fun x =>
      XM.bind (xget x) (fun c =>
      XM.bind (XM.lift (itemAtV c.val idx)) (fun _ =>
      XM.pure { root := x.root, path := x.path ++ [idx] })))
    | .setItem r idx a =>
      XM.bind (evalX F fuel r) (fun xr =>
      XM.bind (recvCell r xr) (fun x =>
      XM.bind (xget x) (fun c =>
      if c.val.isNull then XM.fail idxErr else
      XM.bind logLen (fun n0 =>
      XM.bind (evalX F fuel a) (fun x0 =>
      XM.bind (checkHeld x n0) (fun _ =>
      XM.bind (xget x) (fun c' =>
      XM.bind (xget x0) (fun c0 =>
      XM.bind (XM.lift (setItemV c'.val idx c0.val)) (fun rr =>
      XM.bind (takeArg x0) (fun _ =>
      XM.bind (wrRecv x rr.2) (fun _ => XM.pure x)))))))))))
    | .tab0 => xalloc (.null { major := .none, level := 1 })
    | .tab n a =>
      XM.bind (evalX F fuel n) (fun x0 =>
      XM.bind (xget x0) (fun c0 =>
      if c0.val.isNull then
        XM.bind (evalX F fuel a) (fun x1 =>
        XM.bind (xget x1) (fun c1 =>
        -- 2c67aef: the null-count branch tests the dimension too
        if c1.val.type.level ≥ Gen.TYPE_LEVEL_MAX - 1 then XM.fail (.err Gen.EXC_RT_OUT_OF_DIMENSION)
        else xalloc (.null (levelUp8 c1.val.type))))
      else
        XM.bind (XM.lift c0.val.asInt) (fun k =>
        if k < 0 then XM.fail idxErr else
        if k > 1048576 then XM.fail .unmodelled else
        XM.bind (evalX F fuel a) (fun x1 =>
        XM.bind (xget x1) (fun c1 =>
        XM.bind (XM.lift (tabHeader c1.val)) (fun hd =>
        if k == 0 then xalloc (.tab hd.1 hd.2 [])
        else
          XM.bind (takeArg x1) (fun v1 =>
          XM.bind (tabStep (evalX F fuel a) (levelDown8 hd.1) (idxOf k - 1) [v1]) (fun es =>
          xalloc (.tab hd.1 hd.2 es)))))))))
    | .tup args =>
      match args with
      | [] => xalloc (.null { major := .tup })
      | _ =>
        XM.bind (tupStep (evalX F fuel) args []) (fun items =>
        xalloc (.tup (items.map Val.type) items))
    | .call f args =>
      match F[f]? with
      | none => XM.fail .unmodelled
      | some fn =>
        if fn.nparams != args.length then XM.fail .unmodelled else
        XM.bind (bindArgs (evalX F fuel) args 0 (calleeStore fn)) (fun callee =>
        XM.bind (inCallee callee (execBody (evalX F fuel) fn.body)) (fun ret =>
        match ret with
        | some v => xalloc v
        | none => xalloc (.null Ty.none)))
    | .bi name args =>
      XM.bind (biArgs (evalX F fuel) args []) (fun xn =>
      XM.bind (biHeld xn) (fun _ =>
      XM.bind (xgets (xn.map (·.1))) (fun vs =>
      match biPlace name vs with
      | none => XM.fail .unmodelled
      | some p => XM.bind (XM.lift (biValue name vs)) (fun v => xplaceBi p v (xn.map (·.1))))))

/-- One statement of the main program: `x_i = e;`, `do e;` (`return` ends the run and is not a store effect). -/
def execX (F : List XFun) (fuel : Nat) : XStmt → XM Unit
  | .assign i e => XM.bind (evalX F fuel e) (fun x => XM.bind (xstoreVar i x) (fun _ => xendStatement))
  | .doE e => XM.bind (evalX F fuel e) (fun _ => xendStatement)
  | .ret e => XM.bind (evalX F fuel e) (fun _ => xendStatement)

def execXs (F : List XFun) (fuel : Nat) : List XStmt → XM Unit
  | [] => XM.pure ()
  | st :: rest => XM.bind (execX F fuel st) (fun _ => execXs F fuel rest)

/-- The flag invariant of the extended model: every variable slot and every constant node carries LVALUE.
(Elements have no flag of their own in the model: see the header.) -/
def FlagInvX (s : XS) : Prop := FlagInv s.st

end BlocV
