/-
  Model — the type-safety constraint of symbols: `$`-qualified variables and loop iterators (property C02, third
  sentence). The interpreter model (Model/Interp.lean) has no constraint flags; this file models them as
    (a) a static pass over interpreter programs — what the PARSER refuses: `Context::registerSymbol` +
        `Symbol::check_safety` while `FORStatement::parse_clause` / `FORALLStatement::parse_clause` hold the iterator's
        safety flag — `checkProgram`;
    (b) the run-time check of `Context::storeVariable` — `storeCheck`.

  Transcribed from
    blocc/symbol.h      `_safety`, `safety()`; `SAFETY_QUALIFIER` = '$'
    blocc/symbol.cpp:49 `Symbol::check_safety(type)`: EQU when equal; a table symbol (level > 0) accepts any table;
                        a level-0 symbol accepts a level-0 type of the same major; everything else is KO. In particular an
                        OPAQUE symbol (major none, level 0) refuses every non-opaque type, and a typed symbol refuses the
                        opaque type.
    blocc/context.cpp:187 `registerSymbol(name, type)`: new symbol → created, safety set when the name starts with '$';
                        same type → nothing; safety set and check KO → ParseError TYPE_MISMATCH; otherwise upgrade.
    blocc/context.cpp:268 `storeVariable(id, value)`: same type as the stored value → swap; otherwise, safety set and
                        check (against the SYMBOL's type) KO → RuntimeError TYPE_MISMATCH; otherwise upgrade + store.
    blocc/statement_for.cpp:181 `parse_clause`: `vt.safety(true)` for the body, restored after it (also on error);
    blocc/statement_forall.cpp:197 the same for the iterator; :278 an iterator name that is already a protected symbol is
                        refused ("Cannot use a protected symbol as iterator variable", EXC_PARSE_OTHER_S).
  A function body is compiled in its own context (parameters first); its `$` symbols are its own.
-/
import BlocV.Model.Interp

namespace BlocV.Safety
open BlocV

inductive SafetyCheck | ko | equ | upg
  deriving DecidableEq, Repr, Inhabited

/-- `Symbol::check_safety`. -/
def checkSafety (sym ty : Ty) : SafetyCheck :=
  if ty == sym then .equ
  else if sym.level > 0 then (if ty.level > 0 then .upg else .ko)
  else if ty.level == 0 then (if sym.major == ty.major then .upg else .ko)
  else .ko

/-- the constraint is active: `$` name (`registerSymbol`) or iterator of an enclosing loop being compiled (`prot`) -/
def isSafe (prot : List String) (n : String) : Bool := n.toList.head? == some '$' || prot.contains n

def curOf (t : SymTab) (n : String) : Option Ty := (t.find? (·.1 == n)).map (·.2.1)

/-- `Symbol::upgrade(type)` of the symbol `n`, or its creation at the end of the pool: `regSym` of Model/Interp.lean on a
table without duplicate names (the only tables there are), written by recursion. -/
def setCur : SymTab → String → Ty → SymTab
  | [], n, ty => [(n, ty, ty)]
  | (k, c, f) :: t, n, ty => if k == n then (k, ty, f) :: t else (k, c, f) :: setCur t n ty

/-- `Context::registerSymbol(name, type)` under the constraint flags. -/
def regS (prot : List String) (t : SymTab) (n : String) (ty : Ty) : Except Nat SymTab :=
  match curOf t n with
  | none => .ok (setCur t n ty)
  | some cur =>
    if ty == cur then .ok t
    else if isSafe prot n && checkSafety cur ty == .ko then .error Gen.EXC_PARSE_TYPE_MISMATCH_S
    else .ok (setCur t n ty)

/-- fold of a fallible step over a list (plain recursion: unfolds by `rfl`) -/
def foldE {α β : Type} (f : β → α → Except Nat β) : β → List α → Except Nat β
  | b, [] => .ok b
  | b, a :: as =>
    match f b a with
    | .ok b' => foldE f b' as
    | .error c => .error c

/-- The parse-time walk of one statement: every symbol registration the parser performs, in text order, with the
iterator of each loop protected while its body is compiled. `fuel` bounds the nesting depth. -/
def checkStmt (funcs : List Func) : Nat → List String → SymTab → Stmt → Except Nat SymTab
  | 0, _, t, _ => .ok t
  | fuel + 1, prot, t, st =>
    match st with
    | .letS n e => regS prot t n (typeOfExpr funcs t.cur 100 e)
    | .forS v _ _ _ _ body =>
      match regS prot t v Ty.int with
      | .ok t1 => foldE (checkStmt funcs fuel (v :: prot)) t1 body
      | .error c => .error c
    | .forallS it src _ body =>
      if (curOf t it).isSome && isSafe prot it then .error Gen.EXC_PARSE_OTHER_S else
      let ty := typeOfExpr funcs t.cur 100 src
      let ety := if ty.major == .none && ty.level == 0 then ty else ty.levelDown
      match regS prot t it ety with
      | .ok t1 => foldE (checkStmt funcs fuel (it :: prot)) t1 body
      | .error c => .error c
    | .whileS _ body => foldE (checkStmt funcs fuel prot) t body
    | .ifS rules => foldE (fun t r => foldE (checkStmt funcs fuel prot) t r.2) t rules
    | .beginS body catches =>
      match foldE (checkStmt funcs fuel prot) t body with
      | .ok t1 => foldE (fun t c => foldE (checkStmt funcs fuel prot) t c.2) t1 catches
      | .error c => .error c
    | _ => .ok t

def checkList (funcs : List Func) (fuel : Nat) (prot : List String) (t : SymTab) (ss : List Stmt) : Except Nat SymTab :=
  foldE (checkStmt funcs fuel prot) t ss

/-- One function declaration: its body in its own symbol table, parameters first (`FUNCTIONStatement::parse`). -/
def checkFunc (funcs : List Func) (st : Stmt) : Option Nat :=
  match st with
  | .funcS _ ps _ b c =>
    match checkList funcs 1000 [] (ps.map fun (pn, pt) => (pn, pt, pt)) b with
    | .error code => some code
    | .ok t1 =>
      match foldE (fun t cl => checkList funcs 1000 [] t cl.2) t1 c with
      | .error code => some code
      | .ok _ => none
  | _ => none

/-- The verdict of the parser on the constraint flags for a whole program: `none` = accepted, `some code` = the ParseError. -/
def checkProgram (prog : List Stmt) : Option Nat :=
  let funcs := collectFuncs prog
  match prog.findSome? (checkFunc funcs) with
  | some code => some code
  | none =>
    match checkList funcs 1000 [] [] (prog.filter fun st => match st with | .funcS .. => false | _ => true) with
    | .error code => some code
    | .ok _ => none

/-- `Context::storeVariable` as far as types go: symbol type, constraint flag, type of the stored value, type of the new
value ↦ the symbol's type afterwards, or the RuntimeError. -/
def storeCheck (sym : Ty) (safety : Bool) (cur new : Ty) : Res Ty :=
  if cur == new then .ok sym
  else if safety && checkSafety sym new == .ko then .err Gen.EXC_RT_TYPE_MISMATCH_S
  else .ok new

/-- "keeps its major type": at level 0 the same major; a table stays a table (check_safety lets a protected table
change its element type and dimension: see `safety_table_changes` in Proofs/C02.lean). -/
def sameKind (a b : Ty) : Bool :=
  (a.level == 0 && b.level == 0 && a.major == b.major) || (a.level > 0 && b.level > 0)

/-! ### run time: the safety flag of a symbol around the loops that iterate over it

  blocc/statement_for.cpp `FORStatement::doit` (first pass): `data.safety_bak = vs.safety(); vs.safety(true);
  ctx.stackControl(this, new RT(data));` — `finalizeControl`: `safety(_data->safety_bak)`.
  blocc/statement_forall.cpp the same with `it_safety_bak` (a FORALL over an iterator whose flag is already set is refused
  beforehand: EXC_RT_NOT_IMPLEMENTED, `forallRefused`).
  blocc/context.cpp `unstackControl()` = finalizeControl of the top frame + pop: called once by the loop itself when it ends
  normally, by `break`, or when a `return` travels through it; `onRuntimeError()` pops every frame of the failing unit.
  The same discipline holds at parse time (`parse_clause`: flag set for the body, restored after it, also on a ParseError).
  The interpreter model has no flags; this is the flag machine alone, driven by the loop events of a run. -/

/-- a frame of the control stack: a loop over a variable remembers that variable's flag; a WHILE frame remembers nothing -/
inductive Ctl
  | loop (v : String) (bak : Bool)
  | plain
  deriving Repr, DecidableEq

structure FlagSt where
  flags : String → Bool
  ctl : List Ctl

inductive Ev
  | enterFor (v : String)
  | enterForall (v : String)
  | enterWhile
  | unstack                 -- normal end of a loop, `break`, a `return` passing through: one frame
  | error (depth : Nat)     -- `Context::onRuntimeError`: every frame above `depth`
  deriving Repr, DecidableEq

def setFlag (f : String → Bool) (v : String) (b : Bool) : String → Bool := fun n => if n = v then b else f n

/-- `finalizeControl` -/
def finalize (f : String → Bool) : Ctl → String → Bool
  | .loop v b => setFlag f v b
  | .plain => f

/-- `unstackControl` until `d` frames are left -/
def unwindTo (d : Nat) : (String → Bool) → List Ctl → FlagSt
  | f, [] => ⟨f, []⟩
  | f, c :: r => if r.length + 1 ≤ d then ⟨f, c :: r⟩ else unwindTo d (finalize f c) r

def step (s : FlagSt) : Ev → FlagSt
  | .enterFor v | .enterForall v => ⟨setFlag s.flags v true, .loop v (s.flags v) :: s.ctl⟩
  | .enterWhile => ⟨s.flags, .plain :: s.ctl⟩
  | .unstack => match s.ctl with
    | [] => s
    | c :: r => ⟨finalize s.flags c, r⟩
  | .error d => unwindTo d s.flags s.ctl

def run (s : FlagSt) : List Ev → FlagSt
  | [] => s
  | e :: r => run (step s e) r

/-- the events never pop a frame that was there before them -/
def depthOk (d : Nat) (s : FlagSt) : List Ev → Bool
  | [] => true
  | e :: r => decide (d ≤ (step s e).ctl.length) && depthOk d (step s e) r

/-- every symbol is created with its flag set iff its name carries the qualifier (`Context::registerSymbol`) -/
def isDollar (n : String) : Bool := n.toList.head? == some '$'

/-- the state between two units: no loop is running -/
def unitStart : FlagSt := ⟨isDollar, []⟩

/-- `FORALLStatement::doit` refuses an iterator whose flag is set -/
def forallRefused (s : FlagSt) (v : String) : Bool := s.flags v

end BlocV.Safety
