/-
  Model — front end: from the parser model's trees (Model/Parse.lean, `PExpr` / `PStmt`: what
  `Parser::parse` builds from a source text) to the interpreter model's programs (Model/Interp.lean,
  `Expr` / `Stmt`: what `Executable::run` walks). With it the interpreter model runs THE TEXT the
  library runs (`src` command of DrvFE.lean), not a second rendering of the generator's tree.

  What the C++ does at each node, and where it is read from:
    * names — `VariableExpression::parse`, `FunctorExpression::parse`, `LETStatement::parse`, `FORStatement::parse`,
      `FORALLStatement::parse`, `RAISEStatement::parse`, `BEGINStatement::parse_catch`, `FUNCTIONStatement::parse`:
      `std::transform(…, ::toupper)` on the token text. Parse.lean's trees already hold the upper-cased name;
      `nameOf` upper-cases again (idempotent), so a hand-built tree with a lower-case name denotes the symbol the
      C++ would create for that word.
    * call resolution — parse_expression.cpp `element()`: a word of `BuiltinExpression::KEYWORDS` is a built-in
      (`PExpr.call` / `PExpr.kw`), any other word followed by `(` a functor call (`PExpr.fcall`), otherwise a
      variable. Parse.lean has made that decision; here a built-in is kept only when the interpreter model has it
      (`evalBuiltin`, `tab`, `tup`), and the conversions written without an argument — `int()` `num()` `bool()`
      `str()` `raw()` — are the typed nulls their `value()` returns for `_args.empty()` (builtin_int.cpp:33,
      builtin_num.cpp, builtin_bool.cpp:31, builtin_str.cpp:31, builtin_raw.cpp:32) and their `type()` announces.
    * `null` `true` `false` (`on` `off`) — builtin_null.h / builtin_true.h / builtin_false.h: constants.
    * members — member_*.cpp through `Member.ofName`; `x@N` and `x.set@N(…)` have no node in the interpreter model.
    * `if … elsif … else` — IFStatement: a rule list, the ELSE branch is the rule without condition.
    * chained statements `a = 1, b = 2;` (`chain_statement`, `Statement::_next`) — run one after the other; LET sets
      no stop condition, so the chain is the sequence of its members.
    * function declarations — FUNCTIONStatement::parse: parameter and return types from the type keyword
      (`undefined` / none = opaque).

  Everything the interpreter model cannot express is an explicit `unsupported <what>` — never a default.
  Total, structural, no fuel.
-/
import BlocV.Model.Parse
import BlocV.Model.Interp

namespace BlocV.Elab
open BlocV BlocV.Parse

/-- Why a tree has no image in the interpreter model. -/
inductive ElabErr
  | unsupported (what : String)
  deriving Repr, DecidableEq, Inhabited

abbrev EM := Except ElabErr

def unsup {α} (what : String) : EM α := .error (.unsupported what)

/-- bytes of a (7-bit) word as a `String`, one character per byte -/
def strOf (b : Bytes) : String := String.ofList (b.map fun c => Char.ofNat c.toNat)

/-- a symbol / function / exception name as the C++ stores it (`::toupper`, byte by byte) -/
def nameOf (n : Bytes) : String := strOf (upper n)

def binOp : POp → EM BinOp
  | .add => pure .add | .sub => pure .sub | .mul => pure .mul | .div => pure .div | .mod => pure .mod
  | .exp => pure .exp | .and => pure .and | .ior => pure .ior | .xor => pure .xor | .pop => pure .pop
  | .pus => pure .pus | .eq => pure .eq | .ne => pure .ne | .lt => pure .lt | .le => pure .le
  | .gt => pure .gt | .ge => pure .ge | .band => pure .band | .bior => pure .bior | .bxor => pure .bxor
  | .matches => unsup "operator matches"

def unOp : PUn → UnOp
  | .neg => .neg | .pos => .pos | .not => .not | .bnot => .bnot

/-- the conversion built-ins whose call without argument is the typed null (`_args.empty()`) -/
def nullCtor (name : String) : Option Ty :=
  match name with
  | "int" => some Ty.int
  | "num" => some Ty.num
  | "bool" => some Ty.bool
  | "str" => some Ty.str
  | "raw" => some Ty.raw
  | _ => none

/-- built-ins the interpreter model evaluates (`eval`: `tab`, `tup`, then `evalBuiltin`) -/
def builtinKnown (name : String) : Bool :=
  name == "tab" || name == "tup" || (evalBuiltin (m := Res) Fmt.fmt16g name []).isSome

/-- A built-in call node. -/
def elabCall (name : String) (args : List Expr) : EM Expr :=
  match nullCtor name, args with
  | some t, [] => pure (.lit (.null t))
  | _, _ => if builtinKnown name then pure (.call name args) else unsup ("built-in " ++ name)

/-- The constants written without parentheses. -/
def elabKw (k : Bytes) : EM Expr :=
  if k == bytesOf "null" then pure (.lit (.null Ty.none))
  else if k == bytesOf "true" then pure (.lit (.bool true))
  else if k == bytesOf "false" then pure (.lit (.bool false))
  else if k == bytesOf "error" then pure .errorE          -- the last error record (Interp `Expr.errorE`, builtin_error.cpp)
  else unsup ("constant " ++ strOf k)

mutual
  /-- `PExpr` → `Expr`; the `enc` flag (parentheses in the text) has no meaning at run time. -/
  def elabExpr : PExpr → EM Expr
    | .int v => pure (.lit (.int v))
    | .num d => pure (.lit (.num d))
    | .str s => pure (.lit (.str s))
    | .var n => pure (.var (nameOf n))
    | .kw k => elabKw k
    | .call n args => do
      let xs ← elabArgs args
      elabCall (strOf n) xs
    | .fcall n args => do
      let xs ← elabArgs args
      pure (.fcall (nameOf n) xs)
    | .member e n args => do
      let r ← elabExpr e
      let xs ← elabArgs args
      match Member.ofName (strOf n) with
      | some m => pure (.member m r xs)
      | none => unsup ("member " ++ strOf n)
    | .setm _ _ _ => unsup "member set@"
    | .item e no => do
      let r ← elabExpr e
      pure (.item r no)
    | .un op _ x => do
      let a ← elabExpr x
      pure (.un (unOp op) a)
    | .bin op _ a b => do
      let o ← binOp op
      let x ← elabExpr a
      let y ← elabExpr b
      pure (.bin o x y)
  def elabArgs : List PExpr → EM (List Expr)
    | [] => pure []
    | a :: as => do
      let x ← elabExpr a
      let xs ← elabArgs as
      pure (x :: xs)
end

/-- A type keyword of a parameter / return declaration (`[]` = none written = `undefined`). -/
def elabTy (t : Bytes) : EM Ty :=
  if t.isEmpty || t == bytesOf "undefined" then pure Ty.none
  else if t == bytesOf "boolean" then pure Ty.bool
  else if t == bytesOf "integer" then pure Ty.int
  else if t == bytesOf "decimal" then pure Ty.num
  else if t == bytesOf "string" then pure Ty.str
  else if t == bytesOf "bytes" then pure Ty.raw
  else if t == bytesOf "complex" then pure Ty.imag
  else unsup ("declared type " ++ strOf t)

def elabDir : PDir → Dir
  | .auto => .auto | .asc => .asc | .desc => .desc

def elabOpt : Option PExpr → EM (Option Expr)
  | none => pure none
  | some e => do let x ← elabExpr e; pure (some x)

def elabParams : List (Bytes × Bytes) → EM (List (String × Ty))
  | [] => pure []
  | (n, t) :: ps => do
    let ty ← elabTy t
    let r ← elabParams ps
    pure ((nameOf n, ty) :: r)

mutual
  /-- One parsed statement → the statements it runs (a chain is the sequence of its members). -/
  def elabStmt : PStmt → EM (List Stmt)
    | .nop => pure [.nop]
    | .brk => pure [.breakS]
    | .cont => pure [.continueS]
    | .trace _ => unsup "statement trace"
    | .ret e => do let x ← elabOpt e; pure [.returnS x]
    | .letS n e nx => do
      let x ← elabExpr e
      let r ← elabNext nx
      pure (.letS (nameOf n) x :: r)
    | .letn _ _ _ => unsup "typed declaration"
    | .print args => do let xs ← elabArgs args; pure [.printS xs]
    | .put _ => unsup "statement put"
    | .doS e => do let x ← elabExpr e; pure [.doS x]
    | .raise n => pure [.raiseS (nameOf n)]
    | .ifS rules els => do
      let rs ← elabRules rules
      match els with
      | none => pure [.ifS rs]
      | some b => do let eb ← elabBlock b; pure [.ifS (rs ++ [(none, eb)])]
    | .whileS c body => do
      let x ← elabExpr c
      let b ← elabBlock body
      pure [.whileS x b]
    | .forS v b e step dir body => do
      let x ← elabExpr b
      let y ← elabExpr e
      let s ← elabOpt step
      let bd ← elabBlock body
      pure [.forS (nameOf v) x y s (elabDir dir) bd]
    | .forall v e dir body => do
      let x ← elabExpr e
      let bd ← elabBlock body
      pure [.forallS (nameOf v) x (elabDir dir) bd]
    | .begin body catches => do
      let b ← elabBlock body
      let cs ← elabCatches catches
      pure [.beginS b cs]
    | .func n params rt body catches => do
      let ps ← elabParams params
      let r ← elabTy rt
      let b ← elabBlock body
      let cs ← elabCatches catches
      pure [.funcS (nameOf n) ps r b cs]
  def elabNext : Option PStmt → EM (List Stmt)
    | none => pure []
    | some s => elabStmt s
  def elabBlock : List PStmt → EM (List Stmt)
    | [] => pure []
    | s :: ss => do
      let x ← elabStmt s
      let xs ← elabBlock ss
      pure (x ++ xs)
  def elabRules : List (PExpr × List PStmt) → EM (List (Option Expr × List Stmt))
    | [] => pure []
    | (c, b) :: rs => do
      let x ← elabExpr c
      let y ← elabBlock b
      let r ← elabRules rs
      pure ((some x, y) :: r)
  def elabCatches : List (Bytes × List PStmt) → EM (List (String × List Stmt))
    | [] => pure []
    | (n, b) :: cs => do
      let y ← elabBlock b
      let r ← elabCatches cs
      pure ((nameOf n, y) :: r)
end

/-- `Parser::parse` result → the program `Executable::run` walks. -/
def elabProgram (p : List PStmt) : EM (List Stmt) := elabBlock p

/-- Source text → program: the library's reader + scanner + parser (Model/Lex.lean, Model/Parse.lean), then `elabProgram`.
`inl code` = the text is rejected with that parse error (or a pseudo code of Parse.lean). -/
def frontEnd (text : Bytes) : Except Nat (EM (List Stmt)) :=
  match parseText text with
  | .error c => .error c
  | .ok p => .ok (elabProgram p)

end BlocV.Elab
