/-
  C11 — the effects of one `Parser::parse` / `Parser::parseStatement` on the context, as a machine over
  *events* (not a grammar): what `registerSymbol`, the `parse_clause` functions, `FUNCTIONStatement::parse`,
  the catch blocks and `Context::parsingEnd` DO to the symbol table, the flags, the exec stack and the
  function table. Transcribed from

    blocc/context.cpp      registerSymbol (both overloads), parsingBegin, parsingEnd
    blocc/symbol.cpp/.h    upgrade (both overloads), check_safety, safety()/locked() getters and setters
    blocc/statement_for.cpp, statement_forall.cpp      parse_clause (flags saved, set, restored twice)
    blocc/statement_if.cpp, statement_while.cpp, statement_begin.cpp   execBegin … execEnd (+ catch)
    blocc/statement_function.cpp, functor_manager.cpp  createOrReplace, rollback
    blocc/parser.cpp       Parser::parse: parsingBegin … parsingEnd on both paths

  The expression parser never touches the context (it reads symbols and the function table only), so
  a text is abstracted as the sequence of context effects its parse performs up to the point where a
  `ParseError` is raised. Everything that can raise one without being a context effect (syntax, type
  check of an expression, undefined symbol, end of text inside a clause) is the event `fail`.

  Representation: the storage pool is kept column-wise — `names`, `tds` (type + tuple decl) and `fls`
  (`_safety`, `_locked` raw fields) are parallel lists indexed by the symbol id. Values are not part of
  the model: parsing never evaluates anything (checked by the correspondence: value dumps are equal).
-/

namespace BlocV.ParseCtx

/-! ## column helpers -/

/-- apply `f` to the element at index `i` (no-op when `i` is out of range) -/
def modAt {α} (f : α → α) : Nat → List α → List α
  | _, [] => []
  | 0, x :: xs => f x :: xs
  | n + 1, x :: xs => x :: modAt f n xs

/-- `Context::findSymbol`: the id of the first slot with that name -/
def findName (n : String) : List String → Option Nat
  | [] => none
  | x :: xs => if x = n then some 0 else (findName n xs).map (· + 1)

/-! ## types -/

/-- `bloc::Type`: major, minor, level. -/
structure Ty where
  major : Nat
  minor : Nat
  level : Nat
  deriving DecidableEq, Repr, Inhabited

/-- `TupleDecl::Decl`: the member types of a tuple (empty = not a tuple / opaque tuple). -/
abbrev Decl := List Ty

def ROWTYPE : Nat := 7
def INTEGER : Nat := 2

/-- type and decl of a symbol -/
abbrev TD := Ty × Decl
/-- the raw fields `_safety`, `_locked` of a symbol -/
abbrev Fl := Bool × Bool

/-- `Decl::make_type(level)`; `H` is the structure hash (DJB mod 65535 in the code; a parameter here). -/
def mkTupleTy (H : Decl → Nat) (d : Decl) (lv : Nat) : Ty :=
  if d.isEmpty then ⟨ROWTYPE, 0, lv⟩ else ⟨ROWTYPE, H d, lv⟩

/-- the two overloads of `registerSymbol` / `Symbol::upgrade` -/
inductive RegTy
  | plain (t : Ty)
  | tuple (d : Decl) (lv : Nat)
  deriving DecidableEq, Repr

def RegTy.ty (H : Decl → Nat) : RegTy → Ty
  | .plain t => t
  | .tuple d lv => mkTupleTy H d lv

/-- what `Symbol::upgrade` leaves in the symbol: `upgrade(Type)` clears the decl -/
def RegTy.td (H : Decl → Nat) : RegTy → TD
  | .plain t => (t, [])
  | .tuple d lv => (mkTupleTy H d lv, d)

/-- A symbol is *coherent* when a recorded decl is the decl of its type: `decl ≠ [] → type = make_type(decl, level)`.
This is an invariant of class `Symbol` (both constructors and both `upgrade` overloads establish it; a symbol typed
from a null tuple VALUE by `storeVariable` has a tuple type with some minor and NO decl, which is coherent). -/
def TD.coherent (H : Decl → Nat) (td : TD) : Bool :=
  td.2.isEmpty || td.1 == mkTupleTy H td.2 td.1.level

inductive SafetyCheck | ko | equ | upg
  deriving DecidableEq, Repr

/-- `Symbol::check_safety` -/
def checkSafety (cur t : Ty) : SafetyCheck :=
  if t = cur then .equ
  else if cur.level > 0 then (if t.level > 0 then .upg else .ko)
  else if t.level = 0 then (if cur.major = t.major then .upg else .ko)
  else .ko

/-! ## the context -/

/-- one entry of `Context::_backed_symbols` (a copy of the symbol before its upgrade) -/
structure Backup where
  id : Nat
  td : TD
  deriving DecidableEq, Repr

/-- one entry of `FunctorManager::_declarations`; `fid` identifies the functor object (the definition),
`body` = the functor has a body (is callable) -/
structure Fn where
  name : String
  arity : Nat
  fid : Nat
  body : Bool
  deriving DecidableEq, Repr

structure Ctx where
  names : List String
  tds : List TD
  fls : List Fl
  /-- `_backed_symbols`, newest first -/
  backed : List Backup
  /-- `_execstack.size()` -/
  exec : Nat
  /-- `_parsing` -/
  parsing : Bool
  fns : List Fn
  /-- `FunctorManager::_backed` -/
  fbacked : Option Fn
  deriving DecidableEq, Repr

/-- between two parses: not parsing, no backups -/
def Ctx.idle (c : Ctx) : Bool := !c.parsing && c.backed.isEmpty

def Ctx.coherent (H : Decl → Nat) (c : Ctx) : Bool := c.tds.all (TD.coherent H)

/-- `Symbol::safety()` getter: `_safety || _locked` -/
def Fl.safety (f : Fl) : Bool := f.1 || f.2
def Fl.locked (f : Fl) : Bool := f.2
def setSafe (b : Bool) (f : Fl) : Fl := (b, f.2)
def setLock (b : Bool) (f : Fl) : Fl := (f.1, b)

inductive PErr
  | constViolation   -- EXC_PARSE_CONST_VIOLATION_S
  | typeMismatch     -- EXC_PARSE_TYPE_MISMATCH_S
  | protectedIter    -- "Cannot use a protected symbol as iterator variable."
  | nestedFunction   -- "A function cannot be defined in nested block."
  | other            -- any other ParseError (event `fail`, stray `end`, ill-formed event)
  deriving DecidableEq, Repr

def parsingBegin (c : Ctx) : Ctx := { c with parsing := true }

/-- what the restore loop writes back for one backup: `upgrade(decl, level)` for a tuple major WITH a decl
(type recomputed from the decl), `upgrade(type)` otherwise (type as it was, decl cleared) -/
def restoreTD (H : Decl → Nat) (b : Backup) : TD :=
  if b.td.1.major = ROWTYPE ∧ ¬ b.td.2.isEmpty = true then (mkTupleTy H b.td.2 b.td.1.level, b.td.2) else (b.td.1, [])

def restoreOne (H : Decl → Nat) (tds : List TD) (b : Backup) : List TD :=
  modAt (fun _ => restoreTD H b) b.id tds

/-- the loop of `Context::parsingEnd`: from the newest backup to the oldest -/
def restoreAll (H : Decl → Nat) : List Backup → List TD → List TD
  | [], tds => tds
  | b :: bs, tds => restoreAll H bs (restoreOne H tds b)

/-- `Context::parsingEnd` -/
def parsingEnd (H : Decl → Nat) (c : Ctx) : Ctx :=
  { c with tds := restoreAll H c.backed c.tds, backed := [], parsing := false }

/-- `Context::registerSymbol(name, type)` and `(name, decl, level)`; nothing is modified when it throws. -/
def registerSymbol (H : Decl → Nat) (c : Ctx) (name : String) (r : RegTy) : Except PErr Ctx :=
  match findName name c.names with
  | none =>
    -- allocate new; the `$` qualifier makes it type-safe from the start
    .ok { c with names := c.names ++ [name], tds := c.tds ++ [r.td H],
                 fls := c.fls ++ [(name.front == '$', false)] }
  | some i =>
    match c.tds[i]?, c.fls[i]? with
    | some cur, some fl =>
      if fl.locked then .error .constViolation
      else if r.ty H = cur.1 then .ok c
      else
        -- back up the old symbol, then upgrade
        let upgraded : Ctx := { c with backed := ⟨i, cur⟩ :: c.backed, tds := modAt (fun _ => r.td H) i c.tds }
        if fl.safety then
          match checkSafety cur.1 (r.ty H) with
          | .ko => .error .typeMismatch
          | .equ => .ok c
          | .upg => .ok upgraded
        else .ok upgraded
    | _, _ => .error .other

/-! ## clauses -/

/-- what a `parse_clause` keeps in its local variables while the body is parsed -/
inductive Frame
  /-- IF / WHILE / LOOP / BEGIN clause: `execBegin` only -/
  | blk
  /-- FOR: `safety_bak` of the control variable -/
  | forC (i : Nat) (safetyBak : Bool)
  /-- FORALL: `safety_vt_bak`, `locked_vt_bak` of the iterator, and for a plain-variable target its id
  and `locked_ex_bak` -/
  | forallC (v : Nat) (safetyBak lockedBak : Bool) (tgt : Option (Nat × Bool))
  deriving DecidableEq, Repr

/-- entry of `FORStatement::parse_clause` -/
def enterFor (c : Ctx) (i : Nat) : Option (Ctx × Frame) :=
  match c.fls[i]? with
  | some fl =>
    -- the control variable was registered by the same FOR header: registerSymbol refuses a locked symbol
    if fl.locked then none else
    some ({ c with exec := c.exec + 1, fls := modAt (setSafe true) i c.fls }, .forC i fl.safety)
  | none => none

/-- entry of `FORALLStatement::parse_clause` -/
def enterForall (c : Ctx) (v : Nat) (tgt : Option Nat) : Option (Ctx × Frame) :=
  match c.fls[v]? with
  | some fv =>
    -- FORALL::parse refuses an existing protected iterator and registerSymbol a locked one
    if fv.locked then none else
    let fls1 := modAt (setSafe true) v c.fls
    match tgt with
    | none => some ({ c with exec := c.exec + 1, fls := fls1 }, .forallC v fv.safety fv.locked none)
    | some t =>
      match fls1[t]? with
      | some ft =>
        let fls2 := modAt (setLock true) t fls1
        -- "iterator inherits constness of the target"
        let fls3 := modAt (setLock ft.locked) v fls2
        some ({ c with exec := c.exec + 1, fls := fls3 }, .forallC v fv.safety fv.locked (some (t, ft.locked)))
      | none => none
  | none => none

/-- the flag part of leaving a clause through its catch block (statement order as in the source) -/
def Frame.catchFls : Frame → List Fl → List Fl
  | .blk, fls => fls
  | .forC i sb, fls => modAt (setSafe sb) i fls
  | .forallC v sb lb tgt, fls =>
    let fls1 := match tgt with | some (t, lt) => modAt (setLock lt) t fls | none => fls
    modAt (setLock lb) v (modAt (setSafe sb) v fls1)

/-- the catch block of a `parse_clause` (then the exception is rethrown) -/
def Frame.exitCatch (fr : Frame) (c : Ctx) : Ctx :=
  { c with fls := fr.catchFls c.fls, exec := c.exec - 1 }

/-- the flag part of the normal exit of a clause (the same statements, written a second time in the source) -/
def Frame.normalFls : Frame → List Fl → List Fl
  | .blk, fls => fls
  | .forC i sb, fls => modAt (setSafe sb) i fls
  | .forallC v sb lb tgt, fls =>
    let fls1 := match tgt with | some (t, lt) => modAt (setLock lt) t fls | none => fls
    modAt (setLock lb) v (modAt (setSafe sb) v fls1)

def Frame.exitNormal (fr : Frame) (c : Ctx) : Ctx :=
  { c with fls := fr.normalFls c.fls, exec := c.exec - 1 }

/-! ## function declarations -/

def Fn.is (name : String) (arity : Nat) (f : Fn) : Bool := f.name == name && f.arity == arity

def findFn (name : String) (arity : Nat) : List Fn → Option Nat
  | [] => none
  | f :: fs => if f.is name arity then some 0 else (findFn name arity fs).map (· + 1)

/-- `FunctorManager::createOrReplace` followed by `fe.functor.swap(fct)`: the entry (a replaced one keeps
its position) now holds the new functor, which has no body yet; a replaced functor goes to `_backed`. -/
def createOrReplace (fns : List Fn) (name : String) (arity fid : Nat) : List Fn × Option Fn :=
  match findFn name arity fns with
  | some i => (modAt (fun _ => ⟨name, arity, fid, false⟩) i fns, fns[i]?)
  | none => (fns ++ [⟨name, arity, fid, false⟩], none)

/-- `FunctorManager::rollback`: with a backed-up functor, the (first) entry of its name and arity — wherever it is in
the table — is swapped back; without one the last declaration (the one just created) is removed. -/
def rollback (fns : List Fn) (bk : Option Fn) : List Fn × Option Fn :=
  match bk with
  | some b =>
    match findFn b.name b.arity fns with
    | some i => (modAt (fun _ => b) i fns, fns[i]?)     -- swap
    | none => (fns, bk)                                 -- nothing happens
  | none => (fns.dropLast, none)

/-- the function whose body is being parsed (in its private context): nesting depth inside the body -/
structure Child where
  depth : Nat
  name : String
  arity : Nat
  deriving DecidableEq, Repr

/-! ## the machine -/

inductive Ev
  /-- `registerSymbol` by LET, LETN, the FOR header, the FORALL header -/
  | reg (name : String) (r : RegTy)
  /-- `FORStatement::parse_clause` entry for control variable id `i` -/
  | enterFor (i : Nat)
  /-- `FORALLStatement::parse_clause` entry: iterator id, target id when the table is a plain variable -/
  | enterForall (v : Nat) (tgt : Option Nat)
  /-- entry of an IF / ELSIF / ELSE / WHILE / LOOP clause or of BEGIN -/
  | enterBlk
  /-- normal end of the innermost open clause (or of the function body) -/
  | leave
  /-- `FUNCTIONStatement::parse` reaching `createOrReplace` (header accepted); `fid` names the new functor -/
  | fnBegin (name : String) (arity : Nat) (fid : Nat)
  /-- a ParseError raised by anything that is not a context effect -/
  | fail
  deriving DecidableEq, Repr

structure St where
  ctx : Ctx
  stack : List Frame
  child : Option Child
  deriving DecidableEq, Repr

def St.init (c : Ctx) : St := ⟨parsingBegin c, [], none⟩

/-- One event. `.error` = a ParseError is thrown by this event; nothing was modified (every event checks
before it writes), so the state at the throw is the argument. -/
def step (H : Decl → Nat) (st : St) (e : Ev) : Except PErr St :=
  match st.child with
  | some ch =>
    -- inside a function body: the private context of the function takes the effects
    match e with
    | .reg _ _ => .ok st
    | .enterFor _ | .enterForall _ _ | .enterBlk => .ok { st with child := some { ch with depth := ch.depth + 1 } }
    | .leave =>
      if ch.depth ≤ 1 then
        -- `fe.functor->body = BEGINStatement::parse(...)` returned: the declaration is complete
        match findFn ch.name ch.arity st.ctx.fns with
        | some i => .ok { st with child := none,
                                  ctx := { st.ctx with fns := modAt (fun f => { f with body := true }) i st.ctx.fns } }
        | none => .error .other
      else .ok { st with child := some { ch with depth := ch.depth - 1 } }
    | .fnBegin _ _ _ => .error .nestedFunction
    | .fail => .error .other
  | none =>
    match e with
    | .reg n r =>
      match registerSymbol H st.ctx n r with
      | .ok c => .ok { st with ctx := c }
      | .error err => .error err
    | .enterFor i =>
      match enterFor st.ctx i with
      | some (c, fr) => .ok { st with ctx := c, stack := fr :: st.stack }
      | none => .error .other
    | .enterForall v t =>
      match enterForall st.ctx v t with
      | some (c, fr) => .ok { st with ctx := c, stack := fr :: st.stack }
      | none => .error .protectedIter
    | .enterBlk => .ok { st with ctx := { st.ctx with exec := st.ctx.exec + 1 }, stack := .blk :: st.stack }
    | .leave =>
      match st.stack with
      | fr :: rest => .ok { st with ctx := fr.exitNormal st.ctx, stack := rest }
      | [] => .error .other
    | .fnBegin n a fid =>
      if st.ctx.exec > 0 then .error .nestedFunction else
      let (fns, bk) := createOrReplace st.ctx.fns n a fid
      .ok { st with ctx := { st.ctx with fns := fns, fbacked := bk }, child := some ⟨1, n, a⟩ }
    | .fail => .error .other

/-- run events until one throws: `(threw, state at that point)` -/
def runEvents (H : Decl → Nat) : St → List Ev → Bool × St
  | st, [] => (false, st)
  | st, e :: es =>
    match step H st e with
    | .ok st' => runEvents H st' es
    | .error _ => (true, st)

/-- the catch blocks of the open clauses, innermost first -/
def unwindFrames : List Frame → Ctx → Ctx
  | [], c => c
  | fr :: rest, c => unwindFrames rest (fr.exitCatch c)

/-- the catch block of `FUNCTIONStatement::parse` (when `createOrReplace` was reached) -/
def rollbackCtx (c : Ctx) : Ctx :=
  let (fns, bk) := rollback c.fns c.fbacked
  { c with fns := fns, fbacked := bk }

/-- propagation of a ParseError up to `Parser::parse` -/
def unwind (st : St) : Ctx :=
  unwindFrames st.stack (match st.child with | some _ => rollbackCtx st.ctx | none => st.ctx)

inductive Outcome
  | accept (c : Ctx)
  | reject (c : Ctx)
  deriving DecidableEq, Repr

/-- `Parser::parse` on a text whose context effects are `evs`. The end of the text inside an open clause
or function body is a ParseError as well. -/
def parseText (H : Decl → Nat) (c : Ctx) (evs : List Ev) : Outcome :=
  let (threw, st) := runEvents H (St.init c) evs
  if threw || !st.stack.isEmpty || st.child.isSome then .reject (parsingEnd H (unwind st))
  else .accept (parsingEnd H st.ctx)

def Outcome.rejected : Outcome → Option Ctx
  | .reject c => some c
  | .accept _ => none

def Outcome.accepted : Outcome → Option Ctx
  | .accept c => some c
  | .reject _ => none

/-! ## Spec: what C11 demands of a rejected text -/

/-- every pre-existing symbol keeps its name, type, declaration and flags; exec depth and parsing flag
are as before -/
structure SymsPreserved (c c' : Ctx) : Prop where
  names : c'.names.take c.names.length = c.names
  types : c'.tds.take c.tds.length = c.tds
  flags : c'.fls.take c.fls.length = c.fls
  exec : c'.exec = c.exec
  parsing : c'.parsing = c.parsing
  backed : c'.backed = []

/-- every pre-existing function keeps its position, its definition (`fid`) and its body -/
def FnsPreserved (c c' : Ctx) : Prop := c'.fns.take c.fns.length = c.fns

instance (c c' : Ctx) : Decidable (FnsPreserved c c') := by unfold FnsPreserved; exact inferInstance

/-! ## known-finding region, decided from the event sequence -/

/-- this event completes the declaration of a function whose (name, arity) exists in `c0` -/
def completesExisting (c0 : Ctx) (st : St) (e : Ev) : Bool :=
  match st.child, e with
  | some ch, .leave => decide (ch.depth ≤ 1) && (findFn ch.name ch.arity c0.fns).isSome
  | _, _ => false

/-- does the text, before its error, COMPLETE a redefinition of a function that existed in `c0`?
(`function f … end;` parsed entirely, then a later statement fails) -/
def redefinitionCompleted (H : Decl → Nat) (c0 : Ctx) : St → List Ev → Bool
  | _, [] => false
  | st, e :: es =>
    match step H st e with
    | .ok st' => completesExisting c0 st e || redefinitionCompleted H c0 st' es
    | .error _ => false

end BlocV.ParseCtx
