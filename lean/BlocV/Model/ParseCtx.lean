/-
  C11 — the effects of one `Parser::parse` / `Parser::parseStatement` on the context, as a machine over
  *events* (not a grammar): what `registerSymbol`, the `parse_clause` functions, `FUNCTIONStatement::parse`,
  the catch blocks and `Context::parsingEnd` DO to the symbol table, the flags, the exec stack and the
  function table. Transcribed from

    blocc/context.cpp      registerSymbol (both overloads), parsingBegin, parsingEnd
    blocc/symbol.cpp/.h    upgrade (both overloads), check_safety, safety()/locked() getters and setters
    blocc/statement_for.cpp, statement_forall.cpp      parse_clause (flags saved, set, restored twice)
    blocc/statement_if.cpp, statement_while.cpp, statement_begin.cpp   execBegin … execEnd (+ catch)
    blocc/statement_function.cpp, functor_manager.cpp  createOrReplace, rollback, parsingMark, parsingRevert (the journal)
    blocc/parser.cpp       Parser::parse / parseStatement: parsingBegin + parsingMark … parsingEnd on both paths,
                           parsingRevert in the catch block

  The expression parser never touches the context (it reads symbols and the function table only), so
  a text is abstracted as the sequence of context effects its parse performs up to the point where a
  `ParseError` is raised. Everything that can raise one without being a context effect (syntax, type
  check of an expression, undefined symbol, end of text inside a clause) is the event `fail`.

  Representation: the storage pool is kept column-wise — `names`, `tds` (type + tuple decl) and `fls`
  (`_safety`, `_locked` raw fields) are parallel lists indexed by the symbol id. Values are not part of
  the model: parsing never evaluates anything (checked by the correspondence: value dumps are equal).
-/

namespace BlocV.ParseCtx

/-! ## column helpers -/

/-- apply `f` to the element at index `i` (no-op when `i` is out of range) -/
def modAt {α} (f : α → α) : Nat → List α → List α
  | _, [] => []
  | 0, x :: xs => f x :: xs
  | n + 1, x :: xs => x :: modAt f n xs

/-- `Context::findSymbol`: the id of the first slot with that name -/
def findName (n : String) : List String → Option Nat
  | [] => none
  | x :: xs => if x = n then some 0 else (findName n xs).map (· + 1)

/-! ## types -/

/-- `bloc::Type`: major, minor, level. -/
structure Ty where
  major : Nat
  minor : Nat
  level : Nat
  deriving DecidableEq, Repr, Inhabited

/-- `TupleDecl::Decl`: the member types of a tuple (empty = not a tuple / opaque tuple). -/
abbrev Decl := List Ty

def ROWTYPE : Nat := 7
def INTEGER : Nat := 2

/-- type and decl of a symbol -/
abbrev TD := Ty × Decl
/-- the raw fields `_safety`, `_locked` of a symbol -/
abbrev Fl := Bool × Bool

/-- `Decl::make_type(level)`; `H` is the structure hash (DJB mod 65535 in the code; a parameter here). -/
def mkTupleTy (H : Decl → Nat) (d : Decl) (lv : Nat) : Ty :=
  if d.isEmpty then ⟨ROWTYPE, 0, lv⟩ else ⟨ROWTYPE, H d, lv⟩

/-- the two overloads of `registerSymbol` / `Symbol::upgrade` -/
inductive RegTy
  | plain (t : Ty)
  | tuple (d : Decl) (lv : Nat)
  deriving DecidableEq, Repr

def RegTy.ty (H : Decl → Nat) : RegTy → Ty
  | .plain t => t
  | .tuple d lv => mkTupleTy H d lv

/-- what `Symbol::upgrade` leaves in the symbol: `upgrade(Type)` clears the decl -/
def RegTy.td (H : Decl → Nat) : RegTy → TD
  | .plain t => (t, [])
  | .tuple d lv => (mkTupleTy H d lv, d)

/-- A symbol is *coherent* when a recorded decl is the decl of its type: `decl ≠ [] → type = make_type(decl, level)`.
This is an invariant of class `Symbol` (both constructors and both `upgrade` overloads establish it; a symbol typed
from a null tuple VALUE by `storeVariable` has a tuple type with some minor and NO decl, which is coherent). -/
def TD.coherent (H : Decl → Nat) (td : TD) : Bool :=
  td.2.isEmpty || td.1 == mkTupleTy H td.2 td.1.level

inductive SafetyCheck | ko | equ | upg
  deriving DecidableEq, Repr

/-- `Symbol::check_safety` -/
def checkSafety (cur t : Ty) : SafetyCheck :=
  if t = cur then .equ
  else if cur.level > 0 then (if t.level > 0 then .upg else .ko)
  else if t.level = 0 then (if cur.major = t.major then .upg else .ko)
  else .ko

/-! ## the context -/

/-- one entry of `Context::_backed_symbols` (a copy of the symbol before its upgrade) -/
structure Backup where
  id : Nat
  td : TD
  deriving DecidableEq, Repr

/-- one entry of `FunctorManager::_declarations`; `fid` identifies the functor object (the definition),
`body` = the functor has a body (is callable) -/
structure Fn where
  name : String
  arity : Nat
  fid : Nat
  body : Bool
  deriving DecidableEq, Repr

structure Ctx where
  names : List String
  tds : List TD
  fls : List Fl
  /-- `_backed_symbols`, newest first -/
  backed : List Backup
  /-- `_execstack.size()` -/
  exec : Nat
  /-- `_parsing` -/
  parsing : Bool
  fns : List Fn
  /-- `FunctorManager::_backed` -/
  fbacked : Option Fn
  deriving DecidableEq, Repr

/-- between two parses: not parsing, no backups -/
def Ctx.idle (c : Ctx) : Bool := !c.parsing && c.backed.isEmpty

def Ctx.coherent (H : Decl → Nat) (c : Ctx) : Bool := c.tds.all (TD.coherent H)

/-- `Symbol::safety()` getter: `_safety || _locked` -/
def Fl.safety (f : Fl) : Bool := f.1 || f.2
def Fl.locked (f : Fl) : Bool := f.2
def setSafe (b : Bool) (f : Fl) : Fl := (b, f.2)
def setLock (b : Bool) (f : Fl) : Fl := (f.1, b)

inductive PErr
  | constViolation   -- EXC_PARSE_CONST_VIOLATION_S
  | typeMismatch     -- EXC_PARSE_TYPE_MISMATCH_S
  | protectedIter    -- "Cannot use a protected symbol as iterator variable."
  | nestedFunction   -- "A function cannot be defined in nested block."
  | other            -- any other ParseError (event `fail`, stray `end`, ill-formed event)
  deriving DecidableEq, Repr

def parsingBegin (c : Ctx) : Ctx := { c with parsing := true }

/-- what the restore loop writes back for one backup: `upgrade(decl, level)` for a tuple major WITH a decl
(type recomputed from the decl), `upgrade(type)` otherwise (type as it was, decl cleared) -/
def restoreTD (H : Decl → Nat) (b : Backup) : TD :=
  if b.td.1.major = ROWTYPE ∧ ¬ b.td.2.isEmpty = true then (mkTupleTy H b.td.2 b.td.1.level, b.td.2) else (b.td.1, [])

def restoreOne (H : Decl → Nat) (tds : List TD) (b : Backup) : List TD :=
  modAt (fun _ => restoreTD H b) b.id tds

/-- the loop of `Context::parsingEnd`: from the newest backup to the oldest -/
def restoreAll (H : Decl → Nat) : List Backup → List TD → List TD
  | [], tds => tds
  | b :: bs, tds => restoreAll H bs (restoreOne H tds b)

/-- `Context::parsingEnd` -/
def parsingEnd (H : Decl → Nat) (c : Ctx) : Ctx :=
  { c with tds := restoreAll H c.backed c.tds, backed := [], parsing := false }

/-- `Context::registerSymbol(name, type)` and `(name, decl, level)`; nothing is modified when it throws. -/
def registerSymbol (H : Decl → Nat) (c : Ctx) (name : String) (r : RegTy) : Except PErr Ctx :=
  match findName name c.names with
  | none =>
    -- allocate new; the `$` qualifier makes it type-safe from the start
    .ok { c with names := c.names ++ [name], tds := c.tds ++ [r.td H],
                 fls := c.fls ++ [(name.front == '$', false)] }
  | some i =>
    match c.tds[i]?, c.fls[i]? with
    | some cur, some fl =>
      if fl.locked then .error .constViolation
      else if r.ty H = cur.1 then .ok c
      else
        -- back up the old symbol, then upgrade
        let upgraded : Ctx := { c with backed := ⟨i, cur⟩ :: c.backed, tds := modAt (fun _ => r.td H) i c.tds }
        if fl.safety then
          match checkSafety cur.1 (r.ty H) with
          | .ko => .error .typeMismatch
          | .equ => .ok c
          | .upg => .ok upgraded
        else .ok upgraded
    | _, _ => .error .other

/-! ## clauses -/

/-- what a `parse_clause` keeps in its local variables while the body is parsed -/
inductive Frame
  /-- IF / WHILE / LOOP / BEGIN clause: `execBegin` only -/
  | blk
  /-- FOR: `safety_bak` of the control variable -/
  | forC (i : Nat) (safetyBak : Bool)
  /-- FORALL: `safety_vt_bak`, `locked_vt_bak` of the iterator, and for a plain-variable target its id
  and `locked_ex_bak` -/
  | forallC (v : Nat) (safetyBak lockedBak : Bool) (tgt : Option (Nat × Bool))
  deriving DecidableEq, Repr

/-- entry of `FORStatement::parse_clause` -/
def enterFor (c : Ctx) (i : Nat) : Option (Ctx × Frame) :=
  match c.fls[i]? with
  | some fl =>
    -- the control variable was registered by the same FOR header: registerSymbol refuses a locked symbol
    if fl.locked then none else
    some ({ c with exec := c.exec + 1, fls := modAt (setSafe true) i c.fls }, .forC i fl.safety)
  | none => none

/-- entry of `FORALLStatement::parse_clause` -/
def enterForall (c : Ctx) (v : Nat) (tgt : Option Nat) : Option (Ctx × Frame) :=
  match c.fls[v]? with
  | some fv =>
    -- FORALL::parse refuses an existing protected iterator and registerSymbol a locked one
    if fv.locked then none else
    let fls1 := modAt (setSafe true) v c.fls
    match tgt with
    | none => some ({ c with exec := c.exec + 1, fls := fls1 }, .forallC v fv.safety fv.locked none)
    | some t =>
      match fls1[t]? with
      | some ft =>
        let fls2 := modAt (setLock true) t fls1
        -- "iterator inherits constness of the target"
        let fls3 := modAt (setLock ft.locked) v fls2
        some ({ c with exec := c.exec + 1, fls := fls3 }, .forallC v fv.safety fv.locked (some (t, ft.locked)))
      | none => none
  | none => none

/-- the flag part of leaving a clause through its catch block (statement order as in the source) -/
def Frame.catchFls : Frame → List Fl → List Fl
  | .blk, fls => fls
  | .forC i sb, fls => modAt (setSafe sb) i fls
  | .forallC v sb lb tgt, fls =>
    let fls1 := match tgt with | some (t, lt) => modAt (setLock lt) t fls | none => fls
    modAt (setLock lb) v (modAt (setSafe sb) v fls1)

/-- the catch block of a `parse_clause` (then the exception is rethrown) -/
def Frame.exitCatch (fr : Frame) (c : Ctx) : Ctx :=
  { c with fls := fr.catchFls c.fls, exec := c.exec - 1 }

/-- the flag part of the normal exit of a clause (the same statements, written a second time in the source) -/
def Frame.normalFls : Frame → List Fl → List Fl
  | .blk, fls => fls
  | .forC i sb, fls => modAt (setSafe sb) i fls
  | .forallC v sb lb tgt, fls =>
    let fls1 := match tgt with | some (t, lt) => modAt (setLock lt) t fls | none => fls
    modAt (setLock lb) v (modAt (setSafe sb) v fls1)

def Frame.exitNormal (fr : Frame) (c : Ctx) : Ctx :=
  { c with fls := fr.normalFls c.fls, exec := c.exec - 1 }

/-! ## function declarations -/

def Fn.is (name : String) (arity : Nat) (f : Fn) : Bool := f.name == name && f.arity == arity

def findFn (name : String) (arity : Nat) : List Fn → Option Nat
  | [] => none
  | f :: fs => if f.is name arity then some 0 else (findFn name arity fs).map (· + 1)

/-- `FunctorManager::createOrReplace` followed by `fe.functor.swap(fct)`: the entry (a replaced one keeps
its position) now holds the new functor, which has no body yet; a replaced functor goes to `_backed`. -/
def createOrReplace (fns : List Fn) (name : String) (arity fid : Nat) : List Fn × Option Fn :=
  match findFn name arity fns with
  | some i => (modAt (fun _ => ⟨name, arity, fid, false⟩) i fns, fns[i]?)
  | none => (fns ++ [⟨name, arity, fid, false⟩], none)

/-- `FunctorManager::rollback`: with a backed-up functor, the (first) entry of its name and arity — wherever it is in
the table — is swapped back; without one the last declaration (the one just created) is removed. -/
def rollback (fns : List Fn) (bk : Option Fn) : List Fn × Option Fn :=
  match bk with
  | some b =>
    match findFn b.name b.arity fns with
    | some i => (modAt (fun _ => b) i fns, fns[i]?)     -- swap
    | none => (fns, bk)                                 -- nothing happens
  | none => (fns.dropLast, none)

/-- the function whose body is being parsed (in its private context): nesting depth inside the body -/
structure Child where
  depth : Nat
  name : String
  arity : Nat
  deriving DecidableEq, Repr

/-! ## the machine -/

inductive Ev
  /-- `registerSymbol` by LET, LETN, the FOR header, the FORALL header -/
  | reg (name : String) (r : RegTy)
  /-- `FORStatement::parse_clause` entry for control variable id `i` -/
  | enterFor (i : Nat)
  /-- `FORALLStatement::parse_clause` entry: iterator id, target id when the table is a plain variable -/
  | enterForall (v : Nat) (tgt : Option Nat)
  /-- entry of an IF / ELSIF / ELSE / WHILE / LOOP clause or of BEGIN -/
  | enterBlk
  /-- normal end of the innermost open clause (or of the function body) -/
  | leave
  /-- `FUNCTIONStatement::parse` reaching `createOrReplace` (header accepted); `fid` names the new functor -/
  | fnBegin (name : String) (arity : Nat) (fid : Nat)
  /-- a ParseError raised by anything that is not a context effect -/
  | fail
  deriving DecidableEq, Repr

/-- `fmark`, `journal` = `FunctorManager::_mark`, `_journal` (newest entry first). They are fields of the manager in the
code; `parsingMark` — the first thing every `Parser::parse` / `parseStatement` does after `parsingBegin` — overwrites both,
so what an earlier parse left in them is never read: they are state of ONE parse. -/
structure St where
  ctx : Ctx
  stack : List Frame
  child : Option Child
  /-- `_mark`: the size of the function table when the parse began -/
  fmark : Nat
  /-- `_journal`: `(index, replaced functor)` for every entry replaced since the mark, newest first -/
  journal : List (Nat × Fn)
  deriving DecidableEq, Repr

/-- `parsingBegin` + `FunctorManager::parsingMark` -/
def St.init (c : Ctx) : St := ⟨parsingBegin c, [], none, c.fns.length, []⟩

/-- what `createOrReplace` appends to the journal: `_journal.emplace_back(index, _backed)` when an entry is replaced,
nothing when a new entry is appended -/
def journalEntry (fns : List Fn) (name : String) (arity : Nat) : List (Nat × Fn) :=
  match findFn name arity fns with
  | some i => (match fns[i]? with | some f => [(i, f)] | none => [])
  | none => []

/-- `FunctorManager::parsingRevert`: the declarations behind the mark are removed (`pop_back` down to `_mark`), then the
journal is undone from the newest entry to the oldest (entries at or behind the mark were removed already) -/
def revertFns (mark : Nat) (journal : List (Nat × Fn)) (fns : List Fn) : List Fn :=
  journal.foldl (fun acc p => if p.1 < mark then modAt (fun _ => p.2) p.1 acc else acc) (fns.take mark)

/-- One event. `.error` = a ParseError is thrown by this event; nothing was modified (every event checks
before it writes), so the state at the throw is the argument. -/
def step (H : Decl → Nat) (st : St) (e : Ev) : Except PErr St :=
  match st.child with
  | some ch =>
    -- inside a function body: the private context of the function takes the effects
    match e with
    | .reg _ _ => .ok st
    | .enterFor _ | .enterForall _ _ | .enterBlk => .ok { st with child := some { ch with depth := ch.depth + 1 } }
    | .leave =>
      if ch.depth ≤ 1 then
        -- `fe.functor->body = BEGINStatement::parse(...)` returned: the declaration is complete
        match findFn ch.name ch.arity st.ctx.fns with
        | some i => .ok { st with child := none,
                                  ctx := { st.ctx with fns := modAt (fun f => { f with body := true }) i st.ctx.fns } }
        | none => .error .other
      else .ok { st with child := some { ch with depth := ch.depth - 1 } }
    | .fnBegin _ _ _ => .error .nestedFunction
    | .fail => .error .other
  | none =>
    match e with
    | .reg n r =>
      match registerSymbol H st.ctx n r with
      | .ok c => .ok { st with ctx := c }
      | .error err => .error err
    | .enterFor i =>
      match enterFor st.ctx i with
      | some (c, fr) => .ok { st with ctx := c, stack := fr :: st.stack }
      | none => .error .other
    | .enterForall v t =>
      match enterForall st.ctx v t with
      | some (c, fr) => .ok { st with ctx := c, stack := fr :: st.stack }
      | none => .error .protectedIter
    | .enterBlk => .ok { st with ctx := { st.ctx with exec := st.ctx.exec + 1 }, stack := .blk :: st.stack }
    | .leave =>
      match st.stack with
      | fr :: rest => .ok { st with ctx := fr.exitNormal st.ctx, stack := rest }
      | [] => .error .other
    | .fnBegin n a fid =>
      if st.ctx.exec > 0 then .error .nestedFunction else
      let (fns, bk) := createOrReplace st.ctx.fns n a fid
      .ok { st with ctx := { st.ctx with fns := fns, fbacked := bk }, child := some ⟨1, n, a⟩,
                    journal := journalEntry st.ctx.fns n a ++ st.journal }
    | .fail => .error .other

/-- run events until one throws: `(threw, state at that point)` -/
def runEvents (H : Decl → Nat) : St → List Ev → Bool × St
  | st, [] => (false, st)
  | st, e :: es =>
    match step H st e with
    | .ok st' => runEvents H st' es
    | .error _ => (true, st)

/-- the catch blocks of the open clauses, innermost first -/
def unwindFrames : List Frame → Ctx → Ctx
  | [], c => c
  | fr :: rest, c => unwindFrames rest (fr.exitCatch c)

/-- the catch block of `FUNCTIONStatement::parse` (when `createOrReplace` was reached) -/
def rollbackCtx (c : Ctx) : Ctx :=
  let (fns, bk) := rollback c.fns c.fbacked
  { c with fns := fns, fbacked := bk }

/-- propagation of a ParseError up to `Parser::parse` -/
def unwind (st : St) : Ctx :=
  unwindFrames st.stack (match st.child with | some _ => rollbackCtx st.ctx | none => st.ctx)

/-- the catch block of `Parser::parse` / `parseStatement`, reached after the inner catch blocks (`unwind`):
`functorManager().parsingRevert()`, then `parsingEnd()` -/
def rejectCtx (H : Decl → Nat) (st : St) : Ctx :=
  let c := unwind st
  parsingEnd H { c with fns := revertFns st.fmark st.journal c.fns }

inductive Outcome
  | accept (c : Ctx)
  | reject (c : Ctx)
  deriving DecidableEq, Repr

/-- `Parser::parse` on a text whose context effects are `evs`. The end of the text inside an open clause
or function body is a ParseError as well. -/
def parseText (H : Decl → Nat) (c : Ctx) (evs : List Ev) : Outcome :=
  let (threw, st) := runEvents H (St.init c) evs
  if threw || !st.stack.isEmpty || st.child.isSome then .reject (rejectCtx H st)
  else .accept (parsingEnd H st.ctx)

def Outcome.rejected : Outcome → Option Ctx
  | .reject c => some c
  | .accept _ => none

def Outcome.accepted : Outcome → Option Ctx
  | .accept c => some c
  | .reject _ => none

/-! ## Spec: what C11 demands of a rejected text -/

/-- every pre-existing symbol keeps its name, type, declaration and flags; exec depth and parsing flag
are as before -/
structure SymsPreserved (c c' : Ctx) : Prop where
  names : c'.names.take c.names.length = c.names
  types : c'.tds.take c.tds.length = c.tds
  flags : c'.fls.take c.fls.length = c.fls
  exec : c'.exec = c.exec
  parsing : c'.parsing = c.parsing
  backed : c'.backed = []

/-- every pre-existing function keeps its position, its definition (`fid`) and its body -/
def FnsPreserved (c c' : Ctx) : Prop := c'.fns.take c.fns.length = c.fns

instance (c c' : Ctx) : Decidable (FnsPreserved c c') := by unfold FnsPreserved; exact inferInstance

/-! ## known-finding region, decided from the event sequence -/

/-- this event completes the declaration of a function whose (name, arity) exists in `c0` -/
def completesExisting (c0 : Ctx) (st : St) (e : Ev) : Bool :=
  match st.child, e with
  | some ch, .leave => decide (ch.depth ≤ 1) && (findFn ch.name ch.arity c0.fns).isSome
  | _, _ => false

/-- does the text, before its error, COMPLETE a redefinition of a function that existed in `c0`?
(`function f … end;` parsed entirely, then a later statement fails) -/
def redefinitionCompleted (H : Decl → Nat) (c0 : Ctx) : St → List Ev → Bool
  | _, [] => false
  | st, e :: es =>
    match step H st e with
    | .ok st' => completesExisting c0 st e || redefinitionCompleted H c0 st' es
    | .error _ => false


/-! ## the statement level: names instead of ids, FOR / FORALL headers with the clause entry, no assumed guard

The id-based events above are what a trace shows. What a TEXT says is names: `for i in … loop` is
`registerSymbol("I", INTEGER)` followed — after the header expressions — by `parse_clause` on the id that call
returned; `forall e in t loop` is the "protected symbol" test on `E`, the target expression (a plain variable `T`
gives `sid`), `registerSymbol("E", element type)`, then `parse_clause`. Here the two `parse_clause` entries are
transcribed WITHOUT the guard "the control variable / iterator is not locked" that `enterFor` / `enterForall`
carry: the C++ has no such test there. That the guard never fires is a theorem (Proofs/C11: `for_guard_derived`,
`forall_guard_derived`), not an assumption. -/

/-- entry of `FORStatement::parse_clause`, as written: `safety_bak = vt.safety(); vt.safety(true);` -/
def enterForRaw (c : Ctx) (i : Nat) : Option (Ctx × Frame) :=
  match c.fls[i]? with
  | some fl => some ({ c with exec := c.exec + 1, fls := modAt (setSafe true) i c.fls }, .forC i fl.safety)
  | none => none

/-- entry of `FORALLStatement::parse_clause`, as written -/
def enterForallRaw (c : Ctx) (v : Nat) (tgt : Option Nat) : Option (Ctx × Frame) :=
  match c.fls[v]? with
  | some fv =>
    let fls1 := modAt (setSafe true) v c.fls
    match tgt with
    | none => some ({ c with exec := c.exec + 1, fls := fls1 }, .forallC v fv.safety fv.locked none)
    | some t =>
      match fls1[t]? with
      | some ft =>
        let fls2 := modAt (setLock true) t fls1
        let fls3 := modAt (setLock ft.locked) v fls2
        some ({ c with exec := c.exec + 1, fls := fls3 }, .forallC v fv.safety fv.locked (some (t, ft.locked)))
      | none => none
  | none => none

/-- `Type::INTEGER`: the type the FOR header registers its control variable with -/
def intTy : Ty := ⟨INTEGER, 0, 0⟩

/-- statement-level events: what the text says (names), one per statement head -/
inductive NEv
  /-- LET / LETN: `registerSymbol` -/
  | reg (name : String) (r : RegTy)
  /-- `for <name> in … loop`: header accepted (expressions well typed), up to and including the clause entry -/
  | forLoop (name : String)
  /-- `forall <vname> in <expr> loop`: `r` = the element type of the table expression, `tgt` = the name of the
  table when the expression is a plain variable (`_exp->symbolId()`) -/
  | forallLoop (vname : String) (r : RegTy) (tgt : Option String)
  | enterBlk
  | leave
  | fnBegin (name : String) (arity : Nat) (fid : Nat)
  | fail
  deriving DecidableEq, Repr

/-- inside a function body the private context takes the effects: only the nesting depth matters -/
def NEv.inChild : NEv → Ev
  | .reg n r => .reg n r
  | .forLoop _ => .enterBlk
  | .forallLoop _ _ _ => .enterBlk
  | .enterBlk => .enterBlk
  | .leave => .leave
  | .fnBegin n a f => .fnBegin n a f
  | .fail => .fail

/-- `FORALLStatement::parse`: `const Symbol * s = ctx.findSymbol(vname); if (s && s->safety()) throw …` -/
def protectedIter (c : Ctx) (v : String) : Bool :=
  match findName v c.names with
  | some i => (match c.fls[i]? with | some fl => fl.safety | none => true)
  | none => false

/-- the symbol id of the target expression (parsed before the iterator is registered); an unknown name is an
"undefined symbol" ParseError -/
def targetId (c : Ctx) : Option String → Option (Option Nat)
  | none => some none
  | some tn => (findName tn c.names).map some

def ofExcept (st : St) : Except PErr St → Bool × St
  | .ok st' => (false, st')
  | .error _ => (true, st)

/-- one statement head: `(threw, state at the throw / after the statement head)` -/
def nstepE (H : Decl → Nat) (st : St) (e : NEv) : Bool × St :=
  match st.child with
  | some _ => ofExcept st (step H st e.inChild)
  | none =>
    match e with
    | .reg n r => ofExcept st (step H st (.reg n r))
    | .enterBlk => ofExcept st (step H st .enterBlk)
    | .leave => ofExcept st (step H st .leave)
    | .fnBegin n a f => ofExcept st (step H st (.fnBegin n a f))
    | .fail => (true, st)
    | .forLoop n =>
      match registerSymbol H st.ctx n (.plain intTy) with
      | .error _ => (true, st)
      | .ok c1 =>
        let st1 : St := { st with ctx := c1 }
        match findName n c1.names with
        | none => (true, st1)
        | some i =>
          match enterForRaw c1 i with
          | some (c2, fr) => (false, { st1 with ctx := c2, stack := fr :: st.stack })
          | none => (true, st1)
    | .forallLoop v r tgt =>
      if protectedIter st.ctx v then (true, st) else
      match targetId st.ctx tgt with
      | none => (true, st)
      | some t =>
        match registerSymbol H st.ctx v r with
        | .error _ => (true, st)
        | .ok c1 =>
          let st1 : St := { st with ctx := c1 }
          match findName v c1.names with
          | none => (true, st1)
          | some i =>
            match enterForallRaw c1 i t with
            | some (c2, fr) => (false, { st1 with ctx := c2, stack := fr :: st.stack })
            | none => (true, st1)

def nrun (H : Decl → Nat) : St → List NEv → Bool × St
  | st, [] => (false, st)
  | st, e :: es =>
    match nstepE H st e with
    | (true, s) => (true, s)
    | (false, s) => nrun H s es

/-- `Parser::parse` on a text given by its statement heads -/
def parseTextN (H : Decl → Nat) (c : Ctx) (evs : List NEv) : Outcome :=
  let (threw, st) := nrun H (St.init c) evs
  if threw || !st.stack.isEmpty || st.child.isSome then .reject (rejectCtx H st)
  else .accept (parsingEnd H st.ctx)

/-- the id events a statement head performs in state `st` (what the parser's `findSymbol` resolves the names to) -/
def compile1 (H : Decl → Nat) (st : St) (e : NEv) : List Ev :=
  match st.child with
  | some _ => [e.inChild]
  | none =>
    match e with
    | .reg n r => [.reg n r]
    | .enterBlk => [.enterBlk]
    | .leave => [.leave]
    | .fnBegin n a f => [.fnBegin n a f]
    | .fail => [.fail]
    | .forLoop n =>
      match registerSymbol H st.ctx n (.plain intTy) with
      | .error _ => [.reg n (.plain intTy)]
      | .ok c1 =>
        match findName n c1.names with
        | none => [.reg n (.plain intTy), .fail]
        | some i => [.reg n (.plain intTy), .enterFor i]
    | .forallLoop v r tgt =>
      if protectedIter st.ctx v then [.fail] else
      match targetId st.ctx tgt with
      | none => [.fail]
      | some t =>
        match registerSymbol H st.ctx v r with
        | .error _ => [.reg v r]
        | .ok c1 =>
          match findName v c1.names with
          | none => [.reg v r, .fail]
          | some i => [.reg v r, .enterForall i t]

def compile (H : Decl → Nat) : St → List NEv → List Ev
  | _, [] => []
  | st, e :: es =>
    compile1 H st e ++ (match nstepE H st e with | (true, _) => [] | (false, s) => compile H s es)

/-- the three columns of the storage pool have one length -/
def Ctx.aligned (c : Ctx) : Prop := c.tds.length = c.names.length ∧ c.fls.length = c.names.length

instance (c : Ctx) : Decidable c.aligned := by unfold Ctx.aligned; exact inferInstance

/-! ## histories: a sequence of texts submitted to one context

`Parser::parse` / `parseStatement` / `bloc_parse_executable` are called again and again on the same `Context`.
What one call leaves behind for the next: the symbol columns (new names stay, also after a reject), the function
table, and `FunctorManager::_backed` — which is cleared ONLY by the next `createOrReplace` (`_backed.reset()` is its
first statement) and by `FunctorManager::reset`; not by `parsingBegin`, not by `parsingEnd`, not by `rollback`
(after a rollback it holds the functor of the failed declaration). `Ctx.fbacked` carries it across texts as is. -/

abbrev Text := List NEv

def Outcome.ctx : Outcome → Ctx
  | .accept c => c
  | .reject c => c

def Outcome.ok : Outcome → Bool
  | .accept _ => true
  | .reject _ => false

def Outcome.map (f : Ctx → Ctx) : Outcome → Outcome
  | .accept c => .accept (f c)
  | .reject c => .reject (f c)

/-- verdicts of the texts of a history, and the context after the last one -/
def runHistory (H : Decl → Nat) : Ctx → List Text → List Bool × Ctx
  | c, [] => ([], c)
  | c, t :: ts =>
    let o := parseTextN H c t
    let r := runHistory H o.ctx ts
    (o.ok :: r.1, r.2)

/-! ## what a left-over is: columns inserted at a fixed position

After a rejected text the names it introduced stay in the pool behind the old ones, and the texts that follow
append behind THEM. Compared with the same history without the rejected text, every later context is the
undisturbed one with the left-over slots inserted at position `n0` (functions: at `m0`), and ids at or above
`n0` are shifted. `lift` is that insertion; `Proofs/Lemmas/ParseSim.lean` shows that every step of the machine commutes
with it for texts that do not mention the left-over names. -/

structure Extra where
  n0 : Nat
  names : List String
  tds : List TD
  fls : List Fl
  m0 : Nat
  fns : List Fn
  deriving Repr

def ins {α} (n0 : Nat) (xs l : List α) : List α := l.take n0 ++ xs ++ l.drop n0

def ren (n0 k i : Nat) : Nat := if i < n0 then i else i + k

def Extra.ρ (x : Extra) (i : Nat) : Nat := ren x.n0 x.names.length i

def Frame.ren (ρ : Nat → Nat) : Frame → Frame
  | .blk => .blk
  | .forC i sb => .forC (ρ i) sb
  | .forallC v sb lb tgt => .forallC (ρ v) sb lb (tgt.map fun p => (ρ p.1, p.2))

def Ev.ren (ρ : Nat → Nat) : Ev → Ev
  | .reg n r => .reg n r
  | .enterFor i => .enterFor (ρ i)
  | .enterForall v t => .enterForall (ρ v) (t.map ρ)
  | .enterBlk => .enterBlk
  | .leave => .leave
  | .fnBegin n a f => .fnBegin n a f
  | .fail => .fail

/-- the context `c` with the left-overs `x` inserted and `_backed = g` -/
def lift (x : Extra) (g : Option Fn) (c : Ctx) : Ctx :=
  { names := ins x.n0 x.names c.names, tds := ins x.n0 x.tds c.tds, fls := ins x.n0 x.fls c.fls,
    backed := c.backed.map fun b => ⟨x.ρ b.id, b.td⟩, exec := c.exec, parsing := c.parsing,
    fns := ins x.m0 x.fns c.fns, fbacked := g }

def liftSt (x : Extra) (g : Option Fn) (st : St) : St :=
  ⟨lift x g st.ctx, st.stack.map (Frame.ren x.ρ), st.child, st.fmark + x.fns.length,
   st.journal.map fun p => (ren x.m0 x.fns.length p.1, p.2)⟩

/-- the event does not mention a left-over name / function -/
def Ev.avoids (x : Extra) : Ev → Bool
  | .reg n _ => !x.names.contains n
  | .fnBegin n a _ => x.fns.all fun f => !f.is n a
  | _ => true

def NEv.avoids (x : Extra) : NEv → Bool
  | .reg n _ => !x.names.contains n
  | .forLoop n => !x.names.contains n
  | .forallLoop v _ tgt => !x.names.contains v && (match tgt with | some t => !x.names.contains t | none => true)
  | .fnBegin n a _ => x.fns.all fun f => !f.is n a
  | _ => true

/-- what a context has more than `c0` (symbols behind the first `|c0|`, functions behind the first `|c0.fns|`) -/
def leftOver (c0 c' : Ctx) : Extra :=
  ⟨c0.names.length, c'.names.drop c0.names.length, c'.tds.drop c0.names.length, c'.fls.drop c0.names.length,
   c0.fns.length, c'.fns.drop c0.fns.length⟩

end BlocV.ParseCtx
