/-
  Model of the csv module's PLUGIN glue — /repo/modules/csv/plugin_csv.cpp (`CSVPlugin::createObject`,
  `CSVPlugin::executeMethod`), on top of the model of the parser core (Model/Mod/Csv.lean):

  * the three constructors: `csv()` = (`,`, `"`); `csv(string)`: null or empty → BLOC error "Specified format is
    invalid."; separator = FIRST BYTE of the string, encapsulator = SECOND BYTE if there is one, else `"` — bytes, not
    characters: `csv("é;")` has separator C3 and encapsulator A9, a third byte is ignored; `csv(int, int)`: a null →
    BLOC error; `(char)` keeps the low 8 bits of each integer (`csv(300, -1)` = (2C, FF)).
  * `serialize(table of string)`: null table → null string; a null element is written as the empty field
    (`data.push_back("")`); every field is COPIED into a `std::vector<std::string>`.
  * `deserialize(line, T)`: null line → BLOC error; a fresh vector is parsed into and the variable `T` is REPLACED by a
    new table holding the fields.
  * `deserialize_next(line, T)`: null line or null table → BLOC error; only the LAST element of `T` is handed to the
    parser (`data = [T.last]`, erased from `T`), the parser's result is appended to what is left of `T`. So after a parse
    error (`out.clear()` in the core) the EARLIER fields of the record stay in `T` — only the field being continued is
    lost. A NULL last element is taken as the empty string (`if (c.at(last).isNull()) data.push_back(std::string())`,
    /repo ad063b9; before that commit `*(c.at(last).literal())` dereferenced the null pointer: finding
    `C18.csv_next_null_last_element`, now fixed). So the null element is CONTINUED like an empty field: the parser
    starts inside an encapsulated value (`encap = next && !out.empty()`), and the element that comes back is a non-null
    string. Earlier null elements of `T` are not touched (they stay null).
  * `in_error()`, `error_pos()`: the parser's members.
  The serializers for tuples / boolean / numeric tables go through `Value::readable…` (number formatting, C09/C10) and are
  not modelled here.
-/
import BlocV.Model.Mod.Csv

namespace BlocV.Mod.CsvPlugin
open BlocV.Mod.Csv

/-- a BLOC string value; `none` = null -/
abbrev BStr := Option (List UInt8)
/-- a BLOC table of strings (elements may be null) -/
abbrev BTable := List BStr

inductive Ctor
  | default
  | fmt (s : BStr)
  | codes (s e : Option Int64)
  deriving DecidableEq, Repr

/-- `(char) *a.integer()` -/
def toChar (i : Int64) : UInt8 := UInt8.ofNat (i.toUInt64.toNat % 256)

/-- `createObject`: `none` = a BLOC error, no object -/
def ctorCfg : Ctor → Option Cfg
  | .default => some ⟨0x2c, 0x22⟩
  | .fmt none => none
  | .fmt (some []) => none
  | .fmt (some [s]) => some ⟨s, 0x22⟩
  | .fmt (some (s :: e :: _)) => some ⟨s, e⟩
  | .codes (some s) (some e) => some ⟨toChar s, toChar e⟩
  | .codes _ _ => none

inductive Op
  /-- `C.serialize(T)` with the table variable -/
  | serialize
  /-- `C.deserialize(line, T)` -/
  | deserialize (line : BStr)
  /-- `C.deserialize_next(line, T)` -/
  | deserializeNext (line : BStr)
  | inError
  | errorPos
  deriving DecidableEq, Repr

inductive Res
  | bool (b : Bool)
  | int (n : Nat)
  | str (s : BStr)
  /-- RuntimeError "Invalid arguments." -/
  | err
  /-- `out.back()` on an empty vector in the parser core (never produced: `csv_plugin_total`) -/
  | hazardEmptyBack
  deriving DecidableEq, Repr

/-- the parser object and the table variable `T` (`none` = null table) -/
structure World where
  cfg : Cfg
  ps : PState := {}
  tbl : Option BTable := some []
  deriving DecidableEq, Repr

/-- what the plugin copies out of one element: a null element becomes "" -/
def fieldOf (x : BStr) : Field := match x with | some f => f | none => []

/-- the copy into `std::vector<std::string>`: a null element becomes "" -/
def fields (t : BTable) : Row := t.map fieldOf

def step (w : World) : Op → World × Res
  | .serialize =>
    match w.tbl with
    | none => (w, .str none)
    | some t => (w, .str (some (serialize w.cfg (fields t))))
  | .deserialize none => (w, .err)
  | .deserialize (some line) =>
    match deserialize w.cfg w.ps line with
    | .done next out ps' => ({ w with ps := ps', tbl := some (out.map some) }, .bool next)
    | .hazardEmptyBack => (w, .hazardEmptyBack)
  | .deserializeNext none => (w, .err)
  | .deserializeNext (some line) =>
    match w.tbl with
    | none => (w, .err)
    | some t =>
      match t.getLast? with
      | none =>
        -- empty table: `data` stays empty
        match deserializeNext w.cfg w.ps [] line with
        | .done next out ps' => ({ w with ps := ps', tbl := some (out.map some) }, .bool next)
        | .hazardEmptyBack => (w, .hazardEmptyBack)
      | some e =>
        -- `data = [T.last]` (a null element as the empty string), `c.erase(last)`
        match deserializeNext w.cfg w.ps [fieldOf e] line with
        | .done next out ps' => ({ w with ps := ps', tbl := some (t.dropLast ++ out.map some) }, .bool next)
        | .hazardEmptyBack => (w, .hazardEmptyBack)
  | .inError => (w, .bool w.ps.error)
  | .errorPos => (w, .int w.ps.errorPos)

def Res.isHazard : Res → Bool
  | .hazardEmptyBack => true
  | _ => false

end BlocV.Mod.CsvPlugin
