/-
  Model of the utf8 module core — /repo/modules/utf8/utf8helper.cpp (`Parser`, `_p0 … _p3_u4`,
  `_u_string`, `_u_size`, `UTF8String::{WriteByte, Transform(text), Size, operator[], Substr, Remove,
  Insert, ToStdString}`) with the transformation `TransformNop`, plus the argument handling of
  `UTF8Plugin::executeMethod` (plugin_utf8.cpp) for count / at / substr / insert / remove / string.

  What the code calls a *codepoint* is NOT the Unicode scalar value: it is the UTF-8 byte sequence
  packed big-endian into a `uint32_t` (U+00E9 = C3 A9 is stored, returned by `at` and expected by
  `insert` as 0xC3A9 = 50089). The model keeps that.

  Numbers are `Nat`; `x << 8 | y`, `x >> 8`, `0xff & x` are written `x * 256 + y`, `x / 256`, `x % 256`
  (exact: every operand is a byte or a `uint32_t`).

  OUT OF SCOPE / ASSUMED: the character tables (utf8helper_charmap.cpp). With `TransformNop` a table
  entry contributes only its `code` field; the model assumes `code` = the packed bytes of the entry's
  own sequence (so only U+0000 has code 0 = `NullCodepoint`). The probe checks this for every Unicode
  scalar value on every run (`u8 tableid`). `context` (read only by the other transformations) is
  omitted. The parser state is the pair (`run`, live bytes of `b[]`) as one inductive value.

  Oddities kept: a NUL byte is dropped (its code is `NullCodepoint`); an ill-formed sequence is dropped
  silently and the offending byte is re-read as the start of a new sequence; a truncated sequence at
  the end leaves the parser mid-sequence; `_u_string` output is walked up to the first NUL byte by
  `Insert`; `operator[]` has no bounds check of its own, but `case At` of the plugin raises INDEX_RANGE for a position
  outside `[0, count)` before calling it (`hazardOob` stays in the vocabulary; `utf8_args_total` proves it unreachable).
-/

namespace BlocV.Mod.Utf8

/-- `Parser::run` together with the bytes of `Parser::b` that are live in that state. -/
inductive PSt
  | p0
  | p1u2 (b0 : Nat)
  | p1u3 (b0 : Nat)
  | p2u3 (b0 b1 : Nat)
  | p1u4 (b0 : Nat)
  | p2u4 (b0 b1 : Nat)
  | p3u4 (b0 b1 b2 : Nat)
  deriving DecidableEq, Repr

/-- `Parser::Exit`; `done` carries `p->u`. -/
inductive Exit
  | done (u : Nat)
  | cont
  | error
  deriving DecidableEq, Repr

/-- `_u_size`. -/
def uSize (u : Nat) : Nat :=
  if u < 0x100 then 1 else if u < 0x10000 then 2 else if u < 0x1000000 then 3 else 4

def byte (n : Nat) : UInt8 := UInt8.ofNat (n % 256)

/-- `_u_string` (without the terminating NUL). -/
def uString (u : Nat) : List UInt8 :=
  if u < 0x100 then [byte u]
  else if u < 0x10000 then [byte (u / 0x100), byte u]
  else if u < 0x1000000 then [byte (u / 0x10000), byte (u / 0x100), byte u]
  else [byte (u / 0x1000000), byte (u / 0x10000), byte (u / 0x100), byte u]

/-- `_p0`. -/
def p0 (bb : Nat) : Exit × PSt :=
  if bb < 0x80 then
    -- `u = p->func(&charmap_us7ascii[bb], …)` = bb; `if (u == NullCodepoint) return Continue;`
    if bb = 0 then (.cont, .p0) else (.done bb, .p0)
  else if bb < 0xc2 then (.error, .p0)
  else if bb < 0xe0 then (.cont, .p1u2 bb)
  else if bb < 0xf0 then (.cont, .p1u3 bb)
  else if bb < 0xf5 then (.cont, .p1u4 bb)
  else (.error, .p0)

/-- The condition of `_p1_u3`. -/
def ok1u3 (b0 bb : Nat) : Bool :=
  (b0 = 0xe0 ∧ bb > 0x9f ∧ bb < 0xc0) ∨ (b0 > 0xe0 ∧ b0 < 0xed ∧ bb > 0x7f ∧ bb < 0xc0) ∨
  (b0 = 0xed ∧ bb > 0x7f ∧ bb < 0xa0) ∨ (b0 > 0xed ∧ bb > 0x7f ∧ bb < 0xc0)

/-- The condition of `_p1_u4`. -/
def ok1u4 (b0 bb : Nat) : Bool :=
  (b0 = 0xf0 ∧ bb > 0x8f ∧ bb < 0xc0) ∨ (b0 > 0xf0 ∧ b0 < 0xf4 ∧ bb > 0x7f ∧ bb < 0xc0) ∨
  (b0 = 0xf4 ∧ bb > 0x7f ∧ bb < 0x90)

/-- `p->run(p, bb)`: dispatch on the state. "invalid codepoint: restart" is `p0 bb`. -/
def step (p : PSt) (bb : Nat) : Exit × PSt :=
  match p with
  | .p0 => p0 bb
  | .p1u2 b0 => if bb > 0x7f ∧ bb < 0xc0 then (.done (b0 * 0x100 + bb), .p0) else p0 bb
  | .p1u3 b0 => if ok1u3 b0 bb then (.cont, .p2u3 b0 bb) else p0 bb
  | .p2u3 b0 b1 => if bb > 0x7f ∧ bb < 0xc0 then (.done (b0 * 0x10000 + b1 * 0x100 + bb), .p0) else p0 bb
  | .p1u4 b0 => if ok1u4 b0 bb then (.cont, .p2u4 b0 bb) else p0 bb
  | .p2u4 b0 b1 => if bb > 0x7f ∧ bb < 0xc0 then (.cont, .p3u4 b0 b1 bb) else p0 bb
  | .p3u4 b0 b1 b2 =>
    if bb > 0x7f ∧ bb < 0xc0 then (.done (b0 * 0x1000000 + b1 * 0x10000 + b2 * 0x100 + bb), .p0) else p0 bb

/-- `UTF8String`: `parser`, `store`, `rawSize`. -/
structure UStr where
  parser : PSt := .p0
  store : List Nat := []
  rawSize : Nat := 0
  deriving DecidableEq, Repr

/-- `UTF8String::WriteByte`. -/
def writeByte (s : UStr) (cc : UInt8) : UStr :=
  match step s.parser cc.toNat with
  | (.done u, p) => { parser := p, store := s.store ++ [u], rawSize := s.rawSize + uSize u }
  | (.cont, p) => { s with parser := p }
  | (.error, p) => { s with parser := p }

/-- `UTF8String(const std::string& text)` = `Transform(text, TransformNop)`: `Clear()`, then every byte. -/
def ofBytes (text : List UInt8) : UStr := text.foldl writeByte {}

/-- `Size()` — the plugin's `count`. -/
def size (s : UStr) : Nat := s.store.length

/-- `ToStdString()`: a buffer of `rawSize` bytes (plus the string's own terminator) is filled by
`_u_string` for every stored value; writing more than `rawSize` bytes would overrun it. -/
def toStdString (s : UStr) : Option (List UInt8) :=
  let out := s.store.flatMap uString
  if out.length ≤ s.rawSize then some out else none

/-- `Substr(pos, n)`. -/
def substr (s : UStr) (pos n : Nat) : List UInt8 :=
  if pos < s.store.length then
    let n := if n > s.store.length - pos then s.store.length - pos else n
    ((s.store.drop pos).take n).flatMap uString
  else []

/-- `Remove(pos, n)`; `rawSize -= bc` is `size_t` arithmetic. -/
def remove (s : UStr) (pos n : Nat) : Bool × UStr :=
  if pos < s.store.length then
    let n := if n > s.store.length - pos then s.store.length - pos else n
    let bc := (((s.store.drop pos).take n).map uSize).sum
    (true, { s with store := s.store.take pos ++ s.store.drop (pos + n),
                    rawSize := (s.rawSize + 2 ^ 64 - bc) % 2 ^ 64 })
  else (false, s)

/-- The loop of `Insert`/`Append` over `buf`: first `Done` wins, `Error` or end of buffer fails. -/
def parseFirst : PSt → List UInt8 → Option Nat
  | _, [] => none
  | p, b :: bs =>
    match step p b.toNat with
    | (.done u, _) => some u
    | (.cont, p') => parseFirst p' bs
    | (.error, _) => none

/-- `Insert(pos, codepoint u)`: `for (char* b = buf; *b; ++b)` stops at the first NUL byte of the buffer. -/
def insertCp (s : UStr) (pos u : Nat) : Bool × UStr :=
  if pos ≤ s.store.length then
    match parseFirst .p0 ((uString u).takeWhile (· ≠ 0)) with
    | some v => (true, { s with store := s.store.take pos ++ v :: s.store.drop pos, rawSize := s.rawSize + uSize v })
    | none => (false, s)
  else (false, s)

/-- `Insert(pos, const storage_type& data)`. -/
def insertData (s : UStr) (pos : Nat) (data : List Nat) : Nat × UStr :=
  if pos ≤ s.store.length then
    data.foldl (fun (acc : Nat × UStr) u =>
      let r := insertCp acc.2 (pos + acc.1) u
      if r.1 then (acc.1 + 1, r.2) else (acc.1, r.2)) (0, s)
  else (0, s)

/-! ### plugin_utf8.cpp: argument handling -/

inductive PRes (α : Type)
  | ok (v : α)
  /-- `throw RuntimeError(EXC_RT_OTHER_S, "Invalid arguments.")` -/
  | invalidArgs
  /-- `throw RuntimeError(EXC_RT_INDEX_RANGE_S, …)` -/
  | indexRange
  /-- `store[pos]` with `pos >= store.size()` -/
  | hazardOob
  deriving DecidableEq, Repr

/-- `(size_t) *a.integer()`. -/
def toSizeT (i : Int64) : Nat := i.toUInt64.toNat

/-- `(utf8helper::codepoint) *a.integer()`. -/
def toCodepoint (i : Int64) : Nat := i.toUInt64.toNat % 2 ^ 32

/-- `case utf8::Size`. -/
def pluginCount (s : UStr) : Nat := size s

/-- `case utf8::At`: null → "Invalid arguments"; `i < 0 || (uint64_t) i >= (uint64_t) u->Size()` → INDEX_RANGE;
    otherwise `u->operator[](*a0.integer())`. -/
def pluginAt (s : UStr) (a0 : Option Int64) : PRes Nat :=
  match a0 with
  | none => .invalidArgs
  | some i =>
    if i.toInt < 0 ∨ size s ≤ toSizeT i then .indexRange
    else match s.store[toSizeT i]? with
      | some u => .ok u
      | none => .hazardOob

/-- `case utf8::Substr1` (`n` defaults to `(size_t)-1`) and `Substr2`. -/
def pluginSubstr1 (s : UStr) (a0 : Option Int64) : PRes (List UInt8) :=
  match a0 with
  | none => .invalidArgs
  | some i => .ok (substr s (toSizeT i) (2 ^ 64 - 1))

def pluginSubstr2 (s : UStr) (a0 a1 : Option Int64) : PRes (List UInt8) :=
  match a0, a1 with
  | some i, some n => .ok (substr s (toSizeT i) (toSizeT n))
  | _, _ => .invalidArgs

/-- `case utf8::Remove`. -/
def pluginRemove (s : UStr) (a0 a1 : Option Int64) : PRes (Bool × UStr) :=
  match a0, a1 with
  | some i, some n => .ok (remove s (toSizeT i) (toSizeT n))
  | _, _ => .invalidArgs

/-- `case utf8::Insert`: null position → error; null code point → false. -/
def pluginInsert (s : UStr) (a0 a1 : Option Int64) : PRes (Bool × UStr) :=
  match a0, a1 with
  | none, _ => .invalidArgs
  | some _, none => .ok (false, s)
  | some i, some u => .ok (insertCp s (toSizeT i) (toCodepoint u))

/-- `case utf8::InsertC` (the other object's `Data()`). -/
def pluginInsertC (s : UStr) (a0 : Option Int64) (a1 : Option UStr) : PRes (Nat × UStr) :=
  match a0, a1 with
  | none, _ => .invalidArgs
  | some _, none => .ok (0, s)
  | some i, some o => .ok (insertData s (toSizeT i) o.store)

/-- `case utf8::Tostring`. -/
def pluginString (s : UStr) : Option (List UInt8) := toStdString s

/-! ### the method table of plugin_utf8.cpp, method by method, on a BLOC object

Every entry of `utf8::methods` except the five table-driven transformations (toupper, tolower, normalize,
capitalize, translit: they go through utf8helper_charmap.cpp, which is out of scope): empty, count, rawsize,
reserve, clear, append(integer), append(string), concat(utf8), string, at, remove, insert(pos, integer),
insert(pos, utf8), substr(pos), substr(pos, n). The receiver is `u`; an object argument is either the receiver
ITSELF (`U.insert(0, U)`: `u1->Data()` is then a reference to the receiver's own `store`, which
`Insert(pos, data)` / `Append(data)` copy before looping — `storage_type _data(data)`) or a second object `v`. -/

/-- `UTF8String::Clear()`: `parser.Reset(); store.clear(); rawSize = 0;` -/
def clear (_ : UStr) : UStr := {}

/-- `Append(codepoint u)`: the same loop as `Insert(pos, u)` with `push_back`; nothing happens on Error / end of buffer -/
def appendCp (s : UStr) (u : Nat) : UStr :=
  match parseFirst .p0 ((uString u).takeWhile (· ≠ 0)) with
  | some v => { s with store := s.store ++ [v], rawSize := s.rawSize + uSize v }
  | none => s

/-- `Append(const storage_type& data)`: over a COPY of `data` -/
def appendData (s : UStr) (data : List Nat) : UStr := data.foldl appendCp s

/-- `case AppendL`: `for (auto& c : *a0.literal()) u->WriteByte(c);` — continues from the parser's current state -/
def appendBytes (s : UStr) (text : List UInt8) : UStr := text.foldl writeByte s

/-- `std::vector<uint32_t>::max_size()` = PTRDIFF_MAX / 4 -/
def MAX_SIZE : Nat := 2 ^ 61 - 1

inductive Who | self | other
  deriving DecidableEq, Repr

inductive POp
  | empty | count | rawsize
  | reserve (n : Option Int64)
  | clear
  | append (u : Option Int64)
  | appendL (s : Option (List UInt8))
  | concat (o : Option Who)
  | string
  | at (i : Option Int64)
  | remove (a0 a1 : Option Int64)
  | insert (a0 a1 : Option Int64)
  | insertC (a0 : Option Int64) (o : Option Who)
  | substr1 (a0 : Option Int64)
  | substr2 (a0 a1 : Option Int64)
  deriving DecidableEq, Repr

/-- what a method call hands back to BLOC -/
inductive PVal
  | bool (b : Bool)
  | int (n : Nat)
  | str (b : List UInt8)
  /-- `new bloc::Complex(object_this)`: the receiver itself -/
  | this
  | invalidArgs
  | indexRange
  /-- `store[pos]` outside the vector -/
  | hazardOob
  /-- `ToStdString` writing more than `rawSize` bytes into its buffer -/
  | hazardOverrun
  /-- RuntimeError EXC_RT_OUT_OF_RANGE (`reserve` with a negative or unsatisfiable count) -/
  | outOfRange
  deriving DecidableEq, Repr

def PVal.isHazard : PVal → Bool
  | .hazardOob | .hazardOverrun => true
  | _ => false

/-- `case utf8::Reserve` (as of /repo 2b1dab4): null → "Invalid arguments"; a negative count → EXC_RT_OUT_OF_RANGE;
    otherwise `store.reserve((size_t) n)` inside `try { … } catch (std::exception&)`: `std::length_error` (request above
    `max_size()`) and `std::bad_alloc` (the allocator does not serve it) both become EXC_RT_OUT_OF_RANGE; else TRUE.
    The object is not changed in any case (`vector::reserve` has the strong guarantee; capacity is not observable).
    `memLimit` = the largest element count the allocator serves (a constant of the environment). -/
def pluginReserve (memLimit : Nat) (a0 : Option Int64) : PVal :=
  match a0 with
  | none => .invalidArgs
  | some i =>
    if i.toInt < 0 then .outOfRange
    else if MAX_SIZE < toSizeT i then .outOfRange          -- std::length_error caught
    else if memLimit < toSizeT i then .outOfRange          -- std::bad_alloc caught
    else .bool true

def ofPRes {α : Type} (f : α → PVal) : PRes α → PVal
  | .ok v => f v
  | .invalidArgs => .invalidArgs
  | .indexRange => .indexRange
  | .hazardOob => .hazardOob

/-- one method call on the receiver `u` (with `v` = the other object); returns the receiver's new state -/
def pstep (memLimit : Nat) (u v : UStr) : POp → UStr × PVal
  | .empty => (u, .bool u.store.isEmpty)
  | .count => (u, .int (size u))
  | .rawsize => (u, .int u.rawSize)
  | .reserve n => (u, pluginReserve memLimit n)
  | .clear => (clear u, .bool true)
  | .append none => (u, .this)
  | .append (some c) => (appendCp u (toCodepoint c), .this)
  | .appendL none => (u, .this)
  | .appendL (some t) => (appendBytes u t, .this)
  | .concat none => (u, .this)
  | .concat (some .self) => (appendData u u.store, .this)
  | .concat (some .other) => (appendData u v.store, .this)
  | .string =>
    match pluginString u with
    | some b => (u, .str b)
    | none => (u, .hazardOverrun)
  | .at i => (u, ofPRes .int (pluginAt u i))
  | .remove a0 a1 =>
    match pluginRemove u a0 a1 with
    | .ok (b, u') => (u', .bool b)
    | r => (u, ofPRes (fun _ => .invalidArgs) r)
  | .insert a0 a1 =>
    match pluginInsert u a0 a1 with
    | .ok (b, u') => (u', .bool b)
    | r => (u, ofPRes (fun _ => .invalidArgs) r)
  | .insertC a0 o =>
    match pluginInsertC u a0 (o.map fun w => match w with | .self => u | .other => v) with
    | .ok (k, u') => (u', .int k)
    | r => (u, ofPRes (fun _ => .invalidArgs) r)
  | .substr1 a0 => (u, ofPRes .str (pluginSubstr1 u a0))
  | .substr2 a0 a1 => (u, ofPRes .str (pluginSubstr2 u a0 a1))

/-- a history of calls on `u`; stops after a C++-level hazard (never produced: `utf8_history_total`) -/
def prun (memLimit : Nat) (v : UStr) : UStr → List POp → UStr × List PVal
  | u, [] => (u, [])
  | u, op :: ops =>
    let r := pstep memLimit u v op
    if r.2.isHazard then (r.1, [r.2])
    else
      let rest := prun memLimit v r.1 ops
      (rest.1, r.2 :: rest.2)

end BlocV.Mod.Utf8
