/-
  Model of /repo/modules/sqlite3/plugin_sqlite3.cpp (C18, sqlite3 half).

  1. The VALUE MAPPING: `bindOf` = the `switch (v.type().major())` of `bind` / `exec(str, args)` / `query(str, args)`
     (BLOC value → SQLite storage class + payload, together with what SQLite's `sqlite3_bind_*` documents:
     `bind_double(NaN)` stores NULL, `bind_blob(NULL pointer, 0)` stores NULL), `fetchOf` = the
     `switch (sqlite3_column_type)` of `fetch` / `fetchall` (storage class → BLOC value and type; TEXT is built
     from `sqlite3_column_text` WITH `sqlite3_column_bytes`: every byte comes back, NUL included).
  2. The statement/handle STATE MACHINE of `struct Handle` (`_db`, `_stmt`, `_stmt_status`) for three fixed
     statement shapes: `CREATE TABLE t(a)`, `INSERT INTO t VALUES(?)`, `SELECT a, typeof(a) FROM t`
     (+ `SELECT ?1, typeof(?1)` for the one-step query with parameters). SQL text and query evaluation are NOT
     modelled: SQLite is trusted to append a row on INSERT and to deliver the rows in insertion order.
     A second table shape `CREATE TABLE t(a NOT NULL)` (`Op.createNN`, `World.notNull`) gives a statement that fails at
     STEP time (constraint violation) when the value stored is NULL: `exec(sql, args)` and `execute()` then return 0
     (BLOC error carrying SQLite's message), store nothing and `execute()` leaves `_stmt_status` untouched; a later
     `bind()` (unconditional `sqlite3_reset`) + `execute()` on the SAME prepared statement stores the newly bound value.
     `Handle::close()` finalizes `_stmt` and forgets it (`_stmt = nullptr; _stmt_status = STMT_NEW`): nothing dangles.
     `Handle::bind` passes SQLITE_TRANSIENT for TEXT / BLOB: SQLite copies the bytes at bind time, so whether the
     argument tuple is a temporary or a variable (`Op.bind _ temp`) makes no difference.
     The `Hazard` vocabulary (use after free) is kept; `Proofs/C18F.lean` proves that no call produces it.
-/
namespace BlocV.Mod.Sqlite

abbrev Bytes := List UInt8

/-! ### values -/

/-- major type of a BLOC value (`?` = no type) -/
inductive BTy | noType | boolean | integer | decimal | string | bytes | object
  deriving Repr, DecidableEq

/-- a BLOC value as a tuple item can hold it (`dec` by bit pattern) -/
inductive BVal
  | null (t : BTy)
  | bool (b : Bool)
  | int (i : Int64)
  | dec (bits : UInt64)
  | str (s : Bytes)
  | bytes (b : Bytes)
  | obj
  deriving Repr, DecidableEq

def BVal.ty : BVal → BTy
  | .null t => t | .bool _ => .boolean | .int _ => .integer | .dec _ => .decimal
  | .str _ => .string | .bytes _ => .bytes | .obj => .object

def BVal.isNull : BVal → Bool
  | .null _ => true | _ => false

/-- SQLite storage classes with payload -/
inductive SVal
  | null
  | integer (i : Int64)
  | real (bits : UInt64)
  | text (t : Bytes)
  | blob (b : Bytes)
  deriving Repr, DecidableEq

/-- IEEE-754 binary64 NaN: exponent all ones, mantissa non-zero -/
def isNaN (bits : UInt64) : Bool :=
  (bits >>> 52) &&& 0x7ff == 0x7ff && bits &&& 0xfffffffffffff != 0

/-- `sqlite3_bind_*` as called by the module. `emptyBuf`: does an EMPTY bytes value own a buffer
    (`std::vector::data() != nullptr`)? `none` = the parameter is not touched (`default: break;`). -/
def bindOf (emptyBuf : Bool) : BVal → Option SVal
  | .null _ => some .null
  | .bool b => some (.integer (if b then 1 else 0))
  | .int i => some (.integer i)
  | .dec d => some (if isNaN d then .null else .real d)
  | .str s => some (.text s)
  | .bytes b => some (if b = [] ∧ emptyBuf = false then .null else .blob b)
  | .obj => none

/-- `fetch` / `fetchall`: one column -/
def fetchOf : SVal → BVal
  | .null => .null .noType
  | .integer i => .int i
  | .real d => .dec d
  | .text t => .str t
  | .blob b => .bytes b

def asciiBytes (s : String) : Bytes := s.toUTF8.toList

/-- SQL `typeof(a)` -/
def typeofS : SVal → Bytes
  | .null => asciiBytes "null"
  | .integer _ => asciiBytes "integer"
  | .real _ => asciiBytes "real"
  | .text _ => asciiBytes "text"
  | .blob _ => asciiBytes "blob"

/-- `header()`: name of the BLOC type for a storage class -/
def headerType : SVal → Bytes
  | .null => asciiBytes "undefined"
  | .integer _ => asciiBytes "integer"
  | .real _ => asciiBytes "decimal"
  | .text _ => asciiBytes "string"
  | .blob _ => asciiBytes "bytes"

/-- values that the property calls storable: stored and fetched unchanged (see `Proofs/C18F.lean`) -/
def Storable : BVal → Prop
  | .int _ => True
  | .dec d => isNaN d = false
  | .str _ => True
  | .bytes b => b ≠ []
  | _ => False

instance : DecidablePred Storable := fun v => by
  cases v <;> simp only [Storable] <;> infer_instance

/-! ### statements and handle -/

inductive StKind | insert | select
  deriving Repr, DecidableEq

inductive Status | new | row | done
  deriving Repr, DecidableEq

/-- a live `sqlite3_stmt` -/
structure Stmt where
  kind : StKind
  /-- parameter 1 (survives `sqlite3_reset`) -/
  binding : SVal := .null
  /-- SELECT: rows from the current one on -/
  cursor : List SVal := []
  deriving Repr, DecidableEq

structure Handle where
  isOpen : Bool := false
  stmt : Option Stmt := none
  status : Status := .new
  deriving Repr, DecidableEq

/-- the database file: table `t(a)` (absent until created) -/
structure World where
  table : Option (List SVal) := none
  /-- the table was created as `t(a NOT NULL)`: storing NULL fails at STEP time (SQLITE_CONSTRAINT_NOTNULL) -/
  notNull : Bool := false
  h : Handle := {}
  emptyBuf : Bool := false
  deriving Repr, DecidableEq

inductive Hazard | useAfterFree
  deriving Repr, DecidableEq

/-- a row delivered to BLOC: column `a` and `typeof(a)` -/
abbrev Row := BVal × Bytes

inductive Res
  | bool (b : Bool)
  /-- `query`: no row = null table; otherwise the rows and the declared type of column `a` -/
  | table (rows : List Row) (decl : BTy)
  | nullTable
  /-- `fetch` = TRUE with the row stored into the variable -/
  | row (r : Row)
  /-- `header()` of the SELECT: type names of the two columns -/
  | header (tyA tyB : Bytes)
  /-- RuntimeError EXC_RT_OTHER_S ("Invalid arguments.", "Database Connection not open.", "No query in progress.") -/
  | err
  /-- RuntimeError EXC_RT_USER_S carrying SQLite's message -/
  | sqlErr
  | hazard (h : Hazard)
  | unmodelled
  deriving Repr, DecidableEq

inductive Op
  | ctor0 | open | close | isOpen | errmsg
  | create                               -- exec("CREATE TABLE t(a)")
  | createNN                             -- exec("CREATE TABLE t(a NOT NULL)")
  | execNull                             -- exec(null)
  | insert (args : Option (List BVal))   -- exec("INSERT INTO t VALUES(?)", args)
  | queryAll                             -- query("SELECT a, typeof(a) FROM t")
  | queryParam (args : Option (List BVal)) -- query("SELECT ?1, typeof(?1)", args)
  | prepare (k : Option StKind)          -- none = prepare(null)
  | prepareBad                           -- a text SQLite rejects
  | bind (args : Option (List BVal)) (temp : Bool)   -- temp: the argument is a temporary `tup(..)`, not a variable (no difference any more)
  | execute | header | fetch | finalize
  | destroy                              -- the object's destructor
  deriving Repr, DecidableEq

def rowOf (s : SVal) : Row := (fetchOf s, typeofS s)

/-- `decl[i]` of `fetchall`: the type of the last non-NULL value (NO_TYPE when all are NULL) -/
def declOf : List SVal → BTy → BTy
  | [], d => d
  | s :: rest, d => declOf rest (match s with | .null => d | _ => (fetchOf s).ty)

/-- parameter 1 after binding the tuple `args` on top of `old` (items 2.. are out of range and ignored) -/
def bindArgs (emptyBuf : Bool) (old : SVal) : List BVal → SVal
  | [] => old
  | v :: _ => (bindOf emptyBuf v).getD old

/-- is a SELECT cursor positioned on a row? (an INSERT then is outside the model) -/
def Handle.cursorActive (h : Handle) : Bool :=
  match h.stmt with
  | some s => s.kind == .select && h.status == .row
  | none => false

/-- `Handle::close()`: the statement is finalized and forgotten, the status is NEW again -/
def closeH (w : World) : World × Res :=
  ({ w with h := { w.h with isOpen := false, stmt := none, status := .new } }, .bool true)

/-- one method call -/
def step (w : World) : Op → World × Res
  | .ctor0 => if w.h.isOpen then (w, .unmodelled) else ({ w with h := {} }, .bool true)
  | .destroy => ({ w with h := {} }, .bool true)
  | .open =>
    if w.h.isOpen then
      let w' := (closeH w).1
      ({ w' with h := { w'.h with isOpen := true } }, .bool true)
    else ({ w with h := { w.h with isOpen := true } }, .bool true)
  | .close => if w.h.isOpen then closeH w else (w, .bool false)
  | .isOpen => (w, .bool w.h.isOpen)
  | op =>
    if !w.h.isOpen then (w, .err) else
    match op with
    | .errmsg => (w, .unmodelled)
    | .create =>
      match w.table with
      | some _ => (w, .sqlErr)
      | none => ({ w with table := some [] }, .bool true)
    | .createNN =>
      match w.table with
      | some _ => (w, .sqlErr)
      | none => ({ w with table := some [], notNull := true }, .bool true)
    | .execNull => (w, .err)
    | .insert none => (w, .err)
    | .insert (some args) =>
      match w.table with
      | none => (w, .sqlErr)
      | some rows =>
        if w.h.cursorActive then (w, .unmodelled)
        -- `sqlite3_step` fails (NOT NULL constraint): `exec` returns 0, nothing is stored
        else if w.notNull ∧ bindArgs w.emptyBuf .null args = .null then (w, .sqlErr)
        else ({ w with table := some (rows ++ [bindArgs w.emptyBuf .null args]) }, .bool true)
    | .queryAll =>
      match w.table with
      | none => (w, .sqlErr)
      | some [] => (w, .nullTable)
      | some rows => (w, .table (rows.map rowOf) (declOf rows .noType))
    | .queryParam none => (w, .err)
    | .queryParam (some args) =>
      let s := bindArgs w.emptyBuf .null args
      (w, .table [rowOf s] (declOf [s] .noType))
    | .prepare none => (w, .err)
    | .prepare (some k) =>
      match w.table with
      | none => ({ w with h := { w.h with stmt := none, status := .new } }, .sqlErr)
      | some _ => ({ w with h := { w.h with stmt := some { kind := k }, status := .new } }, .bool true)
    | .prepareBad => ({ w with h := { w.h with stmt := none, status := .new } }, .sqlErr)
    | .bind none _ => (w, .err)
    | .bind (some args) _ =>
      match w.h.stmt with
      | none => (w, .sqlErr)
      | some s =>
        match s.kind with
        | .insert =>
          let s' : Stmt := { s with binding := bindArgs w.emptyBuf s.binding args, cursor := [] }
          ({ w with h := { w.h with stmt := some s', status := .new } }, .bool true)
        | .select => ({ w with h := { w.h with stmt := some { s with cursor := [] }, status := .new } }, .bool true)
    | .execute =>
      match w.h.stmt with
      | none => (w, .sqlErr)
      | some s =>
        match s.kind, w.table with
        | _, none => (w, .unmodelled)          -- cannot happen: prepare needs the table, nothing drops it
        | .insert, some rows =>
          -- `sqlite3_step` fails at step time (NOT NULL constraint): `execute()` returns 0 through its `default:` branch and
          -- leaves `_stmt_status` as it was; the halted statement keeps its bindings; the next `bind()` resets it
          -- (`sqlite3_reset` unconditionally), the next `execute()` steps it again (SQLite rewinds a halted statement itself)
          if w.notNull ∧ s.binding = .null then (w, .sqlErr) else
          ({ w with table := some (rows ++ [s.binding]), h := { w.h with status := .done } }, .bool true)
        | .select, some rows =>
          ({ w with h := { w.h with stmt := some { s with cursor := rows },
                                     status := if rows = [] then .done else .row } }, .bool true)
    | .header =>
      match w.h.stmt with
      | none => (w, .err)
      | some s =>
        if w.h.status = .new then (w, .err)
        else
          match s.kind with
          | .insert => (w, .nullTable)
          | .select =>
            match w.h.status, s.cursor with
            | .row, r :: _ => (w, .header (headerType r) (asciiBytes "string"))
            | _, _ => (w, .header (asciiBytes "undefined") (asciiBytes "undefined"))
    | .fetch =>
      match w.h.stmt with
      | none => (w, .bool false)
      | some s =>
        match w.h.status, s.cursor with
        | .row, r :: rest =>
          ({ w with h := { w.h with stmt := some { s with cursor := rest },
                                     status := if rest = [] then .done else .row } }, .row (rowOf r))
        | _, _ => (w, .bool false)
    | .finalize =>
      match w.h.stmt with
      | none => (w, .bool false)
      | some _ => ({ w with h := { w.h with stmt := none } }, .bool true)
    | _ => (w, .unmodelled)

def run : World → List Op → World × List Res
  | w, [] => (w, [])
  | w, op :: ops =>
    let (w1, r) := step w op
    let (w2, rs) := run w1 ops
    (w2, r :: rs)

end BlocV.Mod.Sqlite
