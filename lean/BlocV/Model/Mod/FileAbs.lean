/-
  The abstraction of an open `file` handle to the POSIX-level specification (Spec/FileSpec.lean): which calls are
  stream calls, which request of the specification each stands for, how the module reports the specification's answers.
  Used by the theorems (`file_refines_spec` in Proofs/C18F.lean) and by the driver, which runs the specification next to
  the model on every generated history (`spec=` of the `fil` command) so that the check compares it with the real module.
-/
import BlocV.Model.Mod.File

namespace BlocV.Mod.File
open BlocV.Spec.File (SStream SOp SRes)

/-- the open file description a stream stands for -/
def absF (w : World) (f : OFile) : Spec.File.SFile := ⟨(w.fs.get f.path).getD [], f.pos, f.app⟩


/-- the stream calls of the module (on an open handle, with non-null arguments; a write passes its length through an
    `unsigned`, so it is below 2^32 bytes) -/
def StreamOp : Op → Prop
  | .readS (some _) | .readB (some _) | .readln | .flush | .position => True
  | .writeS (some d) | .writeB (some d) => d.length < 4294967296
  | .seekSet (some _) | .seekCur (some _) | .seekEnd (some _) => True
  | _ => False

/-- the request of the specification a stream call stands for -/
def toS : Op → SOp
  | .readS (some n) | .readB (some n) => .read n.toInt
  | .readln => .readLine
  | .writeS (some d) | .writeB (some d) => .write d
  | .seekSet (some o) => .seek .set o.toInt
  | .seekCur (some o) => .seek .cur o.toInt
  | .seekEnd (some o) => .seek .end_ o.toInt
  | .position => .tell
  | _ => .sync

/-- how the module reports an answer of the specification -/
def resOf : SRes → Res
  | .data d => .rd d.length d
  | .line none => .ln false none
  | .line (some l) => .ln true (some l)
  | .count n => .int n
  | .errno e => .int e
  | .offset n => .int n
  | .done => .bool true
  | .denied => .err

/-- the stream an open handle stands for: the open file description, its access mode (what glibc made of the mode
    string) and BLOC's own `_r` / `_w` flags -/
def absS (w : World) (f : OFile) : SStream := ⟨absF w f, f.rd, f.wr, w.h.r, w.h.w⟩


/-- `StreamOp` as a test (driver) -/
def isStreamOp : Op → Bool
  | .readS (some _) | .readB (some _) | .readln | .flush | .position => true
  | .writeS (some d) | .writeB (some d) => decide (d.length < 4294967296)
  | .seekSet (some _) | .seekCur (some _) | .seekEnd (some _) => true
  | _ => false

end BlocV.Mod.File
