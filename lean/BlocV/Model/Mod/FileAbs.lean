/-
  The abstraction of an open `file` handle to the POSIX-level specification (Spec/FileSpec.lean): which calls are
  stream calls, which request of the specification each stands for, how the module reports the specification's answers.
  Used by the theorems (`file_refines_spec` in Proofs/C18F.lean) and by the driver, which runs the specification next to
  the model on every generated history (`spec=` of the `fil` command) so that the check compares it with the real module.
-/
import BlocV.Model.Mod.File

namespace BlocV.Mod.File
open BlocV.Spec.File (SStream SOp SRes)

/-- the open file description a stream stands for -/
def absF (w : World) (f : OFile) : Spec.File.SFile := ⟨(w.fs.get f.path).getD [], f.pos, f.app⟩


/-- the stream calls of the module (on an open handle, with non-null arguments; a write passes its length through an
    `unsigned`, so it is below 2^32 bytes) -/
def StreamOp : Op → Prop
  | .readS (some _) | .readB (some _) | .readln | .flush | .position => True
  | .writeS (some d) | .writeB (some d) => d.length < 4294967296
  | .seekSet (some _) | .seekCur (some _) | .seekEnd (some _) => True
  | _ => False

/-- the request of the specification a stream call stands for -/
def toS : Op → SOp
  | .readS (some n) | .readB (some n) => .read n.toInt
  | .readln => .readLine
  | .writeS (some d) | .writeB (some d) => .write d
  | .seekSet (some o) => .seek .set o.toInt
  | .seekCur (some o) => .seek .cur o.toInt
  | .seekEnd (some o) => .seek .end_ o.toInt
  | .position => .tell
  | _ => .sync

/-- how the module reports an answer of the specification -/
def resOf : SRes → Res
  | .data d => .rd d.length d
  | .line none => .ln false none
  | .line (some l) => .ln true (some l)
  | .count n => .int n
  | .errno e => .int e
  | .offset n => .int n
  | .done => .bool true
  | .denied => .err

/-- the stream an open handle stands for: the open file description, its access mode (what glibc made of the mode
    string) and BLOC's own `_r` / `_w` flags -/
def absS (w : World) (f : OFile) : SStream := ⟨absF w f, f.rd, f.wr, w.h.r, w.h.w⟩


/-! ### "every switch of direction goes through a seek" — a condition on the CALLS alone

C11 7.21.5.3 p7: on an update stream output shall not be directly followed by input without an intervening `fflush` or
positioning call, and input shall not be directly followed by output without an intervening positioning call (unless the
input met end-of-file). `Pend` follows a list of calls and records, conservatively and without looking at any state, which
direction may still be "open"; `Disciplined` says that no call of the list switches the direction while one is open.
Only `seekset(o)` with `0 ≤ o ≤ maxOff` is counted as a positioning call (it cannot fail); `flush` closes an open output. -/

inductive Pend | none | out | inp
  deriving DecidableEq, Repr

def inRange (maxOff : Nat) (o : Int64) : Bool := decide (0 ≤ o.toInt) && decide (o.toInt.toNat ≤ maxOff)

def Pend.next (maxOff : Nat) (p : Pend) : Op → Pend
  | .writeS _ | .writeB _ => .out
  | .readS _ | .readB _ | .readln => .inp
  | .seekSet (some o) => if inRange maxOff o then .none else p
  | .flush => if p = .out then .none else p
  | _ => p

def Pend.allows (p : Pend) : Op → Bool
  | .writeS _ | .writeB _ => p != .inp
  | .readS _ | .readB _ | .readln => p != .out
  | _ => true

def Disciplined (maxOff : Nat) : Pend → List Op → Prop
  | _, [] => True
  | p, op :: ops => p.allows op = true ∧ Disciplined maxOff (p.next maxOff op) ops

instance Disciplined.dec (maxOff : Nat) : (p : Pend) → (ops : List Op) → Decidable (Disciplined maxOff p ops)
  | _, [] => isTrue trivial
  | p, op :: ops => @instDecidableAnd _ _ _ (Disciplined.dec maxOff (p.next maxOff op) ops)

/-- what `Pend` knows about the stream's own record of the last transfer -/
def Approx (p : Pend) (l : LastIO) : Prop := (l = .output → p = .out) ∧ (l = .input → p = .inp)


/-- `StreamOp` as a test (driver) -/
def isStreamOp : Op → Bool
  | .readS (some _) | .readB (some _) | .readln | .flush | .position => true
  | .writeS (some d) | .writeB (some d) => decide (d.length < 4294967296)
  | .seekSet (some _) | .seekCur (some _) | .seekEnd (some _) => true
  | _ => false

end BlocV.Mod.File
