/-
  Model of the case transformations of the utf8 module — /repo/modules/utf8/utf8helper.cpp `TransformUpper`, `TransformLower`,
  `UTF8String::Transform(utf8helper::Transform func)`, and what they do to the object's OWN parser (plugin_utf8.cpp
  `case Toupper`, `case Tolower`, `case AppendL`, `case Clear`).

  * The parser functions `_p0 … _p3_u4` call `p->func(c, p->context)` at the point where the model's `step` answers
    `Exit.done raw`: `c` is the entry of the character table for the sequence just completed when a page exists for it
    (`charmap_us7ascii`, `pagemap_16`, `pagemap_24_e1/e2`, `pagemap_32_…`), and without a page the raw packed bytes are
    taken as they are. `TransformUpper` returns `c->upper`, `TransformLower` `c->lower`, `TransformNop` `c->code` (= the raw
    bytes: the standing assumption of Model/Mod/Utf8.lean, verified on every run by `u8 tableid`). A result of 0
    (`NullCodepoint`) means "no character": nothing is stored.
  * The character table is a PARAMETER here (`CharMap`: packed bytes ↦ the entry's `upper` and `lower` fields, `none` = no
    page): the theorems hold for every table; the check reads the real table out of utf8helper_charmap.cpp and hands the
    driver the entries a case can touch (`u8t`, vlib/props/c18f.py family u8.plugin_case).
  * `Transform(func)`: `tmp = store; Clear(); parser.func = func; for u in tmp: for (b = _u_string(u); *b; ++b) WriteByte(*b)`.
    `parser.func` is NOT restored afterwards, and `Clear()` (`Parser::Reset`) does not touch it: the transformation stays
    installed in the object (`TStr.func`), so every later `append(string)` — which feeds `WriteByte` on the same parser — is
    transformed too (finding `C18.utf8_transform_sticky`). `append(integer)`, `insert`, `concat` build a parser of their own
    with `TransformNop` and are not affected.
-/
import BlocV.Model.Mod.Utf8

namespace BlocV.Mod.Utf8

inductive Func | nop | upper | lower
  deriving DecidableEq, Repr

/-- the character table as the two case transformations see it: for the packed bytes of a sequence the `upper` and `lower`
    fields of its entry; `none` = there is no page for the sequence -/
abbrev CharMap := Nat → Option (Nat × Nat)

/-- `p->func(c, p->context)` where a page exists, the raw bytes where none does -/
def applyF (cm : CharMap) (f : Func) (raw : Nat) : Nat :=
  match f with
  | .nop => raw
  | .upper => match cm raw with | some e => e.1 | none => raw
  | .lower => match cm raw with | some e => e.2 | none => raw

/-- `UTF8String::WriteByte` on a parser whose `func` is `f` -/
def writeByteF (cm : CharMap) (f : Func) (s : UStr) (cc : UInt8) : UStr :=
  match step s.parser cc.toNat with
  | (.done raw, p) =>
    if applyF cm f raw = 0 then { s with parser := p }
    else { parser := p, store := s.store ++ [applyF cm f raw], rawSize := s.rawSize + uSize (applyF cm f raw) }
  | (.cont, p) => { s with parser := p }
  | (.error, p) => { s with parser := p }

/-- the object: the string and the transformation installed in its parser -/
structure TStr where
  u : UStr := {}
  func : Func := .nop
  deriving DecidableEq, Repr

/-- `UTF8String::Transform(func)` -/
def transformT (cm : CharMap) (f : Func) (t : TStr) : TStr :=
  { u := t.u.store.foldl (fun acc cp => ((uString cp).takeWhile (· ≠ 0)).foldl (writeByteF cm f) acc) {}, func := f }

/-- `case AppendL`: `WriteByte` for every byte of the text, on the object's own parser -/
def appendBytesT (cm : CharMap) (t : TStr) (text : List UInt8) : TStr :=
  { t with u := text.foldl (writeByteF cm t.func) t.u }

/-- `case Clear`: `parser.Reset(); store.clear(); rawSize = 0;` — `func` stays -/
def clearT (t : TStr) : TStr := { t with u := {} }

/-- the calls the driver command `u8t` runs -/
inductive TOp
  | toupper | tolower
  | appendL (s : Option (List UInt8))
  | append (u : Option Int64)
  | clear
  deriving DecidableEq, Repr

def tstep (cm : CharMap) (t : TStr) : TOp → TStr
  | .toupper => transformT cm .upper t
  | .tolower => transformT cm .lower t
  | .appendL none => t
  | .appendL (some s) => appendBytesT cm t s
  | .append none => t
  | .append (some c) => { t with u := appendCp t.u (toCodepoint c) }
  | .clear => clearT t

end BlocV.Mod.Utf8
