/-
  Model of the table-driven transformations of the utf8 module — /repo/modules/utf8/utf8helper.cpp `TransformUpper`, `TransformLower`,
  `TransformCapitalize`, `TransformNormalize`, `TransformTransliterate` (second part of this file),
  `UTF8String::Transform(utf8helper::Transform func)`, and what they do to the object's OWN parser (plugin_utf8.cpp
  `case Toupper`, `case Tolower`, `case AppendL`, `case Clear`).

  * The parser functions `_p0 … _p3_u4` call `p->func(c, p->context)` at the point where the model's `step` answers
    `Exit.done raw`: `c` is the entry of the character table for the sequence just completed when a page exists for it
    (`charmap_us7ascii`, `pagemap_16`, `pagemap_24_e1/e2`, `pagemap_32_…`), and without a page the raw packed bytes are
    taken as they are. `TransformUpper` returns `c->upper`, `TransformLower` `c->lower`, `TransformNop` `c->code` (= the raw
    bytes: the standing assumption of Model/Mod/Utf8.lean, verified on every run by `u8 tableid`). A result of 0
    (`NullCodepoint`) means "no character": nothing is stored.
  * The character table is a PARAMETER here (`CharMap`: packed bytes ↦ the entry's `upper` and `lower` fields, `none` = no
    page): the theorems hold for every table; the check reads the real table out of utf8helper_charmap.cpp and hands the
    driver the entries a case can touch (`u8t`, vlib/props/c18f.py family u8.plugin_case).
  * `Transform(func)`: `tmp = store; Clear(); parser.func = func; for u in tmp: for (b = _u_string(u); *b; ++b) WriteByte(*b)`,
    and the transformation that was installed in the parser before the call is PUT BACK on every way out (a guard object
    whose destructor restores `parser.func`; repair of finding `C18.utf8_transform_sticky` — before it `parser.func` kept
    `func`, so every later `append(string)`, which feeds `WriteByte` on the same parser, was transformed too, `clear()`
    included). `TStr.func` is the transformation installed in the object's parser: `TransformNop` for every object the plugin
    creates (the constructors `UTF8String(func)` / `UTF8String(text, func)` of the helper can install another one; the plugin
    does not use them), and no method of the plugin's table changes it (`tstep_func`). `append(integer)`, `insert`, `concat`
    build a parser of their own with `TransformNop`.
-/
import BlocV.Model.Mod.Utf8

namespace BlocV.Mod.Utf8

inductive Func | nop | upper | lower
  deriving DecidableEq, Repr

/-- the character table as the two case transformations see it: for the packed bytes of a sequence the `upper` and `lower`
    fields of its entry; `none` = there is no page for the sequence -/
abbrev CharMap := Nat → Option (Nat × Nat)

/-- `p->func(c, p->context)` where a page exists, the raw bytes where none does -/
def applyF (cm : CharMap) (f : Func) (raw : Nat) : Nat :=
  match f with
  | .nop => raw
  | .upper => match cm raw with | some e => e.1 | none => raw
  | .lower => match cm raw with | some e => e.2 | none => raw

/-- `UTF8String::WriteByte` on a parser whose `func` is `f` -/
def writeByteF (cm : CharMap) (f : Func) (s : UStr) (cc : UInt8) : UStr :=
  match step s.parser cc.toNat with
  | (.done raw, p) =>
    if applyF cm f raw = 0 then { s with parser := p }
    else { parser := p, store := s.store ++ [applyF cm f raw], rawSize := s.rawSize + uSize (applyF cm f raw) }
  | (.cont, p) => { s with parser := p }
  | (.error, p) => { s with parser := p }

/-- the object: the string and the transformation installed in its parser -/
structure TStr where
  u : UStr := {}
  func : Func := .nop
  deriving DecidableEq, Repr

/-- `UTF8String::Transform(func)`: the content is re-read with `f`; the installed transformation is what it was -/
def transformT (cm : CharMap) (f : Func) (t : TStr) : TStr :=
  { u := t.u.store.foldl (fun acc cp => ((uString cp).takeWhile (· ≠ 0)).foldl (writeByteF cm f) acc) {}, func := t.func }

/-- `case AppendL`: `WriteByte` for every byte of the text, on the object's own parser -/
def appendBytesT (cm : CharMap) (t : TStr) (text : List UInt8) : TStr :=
  { t with u := text.foldl (writeByteF cm t.func) t.u }

/-- `case Clear`: `parser.Reset(); store.clear(); rawSize = 0;` — `func` stays -/
def clearT (t : TStr) : TStr := { t with u := {} }

/-- the calls the driver command `u8t` runs -/
inductive TOp
  | toupper | tolower
  | appendL (s : Option (List UInt8))
  | append (u : Option Int64)
  | clear
  deriving DecidableEq, Repr

def tstep (cm : CharMap) (t : TStr) : TOp → TStr
  | .toupper => transformT cm .upper t
  | .tolower => transformT cm .lower t
  | .appendL none => t
  | .appendL (some s) => appendBytesT cm t s
  | .append none => t
  | .append (some c) => { t with u := appendCp t.u (toCodepoint c) }
  | .clear => clearT t

/-! ### the two transformations that read the parser's `context`: `capitalize()` and `normalize()`

`TransformCapitalize(ch, context)`: `ch->upper` when the PREVIOUS character stored was a space, a breaker or a control
character (`context & (IsSpace | IsBreaker | IsControl)`), else `ch->lower`. `TransformNormalize(ch, context)`: a space or
breaker becomes ONE blank (0x20) — nothing at all when the previous character already was one —, a control character
becomes nothing, everything else `ch->lower`. `context` is the `category` field of the entry of the last character that
was STORED (`p->context = c->category` after a non-zero result; a dropped character leaves it alone), 0 (`None`) after a
sequence without page, and `IsSpace | IsBreaker` after `Parser::Reset()` — which `Transform(func)` calls through `Clear()`,
so the first character of the text counts as the start of a word. -/

/-- the table with categories: packed bytes ↦ (`upper`, `lower`, `category`); `none` = no page -/
abbrev CharMapC := Nat → Option (Nat × Nat × Nat)

def CharMapC.toCM (c : CharMapC) : CharMap := fun u => (c u).map fun e => (e.1, e.2.1)

inductive FuncC | capitalize | normalize
  deriving DecidableEq, Repr

/-- `IsSpace | IsBreaker`: the context after `Parser::Reset()` -/
def CTX0 : Nat := 3

/-- `p->func(c, p->context)` for the two context-reading transformations -/
def applyC (f : FuncC) (e : Nat × Nat × Nat) (ctx : Nat) : Nat :=
  match f with
  | .capitalize => if ctx &&& 7 ≠ 0 then e.1 else e.2.1
  | .normalize =>
    if e.2.2 &&& 3 ≠ 0 then (if ctx &&& 3 ≠ 0 then 0 else 0x20)
    else if e.2.2 &&& 4 ≠ 0 then 0
    else e.2.1

/-- a completed sequence `raw` on a parser with `f` installed and context `ctx`: the value stored (0 = nothing) and the
    context afterwards -/
def doneC (cm : CharMapC) (f : FuncC) (ctx raw : Nat) : Nat × Nat :=
  match cm raw with
  | some e => if applyC f e ctx = 0 then (0, ctx) else (applyC f e ctx, e.2.2)
  | none => (raw, 0)

/-- `WriteByte` on a parser with `f` installed; the state is the string and the parser's `context` -/
def writeByteC (cm : CharMapC) (f : FuncC) (s : UStr × Nat) (cc : UInt8) : UStr × Nat :=
  match step s.1.parser cc.toNat with
  | (.done raw, p) =>
    if (doneC cm f s.2 raw).1 = 0 then ({ s.1 with parser := p }, (doneC cm f s.2 raw).2)
    else ({ parser := p, store := s.1.store ++ [(doneC cm f s.2 raw).1],
            rawSize := s.1.rawSize + uSize (doneC cm f s.2 raw).1 }, (doneC cm f s.2 raw).2)
  | (.cont, p) => ({ s.1 with parser := p }, s.2)
  | (.error, p) => ({ s.1 with parser := p }, s.2)

/-- `Transform(TransformCapitalize)` / `Transform(TransformNormalize)`: copy, `Clear()` (context = `CTX0`), re-read; the
    installed transformation is put back -/
def transformC (cm : CharMapC) (f : FuncC) (t : TStr) : TStr :=
  { u := (t.u.store.foldl (fun acc cp => ((uString cp).takeWhile (· ≠ 0)).foldl (writeByteC cm f) acc) ({}, CTX0)).1,
    func := t.func }

/-! ### `translit()`

`TransformTransliterate(ch, context)` packs the bytes of the entry's `translate` string (at most 4) big-endian into ONE
`codepoint` and returns it (an empty string gives 0: the character vanishes). So the replacement of a character — also a
replacement of several ASCII letters, `ß` ↦ `ss` = 0x7373 — is stored as ONE element of the vector: `count()` counts it once,
`string()` writes its bytes, and a later transformation re-reads those bytes as the characters they are. The column is
a parameter like the others (`CharMapT`: packed bytes ↦ the packed `translate` string; `none` = no page: the sequence is kept);
the transformation itself is `Transform(func)` with that column: `transformT` on the table `trCM tr`. -/

abbrev CharMapT := Nat → Option Nat

/-- the `translate` column as a table for `transformT` -/
def trCM (tr : CharMapT) : CharMap := fun u => (tr u).map fun x => (x, x)

/-- `Transform(TransformTransliterate)` -/
def translitT (tr : CharMapT) (t : TStr) : TStr := transformT (trCM tr) .upper t

/-- the calls of the driver command `u8t` with all five transformations -/
inductive TOpC
  | base (op : TOp)
  | capitalize | normalize | translit
  deriving DecidableEq, Repr

def tstepC (cm : CharMapC) (tr : CharMapT) (t : TStr) : TOpC → TStr
  | .base op => tstep cm.toCM t op
  | .capitalize => transformC cm .capitalize t
  | .normalize => transformC cm .normalize t
  | .translit => translitT tr t

end BlocV.Mod.Utf8
