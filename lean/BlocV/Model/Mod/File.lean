/-
  Model of /repo/modules/file/plugin_file.cpp (C18, file half): a `file` object as a pure state machine over an
  abstract file system (path → bytes). Function by function:

  * `parseMode`      = what glibc's `fopen` makes of the mode string (first character r/w/a, then at most six more
                       characters of which `+` and `x` matter; the string ends at the first NUL as `c_str()` does);
                       a mode with the glibc flag `m` (mmap stream) or a comma is `.unmodelled` (`hasComma`).
  * `Handle.open`    = `file::Handle::open` (closes first; `_r`/`_w` are computed by BLOC with `find` over the WHOLE
                       string, so "rw" gives `_w` although the stream is read-only: `write` then returns 0).
  * `fwriteBytes`    = `fwrite` as a walk over the file (keep what is in front of the position, zero-fill a gap left
                       by a seek beyond the end, overwrite, extend); in append mode every write goes to the end.
                       `Handle::write` returns 0 for an empty value (after the 32-bit truncation of the length)
                       without calling `fwrite`.
  * `readLoop`       = the `while (n > 0)` loop of `Read_S`/`Read_B` with its 4096-byte buffer, literally:
                       `c = fread(min(n,4096)); append; r += c; if (c < 4096) break; n -= c`.
  * `readlnScan`     = `file::Handle::readln` (`fgetc` loop: stops after LF, after 4096 characters, at EOF; a NUL
                       byte is data like any other: the test for the end of file is `c < 0`).
  * `baseName`/`dirName` = `_baseName` / `_dirName` (oddity: `_dirName` drops the character in front of a
                       trailing separator: dirname("a/b/") = ".").
  * `step`           = `FilePlugin::executeMethod` + `createObject`: null checks, "not opened" errors, results.

  Stdio buffering is not modelled (write-through): with ONE handle per file it is unobservable except through
  `stat` (size of unflushed data), which is `.unmodelled` together with `dir` (they read the real file system:
  ctime, absolute path, directory entries). Directories, permissions and I/O errors are not modelled: every path
  is a regular file or absent, its parent directory exists and is writable.
  Memory: `read` reserves at most one buffer (`reserve(min(n, 4096))`) and grows while reading, so the size of the
  request is no allocation: no count, however large, can make an exception leave the module. The `Hazard` vocabulary
  (what the C++ could do wrong) is kept; `Proofs/C18F.lean` proves that no call produces one.
-/
import BlocV.Spec.FileSpec

namespace BlocV.Mod.File

abbrev Bytes := List UInt8
abbrev Path := Bytes

def BUFSZ : Nat := 4096

/-! ### the world -/

/-- abstract file system: regular files only -/
structure FS where
  get : Path → Option Bytes
  /-- largest offset `lseek` accepts on this file system -/
  maxOff : Nat

def FS.put (fs : FS) (p : Path) (c : Bytes) : FS :=
  { fs with get := fun q => if q = p then some c else fs.get q }

/-! ### mode strings -/

/-- the stream glibc creates for a mode string -/
structure OsMode where
  rd : Bool
  wr : Bool
  app : Bool
  trunc : Bool
  creat : Bool
  excl : Bool
  deriving Repr, DecidableEq

def chR : UInt8 := 114
def chW : UInt8 := 119
def chA : UInt8 := 97
def chPlus : UInt8 := 43
def chX : UInt8 := 120
def chComma : UInt8 := 44
def chSlash : UInt8 := 47
def chDot : UInt8 := 46
def LF : UInt8 := 10

/-- the C string: up to the first NUL -/
def cstr : Bytes → Bytes
  | [] => []
  | b :: rest => if b = 0 then [] else b :: cstr rest

/-- glibc `_IO_new_file_fopen`: `for (i = 1; i < 7; ++i) switch (*++mode)`: only `+` and `x` change what is modelled
    here (`b`, `m`, `c`, `e` and every other character are skipped). -/
def scanMods (m : OsMode) : Bytes → OsMode
  | [] => m
  | c :: rest =>
    if c = chPlus then scanMods { m with rd := true, wr := true } rest
    else if c = chX then scanMods { m with excl := true } rest
    else scanMods m rest

/-- `none` = `fopen` fails with EINVAL. Modes containing a comma (`,ccs=`) are outside the model (see `step`). -/
def parseMode (mode : Bytes) : Option OsMode :=
  match cstr mode with
  | [] => none
  | c :: rest =>
    let mods := rest.take 6
    if c = chR then some (scanMods ⟨true, false, false, false, false, false⟩ mods)
    else if c = chW then some (scanMods ⟨false, true, false, true, true, false⟩ mods)
    else if c = chA then some (scanMods ⟨false, true, true, false, true, false⟩ mods)
    else none

/-! ### the handle -/

/-- the direction of the last transfer on the stream, as far as C11 7.21.5.3 p7 cares: output must not be directly
    followed by input without fflush / fseek in between, input not by output without fseek unless the input hit
    end-of-file. -/
inductive LastIO | none | output | input | inputEof
  deriving Repr, DecidableEq

/-- the `FILE*` -/
structure OFile where
  path : Path
  pos : Nat
  rd : Bool
  wr : Bool
  app : Bool
  last : LastIO := .none
  deriving Repr, DecidableEq

/-- `struct Handle` -/
structure Handle where
  file : Option OFile := none
  path : Path := []
  mode : Bytes := []
  r : Bool := false
  w : Bool := false
  deriving Repr, DecidableEq

structure World where
  fs : FS
  h : Handle

def EINVAL : Int := 22
def ENOENT : Int := 2
def EEXIST : Int := 17

/-- `Handle::close` (the data is already in the file: write-through) -/
def Handle.close (_h : Handle) : Handle := {}

/-- `Handle::open`: returns errno (0 = success) -/
def openH (w : World) (path mode : Bytes) : World × Int :=
  let h0 : Handle := if w.h.file.isSome then w.h.close else w.h
  match parseMode mode with
  | none => ({ w with h := h0 }, EINVAL)
  | some m =>
    let p := cstr path
    let how : Spec.File.OpenHow := ⟨m.creat, m.trunc, m.excl, m.app, m.app && !m.rd⟩
    match Spec.File.sopen (w.fs.get p) how with
    | .enoent => ({ w with h := h0 }, ENOENT)
    | .eexist => ({ w with h := h0 }, EEXIST)
    | .ok f =>
      let fs' := w.fs.put p f.content
      let h' : Handle :=
        { file := some { path := p, pos := f.pos, rd := m.rd, wr := m.wr, app := m.app }, path := path, mode := mode
          w := mode.contains chW || mode.contains chPlus || mode.contains chA
          r := mode.contains chR || mode.contains chPlus }
      ({ fs := fs', h := h' }, 0)

/-! ### writing -/

/-- `fwrite(buf, 1, n, f)` on a writable stream positioned at `pos`, as a walk over the file: bytes in front of
    `pos` stay, a gap between the end of the file and `pos` is filled with zero bytes, then the data overwrites
    what is there and extends the file. -/
def fwriteBytes : Bytes → Nat → Bytes → Bytes
  | c, _, [] => c
  | [], 0, d => d
  | [], pos + 1, d => 0 :: fwriteBytes [] pos d
  | _ :: c, 0, b :: d => b :: fwriteBytes c 0 d
  | x :: c, pos + 1, d => x :: fwriteBytes c pos d

/-- `Handle::write(buf, unsigned n)`: the `size_t` length is truncated to 32 bits -/
def writeLen (d : Bytes) : Nat := d.length % 4294967296

/-- `Write_S` / `Write_B` on an open handle whose `_w` is set: the count returned by `fwrite` -/
def writeH (w : World) (f : OFile) (d0 : Bytes) : World × Int :=
  let d := d0.take (writeLen d0)
  if !f.wr || d.isEmpty then (w, 0)      -- (`fwrite` of zero bytes returns at once: no seek to the end in append mode)
  else
    let c := (w.fs.get f.path).getD []
    let at_ := if f.app then c.length else f.pos
    let c' := fwriteBytes c at_ d
    ({ fs := w.fs.put f.path c',
       h := { w.h with file := some { f with pos := at_ + d.length, last := if d = [] then f.last else .output } } }, d.length)

/-! ### reading -/

/-- `fread(buf, 1, n, f)` at offset `pos` -/
def freadAt (rd : Bool) (c : Bytes) (pos n : Nat) : Bytes := if rd then (c.drop pos).take n else []

/-- the loop of `Read_S` / `Read_B`; `n` = what is left of the request, `acc` = `str` so far.
    `fuel` bounds the number of iterations (the driver and the theorems give `n / 4096 + 1`). -/
def readLoop (rd : Bool) (c : Bytes) : Nat → Nat → Int → Bytes → Bytes × Nat
  | 0, pos, _, acc => (acc, pos)
  | fuel + 1, pos, n, acc =>
    if n > 0 then
      let want : Nat := if n > 4096 then 4096 else n.toNat
      let got := freadAt rd c pos want
      if got.length < 4096 then (acc ++ got, pos + got.length)
      else readLoop rd c fuel (pos + got.length) (n - got.length) (acc ++ got)
    else (acc, pos)

def readFuel (n : Int) : Nat := n.toNat / 4096 + 1

inductive Hazard
  | foreignException     -- a C++ exception that is not a BLOC error leaves the module
  | nullArg              -- `fwrite(nullptr, 1, 0, f)`: a null pointer for a parameter declared nonnull
  deriving Repr, DecidableEq

/-! ### readln -/

inductive LnEnd | eof | lf | full
  deriving Repr, DecidableEq

/-- `Handle::readln(buf, 4096)`: characters stored, bytes consumed, why the loop ended -/
def readlnScan : Bytes → Nat → Bytes → Nat → Bytes × Nat × LnEnd
  | [], _, acc, k => (acc, k, .eof)
  | b :: rest, r, acc, k =>
    if r ≥ 4096 then (acc, k, .full)
    else if b = LF then (acc ++ [b], k + 1, .lf)
    else readlnScan rest (r + 1) (acc ++ [b]) (k + 1)

/-! ### path helpers -/

def lastIdx (c : UInt8) (l : Bytes) : Option Nat :=
  match l.reverse.findIdx? (· == c) with
  | none => none
  | some i => some (l.length - 1 - i)

/-- `_baseName` -/
def baseName : Nat → Bytes → Bytes
  | 0, p => p
  | fuel + 1, p =>
    match lastIdx chSlash p with
    | none => p
    | some i => if i + 1 = p.length then baseName fuel (p.take i) else p.drop (i + 1)

/-- `_dirName` (`path.substr(0, p - 1)`: one character too many is dropped in front of a trailing separator) -/
def dirName : Nat → Bytes → Bytes
  | 0, _ => [chDot]
  | fuel + 1, p =>
    match lastIdx chSlash p with
    | none => [chDot]
    | some i => if i > 0 ∧ i + 1 = p.length then dirName fuel (p.take (i - 1)) else p.take i

/-! ### the method table -/

inductive Op
  | ctor0                                        -- F = file()
  | ctor (path mode : Option Bytes)              -- F = file(path, mode)
  | open (path mode : Option Bytes)
  | close
  | writeS (s : Option Bytes)
  | writeB (b : Option Bytes)
  | readS (n : Option Int64)
  | readB (n : Option Int64)
  | readln
  | flush
  | seekSet (n : Option Int64)
  | seekCur (n : Option Int64)
  | seekEnd (n : Option Int64)
  | position
  | isOpen
  | mode
  | filename
  | fdirname
  | fbasename
  | fstat
  | stat (p : Option Bytes)
  | dir (p : Option Bytes)
  | separator
  | dirname (p : Option Bytes)
  | basename (p : Option Bytes)
  deriving Repr, DecidableEq

inductive Res
  | int (i : Int)
  | bool (b : Bool)
  | str (s : Bytes)
  /-- `read`: returned count and the value stored into the INOUT variable -/
  | rd (count : Int) (data : Bytes)
  /-- `readln`: returned flag and, when something is stored, the line -/
  | ln (ok : Bool) (line : Option Bytes)
  /-- a BLOC RuntimeError (all of them are EXC_RT_OTHER_S in this module) -/
  | err
  | hazard (h : Hazard)
  | unmodelled
  /-- the module switched the direction of an update stream without repositioning: C11 leaves the stream's
      behaviour undefined from here on (glibc misplaces data in some of these histories); the state is kept as if
      nothing had happened, the check compares nothing after this point -/
  | undefinedSeq
  deriving Repr, DecidableEq

def chM : UInt8 := 109

/-- mode strings outside the model: a comma (`,ccs=`: wide-character conversion), or the glibc extension flag `m` among the
    characters `fopen` looks at (mmap-backed stream: after a failed seek, `fseek` + `fflush` re-deliver the file from offset
    0 — glibc 2.36, observed through the real module; the plain stdio stream the model describes does not). The name is
    historical. -/
def hasComma (m : Bytes) : Bool := (cstr m).contains chComma || (((cstr m).drop 1).take 6).contains chM

def seekH (w : World) (f : OFile) (wh : Spec.File.Whence) (off : Int64) : World × Res :=
  let c := (w.fs.get f.path).getD []
  match Spec.File.sseek w.fs.maxOff ⟨c, f.pos, f.app⟩ wh off.toInt with
  | none => (w, .int EINVAL)
  | some s => ({ w with h := { w.h with file := some { f with pos := s.pos, last := .none } } }, .int 0)

def readH (w : World) (f : OFile) (_str : Bool) (l : Int64) : World × Res :=
  if l.toInt > 0 then
    let c := (w.fs.get f.path).getD []
    let (data, pos') := readLoop f.rd c (readFuel l.toInt) f.pos l.toInt []
    let last' := if !f.rd then f.last else if data.length < l.toInt.toNat then .inputEof else .input
    ({ w with h := { w.h with file := some { f with pos := pos', last := last' } } }, .rd data.length data)
  else (w, .rd 0 [])

def readlnH (w : World) (f : OFile) : World × Res :=
  let c := (w.fs.get f.path).getD []
  let (line, k, e) := if f.rd then readlnScan (c.drop f.pos) 0 [] 0 else ([], 0, .eof)
  let last' := if !f.rd then f.last else if e = .eof then .inputEof else .input
  let w' : World := { w with h := { w.h with file := some { f with pos := f.pos + k, last := last' } } }
  if line.length > 0 then (w', .ln true (some line))
  else if e = .eof then (w', .ln false none)
  else (w', .ln true (some []))

/-- output directly after input that did not hit end-of-file (on a stream that can do both) -/
def badOutput (f : OFile) (d : Bytes) : Bool := f.wr && f.rd && f.last == .input && d != []

/-- input directly after output: the module calls `fread` / `fgetc` while output is pending. NOT only on an update stream: BLOC's
    `_r` is computed from the mode string by `find`, so `"wr"`, `"w\0r"`, `"ar"` … have `_r` set on a WRITE-ONLY stream, and
    `read()` then reaches `fread` there too. glibc 2.36: `_IO_file_xsgetn` with a request of at least one buffer resets the put
    area (`_IO_setp`) before it notices that the stream cannot read — the bytes written and not yet flushed are thrown away
    (observed through the real module: `open(p, "wr"); write(1 byte); read(X, 4097); seekend(2^40); position()` = 2^40, not
    2^40 + 1); a shorter request flushes them first (`_IO_switch_to_get_mode`). Same region of C11 7.21.5.3 p7. -/
def badInput (f : OFile) : Bool := f.wr && f.last == .output

/-- one method call (or constructor) -/
def step (w : World) : Op → World × Res
  | .ctor0 => if w.h.file.isSome then (w, .unmodelled) else ({ w with h := {} }, .bool true)
  | .ctor p m =>
    match p, m with
    | some p, some m =>
      if w.h.file.isSome ∨ hasComma m then (w, .unmodelled)
      else
        let (w', e) := openH { w with h := {} } p m
        if e = 0 then (w', .bool true) else (w, .err)
    | _, _ => (w, .err)
  | .open p m =>
    match p, m with
    | some p, some m => if hasComma m then (w, .unmodelled) else let (w', e) := openH w p m; (w', .int e)
    | _, _ => (w, .err)
  | .close => ({ w with h := w.h.close }, .bool true)
  | .writeS s =>
    if !w.h.w then (w, .err) else
    match w.h.file, s with
    | some f, some d =>
      if badOutput f d then (w, .undefinedSeq) else let (w', n) := writeH w f d; (w', .int n)
    | _, _ => (w, .int 0)
  | .writeB s =>
    if !w.h.w then (w, .err) else
    match w.h.file, s with
    | some f, some d =>
      if badOutput f d then (w, .undefinedSeq)
      else let (w', n) := writeH w f d; (w', .int n)
    | _, _ => (w, .int 0)
  | .readS n =>
    if !w.h.r then (w, .err) else
    match w.h.file, n with
    | some f, some l => if badInput f ∧ l.toInt > 0 then (w, .undefinedSeq) else readH w f true l
    | _, _ => (w, .err)
  | .readB n =>
    if !w.h.r then (w, .err) else
    match w.h.file, n with
    | some f, some l => if badInput f ∧ l.toInt > 0 then (w, .undefinedSeq) else readH w f false l
    | _, _ => (w, .err)
  | .readln =>
    if !w.h.r then (w, .err) else
    match w.h.file with
    | some f => if badInput f then (w, .undefinedSeq) else readlnH w f
    | none => (w, .err)
  | .flush =>
    match w.h.file with
    | some f =>
      ({ w with h := { w.h with file := some { f with last := if f.last = .output then .none else f.last } } }, .bool true)
    | none => (w, .err)
  | .seekSet n =>
    match w.h.file, n with
    | some f, some o => seekH w f .set o
    | _, _ => (w, .err)
  | .seekCur n =>
    match w.h.file, n with
    | some f, some o => seekH w f .cur o
    | _, _ => (w, .err)
  | .seekEnd n =>
    match w.h.file, n with
    | some f, some o => seekH w f .end_ o
    | _, _ => (w, .err)
  | .position => match w.h.file with | some f => (w, .int f.pos) | none => (w, .err)
  | .isOpen => (w, .bool w.h.file.isSome)
  | .mode => (w, .str w.h.mode)
  | .filename => match w.h.file with | some _ => (w, .str w.h.path) | none => (w, .err)
  | .fdirname => match w.h.file with | some _ => (w, .str (dirName (w.h.path.length + 1) w.h.path)) | none => (w, .err)
  | .fbasename => match w.h.file with | some _ => (w, .str (baseName (w.h.path.length + 1) w.h.path)) | none => (w, .err)
  | .fstat => match w.h.file with | some _ => (w, .unmodelled) | none => (w, .err)
  | .stat p => match p with | some _ => (w, .unmodelled) | none => (w, .err)
  | .dir p => match p with | some _ => (w, .unmodelled) | none => (w, .err)
  | .separator => (w, .str [chSlash])
  | .dirname p => match p with | some p => (w, .str (dirName (p.length + 1) p)) | none => (w, .err)
  | .basename p => match p with | some p => (w, .str (baseName (p.length + 1) p)) | none => (w, .err)

/-- a sequence of calls: the results in order -/
def run : World → List Op → World × List Res
  | w, [] => (w, [])
  | w, op :: ops =>
    let (w1, r) := step w op
    let (w2, rs) := run w1 ops
    (w2, r :: rs)

/-- the content of `path` as an independent reader sees it afterwards -/
def World.content (w : World) (path : Path) : Option Bytes := w.fs.get (cstr path)

end BlocV.Mod.File
