/-
  Model of the csv module core — /repo/modules/csv/csvparser.cpp, transcribed function by function.

    CSVParser::serialize          ↦ `serField`, `serRow`, `serialize`
    CSVParser::deserialize_chunk  ↦ `scan` (the `while (pos != line.end())` loop), `deserializeChunk`
    CSVParser::deserialize        ↦ `deserialize`
    CSVParser::deserialize_next   ↦ `deserializeNext`
    m_error / m_error_pos         ↦ `PState`

  Strings are `List UInt8` (`char` compared for equality only, so signedness does not matter);
  `push_back` is `++ [c]`. The model does what the code does, including:
    * an empty line is "end of stream": nothing is parsed, the result is `next`;
    * `m_error` is reset by `deserialize` only, never by `deserialize_next`; `m_error_pos` is never reset;
    * the error position is the index *after* the offending encapsulator;
    * after a closing encapsulator every byte up to the next separator is silently dropped;
    * CR and LF outside an encapsulated field are dropped, but still clear `first`;
    * the `first` flag is NOT restored by `deserialize_next` (it restarts at `true`);
    * `deserialize_next` with an EMPTY field vector has nothing to continue: `encap = next && !out.empty()`, the
      line starts a record exactly as in `deserialize` (but `m_error` is not reset). `out.back()` / `out.pop_back()`
      are only reached with a non-empty vector; the outcome `hazardEmptyBack` stays in the vocabulary and
      `Proofs/C18.lean` (`csv_args_total`) proves that no call produces it.

  The inner loop `while (pos != line.end() && *pos != m_separator) ++pos;` is represented by the
  `skipping` flag of the scanner state (control is inside that inner loop), so that `scan` is a
  structural recursion on the remaining input and can be evaluated by `decide`.
-/

namespace BlocV.Mod.Csv

abbrev Field := List UInt8
abbrev Row := List Field

def LF : UInt8 := 0x0a
def CR : UInt8 := 0x0d
def SP : UInt8 := 0x20

/-- The two constructor arguments of `CSVParser`. -/
structure Cfg where
  sep : UInt8
  enc : UInt8
  deriving DecidableEq, Repr

/-- `m_error`, `m_error_pos`. -/
structure PState where
  error : Bool := false
  errorPos : Nat := 0
  deriving DecidableEq, Repr

/-! ### serialize -/

/-- The inner `for` over the bytes of one field: returns `(encap, tmp)`. -/
def serField (cfg : Cfg) : Field → Bool → Field → Bool × Field
  | [], encap, tmp => (encap, tmp)
  | c :: cs, encap, tmp =>
    if c = cfg.enc then serField cfg cs true (tmp ++ [cfg.enc, cfg.enc])
    else if c = cfg.sep ∨ c = CR ∨ c = LF then serField cfg cs true (tmp ++ [c])
    else serField cfg cs encap (tmp ++ [c])

/-- The outer `for (const field& data : row)`; arguments: remaining fields, `first`, `out`. -/
def serRow (cfg : Cfg) : Row → Bool → List UInt8 → List UInt8
  | [], _, out => out
  | data :: rest, first, out =>
    let r := serField cfg data false []
    let out := if first then out else out ++ [cfg.sep]
    let out := if r.1 then out ++ [cfg.enc] ++ r.2 ++ [cfg.enc] else out ++ r.2
    serRow cfg rest false out

/-- `CSVParser::serialize` (`out.clear()` first). -/
def serialize (cfg : Cfg) (row : Row) : List UInt8 := serRow cfg row true []

/-! ### deserialize_chunk -/

/-- `while (!value.empty() && value.back() == 0x20) value.pop_back();` -/
def stripTrailingSpaces (v : Field) : Field := (v.reverse.dropWhile (· == SP)).reverse

/-- The local variables of `deserialize_chunk` while the main loop runs. `pos` is
`std::distance(line.begin(), pos)`; `error` is the local `error` (set together with `break`);
`skipping` = control is inside the inner skip-to-separator loop. -/
structure St where
  out : Row
  value : Field
  first : Bool
  encap : Bool
  skipping : Bool := false
  error : Bool := false
  pos : Nat := 0
  deriving DecidableEq, Repr

/-- The main loop of `deserialize_chunk` over the remaining input. -/
def scan (cfg : Cfg) : List UInt8 → St → St
  | [], st => st
  | c :: cs, st =>
    if st.skipping ∧ c ≠ cfg.sep then
      -- inner loop: `*pos != m_separator` → `++pos`
      scan cfg cs { st with pos := st.pos + 1 }
    else
      -- inner loop (if we were in it) has ended; back at the head of the outer loop with *pos = c
      let st := { st with skipping := false }
      if c = cfg.enc then
        -- `++pos`
        if st.encap then
          match cs with
          | d :: ds =>
            if d = cfg.enc then
              -- doubled encapsulator: `value.push_back(*pos); ++pos;`
              scan cfg ds { st with value := st.value ++ [d], pos := st.pos + 2 }
            else
              -- closing encapsulator: `encap = false;` then skip to the separator
              scan cfg (d :: ds) { st with encap := false, skipping := true, pos := st.pos + 1 }
          | [] =>
            -- `pos == line.end()`: `encap = false;` the skip loop does nothing
            { st with encap := false, skipping := true, pos := st.pos + 1 }
        else if !st.first then
          let v := stripTrailingSpaces st.value
          if v ≠ [] then
            -- "Invalid character in stream": `error = true; break;` (pos already incremented)
            { st with value := v, error := true, pos := st.pos + 1 }
          else
            scan cfg cs { st with value := v, encap := true, pos := st.pos + 1 }
        else
          scan cfg cs { st with encap := true, pos := st.pos + 1 }
      else if c = cfg.sep ∧ !st.encap then
        scan cfg cs { st with out := st.out ++ [st.value], value := [], first := true, pos := st.pos + 1 }
      else
        let value := if st.encap ∨ (c ≠ LF ∧ c ≠ CR) then st.value ++ [c] else st.value
        scan cfg cs { st with first := false, value := value, pos := st.pos + 1 }

/-- Result of one call. -/
inductive Outcome
  /-- returned `ret`; `out` and the parser's error members afterwards -/
  | done (ret : Bool) (out : Row) (ps : PState)
  /-- `out.back()` / `out.pop_back()` on an empty vector (undefined behaviour) -/
  | hazardEmptyBack
  deriving DecidableEq, Repr

/-- What follows the main loop. -/
def finish (ps : PState) (st : St) : Outcome :=
  if st.error then
    -- `out.clear(); m_error = true; m_error_pos = distance(begin, pos); return false;`
    .done false [] { error := true, errorPos := st.pos }
  else
    -- `out.push_back(std::move(value)); return encap;`
    .done st.encap (st.out ++ [st.value]) ps

/-- `CSVParser::deserialize_chunk(bool next, container& out, const std::string& line)`. -/
def deserializeChunk (cfg : Cfg) (ps : PState) (next : Bool) (out : Row) (line : List UInt8) : Outcome :=
  match line with
  | [] =>
    -- "push blank value and avoid fault"; "end of stream"
    .done next (if next ∧ out = [] then [[]] else out) ps
  | _ :: _ =>
    -- `bool encap = next && !out.empty();`
    if next ∧ out ≠ [] then
      -- `value.assign(out.back()); out.pop_back();`
      match out.getLast? with
      | none => .hazardEmptyBack        -- (unreachable: `out` is not empty)
      | some v => finish ps (scan cfg line { out := out.dropLast, value := v, first := true, encap := true })
    else
      finish ps (scan cfg line { out := out, value := [], first := true, encap := false })

/-- `CSVParser::deserialize`: `m_error = false; out.clear(); return deserialize_chunk(false, out, line);` -/
def deserialize (cfg : Cfg) (ps : PState) (line : List UInt8) : Outcome :=
  deserializeChunk cfg { ps with error := false } false [] line

/-- `CSVParser::deserialize_next`. -/
def deserializeNext (cfg : Cfg) (ps : PState) (out : Row) (line : List UInt8) : Outcome :=
  deserializeChunk cfg ps true out line

/-! ### the client's view of a call

`deserialize` / `deserialize_next` return the "needs more lines" flag and leave the fields in `out`;
`in_error()` tells whether the call failed. A failed call has no result (the hazard outcome is never produced). (`deserialize_next` does not reset `m_error`; the client view below starts from a parser whose
flag is clear, which is the state `deserialize` leaves behind on success.) -/

def Outcome.toCall : Outcome → Option (Bool × Row)
  | .done ret out ps => if ps.error then none else some (ret, out)
  | .hazardEmptyBack => none

def callFirst (cfg : Cfg) (line : List UInt8) : Option (Bool × Row) := (deserialize cfg {} line).toCall

def callNext (cfg : Cfg) (out : Row) (line : List UInt8) : Option (Bool × Row) :=
  (deserializeNext cfg {} out line).toCall

end BlocV.Mod.Csv
