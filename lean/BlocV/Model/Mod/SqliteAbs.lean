/-
  C18, sqlite3: the calls of a client that holds a prepared `INSERT INTO t VALUES(?)` (`InsCall`), their translation to
  the model's `Op` (Model/Mod/Sqlite.lean) and to the specification's `Call` (Spec/SqliteSpec.lean), and the part of an
  answer the specification fixes. Kept outside Proofs so that the driver (DrvC18F.lean, `spec=` of `sql`) can run the
  specification on the same token list; the refinement theorem is `sqlite_history_refines_spec` (Proofs/C18F.lean).
-/
import BlocV.Model.Mod.Sqlite
import BlocV.Spec.SqliteSpec

namespace BlocV.Mod.SqliteAbs
open BlocV.Mod.Sqlite
open BlocV.Spec.Sqlite (Call St Ans)

/-- the calls of a client that holds a prepared `INSERT INTO t VALUES(?)` on an open connection -/
inductive InsCall
  /-- `D.bind(tuple)`; `temp`: the tuple is a temporary -/
  | bind (args : List BVal) (temp : Bool)
  /-- `D.bind(null tuple)` -/
  | bindNull (temp : Bool)
  | execute
  /-- one-step `D.exec("INSERT INTO t VALUES(?)", tuple)` -/
  | exec (args : List BVal)
  | fetch | header | isOpen | queryAll
  | queryParam (args : Option (List BVal))
  deriving Repr, DecidableEq

def InsCall.toOp : InsCall → Op
  | .bind a t => .bind (some a) t
  | .bindNull t => .bind none t
  | .execute => .execute
  | .exec a => .insert (some a)
  | .fetch => .fetch
  | .header => .header
  | .isOpen => .isOpen
  | .queryAll => .queryAll
  | .queryParam a => .queryParam a

/-- what a tuple binds to parameter 1: its first item, if that item can be bound -/
def firstBound (eb : Bool) : List BVal → Option SVal
  | [] => none
  | v :: _ => bindOf eb v

def InsCall.toCall (eb : Bool) : InsCall → Call SVal
  | .bind a _ => .bind (firstBound eb a)
  | .execute => .execute
  | .exec a => .exec ((firstBound eb a).getD .null)
  | _ => .other

/-- the constraint of the table: `t(a NOT NULL)` refuses NULL, `t(a)` refuses nothing -/
def okNN (nn : Bool) (s : SVal) : Bool := !(nn && s == .null)

/-- the part of a call's answer the specification fixes: an executing call stored a row (TRUE) or was refused (SQLite's
    error as a BLOC error) -/
def InsCall.ans (c : InsCall) (r : Res) : Ans :=
  match c with
  | .execute | .exec _ =>
    match r with
    | .bool true => some true
    | .sqlErr => some false
    | _ => none
  | _ => none

end BlocV.Mod.SqliteAbs
