/-
  Model — compiling, and running a program as one unit vs one statement at a time (property C02, second sentence).

  * `acceptExpr`    the parse-time verdict on a whole expression: the checks `ParseExpression` makes while it builds the tree —
                    `VariableExpression::parse` (symbol must exist: EXC_PARSE_UNDEFINED_SYMBOL_S, expression_variable.cpp:92),
                    `assertType` / `assertTypeUniform` at every operator node (`acceptBin` / `acceptUn` of Model/Typing.lean:
                    EXC_PARSE_TYPE_MISMATCH_S, parse_expression.cpp:92-112), every built-in's `parse` (`acceptBuiltin`, generated
                    signatures). Operands are parsed (and their errors raised) before the node's own check. NOT modelled: the
                    checks of functor calls (existence, arity, argument types) and of members — accepted here.
  * `compileStmt`   the parser's walk over a statement: the expression checks above, the registrations of Model/Safety.lean's
                    `regS` (with the `$` / iterator constraint), FOR bounds `typeChecking(…, NUMERIC)` ("Numeric or Integer
                    expression required for FOR", EXC_PARSE_OTHER_S, statement_for.cpp:243). IF / WHILE conditions are not type
                    checked by the C++ (statement_if.cpp, statement_while.cpp have no assertType).
  * `runBatch`      `Parser::parse` of the whole text, then `Executable::run`: compile everything against the symbol table the
                    parser builds from the TEXT (static types), refuse a text that writes to a name locked by an enclosing
                    `forall` (`lockProgram`, Model/Interp.lean: EXC_PARSE_CONST_VIOLATION_S — tested after the type checks, so
                    a text with both kinds of error reports the type error), then `runProgram`.
  * `runStepwise`   the interactive path (apps/cli_parser.cpp main loop; probe op `step`): for each top-level statement,
                    `parseStatement` against the symbol table as it is NOW — every symbol carries the type of the value it
                    holds (`Context::storeVariable` upgrades the symbol to the stored value's type; `parsingEnd` restores the
                    upgrades of the parse) — then `Executable::run` of that one statement; stop at the first error or `return`.
-/
import BlocV.Model.Safety
import BlocV.Model.Elab

namespace BlocV.Stepwise
open BlocV BlocV.Safety

/-- first verdict in a list of sub-expressions, in text order -/
def firstErr {α} (f : α → Option Nat) : List α → Option Nat
  | [] => none
  | a :: as => match f a with
    | some c => some c
    | none => firstErr f as

/-- Parse-time verdict on an expression over the symbol table `tab`: `none` = accepted, `some code` = the ParseError. -/
def acceptExpr (funcs : List Func) (tab : List (String × Ty)) : Nat → Expr → Option Nat
  | 0, _ => none
  | f + 1, e =>
    match e with
    | .lit _ => none
    | .var n => if (tab.find? (·.1 == n)).isSome then none else some Gen.EXC_PARSE_UNDEFINED_SYMBOL_S
    | .un op a =>
      match acceptExpr funcs tab f a with
      | some c => some c
      | none => if acceptUn op (typeOfExpr funcs tab 100 a) then none else some Gen.EXC_PARSE_TYPE_MISMATCH_S
    | .bin op a b =>
      match acceptExpr funcs tab f a with
      | some c => some c
      | none =>
        match acceptExpr funcs tab f b with
        | some c => some c
        | none =>
          if acceptBin op (typeOfExpr funcs tab 100 a) (typeOfExpr funcs tab 100 b) then none
          else some Gen.EXC_PARSE_TYPE_MISMATCH_S
    | .call name args =>
      match firstErr (acceptExpr funcs tab f) args with
      | some c => some c
      | none =>
        if name == "tab" || name == "tup" then none else
        match acceptBuiltin name (args.map (typeOfExpr funcs tab 100)) with
        | some (some c) => some c
        | _ => none
    | .fcall _ args => firstErr (acceptExpr funcs tab f) args
    | .member _ recv args =>
      match acceptExpr funcs tab f recv with
      | some c => some c
      | none => firstErr (acceptExpr funcs tab f) args
    | .errorE => none
    | .item e _ => acceptExpr funcs tab f e

def chk (funcs : List Func) (t : SymTab) (e : Expr) : Except Nat Unit :=
  match acceptExpr funcs t.cur 200 e with
  | some c => .error c
  | none => .ok ()

def chkAll (funcs : List Func) (t : SymTab) (es : List Expr) : Except Nat Unit :=
  match firstErr (acceptExpr funcs t.cur 200) es with
  | some c => .error c
  | none => .ok ()

def chkNumeric (funcs : List Func) (t : SymTab) (e : Expr) : Except Nat Unit :=
  if typeChecking (typeOfExpr funcs t.cur 100 e) Ty.num then .ok () else .error Gen.EXC_PARSE_OTHER_S

/-- Pseudo code (not an outcome of the C++, like `Parse.eUnmodelled`): the statement stores into a constrained symbol (`$` variable,
iterator inside its loop) an expression whose run-time type the parser's type does not pin down (a call, a member, an opaque
operand). `Context::storeVariable` then decides at run time (`Safety.storeCheck`), which `runProgram` (Model/Interp.lean, no
constraint flags) cannot express: the model gives no prediction for such a program. -/
def eRuntimeConstraint : Nat := 9990

/-- the static type of `e` is the type of every value of `e` (operator nodes over defined operand types: no gap region,
`C02.expr_type_sound_partial`) -/
def exactRhs (funcs : List Func) (tab : List (String × Ty)) : Nat → Expr → Bool
  | 0, _ => false
  | _ + 1, .lit _ => true
  | _ + 1, .var n => (typeOfExpr funcs tab 1 (.var n)).major != .none
  | f + 1, .un _ a => exactRhs funcs tab f a && (typeOfExpr funcs tab 100 a).major != .none
  | f + 1, .bin _ a b =>
    exactRhs funcs tab f a && exactRhs funcs tab f b &&
    (typeOfExpr funcs tab 100 a).major != .none && (typeOfExpr funcs tab 100 b).major != .none
  | _ + 1, _ => false

/-- The parser's walk over one statement (checks + registrations, in text order). -/
def compileStmt (funcs : List Func) : Nat → List String → SymTab → Stmt → Except Nat SymTab
  | 0, _, t, _ => .ok t
  | fuel + 1, prot, t, st =>
    match st with
    | .letS n e => do
      chk funcs t e
      let t' ← regS prot t n (typeOfExpr funcs t.cur 100 e)
      if isSafe prot n && (curOf t n).isSome && !exactRhs funcs t.cur 200 e then .error eRuntimeConstraint else pure t'
    | .doS e => do chk funcs t e; pure t
    | .printS es => do chkAll funcs t es; pure t
    | .returnS (some e) => do chk funcs t e; pure t
    | .forS v b e step _ body => do
      let t1 ← regS prot t v Ty.int
      chk funcs t1 b; chkNumeric funcs t1 b
      chk funcs t1 e; chkNumeric funcs t1 e
      match step with
      | some se => do chk funcs t1 se; chkNumeric funcs t1 se
      | none => pure ()
      foldE (compileStmt funcs fuel (v :: prot)) t1 body
    | .forallS it src _ body => do
      if (curOf t it).isSome && isSafe prot it then .error Gen.EXC_PARSE_OTHER_S else
      -- a `$`-named iterator is compiled, but FORALLStatement::doit refuses it at run time (`vs.safety()`:
      -- EXC_RT_NOT_IMPLEMENTED, statement_forall.cpp:81) unless the table is empty: not expressible in `runProgram`
      if isSafe [] it then .error eRuntimeConstraint else
      chk funcs t src
      let ty := typeOfExpr funcs t.cur 100 src
      let ety := if ty.major == .none && ty.level == 0 then ty else ty.levelDown
      let t1 ← regS prot t it ety
      foldE (compileStmt funcs fuel (it :: prot)) t1 body
    | .whileS c body => do
      chk funcs t c
      foldE (compileStmt funcs fuel prot) t body
    | .ifS rules =>
      foldE (fun t r => do
        match r.1 with
        | some c => chk funcs t c
        | none => pure ()
        foldE (compileStmt funcs fuel prot) t r.2) t rules
    | .beginS body catches => do
      let t1 ← foldE (compileStmt funcs fuel prot) t body
      foldE (fun t c => foldE (compileStmt funcs fuel prot) t c.2) t1 catches
    | _ => .ok t

def compileList (funcs : List Func) (t : SymTab) (ss : List Stmt) : Except Nat SymTab :=
  foldE (compileStmt funcs 1000 []) t ss

/-- a function declaration: its body in its own symbol table, parameters first -/
def compileFunc (funcs : List Func) (st : Stmt) : Option Nat :=
  match st with
  | .funcS _ ps _ b c =>
    match compileList funcs (ps.map fun (pn, pt) => (pn, pt, pt)) b with
    | .error code => some code
    | .ok t1 =>
      match foldE (fun t cl => compileList funcs t cl.2) t1 c with
      | .error code => some code
      | .ok _ => none
  | _ => none

def isFunc : Stmt → Bool
  | .funcS .. => true
  | _ => false

/-- How a run ended: rejected by the parser, or the outcome of `Executable::run`. -/
inductive Outcome
  | perr (code : Nat)
  | ran (r : Res (Option Val))
  deriving Repr, Inhabited

structure Result where
  outcome : Outcome
  st : St

/-- `Parser::parse` + `Executable::run` of the whole text. -/
def runBatch (fuel : Nat) (prog : List Stmt) (init : St := {}) : Result :=
  let funcs := collectFuncs prog
  match prog.findSome? (compileFunc funcs) with
  | some code => { outcome := .perr code, st := init }
  | none =>
    match compileList funcs [] (prog.filter fun st => !isFunc st) with
    | .error code => { outcome := .perr code, st := init }
    | .ok _ =>
      -- BEGIN C01X2 (the parse-time lock of a traversed table: statement_forall.cpp `parse_clause`, `Context::registerSymbol`,
      -- member_{concat,put,delete,insert}.cpp `parse` — a text that writes to a locked name is REFUSED, never run)
      if !lockProgram prog then { outcome := .perr Gen.EXC_PARSE_CONST_VIOLATION_S, st := init } else
      -- END C01X2
      let r := runProgram fuel prog init
      { outcome := .ran r.outcome, st := r.st }

/-- the symbol table of a context between two parses: every symbol has the type of the value it holds -/
def tabOfVars (vars : List (String × Val)) : SymTab := vars.map fun (n, v) => (n, v.type, v.type)

/-- slots of the symbols a parse created: typed nulls of the type they were created with -/
def addSlots (vars : List (String × Val)) (t : SymTab) : List (String × Val) :=
  t.first.foldl (fun vs (n, ty) => if vs.any (·.1 == n) then vs else vs ++ [(n, Val.null ty)]) vars

/-- The interactive loop: `done` = the statements already compiled (their functions are declared). -/
def stepLoop (fuel : Nat) : List Stmt → List Stmt → St → Result
  | _, [], s => { outcome := .ran (.ok none), st := s }
  | done, st :: rest, s =>
    let funcs := collectFuncs (done ++ [st])
    if isFunc st then
      match compileFunc funcs st with
      | some code => { outcome := .perr code, st := s }
      | none =>
        -- BEGIN C01X2 (a function body is compiled in its own context: nothing locked at its start)
        if !lockProgram [st] then { outcome := .perr Gen.EXC_PARSE_CONST_VIOLATION_S, st := s } else
        -- END C01X2
        stepLoop fuel (done ++ [st]) rest s
    else
      match compileStmt funcs 1000 [] (tabOfVars s.vars) st with
      | .error code => { outcome := .perr code, st := s }
      | .ok t' =>
        -- BEGIN C01X2 (the same refusal, statement by statement)
        if !lockS [] st then { outcome := .perr Gen.EXC_PARSE_CONST_VIOLATION_S, st := s } else
        -- END C01X2
        match exec funcs 0 fuel st { s with vars := addSlots s.vars t' } with
        | (.ok fl, s') =>
          if fl == .ret then { outcome := .ran (.ok s'.returned), st := s' }
          else if fl == .norm then stepLoop fuel (done ++ [st]) rest s'
          else { outcome := .ran .unmodelled, st := s' }      -- `break` / `continue` outside a loop
        | (.err c a, s') => { outcome := .ran (.err c a), st := s' }
        | (.haz h, s') => { outcome := .ran (.haz h), st := s' }
        | (.unmodelled, s') => { outcome := .ran .unmodelled, st := s' }

def runStepwise (fuel : Nat) (prog : List Stmt) (init : St := {}) : Result := stepLoop fuel [] prog init

/-- variables an expression of the operator fragment reads -/
def varsOf : Expr → List String
  | .var n => [n]
  | .un _ a => varsOf a
  | .bin _ a b => varsOf a ++ varsOf b
  | _ => []

/-- projections with decidable equality (for statements by evaluation) -/
def Outcome.perrCode : Outcome → Option Nat
  | .perr c => some c
  | .ran _ => none

def Outcome.ranOk : Outcome → Bool
  | .ran (.ok _) => true
  | _ => false

-- BEGIN C01X2
/-! ### the whole pipeline on a source text

`runText fuel text` is what the driver's `src` command answers and what `Proofs/C01.lean` `text_no_hazard_partial` is about: the bytes
through the reader + scanner + parser models (`Parse.parseText`: Model/Lex.lean, Model/Parse.lean), the elaborator (`Elab.elabProgram`),
then `runBatch` (compile checks, lock, `runProgram` from the initial state). The four kinds of answer are explicit. -/

/-- What the front end answers for a source text. -/
inductive TextResult
  /-- refused by the scanner / parser model: an `EXC_PARSE_*` code, or one of the pseudo codes of Model/Parse.lean (`eOOF`: out of
  fuel; `eUnmodelled`: import / include; `eForeign`: an exception that is not a ParseError escapes the parser) -/
  | rejected (code : Nat)
  /-- the text parses, but holds a construct the interpreter model has no node for (`Elab.ElabErr.unsupported`) -/
  | unsupported (what : String)
  /-- compiled (or refused by the compile checks: `Outcome.perr`) and run (`Outcome.ran`) -/
  | ran (r : Result)

def runText (fuel : Nat) (text : Bytes) : TextResult :=
  match Elab.frontEnd text with
  | .error c => .rejected c
  | .ok (.error (.unsupported w)) => .unsupported w
  | .ok (.ok prog) => .ran (runBatch fuel prog)
-- END C01X2

end BlocV.Stepwise
