/-
  Model — programs: expressions and statements of BLOC, evaluated over *values* (variables map
  names to values; no aliasing). This is what the C++ tree walker (`Expression::value`,
  `Statement::doit`, `Executable::run`, `FunctorManager::createEnv`) computes when its storage
  discipline (LVALUE flags, temporary pool, swap/clone in `storeVariable`) implements value
  semantics — which is property C05; any aliasing slip in the C++ shows up as a disagreement with
  this model in the program-level correspondence.

  Transcribed from: statement_let/do/print/if/while/for/begin/raise/return/break/continue.cpp,
  executable.cpp (`run`: statements in order until a stop condition), expression_functor.cpp and
  functor_manager.cpp (`createEnv`: recursion limit, parameters evaluated in the caller and bound
  by copy, fresh callee variables), statement_print.cpp (rendering).

  Every recursive function takes `fuel`; running out of fuel is the outcome `oof`, never an error.
-/
import BlocV.Model.Builtins
import BlocV.Model.Fmt
import BlocV.Model.Typing
import BlocV.Model.Members
import BlocV.Gen.ErrMsgs

namespace BlocV

inductive Expr
  | lit (v : Val)
  | var (name : String)
  | un (op : UnOp) (e : Expr)
  | bin (op : BinOp) (a b : Expr)
  | call (name : String) (args : List Expr)       -- built-in function
  | fcall (name : String) (args : List Expr)      -- user function
  | member (m : Member) (recv : Expr) (args : List Expr)   -- `recv.m(args)` (containers, Model/Members.lean)
  | errorE                                        -- the built-in `error` (builtin_error.cpp): the context's last-error record as a tuple
  | item (e : Expr) (n : Nat)                     -- `e@N` (expression_item.cpp), `n` the value of the rank literal
  deriving Repr, Inhabited

inductive Dir | auto | asc | desc
  deriving DecidableEq, Repr, Inhabited

inductive Stmt
  | nop
  | letS (name : String) (e : Expr)
  | doS (e : Expr)
  | printS (es : List Expr)
  | ifS (rules : List (Option Expr × List Stmt))
  | whileS (c : Expr) (body : List Stmt)
  | forS (v : String) (b e : Expr) (step : Option Expr) (dir : Dir) (body : List Stmt)
  | forallS (it : String) (src : Expr) (dir : Dir) (body : List Stmt)
  | beginS (body : List Stmt) (catches : List (String × List Stmt))
  | raiseS (name : String)
  | returnS (e : Option Expr)
  | breakS
  | continueS
  | funcS (name : String) (params : List (String × Ty)) (ret : Ty) (body : List Stmt) (catches : List (String × List Stmt))
  deriving Repr, Inhabited

/-- A user function (`Functor`): name, parameter names, body block with its exception clauses. -/
structure Func where
  name : String
  params : List (String × Ty)
  ret : Ty
  body : List Stmt
  catches : List (String × List Stmt)
  /-- every symbol of the function's private context with the type of its first registration
  (parameters first): a call starts with these as typed nulls (`createChildRuntime`) -/
  decls : List (String × Ty) := []
  deriving Repr, Inhabited

/-- How a statement (list) ended: the break / continue / return conditions of the context. -/
inductive Flow
  | norm | brk | cont | ret
  deriving DecidableEq, Repr, Inhabited

/-- A running `forall` (`FORALLStatement::RT` + the pointer held by the iterator variable): the
iterator `it` denotes element `idx` of the table variable `src` — or of the private copy `priv` when
the traversed expression is a temporary. `bak` is the type the iterator variable is reset to (as a
null) when the loop is left; `locked`: the table was already read-only when the loop started (the
iterator inherits that). -/
structure Iter where
  it : String
  src : Option String
  priv : Val
  idx : Nat
  bak : Ty
  locked : Bool
  deriving Inhabited

/-- `Context::_last_error` as far as `error` reads it: (`RuntimeError::no`, the argument of the message format). -/
abbrev LastErr := Nat × Bytes

/-- `RuntimeError()`: no error. -/
def LastErr.clear : LastErr := (Gen.EXC_RT_NOERROR, [])

/-- One execution context: its variables, the value saved by `return`, plus the process-wide
output stream (threaded through calls). -/
structure St where
  vars : List (String × Val) := []
  returned : Option Val := none
  /-- printed output, most recent chunk first (see `St.output`) -/
  out : List Bytes := []
  /-- remaining statement executions before the run is cut off as `oof` (total work bound; the
  per-call `fuel` only bounds the nesting depth) -/
  budget : Nat := 300000
  /-- running `forall` loops of this context, innermost first (part of the control stack) -/
  iters : List Iter := []
  /-- `_last_error`: set by `BEGINStatement::docatch` when a clause is entered, set back when the clause ends without error to
  what it was WHEN THE BLOCK WAS ENTERED (`const RuntimeError outer = ctx.error()` at the top of `BEGINStatement::doit`, repo 72036d1 +
  8256736), left as it is when the clause itself fails -/
  lastErr : LastErr := LastErr.clear
  /-- `for` / `while` entries of the control stack (`Context::_controlstack`) as far as a run can LEAVE them behind: a program run by
  `Executable::run` never does (its catch-all calls `Context::onRuntimeError`, which unstacks them — in the model `for`/`while` are
  plain recursion and this field stays as it is); only the interactive runner (`stepTop` below) can, and does -/
  ctl : List String := []
  deriving Inhabited

/-- Everything printed so far, in order. -/
def St.output (s : St) : Bytes := s.out.reverse.flatten

/-- Evaluation monad: state is kept also when an error is raised (output already printed, variables
already assigned stay), because handlers and the host continue from it. -/
def EvalM (α : Type) := St → Res α × St

instance : Monad EvalM where
  pure a := fun s => (.ok a, s)
  bind x f := fun s =>
    match x s with
    | (.ok a, s') => f a s'
    | (.err c a, s') => (.err c a, s')
    | (.haz h, s') => (.haz h, s')
    | (.unmodelled, s') => (.unmodelled, s')

instance : MonadLift Res EvalM where
  monadLift r := fun s => (r, s)

def getSt : EvalM St := fun s => (.ok s, s)
def modifySt (f : St → St) : EvalM Unit := fun s => (.ok (), f s)
def failE {α} (code : Nat) (arg : Bytes := []) : EvalM α := fun s => (.err code arg, s)
/-- Out of fuel: reported as the pseudo error code 9999 (never produced by the C++). -/
def oofCode : Nat := 9999
def oof {α} : EvalM α := failE oofCode

def lookupVar (vars : List (String × Val)) (n : String) : Val :=
  match vars.find? (·.1 == n) with
  | some (_, v) => v
  | none => .null Ty.none        -- a registered but never assigned variable holds `Value()`

def setVar (vars : List (String × Val)) (n : String) (v : Val) : List (String × Val) :=
  if vars.any (·.1 == n) then vars.map fun p => if p.1 == n then (n, v) else p else vars ++ [(n, v)]

/-- The table a running `forall` traverses, as it is now. -/
def St.iterTable (s : St) (b : Iter) : Val :=
  match b.src with
  | some t => lookupVar s.vars t
  | none => b.priv

/-- Reading a variable: a `forall` iterator is a pointer to the current element of the traversed table. -/
def readVar (s : St) (n : String) : Res Val :=
  match s.iters.find? (·.it == n) with
  | some b => forallElem (s.iterTable b) b.idx
  | none => .ok (lookupVar s.vars n)

def tableSize : Val → Nat
  | .tab _ _ es => es.length
  | _ => 0

/-- Leaving a `forall` by any route (`FORALLStatement::finalizeControl`, also run by
`Context::onRuntimeError`): the control is unstacked, the iterator variable becomes a null of the
type it had before the loop. -/
def forallExit (it : String) (r : Res Flow × St) : Res Flow × St :=
  match r.2.iters with
  | b :: rest => (r.1, { r.2 with iters := rest, vars := setVar r.2.vars it (.null b.bak) })
  | [] => r

/-- `RuntimeError::findThrowable`: keyword → code (user-defined when not in the table). -/
def findThrowable (name : String) : Nat :=
  match Gen.throwables.find? (·.2 == name) with
  | some (c, _) => c
  | none => Gen.EXC_RT_USER_S

/-- `RuntimeError::throwable(no) > 0`. -/
def isThrowable (code : Nat) : Bool := Gen.throwables.any (·.1 == code)

/-- The bytes of an (ASCII) exception name: identifiers are ASCII, so one byte per character. -/
def nameBytes (s : String) : Bytes := s.toList.map fun c => UInt8.ofNat c.toNat

/-- `BEGINStatement::docatch` matching rule for one `when NAME` clause. -/
def catchMatches (clause : String) (code : Nat) (arg : Bytes) : Bool :=
  let ec := findThrowable clause
  (clause == "OTHERS" && (code == Gen.EXC_RT_USER_S || isThrowable code)) ||
  (ec == code && (ec != Gen.EXC_RT_USER_S || nameBytes clause == arg))

/-- Rendering of one value by `print` (statement_print.cpp). -/
def printVal (v : Val) : Res Bytes :=
  if v.type.level == 0 then
    match v with
    | .null _ => .ok "null".toUTF8.toList
    | .str s => .ok (s.takeWhile (· != 0))          -- fputs(c_str()): stops at an embedded NUL
    | .bool b => .ok (if b then "TRUE" else "FALSE").toUTF8.toList
    | .int i => .ok (intToString i)
    | .num d => .ok (Fmt.fmt16g d)
    | _ => .unmodelled
  else .unmodelled

def UPPER (s : String) : String := s.toUpper

/-! ### the built-in `error` (builtin_error.cpp, exception.h, exception_runtime.cpp) -/

/-- `snprintf(buf, n, fmt, arg)` for a format that is text with `%s` directives only, before truncation. -/
def fmtS : Bytes → Bytes → Bytes
  | [], _ => []
  | [c], _ => [c]
  | c :: d :: rest, arg => if c == 37 && d == 115 then arg ++ fmtS rest arg else c :: fmtS (d :: rest) arg

/-- `RuntimeError::what()`: the format of the code with the argument (a C string: up to its first NUL) inserted,
cut to the buffer (`WHAT_BUFFER - 1` bytes); the default-constructed error (no format) gives the empty text. -/
def errWhat (r : LastErr) : Res Bytes :=
  if r.1 == Gen.EXC_RT_NOERROR then .ok [] else
  match Gen.rtMessages[r.1]? with
  | some fmt => .ok ((fmtS fmt.toUTF8.toList (r.2.takeWhile (· != 0))).take (Gen.WHAT_BUFFER - 1))
  | none => .unmodelled

/-- `THROWABLES[throwable(no)].keyword`: the keyword of a catchable built-in error, the sentinel's empty keyword otherwise. -/
def throwableKeyword (code : Nat) : Bytes :=
  match Gen.throwables.find? (·.1 == code) with
  | some (_, k) => k.toUTF8.toList
  | none => []

/-- declaration of the tuple `error` returns: (name : string, message : string, code : integer) -/
def errDecl : List Ty := [Ty.str, Ty.str, Ty.int]

/-- `ERRORExpression::value`: (name, message, code) of the record; the name of a user exception is its message. -/
def errorTuple (r : LastErr) : Res Val :=
  match errWhat r with
  | .ok msg => .ok (.tup errDecl [.str (if r.1 == Gen.EXC_RT_USER_S then msg else throwableKeyword r.1), .str msg, .int (Int64.ofNat r.1)])
  | .err c a => .err c a
  | .haz h => .haz h
  | .unmodelled => .unmodelled

/-- The context a call runs in (`createEnv`): every symbol of the function as a typed null,
parameters bound to the argument values; it shares only the output stream and the work budget
with the caller. Its error record is clear: a new context has none, and a context recycled from the function's
cache gets `_ctx->error(RuntimeError())` (repo e310d98) besides the reset of variables, symbols, return condition and
recursion depth — so nothing distinguishes a cached context from a new one and the cache needs no counterpart here. -/
def calleeInit (f : Func) (vals : List Val) (caller : St) : St :=
  { vars := ((f.params.map (·.1)).zip vals).foldl (fun vs (n, v) => setVar vs n v) (f.decls.map fun (n, t) => (n, Val.null t)),
    returned := none, out := caller.out, budget := caller.budget, iters := [],
    lastErr := LastErr.clear }

/-- Back in the caller (`FunctorExpression::value` after `body->doit`): the value saved by `return`
(or an untyped null), the caller's own variables (and error record) untouched, output and budget carried over. -/
def finishCall (caller : St) (r : Res Flow × St) : Res Val × St :=
  let back : St := { caller with out := r.2.out, budget := r.2.budget }
  match r.1 with
  | .ok _ => (.ok (r.2.returned.getD (.null Ty.none)), back)
  | .err c a => (.err c a, back)
  | .haz h => (.haz h, back)
  | .unmodelled => (.unmodelled, back)

/-- `docatch` after the clause has run: `ctx.error(outer)` when it ended without error — the record is set back to `outer`, what
`ctx.error()` held when the BLOCK was entered (`BEGINStatement::doit`, repo 8256736: the error of an enclosing clause that is still
running, or none; a record left behind by an inner clause that failed is NOT what is restored) —; a failing clause leaves the record as
it is. -/
def handlerExit (outer : LastErr) (r : Res Flow × St) : Res Flow × St :=
  match r with
  | (.ok fl, s2) => (.ok fl, { s2 with lastErr := outer })
  | r => r

/-- the members that work in place and return their receiver (`concat`, `put`, `delete`, `insert`) -/
def memberMutates : Member → Bool
  | .concat | .put | .delete | .insert => true
  | _ => false

/-- The variable a receiver expression DESIGNATES (expression_member.cpp `MemberExpression::receiver()` / `Expression::isStorage`, as far
as this model has storages): the variable itself, or — chained calls — the receiver of an in-place member, which returns that same
storage (`t.put(0,7).put(1,8)` changes `t` twice). Every other receiver (operator or function result, literal, constructor) is a
temporary: the member works on a copy. (Element receivers `ts.at(i).concat(x)` designate the element: not modelled here.) -/
def rootVar : Expr → Option String
  | .var n => some n
  | .member m recv _ => if memberMutates m then rootVar recv else none
  | _ => none

/-- The re-entry loop of `WHILEStatement::doit`, generic in how the condition and the body are run. -/
def whileLoop (cond : EvalM Val) (body : EvalM Flow) : Nat → EvalM Flow
  | 0 => oof
  | k + 1 => do
    let v ← cond
    let t ← liftM (if v.isNull then Res.ok false else v.asBool)
    if !t then return .norm
    let fl ← body
    match fl with
    | .norm | .cont => whileLoop cond body k
    | .brk => pure .norm
    | .ret => pure .ret

/-- The body run and the re-entry branch of `FORStatement::doit`, generic in how the body is run:
after the body, the iterator *variable* is read again (a null there raises NOT_INTEGER), and the loop
continues with `cur + step` while that value — computed without wrap-around, as the repaired code does — stays inside
[min, max]. -/
def forLoop (body : EvalM Flow) (v : String) (min max step : Int64) : Nat → EvalM Flow
  | 0 => oof
  | k + 1 => do
    let fl ← body
    match fl with
    | .brk => pure .norm
    | .ret => pure .ret
    | .norm | .cont =>
      let s ← getSt
      -- the body can have set the (type safe) control variable to null: NOT_INTEGER, else read the integer
      let cur ← liftM (if (lookupVar s.vars v).isNull then Res.err Gen.EXC_RT_NOT_INTEGER else (lookupVar s.vars v).asInt)
      let nxt : Int := cur.toInt + step.toInt
      if (step > 0 && nxt > max.toInt) || (step < 0 && nxt < min.toInt) then pure .norm
      else do
        modifySt fun st => { st with vars := setVar st.vars v (.int (cur + step)) }
        forLoop body v min max step k

/-- The re-entry branch of `FORALLStatement::doit`, generic in how the body is run: after the body
the index moves by one in the traversal direction and the loop goes on while it stays inside the
table *as it is then*. -/
def forallLoop (body : EvalM Flow) (it : String) (desc : Bool) : Nat → EvalM Flow
  | 0 => oof
  | k + 1 => do
    let fl ← body
    match fl with
    | .brk => pure .norm
    | .ret => pure .ret
    | .norm | .cont =>
      let s ← getSt
      match s.iters with
      | b :: rest =>
        if b.it != it then liftM (Res.unmodelled : Res Flow) else
        match forallNext desc b.idx (tableSize (s.iterTable b)) with
        | none => pure .norm
        | some j => do
          modifySt fun st => { st with iters := { b with idx := j } :: rest }
          forallLoop body it desc k
      | [] => liftM (Res.unmodelled : Res Flow)

mutual
  /-- `Expression::value`. -/
  def eval (funcs : List Func) (depth : Nat) : Nat → Expr → EvalM Val
    | 0, _ => oof
    | fuel + 1, e =>
      match e with
      | .lit v => pure v
      | .var n => do let s ← getSt; liftM (readVar s n)
      | .un op a => do let v ← eval funcs depth fuel a; liftM (evalUn op v)
      | .bin .band a b => do
        let v1 ← eval funcs depth fuel a
        -- the right operand is evaluated lazily (op_band.cpp): only when the left one is not `false`
        let forced : Bool := match v1 with
          | .bool false => false
          | _ => v1.type.level == 0 && (v1.type.major == .none || v1.type.major == .bool)
        if forced then do
          let v2 ← eval funcs depth fuel b
          liftM (opBand v1 (fun _ => .ok v2))
        else liftM (opBand v1 (fun _ => .ok (.null Ty.none)))
      | .bin .bior a b => do
        let v1 ← eval funcs depth fuel a
        let forced : Bool := match v1 with
          | .bool true => false
          | _ => v1.type.level == 0 && (v1.type.major == .none || v1.type.major == .bool)
        if forced then do
          let v2 ← eval funcs depth fuel b
          liftM (opBior v1 (fun _ => .ok v2))
        else liftM (opBior v1 (fun _ => .ok (.null Ty.none)))
      | .bin op a b => do
        let v1 ← eval funcs depth fuel a
        let v2 ← eval funcs depth fuel b
        -- `==` / `!=` on tables and tuples compare addresses: both operands are the same variable slot
        let same : Bool := match a, b with
          | .var x, .var y => x == y
          | _, _ => false
        liftM (evalBin op v1 v2 same)
      | .call "tab" args => biTab (m := EvalM) (args.map (eval funcs depth fuel))
      | .call "tup" args => biTup (m := EvalM) (args.map (eval funcs depth fuel))
      | .call name args =>
        match evalBuiltin (m := EvalM) Fmt.fmt16g name (args.map (eval funcs depth fuel)) with
        | some r => r
        | none => liftM (Res.unmodelled : Res Val)
      | .fcall name args => callFunc funcs depth fuel name args
      | .member m recv args => do
        -- receiver, then the arguments; the method works in place on the receiver: the variable the
        -- receiver designates (`rootVar`: a variable, or a chain of in-place members on one) receives the
        -- changed value, a temporary is dropped. (A read-only receiver — constant or table being
        -- traversed — is refused at compile time: `lockE`.)
        let rv ← eval funcs depth fuel recv
        let avs ← evalArgs funcs depth fuel args
        let (r, rv') ← liftM (memberCall m rv avs false)
        match rootVar recv with
        | some n => do
          let s ← getSt
          if s.iters.any (·.it == n) then liftM (Res.unmodelled : Res Val) else do
          modifySt fun st => { st with vars := setVar st.vars n rv' }
          pure r
        | none => pure r
      | .errorE => do let s ← getSt; liftM (errorTuple s.lastErr)
      | .item e n => itemAt (m := EvalM) (eval funcs depth fuel e) n

  /-- `FunctorExpression::value` + `FunctorManager::createEnv`. -/
  def callFunc (funcs : List Func) (depth : Nat) : Nat → String → List Expr → EvalM Val
    | 0, _, _ => oof
    | fuel + 1, name, args =>
      match funcs.find? (fun f => f.name == name && f.params.length == args.length) with
      | none => liftM (Res.unmodelled : Res Val)
      | some f =>
        if depth == Gen.RECURSION_LIMIT then failE Gen.EXC_RT_RECURSION_LIMIT else do
        -- parameters: evaluated in the caller, in order, stored by copy into the fresh callee context
        let vals ← evalArgs funcs depth fuel args
        fun caller => finishCall caller (execBlock funcs (depth + 1) fuel f.body f.catches (calleeInit f vals caller))

  def evalArgs (funcs : List Func) (depth : Nat) : Nat → List Expr → EvalM (List Val)
    | 0, _ => oof
    | _, [] => pure []
    | fuel + 1, a :: as => do
      let v ← eval funcs depth fuel a
      let vs ← evalArgs funcs depth fuel as
      pure (v :: vs)

  /-- `BEGINStatement::doit` + `docatch`: run the body; on a runtime error run the first matching
  `when` clause (an error inside the clause propagates), else re-raise. The caught error is saved in the
  context (`ctx.error(rt)`) while the clause runs and the record is SET BACK to what it was on entry of the block
  (`outer`, taken at the top of `doit`) when the clause ends without error; when the clause fails the record stays
  ("kept for debug"). -/
  def execBlock (funcs : List Func) (depth : Nat) : Nat → List Stmt → List (String × List Stmt) → EvalM Flow
    | 0, _, _ => oof
    | fuel + 1, body, catches => fun s =>
      match execList funcs depth fuel body s with
      | (.err c a, s') =>
        if c == oofCode then (.err c a, s') else
        match catches.find? (fun cl => catchMatches cl.1 c a) with
        | some (_, handler) =>
          handlerExit s.lastErr (execList funcs depth fuel handler { s' with lastErr := (c, a) })
        | none => (.err c a, s')
      | r => r

  /-- `Executable::run`: statements in order until a stop condition is pending. -/
  def execList (funcs : List Func) (depth : Nat) : Nat → List Stmt → EvalM Flow
    | 0, _ => oof
    | _, [] => pure .norm
    | fuel + 1, st :: rest => do
      let fl ← exec funcs depth fuel st
      if fl == .norm then execList funcs depth fuel rest else pure fl

  /-- `Statement::doit`. -/
  def exec (funcs : List Func) (depth : Nat) : Nat → Stmt → EvalM Flow
    | 0, _ => oof
    | fuel + 1, st => fun s0 =>
      if s0.budget == 0 then oof s0 else
      (fun s => (show EvalM Flow from
      match st with
      | .nop => pure .norm
      | .funcS _ _ _ _ _ => pure .norm          -- declarations take effect when compiled
      | .letS n e => do
        let s ← getSt
        match s.iters.find? (·.it == n) with
        | none =>
          let v ← eval funcs depth fuel e
          modifySt fun s => { s with vars := setVar s.vars n v }
          pure .norm
        | some b0 =>
          -- LETStatement::doit on a pointer: the pointed-to element is replaced (same type required)
          if b0.locked then liftM (Res.unmodelled : Res Flow) else do
          let v ← eval funcs depth fuel e
          let s ← getSt
          match s.iters.find? (·.it == n) with
          | none => liftM (Res.unmodelled : Res Flow)
          | some b =>
            let tbl' ← liftM (forallStep (s.iterTable b) b.idx v)
            match b.src with
            | some t => modifySt fun st => { st with vars := setVar st.vars t tbl' }
            | none => modifySt fun st => { st with iters := st.iters.map fun x => if x.it == n then { x with priv := tbl' } else x }
            pure .norm
      | .doS e => do let _ ← eval funcs depth fuel e; pure .norm
      | .printS es => do
        evalPrint funcs depth fuel es
        modifySt fun s => { s with out := [10] :: s.out }
        pure .norm
      | .ifS rules => execIf funcs depth fuel rules
      | .whileS c body => whileLoop (eval funcs depth fuel c) (execList funcs depth fuel body) fuel
      | .forS v b e step dir body => do
        -- FORStatement::doit, first entry
        let vb ← eval funcs depth fuel b
        if vb.isNull then return .norm
        let ve ← eval funcs depth fuel e
        if ve.isNull then return .norm
        let mut s : Int64 := 1
        match step with
        | some se =>
          let vs ← eval funcs depth fuel se
          if vs.isNull then return .norm
          s ← liftM vs.asInt
          if s < 1 then failE Gen.EXC_RT_OUT_OF_RANGE else pure ()
        | none => pure ()
        let bi ← liftM vb.asInt
        let ei ← liftM ve.asInt
        if ei > bi then
          if dir == .desc then return .norm
          modifySt fun st => { st with vars := setVar st.vars v (.int bi) }
          forLoop (execList funcs depth fuel body) v bi ei s fuel
        else
          if dir == .asc && ei != bi then return .norm
          modifySt fun st => { st with vars := setVar st.vars v (.int bi) }
          forLoop (execList funcs depth fuel body) v ei bi (0 - s) fuel
      | .forallS it src dir body => do
        -- FORALLStatement::doit, first entry
        let tv ← eval funcs depth fuel src
        if tv.isNull then return .norm
        if tv.type.level == 0 then liftM (Res.unmodelled : Res Flow) else
        let n := tableSize tv
        if n == 0 then return .norm
        let s ← getSt
        if s.iters.any (·.it == it) then failE Gen.EXC_RT_NOT_IMPLEMENTED else
        let desc := dir == .desc
        let first := if desc then n - 1 else 0
        let bak := (lookupVar s.vars it).type
        match src with
        | .var t =>
          if s.iters.any (·.it == t) then liftM (Res.unmodelled : Res Flow) else
          let b : Iter := { it := it, src := some t, priv := .null Ty.none, idx := first, bak := bak,
                            locked := s.iters.any (·.src == some t) }
          fun s1 => forallExit it (forallLoop (execList funcs depth fuel body) it desc fuel { s1 with iters := b :: s1.iters })
        | _ =>
          let b : Iter := { it := it, src := none, priv := tv, idx := first, bak := bak, locked := false }
          fun s1 => forallExit it (forallLoop (execList funcs depth fuel body) it desc fuel { s1 with iters := b :: s1.iters })
      | .beginS body catches => execBlock funcs depth fuel body catches
      | .raiseS name =>
        let code := findThrowable name
        if code == Gen.EXC_RT_USER_S then failE code (nameBytes name) else failE code
      | .returnS none => pure .ret
      | .returnS (some e) => do
        let v ← eval funcs depth fuel e
        modifySt fun s => { s with returned := some v }
        pure .ret
      | .breakS => pure .brk
      | .continueS => pure .cont) s) { s0 with budget := s0.budget - 1 }

  def evalPrint (funcs : List Func) (depth : Nat) : Nat → List Expr → EvalM Unit
    | 0, _ => oof
    | _, [] => pure ()
    | fuel + 1, x :: xs => do
      let v ← eval funcs depth fuel x
      let bs ← liftM (printVal v)
      modifySt fun s => { s with out := bs :: s.out }
      evalPrint funcs depth fuel xs

  def execIf (funcs : List Func) (depth : Nat) : Nat → List (Option Expr × List Stmt) → EvalM Flow
    | 0, _ => oof
    | _, [] => pure .norm
    | fuel + 1, (cond, body) :: rest => do
      match cond with
      | none => execList funcs depth fuel body
      | some c =>
        let v ← eval funcs depth fuel c
        let t ← liftM (condTaken v)
        if t then execList funcs depth fuel body else execIf funcs depth fuel rest
end

/-! ### the parser's symbol registration, as far as the run-time needs it

`Context::registerSymbol` creates the variable's slot with a *typed null* of the type the symbol is
first registered with (`MemorySlot(Symbol)`), in text order, also for statements that are never
executed. A variable read before its first assignment therefore yields that typed null. -/

/-- Static result type of a built-in (`type()` in builtin_*.h / .cpp). -/
def builtinType (name : String) (argTys : List Ty) : Ty :=
  match Gen.builtinTypes.find? (·.1 == name) with
  | some (_, .const m) => { major := m }
  | some (_, .arg0) => argTys.headD Ty.none
  | _ =>
    let isInt := fun (t : Ty) => t.major == .int && t.level == 0
    let isImag := fun (t : Ty) => t.major == .imag && t.level == 0
    match name with
    | "tokenize" => tabStrTy
    -- `type()` of builtin_max / min / mod / pow .cpp: integer for two integers, else decimal (pow: complex when one is)
    | "max" | "min" | "mod" =>
      match argTys with
      | [a, b] => if isInt a && isInt b then Ty.int else Ty.num
      | _ => Ty.num
    | "pow" =>
      match argTys with
      | [a, b] => if isImag a || isImag b then Ty.imag else if isInt a && isInt b then Ty.int else Ty.num
      | _ => Ty.num
    -- builtin_sqrt.cpp and the other one-argument libm functions: complex for a complex argument, else decimal
    | "sqrt" | "exp" | "log" | "log10" | "sin" | "cos" | "tan" | "asin" | "acos" | "atan" | "sinh" | "cosh" | "tanh" =>
      match argTys with
      | [a] => if isImag a then Ty.imag else Ty.num
      | _ => Ty.num
    | _ => Ty.none

def typeOfExpr (funcs : List Func) (tab : List (String × Ty)) : Nat → Expr → Ty
  | 0, _ => Ty.none
  | fuel + 1, e =>
    match e with
    | .lit v => v.type
    | .var n => (tab.find? (·.1 == n)).map (·.2) |>.getD Ty.none
    | .un op a => typeUn op (typeOfExpr funcs tab fuel a)
    | .bin op a b => typeBin op (typeOfExpr funcs tab fuel a) (typeOfExpr funcs tab fuel b)
    | .call "tab" args => tabType (args.map (typeOfExpr funcs tab fuel))
    | .call "tup" args => tupType (args.map (typeOfExpr funcs tab fuel))
    | .call name args => builtinType name (args.map (typeOfExpr funcs tab fuel))
    | .member m recv _ => memberType m (typeOfExpr funcs tab fuel recv)
    | .errorE => makeTupleTy errDecl 0
    -- `ItemExpression::type` needs the static declaration of the tuple: known here for `error` and `tup(…)`; opaque otherwise
    | .item .errorE n => itemType (makeTupleTy errDecl 0) errDecl (itemIndex n)
    | .item (.call "tup" args) n =>
      let d := args.map (typeOfExpr funcs tab fuel)
      itemType (tupType d) d (itemIndex n)
    | .item _ _ => Ty.none
    | .fcall name args =>
      (funcs.find? (fun f => f.name == name && f.params.length == args.length)).map (·.ret) |>.getD Ty.none

/-- (current type, first-registration type) per symbol, in registration order. -/
abbrev SymTab := List (String × Ty × Ty)

def SymTab.cur (t : SymTab) : List (String × Ty) := t.map fun (n, c, _) => (n, c)
def SymTab.first (t : SymTab) : List (String × Ty) := t.map fun (n, _, f) => (n, f)

def regSym (t : SymTab) (n : String) (ty : Ty) : SymTab :=
  if t.any (·.1 == n) then t.map fun (m, c, f) => if m == n then (m, ty, f) else (m, c, f) else t ++ [(n, ty, ty)]

mutual
  def declStmt (funcs : List Func) : Nat → SymTab → Stmt → SymTab
    | 0, t, _ => t
    | fuel + 1, t, st =>
      match st with
      | .letS n e => regSym t n (typeOfExpr funcs t.cur 100 e)
      | .forS v _ _ _ _ body => declList funcs fuel (regSym t v Ty.int) body
      | .forallS it src _ body =>
        -- the iterator is registered with the element type of the traversed expression
        let ty := typeOfExpr funcs t.cur 100 src
        let ety := if ty.major == .none && ty.level == 0 then ty else ty.levelDown
        declList funcs fuel (regSym t it ety) body
      | .whileS _ body => declList funcs fuel t body
      | .ifS rules => declRules funcs fuel t rules
      | .beginS body catches => declCatches funcs fuel (declList funcs fuel t body) catches
      | _ => t
  def declList (funcs : List Func) : Nat → SymTab → List Stmt → SymTab
    | 0, t, _ => t
    | _, t, [] => t
    | fuel + 1, t, s :: rest => declList funcs fuel (declStmt funcs fuel t s) rest
  def declRules (funcs : List Func) : Nat → SymTab → List (Option Expr × List Stmt) → SymTab
    | 0, t, _ => t
    | _, t, [] => t
    | fuel + 1, t, (_, body) :: rest => declRules funcs fuel (declList funcs fuel t body) rest
  def declCatches (funcs : List Func) : Nat → SymTab → List (String × List Stmt) → SymTab
    | 0, t, _ => t
    | _, t, [] => t
    | fuel + 1, t, (_, body) :: rest => declCatches funcs fuel (declList funcs fuel t body) rest
end

def sameSig (f g : Func) : Bool := f.name == g.name && f.params.length == g.params.length

/-- `FunctorManager::createOrReplace`: a declaration with the same name and arity replaces the
earlier one in place, otherwise it is appended. -/
def addFunc (fs : List Func) (f : Func) : List Func :=
  if fs.any (sameSig f) then fs.map (fun g => if sameSig f g then f else g) else fs ++ [f]

/-- Function table of a program: its top-level declarations in text order; each function's private
symbol table is computed when it is declared (functions declared earlier are visible, and the
function itself, for recursion). -/
def collectFuncs (prog : List Stmt) : List Func :=
  prog.foldl (fun fs st => match st with
    | .funcS n ps rt b c =>
      let f0 : Func := { name := n, params := ps, ret := rt, body := b, catches := c }
      let fs0 := addFunc fs f0
      let tab0 : SymTab := ps.map fun (pn, pt) => (pn, pt, pt)
      let tab := declCatches fs0 1000 (declList fs0 1000 tab0 b) c
      addFunc fs { f0 with decls := tab.first }
    | _ => fs) []

/-- Symbols of the root context with their first-registration types. -/
def mainDecls (funcs : List Func) (prog : List Stmt) : List (String × Ty) :=
  (declList funcs 1000 [] (prog.filter fun st => match st with | .funcS .. => false | _ => true)).first

/-- Result of running a whole program with `Parser::parse` + `Executable::run`. -/
structure RunResult where
  outcome : Res (Option Val)     -- ok (returned value) | runtime error | hazard
  st : St

def runProgram (fuel : Nat) (prog : List Stmt) (init : St := {}) : RunResult :=
  let funcs := collectFuncs prog
  -- every symbol the parser registered exists from the start, holding a typed null
  let vars0 := (mainDecls funcs prog).foldl (fun vs (n, t) => if vs.any (·.1 == n) then vs else vs ++ [(n, Val.null t)]) init.vars
  match execList funcs 0 fuel prog { init with vars := vars0 } with
  | (.ok _, s) => { outcome := .ok s.returned, st := s }
  | (.err c a, s) => { outcome := .err c a, st := s }
  | (.haz h, s) => { outcome := .haz h, st := s }
  | (.unmodelled, s) => { outcome := .unmodelled, st := s }

/-! ### the compile-time lock of a traversed table (statement_forall.cpp `parse_clause`, context.cpp `registerSymbol`, member/member_*.cpp `parse`)

While the body of `forall it in t` is PARSED, the symbol `t` is locked (`es.locked(true)`), and the iterator is locked too when `t`
was locked already ("iterator inherits constness of the target"). The parser then refuses, with EXC_PARSE_CONST_VIOLATION_S,
every statement that registers a locked name as its target (`n = e`, `for n in …`, `forall n in …`: `registerSymbol`) and every
mutating member call on a locked variable (`concat` / `put` / `delete` / `insert`: their `parse`). `lockS L st` etc. = "the parser accepts
`st` while the names `L` are locked"; a function body is compiled in its own context (nothing locked). What the lock buys is proved in
Proofs/Lemmas/Lock.lean (`lock_all`): accepted code never changes the number of elements of a locked table. -/

mutual
  def lockE (L : List String) : Expr → Bool
    | .lit _ => true
    | .var _ => true
    | .errorE => true
    | .un _ a => lockE L a
    | .bin _ a b => lockE L a && lockE L b
    | .call _ args => lockEs L args
    | .fcall _ args => lockEs L args
    | .member m recv args =>
      (match recv with
        | .var n => !(memberMutates m && L.contains n)
        | _ => true) && lockE L recv && lockEs L args
    | .item e _ => lockE L e
  def lockEs (L : List String) : List Expr → Bool
    | [] => true
    | a :: as => lockE L a && lockEs L as
end

mutual
  def lockS (L : List String) : Stmt → Bool
    | .nop => true
    | .breakS => true
    | .continueS => true
    | .raiseS _ => true
    | .returnS none => true
    | .returnS (some e) => lockE L e
    | .letS n e => !L.contains n && lockE L e
    | .doS e => lockE L e
    | .printS es => lockEs L es
    | .ifS rules => lockRules L rules
    | .whileS c body => lockE L c && lockL L body
    | .forS v b e st _ body =>
      !L.contains v && lockE L b && lockE L e && (match st with | some x => lockE L x | none => true) && lockL L body
    | .forallS it src _ body =>
      !L.contains it && lockE L src &&
        lockL (match src with
          | .var t => if L.contains t then it :: t :: L else t :: L
          | _ => L) body
    | .beginS body catches => lockL L body && lockCatches L catches
    | .funcS _ _ _ _ _ => true
  def lockL (L : List String) : List Stmt → Bool
    | [] => true
    | s :: rest => lockS L s && lockL L rest
  def lockRules (L : List String) : List (Option Expr × List Stmt) → Bool
    | [] => true
    | (c, body) :: rest => (match c with | some x => lockE L x | none => true) && lockL L body && lockRules L rest
  def lockCatches (L : List String) : List (String × List Stmt) → Bool
    | [] => true
    | (_, body) :: rest => lockL L body && lockCatches L rest
end

/-- `Parser::parse` as far as the lock is concerned: the whole program is accepted (`false`: refused with EXC_PARSE_CONST_VIOLATION_S). -/
def lockProgram (prog : List Stmt) : Bool :=
  prog.all fun st => match st with
    | .funcS _ _ _ body catches => lockL [] body && lockCatches [] catches
    | st => lockS [] st

/-! ### the interactive runner (apps/cli_parser.cpp, main loop of `bloc -i`)

Every statement typed at the prompt is parsed on its own and its chain is executed with `Statement::execute` directly — there is NO
`Executable::run` around it —; the runner's own handler does what `Executable::run`'s catch-all does (repo 3db7ed2):
`while (r) { try { r = r->execute(ctx); } catch (RuntimeError&) { …; ctx.onRuntimeError(); break; } }`.
The control stack under the runner (`St.ctl`):
* a top-level `while` stacks its control entry BEFORE it evaluates the condition (WHILEStatement::doit), a top-level `for`
  when the header has been evaluated; both unstack it when the loop ends;
* an error inside a loop / if BODY passes the `Executable::run` of that body (execution level 0): `onRuntimeError` unstacks every
  entry whose statement level is ≥ 0 — all of them (`purgeOnErr`);
* an error thrown by the loop statement ITSELF (the `while` condition, at any iteration; the `for` re-entry finding its
  control variable null) leaves `doit` with the entry still stacked — and is then caught by the runner, whose `onRuntimeError`
  (execution level 0 again: `begin` blocks have popped their level on the way out) unstacks everything (`stepTop`).
  Before 3db7ed2 the runner only purged the working memory and that entry stayed: finding C07.interactive_runner_keeps_control_entry (fixed).
A pending `return` is cleared by the runner (`ctx.returnCondition(false)`; the cli then prints the value on ITS terminal —
`output_cli`, not the context's output stream) and the session goes on. -/

/-- `Executable::run`'s catch-all at execution level 0: `Context::onRuntimeError` unstacks every control entry. -/
def purgeOnErr {α} (x : EvalM α) : EvalM α := fun s =>
  match x s with
  | (.ok a, s') => (.ok a, s')
  | (r, s') => (r, { s' with ctl := [] })

/-- One statement under the interactive runner: its `Statement::execute` chain (`exec`: the same `doit` code as in a program run) and,
on a runtime error, the runner's `ctx.onRuntimeError()`. While a top-level `while` / `for` runs its entry is on the control stack
(a `while` stacks it before its condition is evaluated, so an error of the condition leaves `doit` with the entry stacked); what
`St.ctl` records is what is there when the statement is OVER: unchanged after a normal end (the loop unstacked its entry), empty
after an error (the runner's `onRuntimeError` at execution level 0 unstacks every entry). -/
def stepTop (funcs : List Func) (fuel : Nat) (st : Stmt) : EvalM Flow := purgeOnErr (exec funcs 0 fuel st)

/-- The interactive main loop over the statements typed one after the other: each runs on its own from the state the
previous one left — also after an error, which is reported and does not end the session, and after a `return`, whose pending
condition and saved value the runner takes away. -/
def runInteractive (funcs : List Func) (fuel : Nat) : List Stmt → St → List (Res Flow) × St
  | [], s => ([], s)
  | st :: rest, s =>
    match stepTop funcs fuel st s with
    | (r, s') =>
      let (rs, s'') := runInteractive funcs fuel rest { s' with returned := none }
      (r :: rs, s'')

end BlocV
