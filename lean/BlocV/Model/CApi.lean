/-
  Model — the public C API (`blocc/bloc_capi.h`, `bloc_capi.cpp`) as a state machine over HANDLES.

  A host program holds handles: contexts (`bloc_context*`), symbols (`bloc_symbol*`), values
  (`bloc_value*`: caller-owned, or library-owned pointers into a context), expressions and
  executables. `step : State → Op → State × Out` is one API call (or a small fixed group of calls,
  e.g. `tabitem` = `bloc_table` + `bloc_array_size` + `bloc_array_item`): what it returns, what it
  does to the process-wide error record (`bloc_errno` / `bloc_strerror`), to the contexts and to
  every handle the host holds. The harness `harness/capiprobe.cpp` executes the same `Op` lines
  through the real library and prints the same tokens.

  Transcribed from: bloc_capi.cpp (every entry point), context.cpp (`registerSymbol`,
  `storeVariable`, `purge`, `clone`, `saveReturned`/`dropReturned`, `parsingEnd`), value.h (the
  typed accessors, `swap(Value&&)` leaving the source a typed null), executable.cpp (`run`: nothing
  runs while the return condition is held), statement_return.cpp.

  * **Ownership.** A value slot of the host is `box v` (the caller owns a `bloc::Value` holding `v`
    and must free it) or `ref r` (a borrowed pointer: into a box, or library-owned).
  * **Epochs.** Every context carries an `epoch`, a fresh value of the global `clock` assigned by
    exactly the calls listed in property C15: parse (expression / executable), run (`bloc_execute`,
    `bloc_execute2`), evaluate, register symbol, purge (`bloc_ctx_purge`,
    `bloc_ctx_purge_working_mem`) — in that context — and by create / clone / free. A library-owned
    reference remembers the epoch at which it was handed out and is *live* iff the context is live
    and still at that epoch. Since the clock only grows, an equal epoch means that none of those
    calls happened in between.
  * **Values and evaluation** are those of `Model/Interp.lean` / `Model/Ops.lean`: a context's
    variables are the `vars` of the interpreter state, programs and expressions are the ASTs the
    generator renders both as BLOC source (for the library) and as S-expressions (for this model).
  * **Texts that do not parse** are entries of the catalogs `badProgs` / `badExprs` (source, error
    code, position, symbols registered before the error); the catalogs are part of the model and
    the generator takes the sources from here (driver command `c15bad`).
  * **Not modelled**: memory reclamation (`new`/`delete`), hence leaks — observed by LeakSanitizer
    in the harness only; `bloc_break` from another thread while a run is in progress (C14);
    tracing; plugins; `locked` symbols (only `forall` sets the flag, the generated programs have no
    `forall`). Running out of interpreter fuel or reaching an unmodelled construct yields
    `Res1.unmodelled`, never a guessed result.
-/
import BlocV.Model.Interp
import BlocV.Model.Typing

namespace BlocV.CApi
open BlocV

/-! ## typed accessors -/

/-- `bloc_boolean`, `bloc_integer`, `bloc_numeric`, `bloc_literal`, `bloc_tabchar`, `bloc_table`,
`bloc_tuple`, `bloc_imaginary`. -/
inductive Acc
  | b | i | n | l | x | t | u | c
  deriving DecidableEq, Repr, Inhabited

/-- The type test of the `Value` member behind each accessor (value.h): `_type != MAJOR ||
_type.level()` throws; `collection()` wants `level() > 0`. -/
def Acc.matches (k : Acc) (ty : Ty) : Bool :=
  match k with
  | .b => ty.major == .bool && ty.level == 0
  | .i => ty.major == .int && ty.level == 0
  | .n => ty.major == .num && ty.level == 0
  | .l => ty.major == .str && ty.level == 0
  | .x => ty.major == .raw && ty.level == 0
  | .t => ty.level != 0
  | .u => ty.major == .tup && ty.level == 0
  | .c => ty.major == .imag && ty.level == 0

def Acc.failCode : Acc → Nat
  | .b => Gen.EXC_RT_NOT_BOOLEAN | .i => Gen.EXC_RT_NOT_INTEGER | .n => Gen.EXC_RT_NOT_NUMERIC
  | .l => Gen.EXC_RT_NOT_LITERAL | .x => Gen.EXC_RT_NOT_TABCHAR | .t => Gen.EXC_RT_NOT_COLLECT
  | .u => Gen.EXC_RT_NOT_ROWTYPE | .c => Gen.EXC_RT_NOT_IMAGINARY

inductive AccOut
  | ok (dataNull : Bool)      -- returned bloc_true; the out pointer is NULL iff `dataNull`
  | fail (code : Nat)         -- returned bloc_false, error record set
  deriving DecidableEq, Repr, Inhabited

/-- What the accessor does: the `Value` member throws its `NOT_…` error when the type does not
match; otherwise it hands back the payload pointer, which is `nullptr` for a null value. All eight
entry points pass that on: six store the pointer itself in the out parameter, `bloc_literal` /
`bloc_tabchar` test it before calling `str->data()` / `tc->data()`, `tc->size()` and write
`*buf = NULL` (and `*len = 0`) for a null value (bloc_capi.cpp: `str ? str->data() : nullptr`,
`tc ? tc->data() : nullptr`, `tc ? tc->size() : 0`). -/
def accessor (k : Acc) (v : Val) : AccOut :=
  if !k.matches v.type then .fail k.failCode
  else .ok v.isNull

/-! ## state -/

/-- The process-wide record behind `bloc_errno()` / `bloc_strerror()`; `msg` = the string is not empty. -/
structure ErrRec where
  code : Nat := 0
  msg : Bool := false
  deriving DecidableEq, Repr, Inhabited

structure Sym where
  name : String
  ty : Ty
  safety : Bool
  deriving Repr, Inhabited

structure Ctx where
  live : Bool := false
  epoch : Nat := 0
  /-- generation: renewed by purge; symbols, expressions, executables belong to one generation -/
  gen : Nat := 0
  syms : List Sym := []
  /-- the slot values, parallel to `syms` (`MemorySlot`) -/
  vals : List Val := []
  /-- `_backed_symbols`: (symbol id, type before the upgrade); restored by the next `parsingEnd` -/
  backed : List (Nat × Ty) := []
  funcs : List Func := []
  returned : Option Val := none
  /-- `_returnCondition`: held after `return` and after `bloc_break` until reset or purge -/
  stop : Bool := false
  sink : Nat := 0
  cloneSrc : Option (Nat × Nat) := none
  cloneStamp : Nat := 0
  cloneGen : Nat := 0
  deriving Inhabited

/-- What a borrowed `bloc_value*` points into. -/
inductive Root
  | box (i : Nat)             -- the caller-owned value in host slot i
  | slot (c id : Nat)         -- the variable slot `id` of context c
  | snap (v : Val)            -- a temporary / constant cell holding v (result of an evaluation)
  deriving Inhabited

inductive VKind
  | boxItem | load | eval | item
  deriving DecidableEq, Repr, Inhabited

structure VRef where
  root : Root
  path : List Nat := []
  kind : VKind
  ctx : Nat := 0
  epoch : Nat := 0
  expr : Option Nat := none
  /-- set by the witness-only call `storeu`: the host kept an item pointer across a store into its context -/
  stale : Bool := false
  deriving Inhabited

inductive VSlot
  | empty
  | box (v : Val)
  | ref (r : VRef)
  deriving Inhabited

structure SymH where
  ctx : Nat
  gen : Nat
  id : Nat
  deriving DecidableEq, Repr, Inhabited

structure ExprH where
  ctx : Nat
  gen : Nat
  e : Expr
  deriving Inhabited

structure ExecH where
  ctx : Nat
  gen : Nat
  stamp : Nat
  prog : List Stmt
  deriving Inhabited

structure State where
  ctxs : List Ctx
  syms : List (Option SymH)
  vals : List VSlot
  exprs : List (Option ExprH)
  execs : List (Option ExecH)
  err : ErrRec := {}
  clock : Nat := 1
  /-- unread output per sink -/
  sinks : List Bytes := []
  deriving Inhabited

def State.init : State :=
  { ctxs := List.replicate 4 {}, syms := List.replicate 8 none, vals := List.replicate 16 .empty,
    exprs := List.replicate 4 none, execs := List.replicate 4 none }

/-! ## texts -/

structure BadText where
  src : String
  code : Nat
  line : Nat := 1
  col : Nat := 1
  /-- symbols the parser registered before it failed (they stay: only upgrades are rolled back) -/
  newSyms : List (String × Ty) := []
  /-- variables the text reads without declaring them (only expression texts: `bloc_parse_expression` cannot
  declare anything): the error `code` is the one reported when each of them is registered with exactly this type -/
  needSyms : List (String × Ty) := []
  /-- the LEFT operand alone is ill-typed: its check throws before the right operand is parsed, so only the first
  of `needSyms` (the left operand's variable) is ever looked up -/
  leftFirst : Bool := false
  deriving Repr, Inhabited

/-- Texts `bloc_parse_executable` rejects, with the error code it reports and the position it
writes to `*pos` (observed on the pinned tree; none of them depends on the context's symbols —
the names used here are reserved for this catalog). Code 0 is `EXC_PARSE_EOF`: the text ended
inside a statement. -/
def handBadProgs : List BadText := [
  { src := "x = ;", code := Gen.EXC_PARSE_UNEXPECTED_LEX_S, col := 5 },
  { src := "1 +", code := Gen.EXC_PARSE_NOT_A_STATEMENT },
  { src := "q9 = 1", code := Gen.EXC_PARSE_EOF },
  { src := "nofunc9(1);", code := Gen.EXC_PARSE_UNDEFINED_SYMBOL_S },
  { src := "q9 = 1 - \"abc\";", code := Gen.EXC_PARSE_TYPE_MISMATCH_S, col := 15 },
  { src := "q9 = (1;", code := Gen.EXC_PARSE_MM_PARENTHESIS, col := 8 },
  { src := "q9 = nosuchvar9;", code := Gen.EXC_PARSE_UNDEFINED_SYMBOL_S, col := 6 },
  { src := "return 1 2;", code := Gen.EXC_PARSE_STATEMENT_END_S, col := 10 },
  { src := "q9 = strlen(1);", code := Gen.EXC_PARSE_FUNC_ARG_TYPE_S, col := 12 },
  { src := "q9 = substr(\"a\");", code := Gen.EXC_PARSE_FUNC_ARG_NUM_S, col := 16 },
  { src := "if 1 then nop; end if;", code := Gen.EXC_PARSE_OTHER_S },
  { src := "include \"x\";", code := Gen.EXC_PARSE_OTHER_S },
  { src := "v_new9 = 1; x = ;", code := Gen.EXC_PARSE_UNEXPECTED_LEX_S, col := 17, newSyms := [("V_NEW9", Ty.int)] },
  { src := "end;", code := Gen.EXC_PARSE_NOT_A_STATEMENT },
  { src := "q9 = \"unterminated;", code := Gen.EXC_PARSE_EOF },
  { src := "q9 = 1;\nq8 = 2 +* 3;\n", code := Gen.EXC_PARSE_UNEXPECTED_LEX_S, line := 2, col := 9, newSyms := [("Q9", Ty.int)] },
  { src := "for q9 in 1 to 3 loop\n  q8 = ;\nend loop;\n", code := Gen.EXC_PARSE_UNEXPECTED_LEX_S, line := 2, col := 8, newSyms := [("Q9", Ty.int)] },
  { src := "q9 = 99999999999999999999;", code := Gen.EXC_PARSE_OUT_OF_RANGE, col := 6 },
  { src := "while true loop q9 = 1;", code := Gen.EXC_PARSE_EOF, newSyms := [("Q9", Ty.int)] },
  { src := "q9 = not 1;", code := Gen.EXC_PARSE_TYPE_MISMATCH_S, col := 11 },
  { src := "print 1 +;", code := Gen.EXC_PARSE_UNEXPECTED_LEX_S, col := 10 },
  { src := "if true then q9 = 1; else q9 = ; end if;", code := Gen.EXC_PARSE_UNEXPECTED_LEX_S, col := 32, newSyms := [("Q9", Ty.int)] },
  -- a function declaration that fails in its body declares nothing; a call of it is then refused
  { src := "function g9(x) return integer is begin return x + ; end;", code := Gen.EXC_PARSE_UNEXPECTED_LEX_S, col := 51 },
  { src := "q9 = g9(1);", code := Gen.EXC_PARSE_UNDEFINED_SYMBOL_S, col := 6 },
  -- the two below also LEAK on the pinned tree (known findings C15.leak_*): kept at the end so that
  -- the generator can address the leak-free prefix separately
  { src := "q9 = \"abc\" - 1;", code := Gen.EXC_PARSE_TYPE_MISMATCH_S, col := 14 },
  { src := "if true then q9 = 1;", code := Gen.EXC_PARSE_EOF, newSyms := [("Q9", Ty.int)] } ]

/-- Texts `bloc_parse_expression` rejects (it needs a terminating newline or `;` after the
expression: without one the scanner reports EOF). -/
def handBadExprs : List BadText := [
  { src := "1 +\n", code := Gen.EXC_PARSE_UNEXPECTED_LEX_S },
  { src := "1 + \"a\"\n", code := Gen.EXC_PARSE_TYPE_MISMATCH_S },
  { src := "nosuchvar9\n", code := Gen.EXC_PARSE_UNDEFINED_SYMBOL_S },
  { src := "(1\n", code := Gen.EXC_PARSE_MM_PARENTHESIS },
  { src := "strlen(1)\n", code := Gen.EXC_PARSE_FUNC_ARG_TYPE_S },
  { src := "1+1", code := Gen.EXC_PARSE_EOF },
  { src := "\n", code := Gen.EXC_PARSE_UNEXPECTED_LEX_S },
  { src := "nofunc9(2)\n", code := Gen.EXC_PARSE_UNDEFINED_SYMBOL_S },
  { src := "99999999999999999999\n", code := Gen.EXC_PARSE_OUT_OF_RANGE },
  { src := "substr(\"a\")\n", code := Gen.EXC_PARSE_FUNC_ARG_NUM_S },
  { src := "\"a\" - 1\n", code := Gen.EXC_PARSE_TYPE_MISMATCH_S } ]

/-! ## operator texts, generated from the typing model

Every operator spelling the scanner / `ParseExpression` knows × operand form × operand types. Whether
`ParseExpression` accepts `L op R` is decided by `Typing.acceptBin` / `acceptUn` on the STATIC types of the operand
ASTs (`typeOfExpr`), never by a hand-written verdict: the rejected ones extend the catalogs of rejected texts, the
accepted ones are parsed as ordinary good texts (their AST is built here as well). The check runs all of them
through `bloc_parse_expression` and `bloc_parse_executable`: a disagreement is a finding or a slip of Typing.lean. -/

/-- What an operator spelling denotes. `matches` has no `BinOp` (the interpreter model does not evaluate it);
its operand check is `acceptMatch` below. -/
inductive OpK
  | bin (op : BinOp) | mat | un (op : UnOp)
  deriving DecidableEq, Repr, Inhabited

/-- tokenizer.lex (`**` `<<` `>>` `==` `!=` `<>` `<=` `>=` `&&` `||`), the single characters and the keywords
`Operator::OPVALS` compared in parse_expression.cpp (`power`, `matches`, `and`, `or`, `xor`). -/
def binSpellings : List (String × OpK) := [
  ("+", .bin .add), ("-", .bin .sub), ("*", .bin .mul), ("/", .bin .div), ("%", .bin .mod),
  ("**", .bin .exp), ("power", .bin .exp), ("<<", .bin .pop), (">>", .bin .pus),
  ("&", .bin .and), ("|", .bin .ior), ("^", .bin .xor),
  ("==", .bin .eq), ("!=", .bin .ne), ("<>", .bin .ne), ("<", .bin .lt), ("<=", .bin .le), (">", .bin .gt), (">=", .bin .ge),
  ("matches", .mat),
  ("and", .bin .band), ("&&", .bin .band), ("or", .bin .bior), ("||", .bin .bior), ("xor", .bin .bxor) ]

/-- `ParseExpression::primary`: `!` `not` `~` `-` `+`. -/
def unSpellings : List (String × OpK) := [
  ("!", .un .bnot), ("not", .un .bnot), ("~", .un .not), ("-", .un .neg), ("+", .un .pos) ]

/-- `relation()`: `new OpMATCHExpression(assertType(result, LITERAL, …, false), assertType(bitlogic(), LITERAL, …))`. -/
def acceptMatch (t1 t2 : Ty) : Bool := typeChecking t2 Ty.str && typeChecking t1 Ty.str

inductive OForm
  | lit | var | paren | call | memb
  deriving DecidableEq, Repr, Inhabited

inductive OTy
  | int | str | bool
  deriving DecidableEq, Repr, Inhabited

def OTy.ty : OTy → Ty
  | .int => Ty.int | .str => Ty.str | .bool => Ty.bool

def OForm.all : List OForm := [.lit, .var, .paren, .call, .memb]
def OTy.all : List OTy := [.int, .str, .bool]

/-- The variables of the `var` form (names reserved for these texts), with the types they are declared with. -/
def opVars : List (String × Ty) := [("V_I9", Ty.int), ("V_S9", Ty.str), ("V_B9", Ty.bool)]

def opVarName : OTy → String
  | .int => "V_I9" | .str => "V_S9" | .bool => "V_B9"

private def sB (s : String) : Bytes := s.toUTF8.toList

/-- An operand: BLOC source and AST. The static type of the AST is computed by `typeOfExpr` (`OpCase.lty`,
`OpCase.rty`); that it is the intended one is `C15.atom_static_type`. -/
def atom : OForm → OTy → String × Expr
  | .lit, .int => ("1", .lit (.int 1))
  | .lit, .str => ("\"a\"", .lit (.str (sB "a")))
  | .lit, .bool => ("true", .lit (.bool true))
  | .var, .int => ("v_i9", .var "V_I9")
  | .var, .str => ("v_s9", .var "V_S9")
  | .var, .bool => ("v_b9", .var "V_B9")
  | .paren, .int => ("(1 + 2)", .bin .add (.lit (.int 1)) (.lit (.int 2)))
  | .paren, .str => ("(\"a\" + \"b\")", .bin .add (.lit (.str (sB "a"))) (.lit (.str (sB "b"))))
  | .paren, .bool => ("(1 < 2)", .bin .lt (.lit (.int 1)) (.lit (.int 2)))
  | .call, .int => ("strlen(\"ab\")", .call "strlen" [.lit (.str (sB "ab"))])
  | .call, .str => ("upper(\"a\")", .call "upper" [.lit (.str (sB "a"))])
  | .call, .bool => ("isnull(1)", .call "isnull" [.lit (.int 1)])
  | .memb, .int => ("\"ab\".count()", .member .count (.lit (.str (sB "ab"))) [])
  | .memb, .str => ("\"ab\".concat(\"c\")", .member .concat (.lit (.str (sB "ab"))) [.lit (.str (sB "c"))])
  | .memb, .bool => ("tab(2, true).at(0)", .member .at (.call "tab" [.lit (.int 2), .lit (.bool true)]) [.lit (.int 0)])

structure OpCase where
  spell : String
  k : OpK
  form : OForm
  /-- left operand (unused by a unary operator) -/
  tl : OTy
  tr : OTy
  deriving Repr, Inhabited

def OpCase.unary (oc : OpCase) : Bool := match oc.k with | .un _ => true | _ => false

def atomTy (f : OForm) (t : OTy) : Ty := typeOfExpr [] opVars 100 (atom f t).2

/-- static types of the operands, as the parser computes them (`exp->type(ctx)`) -/
def OpCase.lty (oc : OpCase) : Ty := atomTy oc.form oc.tl
def OpCase.rty (oc : OpCase) : Ty := atomTy oc.form oc.tr

/-- The verdict of the typing model on the operand types. -/
def OpCase.accepted (oc : OpCase) : Bool :=
  match oc.k with
  | .bin op => acceptBin op oc.lty oc.rty
  | .mat => acceptMatch oc.lty oc.rty
  | .un op => acceptUn op oc.rty

/-- Is one side ill-typed on its own, i.e. against an operand of opaque type on the other side? (`+` and the
order relations check the right operand against the type of the left one: no side is ill-typed on its own.) -/
def OpCase.leftBad (oc : OpCase) : Bool :=
  match oc.k with
  | .bin op => !acceptBin op oc.lty Ty.none
  | .mat => !acceptMatch oc.lty Ty.none
  | .un _ => false

def OpCase.rightBad (oc : OpCase) : Bool :=
  match oc.k with
  | .bin op => !acceptBin op Ty.none oc.rty
  | .mat => !acceptMatch Ty.none oc.rty
  | .un op => !acceptUn op oc.rty

/-- `L op R` / `op R`, one blank around the operator. -/
def OpCase.body (oc : OpCase) : String :=
  if oc.unary then oc.spell ++ " " ++ (atom oc.form oc.tr).1
  else (atom oc.form oc.tl).1 ++ " " ++ oc.spell ++ " " ++ (atom oc.form oc.tr).1

def OpCase.ast (oc : OpCase) : Option Expr :=
  match oc.k with
  | .bin op => some (.bin op (atom oc.form oc.tl).2 (atom oc.form oc.tr).2)
  | .un op => some (.un op (atom oc.form oc.tr).2)
  | .mat => none

/-- the variables the text reads -/
def OpCase.vars (oc : OpCase) : List (String × Ty) :=
  if oc.form != .var then []
  else if oc.unary || oc.tl == oc.tr then [(opVarName oc.tr, oc.tr.ty)]
  else [(opVarName oc.tl, oc.tl.ty), (opVarName oc.tr, oc.tr.ty)]

/-- text for `bloc_parse_expression` (the terminating newline is required) -/
def OpCase.exprSrc (oc : OpCase) : String := oc.body ++ "\n"

/-- the declarations a program text of the `var` form starts with (its own first line) -/
def opVarDecls : String := "v_i9 = 1; v_s9 = \"a\"; v_b9 = true;\n"
def opVarDeclStmts : List Stmt :=
  [.letS "V_I9" (.lit (.int 1)), .letS "V_S9" (.lit (.str (sB "a"))), .letS "V_B9" (.lit (.bool true))]

/-- text for `bloc_parse_executable`: self-contained, the `var` form declares its variables first -/
def OpCase.progSrc (oc : OpCase) : String :=
  (if oc.form == .var then opVarDecls else "") ++ "q9 = " ++ oc.body ++ ";"

def OpCase.prog (oc : OpCase) : Option (List Stmt) :=
  oc.ast.map fun e => (if oc.form == .var then opVarDeclStmts else []) ++ [.letS "Q9" e]

/-- (line, column) of the LAST character of a text, both 1-based: the type error of an operator is reported at
the token that follows the right operand (`p.front()` in `assertType`), which in `q9 = L op R;` is the final `;`. -/
def endPos (src : String) : Nat × Nat :=
  let pre := src.toList.dropLast
  (1 + (pre.filter (· == '\n')).length, 1 + (pre.reverse.takeWhile (· != '\n')).length)

/-- (line, column) of the character of a text that has `n` characters behind it (`endPos src = posBack src 0`). -/
def posBack (src : String) (n : Nat) : Nat × Nat :=
  let pre := src.toList.take (src.toList.length - 1 - n)
  (1 + (pre.filter (· == '\n')).length, 1 + (pre.reverse.takeWhile (· != '\n')).length)

/-- Offset, inside an operand text, of the character its FIRST token is positioned at: the first character, except for
a string literal, which the parser assembles from the scanner's begin / text / end pieces and stamps with the position
of the closing quote (parser.cpp, `case TOKEN_LITERALEND: t = new Token(TOKEN_LITERALSTR, …, _position.lno, _position.pno)`). -/
def firstTokOff (r : String) : Nat :=
  match r.toList with
  | '"' :: rest => 1 + (rest.takeWhile (· != '"')).length
  | _ => 0

/-- Where the type error of `q9 = L op R;` is reported (`p.front()` when `assertType` throws). The operators that check
their left operand on its own (`assertType(result, T, …, false)`: all but `+`, the relations and the unary ones) check it
BEFORE the right operand is parsed: a left operand that is ill-typed on its own is reported at the first token of the
right operand (`firstTokOff`); every other type error after the right operand, at the final `;`. -/
def OpCase.errPos (oc : OpCase) : Nat × Nat :=
  if oc.leftBad then posBack oc.progSrc ((atom oc.form oc.tr).1.length - firstTokOff (atom oc.form oc.tr).1) else endPos oc.progSrc

def OpCase.badExpr (oc : OpCase) : BadText :=
  { src := oc.exprSrc, code := Gen.EXC_PARSE_TYPE_MISMATCH_S, needSyms := oc.vars, leftFirst := oc.leftBad }

def OpCase.badProg (oc : OpCase) : BadText :=
  { src := oc.progSrc, code := Gen.EXC_PARSE_TYPE_MISMATCH_S, line := oc.errPos.1, col := oc.errPos.2,
    newSyms := if oc.form == .var then opVars else [] }

/-- All operator cases: every binary spelling × form × (left type, right type), every unary spelling × form × type. -/
def opCases : List OpCase :=
  (binSpellings.flatMap fun (sp, k) => OForm.all.flatMap fun f => OTy.all.flatMap fun tl => OTy.all.map fun tr =>
    ({ spell := sp, k := k, form := f, tl := tl, tr := tr } : OpCase)) ++
  (unSpellings.flatMap fun (sp, k) => OForm.all.flatMap fun f => OTy.all.map fun tr =>
    ({ spell := sp, k := k, form := f, tl := .int, tr := tr } : OpCase))

def OpCase.rejected (oc : OpCase) : Bool := !oc.accepted

def genBadExprs : List BadText := (opCases.filter OpCase.rejected).map OpCase.badExpr
def genBadProgs : List BadText := (opCases.filter OpCase.rejected).map OpCase.badProg

/-- The catalogs of rejected texts: the hand-written entries, then the operator texts the typing model rejects. -/
def badProgs : List BadText := handBadProgs ++ genBadProgs
def badExprs : List BadText := handBadExprs ++ genBadExprs

/-- Catalog index of the i-th operator case when it is rejected: the hand-written entries come first, then the
rejected operator cases in the order of `opCases`. -/
def opBadIndex (nhand i : Nat) : Nat := nhand + (opCases.take i).countP OpCase.rejected

inductive ProgText
  | good (p : List Stmt)
  | bad (k : Nat)
  deriving Inhabited

inductive ExprText
  | good (e : Expr)
  | bad (k : Nat)
  deriving Inhabited

/-- The text the check sends for the i-th operator case to `bloc_parse_expression`: a catalog entry when the typing
model rejects the operand types, else the AST (`none`: accepted `matches`, which has no AST). -/
def opExprText (i : Nat) : Option ExprText :=
  match opCases[i]? with
  | some oc => if oc.rejected then some (.bad (opBadIndex handBadExprs.length i)) else oc.ast.map .good
  | none => none

def opProgText (i : Nat) : Option ProgText :=
  match opCases[i]? with
  | some oc => if oc.rejected then some (.bad (opBadIndex handBadProgs.length i)) else oc.prog.map .good
  | none => none

def symTyOf (x : Ctx) (n : String) : Option Ty := (x.syms.find? (·.name == n)).map (·.ty)

/-- The variables of a rejected expression text are looked up in the order the parser meets them: one that is not
registered ends the parse with `EXC_PARSE_UNDEFINED_SYMBOL_S` (`VariableExpression::parse`); one registered at another
type than the entry was generated for makes the verdict not this entry's (`none`: unmodelled); when all are as
generated the entry's code is raised. -/
def needWalk (x : Ctx) (code : Nat) : List (String × Ty) → Option Nat
  | [] => some code
  | p :: ps => match symTyOf x p.1 with
    | none => some Gen.EXC_PARSE_UNDEFINED_SYMBOL_S
    | some t => if t == p.2 then needWalk x code ps else none

/-- The error a rejected expression text raises in context `x`. With `leftFirst` the check of the left operand throws
before the right operand is parsed: only the left operand's variable is looked up. -/
def BadText.codeIn (bt : BadText) (x : Ctx) : Option Nat :=
  needWalk x bt.code (if bt.leftFirst then bt.needSyms.take 1 else bt.needSyms)

/-! ## operations and results -/

inductive Op
  | cnew (c : Nat) | cclone (c d k : Nat) | cfree (c : Nat) | cpurge (c : Nat) | cpwm (c : Nat)
  | reg (c s : Nat) (name : String) (major : Major) (ndim : Nat)
  | find (c s : Nat) (name : String)
  | store (c s v : Nat) (forget : Bool) | load (c s v : Nat)
  | vnull (v : Nat) (m : Major) | vbool (v : Nat) (b : Bool) | vint (v : Nat) (i : Int64)
  | vnum (v : Nat) (d : UInt64) | vlit (v : Nat) (s : Option Bytes) | vraw (v : Nat) (s : Option Bytes)
  | vimag (v : Nat) (a b : UInt64)
  | vfree (v : Nat)
  | alit (v : Nat) (s : Option Bytes) | araw (v : Nat) (s : Option Bytes) | anull (v : Nat)
  | vdump (v : Nat)
  | acc (v : Nat) (k : Acc)
  | tabitem (v idx w : Nat) | tupitem (v idx w : Nat)
  | eparse (c e : Nat) (t : ExprText) | efree (e : Nat) | etype (c e : Nat) | eval (c e v : Nat)
  | xparse (c x : Nat) (t : ProgText) (pos : Bool) | xfree (x : Nat)
  | exec (x : Nat) | exec2 (c x : Nat)
  | drop (c v : Nat) | brk (c : Nat) | rst (c : Nat) | out (c : Nat)
  deriving Inhabited

/-- The documented result of one call. -/
inductive Res1
  | pre                               -- precondition of the handle state machine violated: nothing is called
  | unit                              -- a void call, or a non-NULL expression / executable / context
  | sym (k : Nat)                     -- non-NULL `bloc_symbol*`; k = lowest host slot holding the same pointer
  | null                              -- NULL
  | nullAt (l c : Nat)                -- NULL and `*pos = {l, c}`
  | truth (b : Bool)                  -- a `bloc_bool`
  | val (v : Val)                     -- a non-NULL `bloc_value*` denoting v
  | assigned (b : Bool) (v : Val)     -- result of an assign call and what the value holds afterwards
  | acc (dataNull : Bool) (v : Val)   -- accessor succeeded; data pointer NULL? ; the data
  | dataNull                          -- table / tuple accessor succeeded with NULL data
  | item (n : Nat) (v : Option Val)   -- size n; the item (none: index out of range, `bloc_false`)
  | ty (t : Ty)
  | out (b : Bytes)
  | hazard (h : Hazard)
  | unmodelled
  deriving Inhabited

structure Out where
  /-- library-owned pointers of the context read again just before the call: (host slot, value) -/
  reread : List (Nat × Val) := []
  res : Res1
  /-- `some code`: the call reported failure (NULL / `bloc_false`) by raising error `code` -/
  fail : Option Nat := none
  deriving Inhabited

def Out.pre : Out := { res := .pre }
def Out.of (r : Res1) : Out := { res := r }

/-! ## helpers -/

def getCtx (s : State) (c : Nat) : Option Ctx :=
  match s.ctxs[c]? with
  | some x => if x.live then some x else none
  | none => none

def setCtx (s : State) (c : Nat) (x : Ctx) : State := { s with ctxs := s.ctxs.set c x }

/-- Install `x` as context c at a NEW epoch. -/
def bump (s : State) (c : Nat) (x : Ctx) : State :=
  { s with ctxs := s.ctxs.set c { x with epoch := s.clock }, clock := s.clock + 1 }

def setErr (s : State) (code : Nat) : State := { s with err := { code := code, msg := true } }
def razErr (s : State) : State := { s with err := {} }

def refLive (s : State) (r : VRef) : Bool :=
  match r.kind with
  | .boxItem => true
  | _ => match getCtx s r.ctx with
    | some x => x.epoch == r.epoch
    | none => false

/-- The live content of host value slot v. -/
def liveSlot (s : State) (v : Nat) : Option VSlot :=
  match s.vals[v]? with
  | some (.box b) => some (.box b)
  | some (.ref r) => if refLive s r then some (.ref r) else none
  | _ => none

/-- A slot that does not hold a caller-owned value may receive a new pointer. -/
def valFree (s : State) (v : Nat) : Bool :=
  match s.vals[v]? with
  | some (.box _) => false
  | some _ => true
  | none => false

def Val.item? : Val → Nat → Option Val
  | .tab _ _ es, i => es[i]?
  | .tup _ is, i => is[i]?
  | _, _ => none

def Val.atPath (v : Val) : List Nat → Option Val
  | [] => some v
  | i :: r => match Val.item? v i with
    | some w => Val.atPath w r
    | none => none

def readRoot (s : State) : Root → Option Val
  | .box i => match s.vals[i]? with
    | some (.box v) => some v
    | _ => none
  | .slot c id => match getCtx s c with
    | some x => x.vals[id]?
    | none => none
  | .snap v => some v

def readRef (s : State) (r : VRef) : Option Val :=
  match readRoot s r.root with
  | some v => Val.atPath v r.path
  | none => none

def readSlot (s : State) (v : Nat) : Option Val :=
  match liveSlot s v with
  | some (.box b) => some b
  | some (.ref r) => readRef s r
  | _ => none

def isLibKind (k : VKind) : Bool := k != .boxItem

/-- The library-owned pointers of context c the host still holds, with what they denote. -/
def libRefsOf (s : State) (c : Nat) : List (Nat × Val) :=
  (List.range s.vals.length).filterMap fun (i : Nat) =>
    match (s.vals[i]? : Option VSlot) with
    | some (.ref r) =>
      if isLibKind r.kind && r.ctx == c && refLive s r then (readRef s r).map fun v => (i, v) else none
    | _ => none

def killWhere (s : State) (p : VRef → Bool) : State :=
  { s with vals := s.vals.map fun sl => match sl with
      | .ref r => if p r then .empty else .ref r
      | x => x }

def killBoxItems (s : State) (i : Nat) : State :=
  killWhere s fun r => r.kind == .boxItem && (match r.root with | .box j => j == i | _ => false)

/-- A host write (store / assign) into context c ends the item pointers of c — the old payload is released — and
the evaluation results of c as well: an operator may hand back one of its operands (e.g. `-(-d1)` with `d1` null
returns `d1`'s own cell), so an evaluation result can alias a variable slot. -/
def killCtxItems (s : State) (c : Nat) : State :=
  killWhere s fun r => (r.kind == .item || r.kind == .eval) && r.ctx == c

def killExprVals (s : State) (e : Nat) : State :=
  killWhere s fun r => (r.kind == .eval || r.kind == .item) && r.expr == some e

def setVal (s : State) (v : Nat) (x : VSlot) : State := { s with vals := s.vals.set v x }

def symLive (s : State) (sh : Nat) (c : Nat) : Option (Ctx × Nat) :=
  match s.syms[sh]?, getCtx s c with
  | some (some h), some x => if h.ctx == c && h.gen == x.gen then some (x, h.id) else none
  | _, _ => none

/-- Canonical identity of a symbol pointer: the lowest host slot holding the same pointer. -/
def symIdent (s : State) (c gen id self : Nat) : Nat :=
  match (List.range s.syms.length).find? (fun (i : Nat) => match (s.syms[i]? : Option (Option SymH)) with
      | some (some h) => h.ctx == c && h.gen == gen && h.id == id
      | _ => false) with
  | some i => i
  | none => self

def dropSymsOf (s : State) (c : Nat) : State :=
  { s with syms := s.syms.map fun h => match h with
      | some x => if x.ctx == c then none else some x
      | none => none }

/-- `Symbol::check_safety`. -/
inductive Safety | ko | equ | upg
  deriving DecidableEq, Repr

def checkSafety (symTy ty : Ty) : Safety :=
  if ty == symTy then .equ
  else if symTy.level > 0 then (if ty.level > 0 then .upg else .ko)
  else if ty.level == 0 then (if symTy.major == ty.major then .upg else .ko)
  else .ko

def findSym (x : Ctx) (name : String) : Option Nat := x.syms.findIdx? (·.name == name)

def isSafetyName (name : String) : Bool := name.front == '$'

/-- `Context::parsingEnd`: upgraded symbols get their former type back, most recent first. -/
def restoreBacked (x : Ctx) : Ctx :=
  { x with
    syms := x.backed.reverse.foldl (fun ss (p : Nat × Ty) => match ss[p.1]? with
      | some sy => ss.set p.1 { sy with ty := p.2 }
      | none => ss) x.syms,
    backed := [] }

def addSyms (x : Ctx) (news : List (String × Ty)) : Ctx :=
  news.foldl (fun (x : Ctx) (p : String × Ty) =>
    if x.syms.any (·.name == p.1) then x
    else { x with syms := x.syms ++ [{ name := p.1, ty := p.2, safety := isSafetyName p.1 }], vals := x.vals ++ [Val.null p.2] }) x

/-- Function table after compiling `prog` in a context that already has `fs` (`createOrReplace`). -/
def funcsAfter (fs : List Func) (prog : List Stmt) : List Func :=
  prog.foldl (fun fs st => match st with
    | .funcS n ps rt b c =>
      let f0 : Func := { name := n, params := ps, ret := rt, body := b, catches := c }
      let fs0 := addFunc fs f0
      let tab0 : SymTab := ps.map fun (pn, pt) => (pn, pt, pt)
      let tab := declCatches fs0 1000 (declList fs0 1000 tab0 b) c
      addFunc fs { f0 with decls := tab.first }
    | _ => fs) fs

/-- `Parser::parse` of a text that compiles: new functions, new symbols (first registration type,
typed null value); upgrades of existing symbols are rolled back by `parsingEnd`. -/
def compileInto (x : Ctx) (prog : List Stmt) : Ctx :=
  let fs := funcsAfter x.funcs prog
  let tab0 : SymTab := x.syms.map fun sy => (sy.name, sy.ty, sy.ty)
  let tab := declList fs 1000 tab0 (prog.filter fun st => match st with | .funcS .. => false | _ => true)
  restoreBacked (addSyms { x with funcs := fs } tab.first)

def ctxVars (x : Ctx) : List (String × Val) := (x.syms.map (·.name)).zip x.vals

def fuel : Nat := 100000

/-- Write the interpreter's variables back into the slots; a symbol whose value changed type was
upgraded by `storeVariable`. -/
def writeBack (x : Ctx) (vars : List (String × Val)) : Ctx :=
  let x1 := addSyms x (vars.map fun (n, v) => (n, v.type))
  let newVals := x1.syms.map fun sy => lookupVar vars sy.name
  { x1 with
    syms := (x1.syms.zip (x1.vals.zip newVals)).map fun (sy, old, new) =>
      if old.type == new.type then sy else { sy with ty := new.type },
    vals := newVals }

def appendSink (s : State) (k : Nat) (b : Bytes) : State :=
  match s.sinks[k]? with
  | some old => { s with sinks := s.sinks.set k (old ++ b) }
  | none => s

/-- `bloc_assign_literal` / `bloc_assign_tabchar` on a value holding `t`. -/
def assignTo (m : Major) (mk : Bytes → Val) (t : Val) (data : Option Bytes) : Bool × Val :=
  if t.type.level != 0 then (false, t)
  else if t.type.major == m || t.type.major == .none then
    match data with
    | none => (true, .null { major := m })
    | some b => (true, mk b)
  else (false, t)

def cstr (b : Bytes) : Bytes := b.takeWhile (· != 0)

/-! ## the calls -/

def opCnew (s : State) (c : Nat) : State × Out :=
  match s.ctxs[c]? with
  | some x =>
    if x.live then (s, .pre) else
    let n : Ctx := { live := true, epoch := s.clock, gen := s.clock, sink := s.sinks.length }
    ({ s with ctxs := s.ctxs.set c n, clock := s.clock + 1, sinks := s.sinks ++ [[]] }, .of .unit)
  | none => (s, .pre)

def opCclone (s : State) (c d k : Nat) : State × Out :=
  match getCtx s c, s.ctxs[d]? with
  | some x, some y =>
    if y.live || !(k == 1 || k == 2) then (s, .pre) else
    let n : Ctx := { live := true, epoch := s.clock, gen := s.clock, syms := x.syms, vals := x.vals, funcs := x.funcs,
                     sink := if k == 1 then x.sink else s.sinks.length,
                     cloneSrc := some (c, x.gen), cloneStamp := s.clock, cloneGen := s.clock }
    ({ s with ctxs := s.ctxs.set d n, clock := s.clock + 1, sinks := if k == 1 then s.sinks else s.sinks ++ [[]] }, .of .unit)
  | _, _ => (s, .pre)

def opCfree (s : State) (c : Nat) : State × Out :=
  match getCtx s c with
  | some _ =>
    let rr := libRefsOf s c
    (dropSymsOf (bump s c {}) c, { reread := rr, res := .unit })
  | none => (s, .pre)

def purged (x : Ctx) (gen : Nat) : Ctx :=
  { x with syms := [], vals := [], backed := [], funcs := [], returned := none, stop := false, gen := gen }

def opCpurge (s : State) (c : Nat) : State × Out :=
  match getCtx s c with
  | some x =>
    let rr := libRefsOf s c
    (dropSymsOf (bump s c (purged x s.clock)) c, { reread := rr, res := .unit })
  | none => (s, .pre)

def opCpwm (s : State) (c : Nat) : State × Out :=
  match getCtx s c with
  | some x => (bump s c x, { reread := libRefsOf s c, res := .unit })
  | none => (s, .pre)

/-- `Context::registerSymbol(name, Type(major, 0, ndim))`: (new context, symbol id) or a parse error code. -/
def registerSym (x : Ctx) (name : String) (ty : Ty) : Ctx × Except Nat Nat :=
  match findSym x name with
  | none =>
    ({ x with syms := x.syms ++ [{ name := name, ty := ty, safety := isSafetyName name }], vals := x.vals ++ [Val.null ty] },
     .ok x.syms.length)
  | some id =>
    match x.syms[id]? with
    | none => (x, .ok id)
    | some sy =>
      if ty == sy.ty then (x, .ok id)
      else
        let upgraded : Ctx := { x with syms := x.syms.set id { sy with ty := ty }, backed := x.backed ++ [(id, sy.ty)] }
        if sy.safety then
          match checkSafety sy.ty ty with
          | .ko => (x, .error Gen.EXC_PARSE_TYPE_MISMATCH_S)
          | .equ => (x, .ok id)
          | .upg => (upgraded, .ok id)
        else (upgraded, .ok id)

def opReg (s : State) (c sh : Nat) (name : String) (major : Major) (ndim : Nat) : State × Out :=
  match getCtx s c with
  | some x =>
    if sh ≥ s.syms.length || name == "" then (s, .pre) else
    let rr := libRefsOf s c
    match registerSym x name { major := major, minor := 0, level := ndim } with
    | (x', .ok id) =>
      let s1 := bump s c x'
      let s2 := { s1 with syms := s1.syms.set sh (some { ctx := c, gen := x.gen, id := id }) }
      (s2, { reread := rr, res := .sym (symIdent s2 c x.gen id sh) })
    | (x', .error code) =>
      let s1 := setErr (bump s c x') code
      ({ s1 with syms := s1.syms.set sh none }, { reread := rr, res := .null, fail := some code })
  | none => (s, .pre)

def opFind (s : State) (c sh : Nat) (name : String) : State × Out :=
  match getCtx s c with
  | some x =>
    if sh ≥ s.syms.length || name == "" then (s, .pre) else
    match findSym x name with
    | some id =>
      let s2 := { s with syms := s.syms.set sh (some { ctx := c, gen := x.gen, id := id }) }
      (s2, .of (.sym (symIdent s2 c x.gen id sh)))
    | none => ({ s with syms := s.syms.set sh none }, .of .null)
  | none => (s, .pre)

/-- `Context::storeVariable(id, std::move(*v))` for a caller-owned (non-lvalue) `v`: the new slot
value and symbol, or the runtime error code. The payload MOVES: afterwards the caller's value is
a null of the same type — for every type, also boolean / integer / decimal. -/
def storeInto (x : Ctx) (id : Nat) (v : Val) : Except Nat Ctx :=
  match x.syms[id]?, x.vals[id]? with
  | some sy, some old =>
    if old.type == v.type then .ok { x with vals := x.vals.set id v }
    else if sy.safety && checkSafety sy.ty v.type == .ko then .error Gen.EXC_RT_TYPE_MISMATCH_S
    else .ok { x with syms := x.syms.set id { sy with ty := v.type }, vals := x.vals.set id v }
  | _, _ => .ok x

/-- Witness-only variant of forgetting: the host keeps its item pointers into context c; they now dangle. -/
def staleCtxItems (s : State) (c : Nat) : State :=
  { s with vals := s.vals.map fun sl => match sl with
      | .ref r => if r.kind == .item && r.ctx == c then .ref { r with stale := true } else .ref r
      | x => x }

def opStore (s : State) (c sh v : Nat) (forget : Bool) : State × Out :=
  match symLive s sh c, s.vals[v]? with
  | some (x, id), some (.box b) =>
    match storeInto x id b with
    | .ok x' =>
      let s1 := setCtx s c x'
      let s2 := if forget then killCtxItems (killBoxItems s1 v) c else staleCtxItems (killBoxItems s1 v) c
      (setVal s2 v (.box (.null b.type)), .of (.truth true))
    | .error code => (setErr s code, { res := .truth false, fail := some code })
  | _, _ => (s, .pre)

def opLoad (s : State) (c sh w : Nat) : State × Out :=
  match symLive s sh c with
  | some (x, id) =>
    if !valFree s w then (s, .pre) else
    match x.vals[id]? with
    | some v => (setVal s w (.ref { root := .slot c id, kind := .load, ctx := c, epoch := x.epoch }), .of (.val v))
    | none => (s, .of .unmodelled)
  | none => (s, .pre)

def opCreate (s : State) (v : Nat) (val : Val) : State × Out :=
  if !valFree s v then (s, .pre) else (setVal s v (.box val), .of (.val val))

def opVfree (s : State) (v : Nat) : State × Out :=
  match s.vals[v]? with
  | some (.box _) => (setVal (killBoxItems s v) v .empty, .of .unit)
  | _ => (s, .pre)

/-- Common part of assign_literal / assign_tabchar / assign_null: `f` maps the held value to the
call's result and the new value. Allowed on caller-owned values and on pointers from
`bloc_ctx_load_variable`. -/
def opAssign (s : State) (v : Nat) (f : Val → Option Bool × Val) : State × Out :=
  match liveSlot s v with
  | some (.box b) =>
    let (r, nv) := f b
    (setVal (killBoxItems s v) v (.box nv), .of (.assigned (r.getD true) nv))
  | some (.ref r) =>
    if r.kind != .load then (s, .pre) else
    match r.root with
    | .slot c id =>
      match getCtx s c with
      | some x =>
        match x.vals[id]? with
        | some old =>
          let (res, nv) := f old
          (setCtx (killCtxItems s c) c { x with vals := x.vals.set id nv }, .of (.assigned (res.getD true) nv))
        | none => (s, .of .unmodelled)
      | none => (s, .pre)
    | _ => (s, .pre)
  | _ => (s, .pre)

def assignNull (t : Val) : Option Bool × Val := (none, if t.isNull then t else .null t.type)

def isStale (s : State) (v : Nat) : Bool :=
  match liveSlot s v with
  | some (.ref r) => r.stale
  | _ => false

def opVdump (s : State) (v : Nat) : State × Out :=
  if isStale s v then (s, .of (.hazard .oob)) else
  match readSlot s v with
  | some x => (s, .of (.val x))
  | none => (s, .pre)

def opAcc (s : State) (v : Nat) (k : Acc) : State × Out :=
  match readSlot s v with
  | some x =>
    match accessor k x with
    | .ok dn => (s, .of (.acc dn x))
    | .fail code => (setErr s code, { res := .truth false, fail := some code })
  | none => (s, .pre)

def childRef (s : State) (v idx : Nat) : Option VRef :=
  match liveSlot s v with
  | some (.box _) => some { root := .box v, path := [idx], kind := .boxItem }
  | some (.ref r) => some { r with path := r.path ++ [idx], kind := if r.kind == .boxItem then .boxItem else .item }
  | _ => none

def opItem (s : State) (k : Acc) (v idx w : Nat) : State × Out :=
  match readSlot s v, childRef s v idx with
  | some x, some cr =>
    if !valFree s w || w == v then (s, .pre) else
    if !k.matches x.type then (setErr s k.failCode, { res := .truth false, fail := some k.failCode })
    else if x.isNull then (s, .of .dataNull)
    else
      let n := match x with
        | .tab _ _ es => es.length
        | .tup _ is => is.length
        | _ => 0
      match Val.item? x idx with
      | some it => (setVal s w (.ref cr), .of (.item n (some it)))
      | none => (s, .of (.item n none))
  | _, _ => (s, .pre)

def exprUsable (s : State) (e c : Nat) : Option (Ctx × ExprH) :=
  match s.exprs[e]?, getCtx s c with
  | some (some h), some x => if h.ctx == c && h.gen == x.gen then some (x, h) else none
  | _, _ => none

def opEparse (s : State) (c e : Nat) (t : ExprText) : State × Out :=
  match getCtx s c, s.exprs[e]? with
  | some x, some none =>
    let rr := libRefsOf s c
    let s1 := razErr (bump s c x)
    match t with
    | .good ex => ({ s1 with exprs := s1.exprs.set e (some { ctx := c, gen := x.gen, e := ex }) }, { reread := rr, res := .unit })
    | .bad k =>
      match badExprs[k]? with
      | some bt =>
        match bt.codeIn x with
        | some code => (setErr s1 code, { reread := rr, res := .null, fail := some code })
        | none => (s1, { reread := rr, res := .unmodelled })
      | none => (s, .pre)
  | _, _ => (s, .pre)

def opEfree (s : State) (e : Nat) : State × Out :=
  match s.exprs[e]? with
  | some (some _) =>
    let s1 := killExprVals s e
    ({ s1 with exprs := s1.exprs.set e none }, .of .unit)
  | _ => (s, .pre)

def opEtype (s : State) (c e : Nat) : State × Out :=
  match exprUsable s e c with
  | some (x, h) => (s, .of (.ty (typeOfExpr x.funcs ((ctxVars x).map fun (n, v) => (n, v.type)) 100 h.e)))
  | none => (s, .pre)

def opEval (s : State) (c e w : Nat) : State × Out :=
  match exprUsable s e c with
  | some (x, h) =>
    if !valFree s w then (s, .pre) else
    let rr := libRefsOf s c
    let st0 : St := { vars := ctxVars x, returned := x.returned, out := [], budget := 300000 }
    let (r, st) := eval x.funcs 0 fuel h.e st0
    let s1 := appendSink (bump s c x) x.sink st.output
    match r with
    | .ok v =>
      let root : Root := match h.e with
        | .var n => (match findSym x n with | some id => .slot c id | none => .snap v)
        | _ => .snap v
      (setVal s1 w (.ref { root := root, kind := .eval, ctx := c, epoch := s.clock, expr := some e }), { reread := rr, res := .val v })
    | .err code _ =>
      if code == oofCode then (s1, { reread := rr, res := .unmodelled })
      else (setErr s1 code, { reread := rr, res := .null, fail := some code })
    | .haz hz => (s1, { reread := rr, res := .hazard hz })
    | .unmodelled => (s1, { reread := rr, res := .unmodelled })
  | none => (s, .pre)

def opXparse (s : State) (c xi : Nat) (t : ProgText) (pos : Bool) : State × Out :=
  match getCtx s c, s.execs[xi]? with
  | some x, some none =>
    let rr := libRefsOf s c
    match t with
    | .good prog =>
      let s1 := razErr (bump s c (compileInto x prog))
      ({ s1 with execs := s1.execs.set xi (some { ctx := c, gen := x.gen, stamp := s.clock, prog := prog }) }, { reread := rr, res := .unit })
    | .bad k =>
      match badProgs[k]? with
      | some bt =>
        let s1 := setErr (bump s c (restoreBacked (addSyms x bt.newSyms))) bt.code
        (s1, { reread := rr, res := if pos then .nullAt bt.line bt.col else .null, fail := some bt.code })
      | none => (s, .pre)
  | _, _ => (s, .pre)

def opXfree (s : State) (xi : Nat) : State × Out :=
  match s.execs[xi]? with
  | some (some _) => ({ s with execs := s.execs.set xi none }, .of .unit)
  | _ => (s, .pre)

def execUsable (s : State) (xi : Nat) : Option ExecH :=
  match s.execs[xi]? with
  | some (some h) => match getCtx s h.ctx with
    | some x => if h.gen == x.gen then some h else none
    | none => none
  | _ => none

/-- `Executable::run(ctx, statements)` behind `bloc_execute` / `bloc_execute2`. -/
def runIn (s : State) (c : Nat) (x : Ctx) (prog : List Stmt) : State × Out :=
  let rr := libRefsOf s c
  if x.stop then (bump s c x, { reread := rr, res := .truth true }) else
  let st0 : St := { vars := ctxVars x, returned := x.returned, out := [], budget := 300000 }
  let (r, st) := execList x.funcs 0 fuel prog st0
  let x1 := { writeBack x st.vars with returned := st.returned }
  let s1 := fun (x' : Ctx) => appendSink (bump s c x') x.sink st.output
  match r with
  | .ok fl => (s1 { x1 with stop := fl == .ret }, { reread := rr, res := .truth true })
  | .err code _ =>
    if code == oofCode then (s1 x1, { reread := rr, res := .unmodelled })
    else (setErr (s1 x1) code, { reread := rr, res := .truth false, fail := some code })
  | .haz hz => (s1 x1, { reread := rr, res := .hazard hz })
  | .unmodelled => (s1 x1, { reread := rr, res := .unmodelled })

def opExec (s : State) (xi : Nat) : State × Out :=
  match execUsable s xi with
  | some h => match getCtx s h.ctx with
    | some x => runIn s h.ctx x h.prog
    | none => (s, .pre)
  | none => (s, .pre)

/-- `bloc_execute2(ctx, exec)`: documented precondition — ctx is a clone of the parsing context
(taken after the parse, not purged since). -/
def opExec2 (s : State) (c xi : Nat) : State × Out :=
  match getCtx s c, execUsable s xi with
  | some x, some h =>
    if x.cloneSrc == some (h.ctx, h.gen) && x.cloneStamp > h.stamp && x.cloneGen == x.gen then runIn s c x h.prog
    else (s, .pre)
  | _, _ => (s, .pre)

def opDrop (s : State) (c w : Nat) : State × Out :=
  match getCtx s c with
  | some x =>
    if !valFree s w then (s, .pre) else
    match x.returned with
    | some v => (setVal (setCtx s c { x with returned := none }) w (.box v), .of (.val v))
    | none => (s, .of .null)
  | none => (s, .pre)

def opStop (s : State) (c : Nat) (b : Bool) : State × Out :=
  match getCtx s c with
  | some x => (setCtx s c { x with stop := b }, .of .unit)
  | none => (s, .pre)

def opOut (s : State) (c : Nat) : State × Out :=
  match getCtx s c with
  | some x => match s.sinks[x.sink]? with
    | some b => ({ s with sinks := s.sinks.set x.sink [] }, .of (.out b))
    | none => (s, .of (.out []))
  | none => (s, .pre)

/-- One API call. -/
def step (s : State) : Op → State × Out
  | .cnew c => opCnew s c
  | .cclone c d k => opCclone s c d k
  | .cfree c => opCfree s c
  | .cpurge c => opCpurge s c
  | .cpwm c => opCpwm s c
  | .reg c sh name major ndim => opReg s c sh name major ndim
  | .find c sh name => opFind s c sh name
  | .store c sh v f => opStore s c sh v f
  | .load c sh w => opLoad s c sh w
  | .vnull v m => opCreate s v (.null { major := m })
  | .vbool v b => opCreate s v (.bool b)
  | .vint v i => opCreate s v (.int i)
  | .vnum v d => opCreate s v (.num d)
  | .vlit v d => opCreate s v (match d with | none => .null Ty.str | some b => .str (cstr b))
  | .vraw v d => opCreate s v (match d with | none => .null Ty.raw | some b => .raw b)
  | .vimag v a b => opCreate s v (.imag a b)
  | .vfree v => opVfree s v
  | .alit v d => opAssign s v fun t => let (ok, nv) := assignTo .str (fun b => .str (cstr b)) t d; (some ok, nv)
  | .araw v d => opAssign s v fun t => let (ok, nv) := assignTo .raw (fun b => .raw b) t d; (some ok, nv)
  | .anull v => opAssign s v assignNull
  | .vdump v => opVdump s v
  | .acc v k => opAcc s v k
  | .tabitem v idx w => opItem s .t v idx w
  | .tupitem v idx w => opItem s .u v idx w
  | .eparse c e t => opEparse s c e t
  | .efree e => opEfree s e
  | .etype c e => opEtype s c e
  | .eval c e w => opEval s c e w
  | .xparse c x t p => opXparse s c x t p
  | .xfree x => opXfree s x
  | .exec x => opExec s x
  | .exec2 c x => opExec2 s c x
  | .drop c w => opDrop s c w
  | .brk c => opStop s c true
  | .rst c => opStop s c false
  | .out c => opOut s c

/-- A whole call sequence from the initial state: the final state and every call's result. -/
def runSeq (s : State) : List Op → State × List Out
  | [] => (s, [])
  | o :: os =>
    let (s1, r) := step s o
    let (s2, rs) := runSeq s1 os
    (s2, r :: rs)


/-! ## C15R5 — values that travel between contexts: `bloc_ctx_store_variable` with a pointer the host does not own as a box

`bloc_ctx_store_variable(ctx, sym, v)` does `storeVariable(id, std::move(*v))` whatever `v` points to. `Context::storeVariable`
(context.cpp) decides by the LVALUE flag of the source value: a variable's own cell (every `MemorySlot::value` of every
context — original or clone — carries the flag; this is what `bloc_ctx_load_variable` hands out) is COPIED
(`e.clone()`; nothing at all when it is the target cell itself); any other value — an element of a table, an item of a
tuple (`bloc_array_item` / `bloc_tuple_item` return the element's address), a caller-owned box — is MOVED: the source keeps
its type and becomes null. The extension is a call of its own (`XOp.rstore`), outside `Op`, so that every theorem about
`step` stands as it is; `stepX` / `runSeqX` run mixed sequences. -/

/-- replace the value at `path` below `v` -/
def Val.setPath : Val → List Nat → Val → Val
  | _, [], new => new
  | .tab t d es, i :: r, new => (match es[i]? with
    | some w => .tab t d (es.set i (Val.setPath w r new))
    | none => .tab t d es)
  | .tup d is, i :: r, new => (match is[i]? with
    | some w => .tup d (is.set i (Val.setPath w r new))
    | none => .tup d is)
  | v, _ :: _, _ => v

/-- Is the cell a reference designates a variable's own cell (LVALUE: copied by a store) — else an element / item (moved)? -/
def refIsVarCell (r : VRef) : Bool :=
  r.path.isEmpty && (match r.root with | .slot _ _ => true | _ => false)

/-- the source is an element / item below the target variable itself (not modelled) -/
def aliasesTarget (r : VRef) (c id : Nat) : Bool :=
  !refIsVarCell r && (match r.root with | .slot a i => a == c && i == id | _ => false)

/-- The source cell after its payload was moved out: null of the same type. -/
def moveOut (s : State) (r : VRef) (b : Val) : State :=
  match r.root with
  | .box i => (match s.vals[i]? with
    | some (.box v) => killBoxItems (setVal s i (.box (Val.setPath v r.path (.null b.type)))) i
    | _ => s)
  | .slot a id => (match s.ctxs[a]? with
    | some xa => (match xa.vals[id]? with
      | some v => killCtxItems (setCtx s a { xa with vals := xa.vals.set id (Val.setPath v r.path (.null b.type)) }) a
      | none => s)
    | none => s)
  | .snap _ => s

/-- `bloc_ctx_store_variable(c, sym, v)` where host slot `v` holds a library-owned pointer from `bloc_ctx_load_variable`
or an item pointer (into a context or into a caller-owned box). Evaluation results are excluded (`pre`): they may alias
anything. Storing an item of the target variable into that same variable is not modelled. -/
def opRstore (s : State) (c sh v : Nat) : State × Out :=
  match symLive s sh c, liveSlot s v with
  | some (x, id), some (.ref r) =>
    if r.kind == .eval then (s, .pre) else
    match readRef s r with
    | some b =>
      if aliasesTarget r c id then (s, .of .unmodelled) else
      match storeInto x id b with
      | .ok x' =>
        let s1 := killCtxItems (setCtx s c x') c
        (if refIsVarCell r then s1 else moveOut s1 r b, .of (.truth true))
      | .error code => (setErr s code, { res := .truth false, fail := some code })
    | none => (s, .pre)
  | _, _ => (s, .pre)

inductive XOp
  | base (o : Op)
  | rstore (c sh v : Nat)
  deriving Inhabited

def stepX (s : State) : XOp → State × Out
  | .base o => step s o
  | .rstore c sh v => opRstore s c sh v

def runSeqX (s : State) : List XOp → State × List Out
  | [] => (s, [])
  | o :: os =>
    let (s1, r) := stepX s o
    let (s2, rs) := runSeqX s1 os
    (s2, r :: rs)

end BlocV.CApi
