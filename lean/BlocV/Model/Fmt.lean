/-
  Model — `snprintf(buf, 32, "%.16g", d)` (Value::readableNumeric), in exact rational arithmetic.

  glibc converts the exact binary value to decimal with correct rounding (round-half-even in the
  default rounding mode). `%g` with precision P = 16: let X be the decimal exponent of the value
  rounded to 16 significant digits; style `e` is used iff X < −4 or X ≥ 16, otherwise style `f`
  with 15 − X fractional digits; trailing zeros (and a trailing '.') are removed.
-/
import BlocV.Model.Num

namespace BlocV.Fmt
open BlocV BlocV.Num

def str (s : String) : Bytes := s.toUTF8.toList

def digitsOf : Nat → Nat → List UInt8
  | 0, _ => []
  | fuel + 1, n => if n < 10 then [UInt8.ofNat (48 + n)] else digitsOf fuel (n / 10) ++ [UInt8.ofNat (48 + n % 10)]

def natStr (n : Nat) : Bytes := digitsOf 400 n

/-- round-half-even of the rational `num / den` (den > 0). -/
def roundHalfEven (num den : Nat) : Nat :=
  let q := num / den
  let r := num % den
  if 2 * r < den then q else if 2 * r > den then q + 1 else if q % 2 == 0 then q else q + 1

/-- `num/den` scaled by `10^k` for an integer `k` (possibly negative), rounded half-even. -/
def scaledRound (num den : Nat) (k : Int) : Nat :=
  if k ≥ 0 then roundHalfEven (num * 10 ^ k.toNat) den else roundHalfEven num (den * 10 ^ (-k).toNat)

/-- Decimal exponent estimate: the largest X with 10^X ≤ num/den, found by search from a bound. -/
def floorLog10 (num den : Nat) : Int :=
  -- num/den > 0. Start from the digit-count difference and adjust.
  let a : Int := (natStr num).length
  let b : Int := (natStr den).length
  let x0 : Int := a - b          -- 10^(x0-1) < num/den < 10^(x0+1)
  let ge (x : Int) : Bool := if x ≥ 0 then num ≥ den * 10 ^ x.toNat else num * 10 ^ (-x).toNat ≥ den
  if ge x0 then x0 else x0 - 1

def stripZeros (ds : Bytes) : Bytes := (ds.reverse.dropWhile (· == 48)).reverse

def padLeft (n : Nat) (ds : Bytes) : Bytes := List.replicate (n - ds.length) 48 ++ ds

/-- `%.16g` of the finite positive rational `num/den`. -/
def fmtPos (num den : Nat) : Bytes :=
  let x := floorLog10 num den
  -- 16 significant digits
  let d0 := scaledRound num den (15 - x)
  let (d, x) := if d0 ≥ 10 ^ 16 then (d0 / 10, x + 1) else (d0, x)
  let ds := padLeft 16 (natStr d)        -- exactly 16 digits
  if x < -4 || x ≥ 16 then
    let frac := stripZeros (ds.drop 1)
    let mant := if frac.isEmpty then ds.take 1 else ds.take 1 ++ [46] ++ frac
    let ex := natStr x.natAbs
    mant ++ [101, if x < 0 then 45 else 43] ++ (if ex.length < 2 then 48 :: ex else ex)
  else if x ≥ 0 then
    let ip := ds.take (x.toNat + 1)
    let frac := stripZeros (ds.drop (x.toNat + 1))
    if frac.isEmpty then ip else ip ++ [46] ++ frac
  else
    let frac := stripZeros (List.replicate ((-x).toNat - 1) 48 ++ ds)
    [48, 46] ++ frac

/-- `%.16g` of a double given by its bit pattern. -/
def fmt16g (b : F64) : Bytes :=
  let sgn : Bytes := if sign b then [45] else []
  if isNaN b then sgn ++ str "nan"
  else if isInf b then sgn ++ str "inf"
  else
    let (m, e) := decodeMag b
    if m == 0 then sgn ++ [48]
    else if e ≥ 0 then sgn ++ fmtPos (m * 2 ^ e.toNat) 1
    else sgn ++ fmtPos m (2 ^ (-e).toNat)

end BlocV.Fmt
