/-
  Model — the built-in functions' `value()` methods (blocc/builtin/builtin_*.cpp), string/bytes/
  conversion family (property C10) plus `int`. Arguments are thunks because the C++ evaluates
  `_args[k]->value(ctx)` lazily, in the order written in each method.

  Hazards modelled (each is a place where the C++ performs an undefined or foreign-exception
  operation): `Integer(double)` casts of out-of-range decimals (floatToInt), signed `int64_t` index
  arithmetic (`sadd`/`ssub`: signedOverflow when the C operation overflows), typed-null operands
  dereferenced without a null test (nullDeref). After the `fix:` commits e2c4824 (substr/subraw: a
  position still negative after adding the length selects nothing), cbe22cc (hex: pad count clamped
  to 16 before the digit loop), fde74fa (abs wraps) and eec6e8e (pow(integer, integer) exact modulo
  2^64) none of the signed operations below can overflow any more: Proofs/C10.lean
  (`text_builtins_no_hazard`, `substr_contract`, `hex_contract`, `abs_contract`, `pow_exact`).
-/
import BlocV.Model.Ops
import BlocV.Model.Strtod

namespace BlocV
open Num

/-- Built-ins run in any monad `m` into which `Res` lifts: `Res` itself for the value-level theorems
and the driver's `bi` command, the interpreter's state monad (Model/Interp.lean) for programs, where
forcing an argument thunk may print, call functions or fail. -/
abbrev Thunk (m : Type → Type) := m Val

section
variable {m : Type → Type} [Monad m] [MonadLiftT Res m]

def liftR {α} (r : Res α) : m α := liftM r

def argTypeErr {α} : m α := liftR (.err Gen.EXC_RT_FUNC_ARG_TYPE_S)
def rerr {α} (code : Nat) : m α := liftR (.err code)

/-- `Value::toInteger(d)`: truncation toward zero when the value is representable (−2^63 ≤ d < 2^63),
the error OUT_OF_RANGE otherwise (NaN, ±inf, beyond the range) — the range-checked conversion every
built-in and member uses for a decimal position, count or element. -/
def castToInt (d : F64) : Res Int64 :=
  match truncInt d with
  | some z => if -2 ^ 63 ≤ z ∧ z < 2 ^ 63 then .ok (Int64.ofInt z) else .err Gen.EXC_RT_OUT_OF_RANGE
  | none => .err Gen.EXC_RT_OUT_OF_RANGE

/-- `int64 + int64` / `int64 - int64` as C signed arithmetic: undefined on overflow. -/
def sadd (a b : Int64) : Res Int64 :=
  let z := a.toInt + b.toInt
  if -2 ^ 63 ≤ z ∧ z < 2 ^ 63 then .ok (a + b) else .haz .signedOverflow
def ssub (a b : Int64) : Res Int64 :=
  let z := a.toInt - b.toInt
  if -2 ^ 63 ≤ z ∧ z < 2 ^ 63 then .ok (a - b) else .haz .signedOverflow

def imin (a b : Int64) : Int64 := if b < a then b else a
def imax (a b : Int64) : Int64 := if a < b then b else a
def lenI (s : Bytes) : Int64 := Int64.ofNat s.length

/-- Outcome of reading a position/count argument in the substr family:
`retVal` = "return the first argument unchanged". -/
inductive PosArg
  | retVal
  | pos (i : Int64)

/-- The `switch (a1.type().major())` that reads an integer position: NO_TYPE → return val; INTEGER /
NUMERIC null → return val; NUMERIC → cast; anything else → FUNC_ARG_TYPE. -/
def readPos (a : Val) : Res PosArg :=
  match a.type.major with
  | .none => .ok .retVal
  | .int => if a.isNull then .ok .retVal else do let i ← a.asInt; pure (.pos i)
  | .num => if a.isNull then .ok .retVal else do let d ← a.asNum; let i ← castToInt d; pure (.pos i)
  | _ => argTypeErr

def sliceBytes (s : Bytes) (a b : Int64) : Bytes := (s.drop a.toNatClampNeg).take b.toNatClampNeg

/-- The index arithmetic of `substr`/`subraw` after `if (c == 0) return val;`, as builtin_substr.cpp /
builtin_subraw.cpp write it on `int64_t` (signed C operations: `sadd`/`ssub`):
    a = (a < 0 ? a + c : a);
    b = (a < 0 ? 0 : std::max<int64_t>(std::min(b, c - a), 0L));
A position that is still negative after adding the length selects nothing, and `c - a` is then not
computed at all (it overflowed for a = INT64_MIN before commit e2c4824). Returns the adjusted (a, b). -/
def substrRange (c a0 b : Int64) : Res (Int64 × Int64) := do
  let a ← if a0 < 0 then sadd a0 c else pure a0
  if a < 0 then pure (a, 0)
  else do
    let d ← ssub c a
    pure (a, imax (imin b d) 0)

/-- Shared body of `substr` (strings) and `subraw` (bytes). `mk` rebuilds the value, `get` is the
typed accessor, `nullTy` the type of the result for an untyped-null first argument. -/
def substrLike (major : Major) (nullTy : Ty) (get : Val → Res Bytes) (mk : Bytes → Val)
    (args : List (Thunk m)) : m Val := do
  match args with
  | t0 :: t1 :: rest =>
    let val ← t0
    if val.type.major == .none then return .null nullTy
    if val.type.major != major then argTypeErr else
    let a1 ← t1
    match ← readPos a1 with
    | .retVal => return val
    | .pos a0 =>
      if val.isNull then return val
      let s ← get val
      let c := lenI s
      let mut b := c
      match rest with
      | t2 :: _ =>
        let a2 ← t2
        match ← readPos a2 with
        | .retVal => return val
        | .pos b0 => b := b0
      | [] => pure ()
      if c == 0 then return val
      let ab ← liftR (substrRange c a0 b)
      if ab.1 ≥ 0 && ab.2 > 0 then return mk (sliceBytes s ab.1 ab.2) else return mk []
  | _ => argTypeErr

def biSubstr (args : List (Thunk m)) : m Val := substrLike .str Ty.str Val.asStr Val.str args
def biSubraw (args : List (Thunk m)) : m Val := substrLike .raw Ty.raw Val.asRaw Val.raw args

/-- `lsubstr` / `rsubstr`. -/
def lrSubstr (left : Bool) (args : List (Thunk m)) : m Val := do
  match args with
  | t0 :: t1 :: _ =>
    let val ← t0
    if val.type.major == .none then return .null Ty.str
    if val.type.major != .str then argTypeErr else
    let a1 ← t1
    match ← readPos a1 with
    | .retVal => return val
    | .pos b =>
      if val.isNull then return val
      let s ← val.asStr
      let c := lenI s
      if c == 0 then return val
      let a := imax (imin b c) 0
      if left then return .str (s.take a.toNatClampNeg)
      else return .str (s.drop (c - a).toNatClampNeg)
  | _ => argTypeErr

/-- `std::string::find(needle, from)`: first index ≥ from at which needle occurs (npos = none). -/
def findFrom (hay needle : Bytes) (from_ : Nat) : Option Nat :=
  if from_ > hay.length then none else
  let rec go (fuel : Nat) (i : Nat) : Option Nat :=
    match fuel with
    | 0 => none
    | fuel + 1 =>
      if i + needle.length > hay.length then none
      else if (hay.drop i).take needle.length == needle then some i
      else go fuel (i + 1)
  go (hay.length + 1) from_

def biStrpos (args : List (Thunk m)) : m Val := do
  match args with
  | t0 :: t1 :: rest =>
    let val ← t0
    let a1 ← t1
    match val.type.major with
    | .none => return .null Ty.int
    | .str =>
      if val.isNull || a1.isNull then return .null Ty.int
      let mut s : Int64 := 0
      match rest with
      | t2 :: _ =>
        let a2 ← t2
        match a2.type.major with
        | .none => return .null Ty.int
        | .int => if !a2.isNull then s ← a2.asInt
        | .num => if !a2.isNull then do let d ← a2.asNum; s ← castToInt d
        | _ => argTypeErr
        if s < 0 then rerr Gen.EXC_RT_INDEX_RANGE_S else pure ()
      | [] => pure ()
      let hay ← val.asStr
      let needle ← a1.asStr
      match findFrom hay needle s.toNatClampNeg with
      | some p => return .int (Int64.ofNat p)
      | none => return .null Ty.int
    | _ => argTypeErr
  | _ => argTypeErr

/-- The replacement loop of `builtin_replace.cpp` for a non-empty needle. -/
def replaceLoop (hay needle repl : Bytes) : Nat → Nat → Bytes → Bytes
  | 0, _, acc => acc
  | fuel + 1, p, acc =>
    if p ≥ hay.length then acc
    else match findFrom hay needle p with
      | some e => replaceLoop hay needle repl fuel (e + needle.length) (acc ++ (hay.drop p).take (e - p) ++ repl)
      | none => acc ++ hay.drop p

def biReplace (args : List (Thunk m)) : m Val := do
  match args with
  | t0 :: t1 :: t2 :: _ =>
    let val ← t0
    let a1 ← t1
    match val.type.major with
    | .none => return .null Ty.str
    | .str =>
      match a1.type.major with
      | .none => return val
      | .str => if a1.isNull then return val else pure ()
      | _ => argTypeErr
      if val.isNull then return val
      let a2 ← t2
      match a2.type.major with
      | .none | .str => pure ()
      | _ => argTypeErr
      let hay ← val.asStr
      let needle ← a1.asStr
      if needle.isEmpty then return val
      let repl ← if a2.isNull then pure [] else a2.asStr
      return .str (replaceLoop hay needle repl (hay.length + 1) 0 [])
    | _ => argTypeErr
  | _ => argTypeErr

def dropWhileSp (s : Bytes) : Bytes := s.dropWhile (· == 32)
def rtrimSp (s : Bytes) : Bytes := (s.reverse.dropWhile (· == 32)).reverse

/-- One-string-argument functions: NO_TYPE → null string; null string → itself. -/
def strMap (f : Bytes → Bytes) (args : List (Thunk m)) : m Val := do
  match args with
  | t0 :: _ =>
    let val ← t0
    match val.type.major with
    | .none => return .null Ty.str
    | .str => if val.isNull then return val else do let s ← val.asStr; return .str (f s)
    | _ => argTypeErr
  | _ => argTypeErr

/-- `::toupper` / `::tolower` in the "C" locale, applied to each `char`. -/
def upperByte (c : UInt8) : UInt8 := if 97 ≤ c ∧ c ≤ 122 then c - 32 else c
def lowerByte (c : UInt8) : UInt8 := if 65 ≤ c ∧ c ≤ 90 then c + 32 else c

def biStrlen (args : List (Thunk m)) : m Val := do
  match args with
  | t0 :: _ =>
    let val ← t0
    match val.type.major with
    | .none => return .null Ty.int
    | .str => if val.isNull then return .null Ty.int else do let s ← val.asStr; return .int (lenI s)
    | _ => argTypeErr
  | _ => argTypeErr

/-- `TOKENIZEExpression::tokenize`. -/
def tokenizeLoop (sep : Bytes) (trim : Bool) : Nat → Bytes → Bytes → List Bytes → List Bytes
  | 0, _, tok, acc => if !trim || !tok.isEmpty then acc ++ [tok] else acc
  | fuel + 1, rest, tok, acc =>
    match rest with
    | [] => if !trim || !tok.isEmpty then acc ++ [tok] else acc
    | c :: rs =>
      if !sep.isEmpty && rest.take sep.length == sep then
        if !trim || !tok.isEmpty then tokenizeLoop sep trim fuel (rest.drop sep.length) [] (acc ++ [tok])
        else tokenizeLoop sep trim fuel (rest.drop sep.length) tok acc
      else tokenizeLoop sep trim fuel rs (tok ++ [c]) acc

def tokenize (s sep : Bytes) (trim : Bool) : List Bytes :=
  if s.isEmpty then [] else tokenizeLoop sep trim (s.length + 1) s [] []

def tabStrTy : Ty := { major := .str, level := 1 }

def biTokenize (args : List (Thunk m)) : m Val := do
  match args with
  | t0 :: t1 :: rest =>
    let val ← t0
    match val.type.major with
    | .none => return .null tabStrTy
    | .str =>
      let a1 ← t1
      let sep ← match a1.type.major with
        | .none => pure []
        | .str => if a1.isNull then pure [] else a1.asStr
        | _ => argTypeErr
      let mut trim := false
      match rest with
      | t2 :: _ =>
        let a2 ← t2
        if !a2.isNull then trim ← a2.asBool
      | [] => pure ()
      if val.isNull then return .null tabStrTy
      let s ← val.asStr
      return .tab tabStrTy [] ((tokenize s sep trim).map Val.str)
    | _ => argTypeErr
  | _ => argTypeErr

/-- `HEXExpression::hex(val, n)`: `n` is first clamped to 16 (`if (n > 16) n = 16;`, commit cbe22cc),
then 15 upper nibbles are printed once a non-zero nibble was seen or the running `n` reached 16, then
the lowest nibble. `n += 1` is a signed C addition (`sadd`); after the clamp it stays ≤ 31. -/
def hexDigitB (c : UInt64) : UInt8 := if c < 10 then (48 + c).toUInt8 else (87 + c).toUInt8

def hexLoop (v : Int64) : Nat → Int64 → Int64 → Bytes → Res Bytes
  | 0, _, _, acc => .ok (acc ++ [hexDigitB (v.toUInt64 &&& 0xf)])
  | k + 1, n, s, acc =>
    -- d = 4 * (k + 1); arithmetic right shift of a signed value, then & 0xf
    let c : UInt64 := (v >>> (Int64.ofNat (4 * (k + 1)))).toUInt64 &&& 0xf
    let s' := s + c.toInt64
    let acc' := if s' != 0 || n ≥ 16 then acc ++ [hexDigitB c] else acc
    match sadd n 1 with
    | .ok n' => hexLoop v k n' s' acc'
    | .err c a => .err c a
    | .haz h => .haz h
    | .unmodelled => .unmodelled

/-- `if (n > Integer(sizeof(buf))) n = Integer(sizeof(buf));` -/
def hexClamp (n : Int64) : Int64 := if n > 16 then 16 else n

/-- `HEXExpression::hex(val, n)` as a whole. -/
def hexStr (v n : Int64) : Res Bytes := hexLoop v 15 (hexClamp n) 0 []

def biHex (args : List (Thunk m)) : m Val := do
  match args with
  | t0 :: rest =>
    let arg0 ← t0
    if arg0.isNull then return .null Ty.str
    let mut n : Int64 := 0
    match rest with
    | t1 :: _ =>
      let arg1 ← t1
      if !arg1.isNull then
        match arg1.type.major with
        | .int => n ← arg1.asInt
        | .num => do let d ← arg1.asNum; n ← castToInt d
        | _ => argTypeErr
    | [] => pure ()
    let v ← match arg0.type.major with
      | .int => arg0.asInt
      | .num => do let d ← arg0.asNum; castToInt d
      | _ => argTypeErr
    let s ← hexStr v n
    return .str s
  | _ => argTypeErr

/-- DJB hash over `char` (signed on this platform): `h = h*33 + (int)c`, 32-bit wrap. -/
def djb32 (s : Bytes) : UInt32 :=
  s.foldl (fun h c => ((h <<< 5) + h) + (if c < 128 then c.toUInt32 else c.toUInt32 + 0xffffff00)) 5381

def biHash (args : List (Thunk m)) : m Val := do
  match args with
  | t0 :: rest =>
    let val ← t0
    let mut maxSize : UInt32 := 0xffffffff
    match rest with
    | t1 :: _ =>
      let a1 ← t1
      match a1.type.major with
      | .none => pure ()
      | .int =>
        if !a1.isNull then
          let i ← a1.asInt
          if i < 1 || i > 4294967295 then rerr Gen.EXC_RT_OUT_OF_RANGE else maxSize := i.toUInt64.toUInt32
      | .num =>
        if !a1.isNull then
          let d ← a1.asNum
          -- !(d >= 1.0 && d <= 4294967295.0) → OUT_OF_RANGE; then (uint32_t)d truncates
          if !(fle 0x3ff0000000000000 d && fle d 0x41efffffffe00000) then rerr Gen.EXC_RT_OUT_OF_RANGE
          else do let i ← castToInt d; maxSize := i.toUInt64.toUInt32
      | _ => argTypeErr
    | [] => pure ()
    match val.type.major with
    | .none => return .null Ty.int
    | .str => if val.isNull then return .null Ty.int else do
        let s ← val.asStr; return .int (djb32 s % maxSize).toUInt64.toInt64
    | .raw => if val.isNull then return .null Ty.int else do
        let s ← val.asRaw; return .int (djb32 s % maxSize).toUInt64.toInt64
    | _ => argTypeErr
  | _ => argTypeErr

def biChr (args : List (Thunk m)) : m Val := do
  match args with
  | t0 :: _ =>
    let val ← t0
    match val.type.major with
    | .none => return .null Ty.str
    | .int =>
      if val.isNull then return .null Ty.str
      let c ← val.asInt
      if c < 0 || c > 255 then rerr Gen.EXC_RT_OUT_OF_RANGE else return .str [c.toUInt64.toUInt8]
    | .num =>
      if val.isNull then return .null Ty.str
      let d ← val.asNum
      -- !(c >= 0.0 && c < 256.0) → OUT_OF_RANGE
      if !(fle 0 d && flt d 0x4070000000000000) then rerr Gen.EXC_RT_OUT_OF_RANGE
      else do let i ← castToInt d; return .str [i.toUInt64.toUInt8]
    | _ => argTypeErr
  | _ => argTypeErr

def biRaw (args : List (Thunk m)) : m Val := do
  match args with
  | [] => return .null Ty.raw
  | t0 :: rest =>
    let val ← t0
    if val.isNull then return .null Ty.raw
    let n ← match val.type.major with
      | .str => do let s ← val.asStr; return .raw s
      | .int => val.asInt
      | .num => do let d ← val.asNum; castToInt d
      | .raw => return val
      | _ => argTypeErr
    if n < 0 then rerr Gen.EXC_RT_INDEX_RANGE_S else
    let mut v : Int64 := 0
    match rest with
    | t1 :: _ =>
      let a1 ← t1
      if !a1.isNull then
        match a1.type.major with
        | .int => v ← a1.asInt
        | .num => do let d ← a1.asNum; v ← castToInt d
        | _ => argTypeErr
      if v < 0 || v > 255 then rerr Gen.EXC_RT_OUT_OF_RANGE else pure ()
    | [] => pure ()
    return .raw (List.replicate n.toNatClampNeg v.toUInt64.toUInt8)

/-! ### abs / pow (blocc/builtin/builtin_abs.cpp, builtin_pow.cpp) -/

/-- `abs(x)`. INTEGER: `l < 0 ? Integer(0 - uint64_t(l)) : l` — computed in `uint64_t`, so INT64_MIN
wraps to itself exactly as the unary minus does (`Num.ineg`; commit fde74fa, before: signed `-l`).
NUMERIC: `std::abs(double)` clears the sign bit (NaN stays NaN: canonical pattern). An untyped null
gives a null decimal, a typed null is returned as it is. IMAGINARY is not modelled. -/
def biAbs (args : List (Thunk m)) : m Val := do
  match args with
  | t0 :: _ =>
    let val ← t0
    match val.type.major with
    | .none => return .null Ty.num
    | .int => if val.isNull then return val else do
        let l ← val.asInt
        return .int (if l < 0 then ineg l else l)
    | .num => if val.isNull then return val else do
        let d ← val.asNum
        return .num (bits (f d).abs)
    | .imag => if val.isNull then return val else liftR .unmodelled
    | _ => argTypeErr
  | _ => argTypeErr

/-- `pow(x, y)`: both arguments are evaluated first, then the nested `switch` on the two majors — the
same cells as the `**` operator (Model/Ops.lean `arith` with `Num.ipow`), but no level test and the
error of a foreign operand is FUNC_ARG_TYPE. INTEGER × INTEGER is the exact power modulo 2^64
(`Num.ipow`: square-and-multiply in `uint64_t`; a negative exponent gives 1/(b**−n) truncated, and
DIVIDE_BY_ZERO for base 0) since commit eec6e8e (before: through `std::pow` on doubles and an undefined
conversion back). Mixed and decimal cells go through `std::pow(double, double)` (`Num.fpow`); cells with
an imaginary operand are not modelled. -/
def biPow (args : List (Thunk m)) : m Val := do
  match args with
  | t0 :: t1 :: _ =>
    let a1 ← t0
    let a2 ← t1
    match a1.type.major, a2.type.major with
    | .none, .none => return .null Ty.num
    | .none, .int | .none, .num | .none, .imag => return .null a2.type
    | .int, .none => return .null Ty.int
    | .num, .none => return .null Ty.num
    | .imag, .none => return .null Ty.imag
    | .int, .int =>
      if a2.isNull || a1.isNull then return .null Ty.int else do
        let x ← a1.asInt; let y ← a2.asInt; let r ← ipow x y; return .int r
    | .int, .num =>
      if a2.isNull || a1.isNull then return .null Ty.num else do
        let x ← a1.asInt; let y ← a2.asNum; return .num (fpow (bits x.toFloat) y)
    | .num, .int =>
      if a2.isNull || a1.isNull then return .null Ty.num else do
        let x ← a1.asNum; let y ← a2.asInt; return .num (fpow x (bits y.toFloat))
    | .num, .num =>
      if a2.isNull || a1.isNull then return .null Ty.num else do
        let x ← a1.asNum; let y ← a2.asNum; return .num (fpow x y)
    | .int, .imag | .num, .imag | .imag, .int | .imag, .num | .imag, .imag =>
      if a2.isNull || a1.isNull then return .null Ty.imag else liftR .unmodelled
    | _, _ => argTypeErr
  | _ => argTypeErr

/-! ### integer / decimal text -/

def natDigits : Nat → Nat → List UInt8
  | 0, _ => []
  | fuel + 1, n => if n < 10 then [UInt8.ofNat (48 + n)] else natDigits fuel (n / 10) ++ [UInt8.ofNat (48 + n % 10)]

/-- `std::to_string(int64_t)`. -/
def intToString (i : Int64) : Bytes :=
  let z := i.toInt
  if z < 0 then 45 :: natDigits 20 z.natAbs else natDigits 20 z.natAbs

def isSpaceC (c : UInt8) : Bool := c == 32 || (9 ≤ c && c ≤ 13)
def isDigitC (c : UInt8) : Bool := 48 ≤ c && c ≤ 57

def hexValC (c : UInt8) : Option Nat :=
  if 48 ≤ c && c ≤ 57 then some (c.toNat - 48)
  else if 97 ≤ c && c ≤ 102 then some (c.toNat - 87)
  else if 65 ≤ c && c ≤ 70 then some (c.toNat - 55) else none

/-- Result of a `strtol`-style scan: no digits (invalid_argument), out of range, or a value. -/
inductive Scan
  | invalid | range | val (z : Int)

/-- `std::stoll(s)` (base 10): skip whitespace, optional sign, digits; at least one digit. -/
def stoll (s : Bytes) : Scan :=
  let s1 := s.dropWhile isSpaceC
  let (neg, s2) := match s1 with
    | 45 :: r => (true, r)
    | 43 :: r => (false, r)
    | r => (false, r)
  let ds := s2.takeWhile isDigitC
  if ds.isEmpty then .invalid else
  let n : Nat := ds.foldl (fun a c => a * 10 + (c.toNat - 48)) 0
  let z : Int := if neg then -(n : Int) else n
  if z < -2 ^ 63 ∨ z ≥ 2 ^ 63 then .range else .val z

/-- `std::stoull(s, nullptr, 16)`: whitespace, optional sign, optional 0x/0X, hex digits; a negative
sign negates modulo 2^64 (strtoull semantics); overflow → out_of_range. -/
def stoull16 (s : Bytes) : Scan :=
  let s1 := s.dropWhile isSpaceC
  let (neg, s2) := match s1 with
    | 45 :: r => (true, r)
    | 43 :: r => (false, r)
    | r => (false, r)
  let s3 := match s2 with
    | 48 :: x :: r => if (x == 120 || x == 88) && (r.head?.bind hexValC).isSome then r else s2
    | r => r
  let ds := s3.takeWhile (fun c => (hexValC c).isSome)
  if ds.isEmpty then .invalid else
  let n : Nat := ds.foldl (fun a c => a * 16 + (hexValC c).getD 0) 0
  if n ≥ 2 ^ 64 then .range else .val (if neg then ((2 ^ 64 - n) % 2 ^ 64 : Nat) else n)

/-- The prefix test of `builtin_int.cpp` deciding between hexadecimal and decimal conversion:
`while (isspace(*it) || *it == '+' || *it == '-') ++it; if (*it == '0' && ++it != end && (*it == 'x' || *it == 'X'))`.
The iterator may reach `end()`, where libstdc++ reads the terminating NUL. -/
def looksHex (s : Bytes) : Bool :=
  match s.dropWhile (fun c => isSpaceC c || c == 43 || c == 45) with
  | 48 :: x :: _ => x == 120 || x == 88
  | _ => false

def biInt (args : List (Thunk m)) : m Val := do
  match args with
  | [] => return .null Ty.int
  | t0 :: _ =>
    let val ← t0
    if val.isNull then return .null Ty.int
    match val.type.major with
    | .str =>
      let s ← val.asStr
      if looksHex s then
        match stoull16 s with
        | .invalid => rerr Gen.EXC_RT_STRING_TO_NUM
        | .range => rerr Gen.EXC_RT_OUT_OF_RANGE
        | .val z => return .int (Int64.ofInt z)
      else match stoll s with
        | .invalid => rerr Gen.EXC_RT_STRING_TO_NUM
        | .range => rerr Gen.EXC_RT_OUT_OF_RANGE
        | .val z => return .int (Int64.ofInt z)
    | .raw =>
      let s ← val.asRaw
      match stoll s with
      | .invalid => rerr Gen.EXC_RT_STRING_TO_NUM
      | .range => rerr Gen.EXC_RT_OUT_OF_RANGE
      | .val z => return .int (Int64.ofInt z)
    | .num => do let d ← val.asNum; let i ← intOfDecimal d; return .int i
    | .int => return val
    | .imag => liftR .unmodelled
    | .bool => do let b ← val.asBool; return .int (if b then 1 else 0)
    | _ => argTypeErr

/-! ### Base64 (blocc/builtin/base64.cpp) -/

def b64chars : List UInt8 :=
  "ABCDEFGHIJKLMNOPQRSTUVWXYZabcdefghijklmnopqrstuvwxyz0123456789+/".toUTF8.toList

def b64char (n : Nat) : UInt8 := b64chars.getD (n % 64) 0

/-- `B64index[256]`: '+' ',' '-' '.' '/' map to 62 63 62 62 63, '_' to 63; everything else not in
the alphabet maps to 0. -/
def b64index (c : UInt8) : Nat :=
  if 65 ≤ c && c ≤ 90 then c.toNat - 65
  else if 97 ≤ c && c ≤ 122 then c.toNat - 71
  else if 48 ≤ c && c ≤ 57 then c.toNat + 4
  else if c == 43 then 62 else if c == 44 then 63 else if c == 45 then 62 else if c == 46 then 62
  else if c == 47 then 63 else if c == 95 then 63 else 0

def b64encode : Bytes → Bytes
  | a :: b :: c :: rest =>
    let n := a.toNat * 65536 + b.toNat * 256 + c.toNat
    b64char (n / 262144) :: b64char (n / 4096) :: b64char (n / 64) :: b64char n :: b64encode rest
  | [a, b] =>
    let n := a.toNat * 256 + b.toNat
    [b64char (n / 1024), b64char (n / 16), b64char (n * 4), 61]
  | [a] => [b64char (a.toNat / 4), b64char (a.toNat * 16), 61, 61]
  | [] => []

/-- Full 4-character groups of the decoder's main loop. -/
def b64decodeGroups : Nat → Bytes → Bytes
  | 0, _ => []
  | k + 1, a :: b :: c :: d :: rest =>
    let n := b64index a * 262144 + b64index b * 4096 + b64index c * 64 + b64index d
    UInt8.ofNat (n / 65536) :: UInt8.ofNat (n / 256) :: UInt8.ofNat n :: b64decodeGroups k rest
  | _, _ => []

def b64decode (p : Bytes) : Bytes :=
  let len := p.length
  if len == 0 then [] else
  let pad1 : Bool := len % 4 != 0 || p.getLast? == some 61
  let pad2 : Bool := pad1 && (len % 4 > 2 || (len % 4 == 0 && (p.drop (len - 2)).head? != some 61))
  let last := (len - (if pad1 then 1 else 0)) / 4 * 4
  let body := b64decodeGroups (last / 4) p
  if pad1 then
    let t := p.drop last
    let n := b64index (t.getD 0 0) * 262144 + (if last + 1 < len then b64index (t.getD 1 0) * 4096 else 0)
    let b1 := UInt8.ofNat (n / 65536)
    if pad2 then
      let n2 := n + b64index (t.getD 2 0) * 64      -- `n |= …`: the fields do not overlap
      body ++ [b1, UInt8.ofNat (n2 / 256)]
    else body ++ [b1]
  else body

def biB64 (enc : Bool) (args : List (Thunk m)) : m Val := do
  match args with
  | t0 :: _ =>
    let a ← t0
    if a.isNull then return .null Ty.str
    match a.type.major with
    | .str => do let s ← a.asStr; return (if enc then .str (b64encode s) else .raw (b64decode s))
    | .raw => do let s ← a.asRaw; return (if enc then .str (b64encode s) else .raw (b64decode s))
    | _ => argTypeErr
  | _ => argTypeErr

/-- `str(x)`: boolean, integer, string, bytes (decimals need `%.16g`: Model/Fmt.lean). -/
def biStr (fmtNum : F64 → Bytes) (args : List (Thunk m)) : m Val := do
  match args with
  | [] => return .null Ty.str
  | t0 :: _ =>
    let val ← t0
    if val.isNull then return .null Ty.str
    match val.type.major with
    | .bool => do let b ← val.asBool; return .str (if b then "TRUE".toUTF8.toList else "FALSE".toUTF8.toList)
    | .int => do let i ← val.asInt; return .str (intToString i)
    | .num => do let d ← val.asNum; return .str (fmtNum d)
    | .str => return val
    | .raw => do let s ← val.asRaw; return .str s
    | _ => argTypeErr

/-! ### num / isnum (blocc/builtin/builtin_num.cpp, builtin_isnum.cpp) -/

/-- `std::stod(s)` with the two `catch` clauses of builtin_num.cpp: `std::invalid_argument` →
STRING_TO_NUM, `std::out_of_range` → OUT_OF_RANGE (Model/Strtod.lean: exact decimal/hexadecimal →
binary64 conversion, glibc's ERANGE rule). -/
def numOfString (s : Bytes) : Res F64 :=
  match Strtod.stod s with
  | .invalid => .err Gen.EXC_RT_STRING_TO_NUM
  | .range => .err Gen.EXC_RT_OUT_OF_RANGE
  | .val b => .ok b

/-- `isnum` on a string: `try { std::stod(s); true } catch (...) { false }`. -/
def isnumString (s : Bytes) : Bool :=
  match Strtod.stod s with
  | .val _ => true
  | _ => false

/-- `num(x)`: no argument or a null → null decimal; string / bytes through `std::stod`; decimal as it is;
integer converted (`Numeric(int64_t)`: round to nearest); boolean 1.0 / 0.0; the real part of an
imaginary is not modelled. -/
def biNum (args : List (Thunk m)) : m Val := do
  match args with
  | [] => return .null Ty.num
  | t0 :: _ =>
    let val ← t0
    if val.isNull then return .null Ty.num
    match val.type.major with
    | .str => do let s ← val.asStr; let d ← liftR (numOfString s); return .num d
    | .raw => do let s ← val.asRaw; let d ← liftR (numOfString s); return .num d
    | .num => do let d ← val.asNum; return .num d
    | .int => do let i ← val.asInt; return .num (bits i.toFloat)
    | .imag => liftR .unmodelled
    | .bool => do let b ← val.asBool; return .num (if b then 0x3ff0000000000000 else 0)
    | _ => argTypeErr

/-- `isnum(x)`: false for a null and for any table; a string / bytes value is tested with `std::stod`
(every exception → false); integer and decimal → true; every other type → false. Never fails. -/
def biIsnum (args : List (Thunk m)) : m Val := do
  match args with
  | t0 :: _ =>
    let val ← t0
    if val.isNull || val.type.level != 0 then return .bool false
    match val.type.major with
    | .str => do let s ← val.asStr; return .bool (isnumString s)
    | .raw => do let s ← val.asRaw; return .bool (isnumString s)
    | .int | .num => return .bool true
    | _ => return .bool false
  | _ => argTypeErr

/-! ### bool / isnull / typeof (builtin_bool.cpp, builtin_isnull.cpp, builtin_typeof.cpp) -/

def biBool (args : List (Thunk m)) : m Val := do
  match args with
  | [] => return .null Ty.bool
  | t0 :: _ =>
    let val ← t0
    if val.isNull then return .null Ty.bool
    match val.type.major with
    | .bool => do let b ← val.asBool; return .bool b
    | .int => do let i ← val.asInt; return .bool (i != 0)
    | .num => do let d ← val.asNum; return .bool (!isZero d)   -- `d != 0.0`: false for ±0.0 only (true for NaN)
    | _ => argTypeErr

def biIsnull (args : List (Thunk m)) : m Val := do
  match args with
  | t0 :: _ => do let val ← t0; return .bool val.isNull
  | _ => argTypeErr

/-- `Type::typeName(major)` (intrinsic_type.h). -/
def majorName : Major → String
  | .none => "undefined" | .bool => "boolean" | .int => "integer" | .num => "decimal" | .str => "string"
  | .obj => "object" | .raw => "bytes" | .tup => "tuple" | .ptr => "pointer" | .imag => "complex"

def biTypeof (args : List (Thunk m)) : m Val := do
  match args with
  | t0 :: _ => do
    let val ← t0
    if val.type.level > 0 then return .str "TABLE".toUTF8.toList
    else return .str (majorName val.type.major).toUTF8.toList
  | _ => argTypeErr

/-! ### one-argument numeric functions -/

/-- `sign(x)`: the result cell starts as a null decimal; integer → −1 / 0 / 1 (null integer stays a null
integer); decimal → −1.0 / 0.0 / 1.0 by `<` and `>` (so NaN and −0.0 give 0.0), a null decimal → null decimal. -/
def biSign (args : List (Thunk m)) : m Val := do
  match args with
  | t0 :: _ =>
    let val ← t0
    match val.type.major with
    | .none => return .null Ty.num
    | .int => if val.isNull then return .null Ty.int else do
        let i ← val.asInt
        return .int (if i < 0 then -1 else if i > 0 then 1 else 0)
    | .num => if val.isNull then return .null Ty.num else do
        let d ← val.asNum
        return .num (if flt d 0 then 0xbff0000000000000 else if flt 0 d then 0x3ff0000000000000 else 0)
    | _ => argTypeErr
  | _ => argTypeErr

/-- The shared body of floor, ceil, sqrt, exp, log, log10, sin, cos, tan, asin, acos, atan, sinh, cosh,
tanh (their `value()` methods are the same text up to the libm function): untyped null → null decimal; a
typed null integer / decimal / imaginary is returned as it is; integer → `fn((double)i)`; decimal →
`fn(d)`; a non-null imaginary is not modelled; anything else FUNC_ARG_TYPE. `fn` is the platform's libm
function on both sides (executed, not reasoned about). -/
def mathMap (fn : Float → Float) (args : List (Thunk m)) : m Val := do
  match args with
  | t0 :: _ =>
    let val ← t0
    match val.type.major with
    | .none => return .null Ty.num
    | .int => if val.isNull then return val else do
        let i ← val.asInt
        return .num (bits (fn i.toFloat))
    | .num => if val.isNull then return val else do
        let d ← val.asNum
        return .num (bits (fn (f d)))
    | .imag => if val.isNull then return val else liftR .unmodelled
    | _ => argTypeErr
  | _ => argTypeErr

/-- `round(x [, n])`: `floor(x * 10^n + 0.5) / 10^n` on doubles (`std::pow(10, n)`); the one-argument form
has no NO_TYPE case (FUNC_ARG_TYPE for an untyped null), the two-argument form reads the digits first. -/
def biRound (args : List (Thunk m)) : m Val := do
  match args with
  | [t0] =>
    let val ← t0
    match val.type.major with
    | .int => if val.isNull then return .null Ty.num else do
        let i ← val.asInt
        return .num (bits (Float.floor (i.toFloat + 0.5)))
    | .num => if val.isNull then return val else do
        let d ← val.asNum
        return .num (bits (Float.floor (f d + 0.5)))
    | .imag => if val.isNull then return val else liftR .unmodelled
    | _ => argTypeErr
  | t0 :: t1 :: _ =>
    let val ← t0
    let a1 ← t1
    let d : Float ← match a1.type.major with
      | .none => pure 1.0
      | .int => if !a1.isNull then do let n ← a1.asInt; pure (Float.pow 10.0 n.toFloat) else pure 1.0
      | .num => if !a1.isNull then do
          let x ← a1.asNum; let n ← castToInt x; pure (Float.pow 10.0 n.toFloat) else pure 1.0
      | _ => argTypeErr
    match val.type.major with
    | .none => return .null Ty.num
    | .int => if val.isNull then return .null Ty.num else do
        let i ← val.asInt
        return .num (bits (Float.floor (i.toFloat + 0.5)))
    | .num => if val.isNull then return val else do
        let x ← val.asNum
        return .num (bits (Float.floor (f x * d + 0.5) / d))
    | .imag => if val.isNull then return val else liftR .unmodelled
    | _ => argTypeErr
  | [] => argTypeErr

/-! ### two-argument numeric functions: max, min, mod, atan2 -/

/-- What the common prologue of builtin_max/min/mod/atan2.cpp leaves to the arithmetic. -/
inductive NumPair
  | ret (v : Val)
  | ii (x y : Int64)
  | id (x : Int64) (y : F64)
  | di (x : F64) (y : Int64)
  | dd (x y : F64)

def isNumMajor (v : Val) : Bool := v.type.major == .int || v.type.major == .num

/-- The prologue: a table operand → FUNC_ARG_TYPE; two number-typed operands of which one is null → a
null (`intTy` when both are integers, else decimal); then the nested `switch`: untyped null first operand →
null decimal; number × untyped null → `intTy`-or-decimal null by the first operand; foreign types →
FUNC_ARG_TYPE. (`intTy` = integer for max/min/mod, decimal for atan2.) The typed accessors are reached
only for non-null operands (Proofs/Lemmas/BuiltinCases.lean `numPair_no_hazard`). -/
def numPair (intTy : Ty) (a0 a1 : Val) : Res NumPair :=
  if a0.type.level > 0 || a1.type.level > 0 then argTypeErr
  else if isNumMajor a0 && isNumMajor a1 && (a0.isNull || a1.isNull) then
    .ok (.ret (.null (if a0.type.major == .int && a1.type.major == .int then intTy else Ty.num)))
  else match a0.type.major with
    | .none => .ok (.ret (.null Ty.num))
    | .int =>
      match a1.type.major with
      | .none => .ok (.ret (.null intTy))
      | .int => do let x ← a0.asInt; let y ← a1.asInt; pure (.ii x y)
      | .num => do let x ← a0.asInt; let y ← a1.asNum; pure (.id x y)
      | _ => argTypeErr
    | .num =>
      match a1.type.major with
      | .none => .ok (.ret (.null Ty.num))
      | .int => do let x ← a0.asNum; let y ← a1.asInt; pure (.di x y)
      | .num => do let x ← a0.asNum; let y ← a1.asNum; pure (.dd x y)
      | _ => argTypeErr
    | _ => argTypeErr

/-- `std::max<double>(a, b)` = `(a < b) ? b : a`; `std::min<double>(a, b)` = `(b < a) ? b : a`. -/
def fmaxC (a b : F64) : F64 := if flt a b then b else a
def fminC (a b : F64) : F64 := if flt b a then b else a

def biMinMax (isMax : Bool) (args : List (Thunk m)) : m Val := do
  match args with
  | t0 :: t1 :: _ =>
    let a0 ← t0
    let a1 ← t1
    let fm := if isMax then fmaxC else fminC
    match ← liftR (numPair Ty.int a0 a1) with
    | .ret v => return v
    | .ii x y => return .int (if isMax then (if x < y then y else x) else (if y < x then y else x))
    | .id x y => return .num (fm (bits x.toFloat) y)
    | .di x y => return .num (fm x (bits y.toFloat))
    | .dd x y => return .num (fm x y)
  | _ => argTypeErr

/-- `mod(x, y)`: integer × integer as the `%` operator (`Num.imod`: DIVIDE_BY_ZERO, −1 → 0); a decimal
operand → `std::fmod` after the test `y == 0.0` (DIVIDE_BY_ZERO for ±0.0) — `Num.fmod` is the exact model. -/
def biMod (args : List (Thunk m)) : m Val := do
  match args with
  | t0 :: t1 :: _ =>
    let a0 ← t0
    let a1 ← t1
    match ← liftR (numPair Ty.int a0 a1) with
    | .ret v => return v
    | .ii x y => do let r ← liftR (imod x y); return .int r
    | .id x y => if isZero y then rerr Gen.EXC_RT_DIVIDE_BY_ZERO else return .num (fmod (bits x.toFloat) y)
    | .di x y => if y == 0 then rerr Gen.EXC_RT_DIVIDE_BY_ZERO else return .num (fmod x (bits y.toFloat))
    | .dd x y => if isZero y then rerr Gen.EXC_RT_DIVIDE_BY_ZERO else return .num (fmod x y)
  | _ => argTypeErr

def biAtan2 (args : List (Thunk m)) : m Val := do
  match args with
  | t0 :: t1 :: _ =>
    let a0 ← t0
    let a1 ← t1
    match ← liftR (numPair Ty.num a0 a1) with
    | .ret v => return v
    | .ii x y => return .num (bits (Float.atan2 x.toFloat y.toFloat))
    | .id x y => return .num (bits (Float.atan2 x.toFloat (f y)))
    | .di x y => return .num (bits (Float.atan2 (f x) y.toFloat))
    | .dd x y => return .num (bits (Float.atan2 (f x) (f y)))
  | _ => argTypeErr

/-- `clamp(x, lo, hi)`: the type of the first argument selects the accessors of all three; a null among
them returns the first argument as it is; `x < lo ? lo : x > hi ? hi : x` (a NaN `x` is returned). -/
def biClamp (args : List (Thunk m)) : m Val := do
  match args with
  | t0 :: t1 :: t2 :: _ =>
    let a0 ← t0
    let a1 ← t1
    let a2 ← t2
    match a0.type.major with
    | .none => return .null Ty.num
    | .int =>
      if a0.isNull || a1.isNull || a2.isNull then return a0 else do
        let x ← a0.asInt; let y ← a1.asInt; let z ← a2.asInt
        return .int (if x < y then y else if x > z then z else x)
    | .num =>
      if a0.isNull || a1.isNull || a2.isNull then return a0 else do
        let x ← a0.asNum; let y ← a1.asNum; let z ← a2.asNum
        return .num (if flt x y then y else if flt z x then z else x)
    | _ => argTypeErr
  | _ => argTypeErr

/-- The constants `pi`, `ee`, `phi` (builtin_pi.h, builtin_ee.h, builtin_phi.h: 3.141592653589793,
2.718281828459045, 1.618033988749895 as binary64). -/
def constPi : F64 := 0x400921fb54442d18
def constEe : F64 := 0x4005bf0a8b145769
def constPhi : F64 := 0x3ff9e3779b97f4a8

end

end BlocV

namespace BlocV

/-- Dispatch of the built-ins added in round C10 (second table, so that the first keeps its shape):
num, isnum, bool, isnull, typeof, sign, the fifteen one-argument libm functions, round, max, min, mod,
atan2, clamp and the constants pi / ee / phi. Not modelled (`none`): random, read, readln, input,
getsys, getenv (environment), error (needs the context's last error), ii / imag / iconj / iphase
(imaginary numbers), tab / tup (Model/Interp.lean `biTab` / `biTup`, property C09), true / false / null
(constants of the expression language, not calls). -/
def evalBuiltinX {m : Type → Type} [Monad m] [MonadLiftT Res m] (name : String) (args : List (Thunk m)) : Option (m Val) :=
  match name with
  | "num" => some (biNum args)
  | "isnum" => some (biIsnum args)
  | "bool" => some (biBool args)
  | "isnull" => some (biIsnull args)
  | "typeof" => some (biTypeof args)
  | "sign" => some (biSign args)
  | "floor" => some (mathMap Float.floor args)
  | "ceil" => some (mathMap Float.ceil args)
  | "sqrt" => some (mathMap Float.sqrt args)
  | "exp" => some (mathMap Float.exp args)
  | "log" => some (mathMap Float.log args)
  | "log10" => some (mathMap Float.log10 args)
  | "sin" => some (mathMap Float.sin args)
  | "cos" => some (mathMap Float.cos args)
  | "tan" => some (mathMap Float.tan args)
  | "asin" => some (mathMap Float.asin args)
  | "acos" => some (mathMap Float.acos args)
  | "atan" => some (mathMap Float.atan args)
  | "sinh" => some (mathMap Float.sinh args)
  | "cosh" => some (mathMap Float.cosh args)
  | "tanh" => some (mathMap Float.tanh args)
  | "round" => some (biRound args)
  | "max" => some (biMinMax true args)
  | "min" => some (biMinMax false args)
  | "mod" => some (biMod args)
  | "atan2" => some (biAtan2 args)
  | "clamp" => some (biClamp args)
  | "pi" => some (pure (.num constPi))
  | "ee" => some (pure (.num constEe))
  | "phi" => some (pure (.num constPhi))
  | _ => none

/-- Dispatch by keyword for the built-ins modelled so far; `none` = not modelled. -/
def evalBuiltin {m : Type → Type} [Monad m] [MonadLiftT Res m] (fmtNum : Num.F64 → Bytes) (name : String) (args : List (Thunk m)) : Option (m Val) :=
  match name with
  | "substr" => some (biSubstr args)
  | "subraw" => some (biSubraw args)
  | "lsubstr" => some (lrSubstr true args)
  | "rsubstr" => some (lrSubstr false args)
  | "strpos" => some (biStrpos args)
  | "replace" => some (biReplace args)
  | "trim" => some (strMap (fun s => dropWhileSp (rtrimSp s)) args)
  | "ltrim" => some (strMap dropWhileSp args)
  | "rtrim" => some (strMap rtrimSp args)
  | "upper" => some (strMap (·.map upperByte) args)
  | "lower" => some (strMap (·.map lowerByte) args)
  | "strlen" => some (biStrlen args)
  | "tokenize" => some (biTokenize args)
  | "hex" => some (biHex args)
  | "hash" => some (biHash args)
  | "chr" => some (biChr args)
  | "raw" => some (biRaw args)
  | "int" => some (biInt args)
  | "b64enc" => some (biB64 true args)
  | "b64dec" => some (biB64 false args)
  | "str" => some (biStr fmtNum args)
  | "abs" => some (biAbs args)
  | "pow" => some (biPow args)
  | _ => evalBuiltinX name args

end BlocV
