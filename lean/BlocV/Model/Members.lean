/-
  Model — the container methods and constructors at the level of values (property C09).

  Transcribed from blocc/member/member_{at,put,insert,delete,concat,count,set}.cpp (`value()` = run
  time, `parse()` / `type()` = compile time), blocc/expression_member.cpp (dispatch),
  blocc/expression_item.cpp (`x@N`), blocc/builtin/builtin_tab.cpp, builtin_tup.cpp,
  blocc/statement_forall.cpp + statement_let.cpp (iteration order, write through the iterator).

  Conventions. `Type == Type` in the C++ compares (major, minor, level) where the minor of a tuple
  type is the 16-bit structure hash (`declHash`); `Type == TypeMajor` compares the major only. The
  model keeps that distinction everywhere (`a.type == t` vs `a.type.major == m`).
  A member call is `memberCall m recv args recvIsConst = (result, receiver after the call)`: the
  methods work in place and mostly return the receiver itself. Evaluation order in the C++:
  receiver, args[0], (null tests), args[1].

  Hazards (undefined behaviour of the C++ reproduced as outcomes): none is left in the methods on
  tables and tuples (`mixElem_no_hazard`, `mixItem_no_hazard` in Proofs/Lemmas/Containers.lean). Repaired
  upstream while this model was written:
    * the "type mixing" branch of put / insert / concat / set@ tests `a.isNull()` before
      `Integer(*a.numeric())` / `Numeric(*a.integer())`: a NULL decimal given for an integer table / item
      stores a null integer (`Value(Value::type_integer)`), a NULL integer given for a decimal one stores
      a null decimal (9e8652f; was a null-pointer dereference, `hazard nullDeref`);
    * a decimal outside the int64 range raises OUT_OF_RANGE (`Value::toInteger`); an item rank above
      2^32 − 1 is a compile error.
  Defects reproduced as *values* (see Proofs/C09.lean for the witnesses):
    * the "type mixing" branch ignores the table's level: an integer/decimal table of 2+ dimensions
      accepts a scalar decimal/integer/untyped null and stores a level-0 element;
    * tuple types are compared by the 16-bit hash of the declaration.
-/
import BlocV.Model.Builtins
import BlocV.Model.Typing

namespace BlocV

inductive Member
  | concat | at | put | count | delete | insert
  deriving DecidableEq, Repr, Inhabited

def Member.ofName : String → Option Member
  | "concat" => some .concat | "at" => some .at | "put" => some .put
  | "count" => some .count | "delete" => some .delete | "insert" => some .insert
  | _ => none

/-! ### small helpers -/

def idxErr {α} : Res α := .err Gen.EXC_RT_INDEX_RANGE_S
def tyMismatch {α} : Res α := .err Gen.EXC_RT_TYPE_MISMATCH_S

/-- `p >= 0 && size_t(p) < size` -/
def inRange (p : Int64) (n : Nat) : Bool := decide (0 ≤ p.toInt ∧ p.toInt < (n : Int))
/-- `p >= 0 && size_t(p) <= size` (insert) -/
def inRangeIns (p : Int64) (n : Nat) : Bool := decide (0 ≤ p.toInt ∧ p.toInt ≤ (n : Int))
def idxOf (p : Int64) : Nat := p.toInt.toNat

def byteOfInt (c : Int64) : UInt8 := UInt8.ofNat c.toInt.toNat
def intOfByte (b : UInt8) : Int64 := Int64.ofNat b.toNat

/-- a character code argument: `Integer c = *a.integer(); if (c < 0 || c > 255) OUT_OF_RANGE` -/
def charArg (a : Val) : Res UInt8 :=
  match a.asInt with
  | .ok c => if c < 0 || c > 255 then .err Gen.EXC_RT_OUT_OF_RANGE else .ok (byteOfInt c)
  | .err c x => .err c x
  | .haz h => .haz h
  | .unmodelled => .unmodelled

def listPut {α} (l : List α) (n : Nat) (x : α) : List α := l.take n ++ x :: l.drop (n + 1)
def listIns {α} (l : List α) (n : Nat) (xs : List α) : List α := l.take n ++ xs ++ l.drop n
def listDel {α} (l : List α) (n : Nat) : List α := l.take n ++ l.drop (n + 1)

/-! ### what put / insert / concat do with the element argument of a (non-null) table -/

inductive Kind | put | insert | concat
  deriving DecidableEq, Repr

inductive Slot
  | one (v : Val)            -- one element is stored
  | many (vs : List Val)     -- the elements of a table of the same type are spliced in
  | nothing                  -- the receiver is returned unchanged (null table / null tuple argument)
  | mismatch                 -- falls through to `throw RuntimeError(EXC_RT_TYPE_MISMATCH_S)`
  deriving Repr

/-- The `else /* type mixing */ switch (rv_type.major())` of member_put/insert/concat.cpp. `a` has
level 0 here and a major different from the table's. The level of the table is NOT consulted.
A NULL decimal given for an integer table stores `Value(Value::type_integer)`, a NULL integer given for
a decimal table `Value(Value::type_numeric)` (`a.isNull() ? … : …`, 9e8652f) — a level-0 null whatever
the level of the table is (C09.mix.level). -/
def mixElem (t : Ty) (a : Val) (nullTy : Ty) : Res Slot :=
  match t.major with
  | .int =>
    if a.type.major == .num then
      if a.isNull then .ok (.one (.null Ty.int)) else
      match a.asNum with
      | .ok d =>
        match Num.intOfDecimal d with
        | .ok i => .ok (.one (.int i))
        | .err c x => .err c x
        | .haz h => .haz h
        | .unmodelled => .unmodelled
      | .err c x => .err c x
      | .haz h => .haz h
      | .unmodelled => .unmodelled
    else if a.type.major == .none then .ok (.one (.null Ty.int))
    else .ok .mismatch
  | .num =>
    if a.type.major == .int then
      if a.isNull then .ok (.one (.null Ty.num)) else
      match a.asInt with
      | .ok i => .ok (.one (.num (Num.bits i.toFloat)))
      | .err c x => .err c x
      | .haz h => .haz h
      | .unmodelled => .unmodelled
    else if a.type.major == .none then .ok (.one (.null Ty.num))
    else .ok .mismatch
  | .tup => .ok .mismatch
  | _ => if a.type.major == .none then .ok (.one (.null nullTy)) else .ok .mismatch

/-- The cascade `if (a.type().level() > 0) … else if (a_type == rv_type.major()) … else mixing` for a
table of type `t`. `nullTy` is the type given to an adopted untyped null in the default branch
(put: the type of the element being replaced; insert/concat: `rv_type.levelDown()`). -/
def classify (k : Kind) (t : Ty) (a : Val) (nullTy : Ty) : Res Slot :=
  if a.type.level > 0 then
    match a with
    | .tab at_ _ es =>
      if k != .put && at_ == t then .ok (.many es)
      else if at_ == t.levelDown then .ok (.one a)
      else .ok .mismatch
    | _ => .ok (if k == .put then .mismatch else .nothing)        -- null table
  else if a.type.major == t.major then
    if a.type.major == .tup then
      if a.isNull then .ok (if k == .put then .mismatch else .nothing)
      else if a.type == t.levelDown then .ok (.one a) else .ok .mismatch
    else if a.type == t.levelDown then .ok (.one a) else .ok .mismatch
  else mixElem t a nullTy

/-! ### at -/

def mAt (recv a0 : Val) : Res (Val × Val) :=
  if recv.isNull || a0.isNull then idxErr else
  match recv with
  | .tab _ _ es =>
    match a0.asInt with
    | .ok p =>
      if inRange p es.length then
        match es[idxOf p]? with
        | some e => .ok (e, recv)
        | none => idxErr
      else idxErr
    | .err c x => .err c x
    | .haz h => .haz h
    | .unmodelled => .unmodelled
  | .str s =>
    match a0.asInt with
    | .ok p =>
      if inRange p s.length then
        match s[idxOf p]? with
        | some b => .ok (.int (intOfByte b), recv)
        | none => idxErr
      else idxErr
    | .err c x => .err c x
    | .haz h => .haz h
    | .unmodelled => .unmodelled
  | .raw s =>
    match a0.asInt with
    | .ok p =>
      if inRange p s.length then
        match s[idxOf p]? with
        | some b => .ok (.int (intOfByte b), recv)
        | none => idxErr
      else idxErr
    | .err c x => .err c x
    | .haz h => .haz h
    | .unmodelled => .unmodelled
  | _ => .err Gen.EXC_RT_MEMB_ARG_TYPE_S

/-! ### put -/

def mPut (recv a0 a1 : Val) (isConst : Bool) : Res (Val × Val) :=
  if recv.isNull || a0.isNull then idxErr else
  match recv with
  | .tab t d es =>
    match a0.asInt with
    | .ok p =>
      if !inRange p es.length then idxErr else
      match es[idxOf p]? with
      | none => idxErr
      | some old =>
        match classify .put t a1 old.type with
        | .ok (.one v) => let r := Val.tab t d (listPut es (idxOf p) v); .ok (r, r)
        | .ok _ => tyMismatch
        | .err c x => .err c x
        | .haz h => .haz h
        | .unmodelled => .unmodelled
    | .err c x => .err c x
    | .haz h => .haz h
    | .unmodelled => .unmodelled
  | .str s =>
    match a0.asInt with
    | .ok p =>
      if !inRange p s.length then idxErr else
      if a1.isNull then tyMismatch else
      match charArg a1 with
      | .ok c =>
        let r := Val.str (listPut s (idxOf p) c)
        .ok (r, if isConst then recv else r)
      | .err c x => .err c x
      | .haz h => .haz h
      | .unmodelled => .unmodelled
    | .err c x => .err c x
    | .haz h => .haz h
    | .unmodelled => .unmodelled
  | .raw s =>
    match a0.asInt with
    | .ok p =>
      if !inRange p s.length then idxErr else
      if a1.isNull then tyMismatch else
      match charArg a1 with
      | .ok c => let r := Val.raw (listPut s (idxOf p) c); .ok (r, r)
      | .err c x => .err c x
      | .haz h => .haz h
      | .unmodelled => .unmodelled
    | .err c x => .err c x
    | .haz h => .haz h
    | .unmodelled => .unmodelled
  | _ => .err Gen.EXC_RT_MEMB_NOT_IMPL_S

/-! ### insert -/

/-- bytes receiver of `insert`: also reached by fall-through from the string case (then
`val.tabchar()` raises NOT_TABCHAR). -/
def insRaw (recv : Val) (s : Bytes) (a0 a1 : Val) : Res (Val × Val) :=
  match a0.asInt with
  | .ok p =>
    if !inRangeIns p s.length then idxErr else
    if a1.isNull then .ok (recv, recv) else
    match a1.type.major with
    | .raw =>
      match a1.asRaw with
      | .ok b => let r := Val.raw (listIns s (idxOf p) b); .ok (r, r)
      | .err c x => .err c x
      | .haz h => .haz h
      | .unmodelled => .unmodelled
    | .str =>
      match a1.asStr with
      | .ok b => let r := Val.raw (listIns s (idxOf p) b); .ok (r, r)
      | .err c x => .err c x
      | .haz h => .haz h
      | .unmodelled => .unmodelled
    | .int =>
      match charArg a1 with
      | .ok c => let r := Val.raw (listIns s (idxOf p) [c]); .ok (r, r)
      | .err c x => .err c x
      | .haz h => .haz h
      | .unmodelled => .unmodelled
    | _ => .err Gen.EXC_RT_MEMB_NOT_IMPL_S
  | .err c x => .err c x
  | .haz h => .haz h
  | .unmodelled => .unmodelled

def mInsert (recv a0 a1 : Val) (isConst : Bool) : Res (Val × Val) :=
  if recv.isNull || a0.isNull then idxErr else
  match recv with
  | .tab t d es =>
    match a0.asInt with
    | .ok p =>
      if !inRangeIns p es.length then idxErr else
      match classify .insert t a1 t.levelDown with
      | .ok (.one v) => let r := Val.tab t d (listIns es (idxOf p) [v]); .ok (r, r)
      | .ok (.many vs) => let r := Val.tab t d (listIns es (idxOf p) vs.reverse); .ok (r, r)
      | .ok .nothing => .ok (recv, recv)
      | .ok .mismatch => tyMismatch
      | .err c x => .err c x
      | .haz h => .haz h
      | .unmodelled => .unmodelled
    | .err c x => .err c x
    | .haz h => .haz h
    | .unmodelled => .unmodelled
  | .str s =>
    match a0.asInt with
    | .ok p =>
      if !inRangeIns p s.length then idxErr else
      if a1.isNull then .ok (recv, recv) else
      match a1.type.major with
      | .str =>
        match a1.asStr with
        | .ok b => let r := Val.str (listIns s (idxOf p) b); .ok (r, if isConst then recv else r)
        | .err c x => .err c x
        | .haz h => .haz h
        | .unmodelled => .unmodelled
      | .int =>
        match charArg a1 with
        | .ok c => let r := Val.str (listIns s (idxOf p) [c]); .ok (r, if isConst then recv else r)
        | .err c x => .err c x
        | .haz h => .haz h
        | .unmodelled => .unmodelled
      | _ => .err Gen.EXC_RT_NOT_TABCHAR      -- falls into `case Type::TABCHAR: val.tabchar()`
    | .err c x => .err c x
    | .haz h => .haz h
    | .unmodelled => .unmodelled
  | .raw s => insRaw recv s a0 a1
  | _ => .err Gen.EXC_RT_MEMB_NOT_IMPL_S

/-! ### delete -/

def mDelete (recv a0 : Val) (isConst : Bool) : Res (Val × Val) :=
  if recv.isNull || a0.isNull then idxErr else
  match recv with
  | .tab t d es =>
    match a0.asInt with
    | .ok p =>
      if !inRange p es.length then idxErr else
      let r := Val.tab t d (listDel es (idxOf p)); .ok (r, r)
    | .err c x => .err c x
    | .haz h => .haz h
    | .unmodelled => .unmodelled
  | .str s =>
    match a0.asInt with
    | .ok p =>
      if !inRange p s.length then idxErr else
      let r := Val.str (listDel s (idxOf p)); .ok (r, if isConst then recv else r)
    | .err c x => .err c x
    | .haz h => .haz h
    | .unmodelled => .unmodelled
  | .raw s =>
    match a0.asInt with
    | .ok p =>
      if !inRange p s.length then idxErr else
      let r := Val.raw (listDel s (idxOf p)); .ok (r, r)
    | .err c x => .err c x
    | .haz h => .haz h
    | .unmodelled => .unmodelled
  | _ => .err Gen.EXC_RT_MEMB_NOT_IMPL_S

/-! ### count -/

def mCount (recv : Val) : Res (Val × Val) :=
  match recv with
  | .null _ => .ok (.null Ty.int, recv)
  | .tab _ _ es => .ok (.int (Int64.ofNat es.length), recv)
  | .str s => .ok (.int (Int64.ofNat s.length), recv)
  | .raw s => .ok (.int (Int64.ofNat s.length), recv)
  | .tup _ items => .ok (.int (Int64.ofNat items.length), recv)
  | _ => .err Gen.EXC_RT_MEMB_ARG_TYPE_S

/-! ### concat -/

/-- `case Type::TABCHAR:` of concat for a receiver `recv` (bytes, or a string that fell through). -/
def concatRawCase (recv a0 : Val) : Res (Val × Val) :=
  match a0.type.major with
  | .raw =>
    if recv.isNull then .ok (a0, a0) else
    match recv.asRaw with                 -- `val.tabchar()`: NOT_TABCHAR for a string receiver
    | .ok s =>
      match a0.asRaw with
      | .ok b => let r := Val.raw (s ++ b); .ok (r, r)
      | .err c x => .err c x
      | .haz h => .haz h
      | .unmodelled => .unmodelled
    | .err c x => .err c x
    | .haz h => .haz h
    | .unmodelled => .unmodelled
  | .str =>
    match a0.asStr with
    | .ok b =>
      if recv.isNull then let r := Val.raw b; .ok (r, r) else
      match recv.asRaw with
      | .ok s => let r := Val.raw (s ++ b); .ok (r, r)
      | .err c x => .err c x
      | .haz h => .haz h
      | .unmodelled => .unmodelled
    | .err c x => .err c x
    | .haz h => .haz h
    | .unmodelled => .unmodelled
  | .int =>
    match charArg a0 with
    | .ok c =>
      if recv.isNull then let r := Val.raw [c]; .ok (r, r) else
      match recv.asRaw with
      | .ok s => let r := Val.raw (s ++ [c]); .ok (r, r)
      | .err c x => .err c x
      | .haz h => .haz h
      | .unmodelled => .unmodelled
    | .err c x => .err c x
    | .haz h => .haz h
    | .unmodelled => .unmodelled
  | _ => .err Gen.EXC_RT_MEMB_ARG_TYPE_S

def mConcat (recv a0 : Val) (isConst : Bool) : Res (Val × Val) :=
  if recv.type.level > 0 then
    match recv with
    | .tab t d es =>
      match classify .concat t a0 t.levelDown with
      | .ok (.one v) => let r := Val.tab t d (es ++ [v]); .ok (r, r)
      | .ok (.many vs) => let r := Val.tab t d (es ++ vs); .ok (r, r)
      | .ok .nothing => .ok (recv, recv)
      | .ok .mismatch => tyMismatch
      | .err c x => .err c x
      | .haz h => .haz h
      | .unmodelled => .unmodelled
    | _ =>
      -- null table: it takes the argument's table, or becomes a new one-element table
      if a0.type.level > 0 then
        if a0.isNull then .ok (recv, recv) else .ok (a0, a0)
      else if a0.type.major == .tup then
        match a0 with
        | .tup decl _ => let r := Val.tab (makeTupleTy decl 1) decl [a0]; .ok (r, r)
        | _ => .ok (recv, recv)
      else if a0.type.major == .none then .ok (recv, recv)
      else let r := Val.tab a0.type.levelUp [] [a0]; .ok (r, r)
  else if a0.isNull then .ok (recv, recv)
  else
    match recv.type.major with
    | .none =>
      -- the constant of the literal `null` is not overwritten: a new value is returned (a40085e)
      match a0.type.major with
      | .str => .ok (a0, if isConst then recv else a0)
      | .int =>
        match a0.asInt with
        | .ok c =>
          if c < 0 || c > 255 then .err Gen.EXC_RT_MEMB_ARG_TYPE_S
          else if c == 0 then let r := Val.raw [0]; .ok (r, if isConst then recv else r)
          else let r := Val.str [byteOfInt c]; .ok (r, if isConst then recv else r)
        | .err c x => .err c x
        | .haz h => .haz h
        | .unmodelled => .unmodelled
      | _ => .err Gen.EXC_RT_MEMB_ARG_TYPE_S
    | .str =>
      match a0.type.major with
      | .str =>
        if recv.isNull then
          if isConst then
            match a0.asStr with
            | .ok b => .ok (.str b, recv)
            | .err c x => .err c x
            | .haz h => .haz h
            | .unmodelled => .unmodelled
          else .ok (a0, a0)
        else
          match recv.asStr, a0.asStr with
          | .ok s, .ok b => let r := Val.str (s ++ b); .ok (r, if isConst then recv else r)
          | .ok _, .err c x => .err c x
          | .ok _, .haz h => .haz h
          | .ok _, .unmodelled => .unmodelled
          | .err c x, _ => .err c x
          | .haz h, _ => .haz h
          | .unmodelled, _ => .unmodelled
      | .int =>
        match charArg a0 with
        | .ok c =>
          if recv.isNull then let r := Val.str [c]; .ok (r, if isConst then recv else r) else
          match recv.asStr with
          | .ok s => let r := Val.str (s ++ [c]); .ok (r, if isConst then recv else r)
          | .err c x => .err c x
          | .haz h => .haz h
          | .unmodelled => .unmodelled
        | .err c x => .err c x
        | .haz h => .haz h
        | .unmodelled => .unmodelled
      | _ => concatRawCase recv a0          -- no `break`: falls into `case Type::TABCHAR`
    | .raw => concatRawCase recv a0
    | _ => .err Gen.EXC_RT_MEMB_ARG_TYPE_S

/-- One member call on values: `(result, receiver after the call)`. -/
def memberCall (m : Member) (recv : Val) (args : List Val) (recvIsConst : Bool) : Res (Val × Val) :=
  match m, args with
  | .at, [a0] => mAt recv a0
  | .put, [a0, a1] => mPut recv a0 a1 recvIsConst
  | .insert, [a0, a1] => mInsert recv a0 a1 recvIsConst
  | .delete, [a0] => mDelete recv a0 recvIsConst
  | .concat, [a0] => mConcat recv a0 recvIsConst
  | .count, [] => mCount recv
  | _, _ => .unmodelled

/-! ### what the receiver expression designates (`MemberExpression::receiver()`, 876bec0)

`receiver()`: `val = _exp->value(ctx); if (val.lvalue() && !_exp->isConst() && !_exp->isStorage()) return ctx.allocate(val.clone());`
— the methods working in place (concat, put, insert, delete, set@) manipulate the value itself only when the receiver
expression designates a storage (`isStorage()`: a variable, or an element / item / chained type method of one) or yields a
temporary (an rvalue); an lvalue that the expression merely hands through (`(s + null)`, …) is cloned first; a literal constant
(`isConst()`: a string literal, `null` — the only constants that reach the built-in members) is never written to: the methods
return a new value (`recvIsConst` of `memberCall`). -/

inductive RecvKind
  | storage | constant | temporary | handedThrough
  deriving DecidableEq, Repr

/-- a member call by receiver kind: `(result, value of the variable / constant / handed-through operand after the call)` -/
def memberCallK (k : RecvKind) (m : Member) (recv : Val) (args : List Val) : Res (Val × Val) :=
  match k with
  | .storage => memberCall m recv args false
  | .constant => memberCall m recv args true
  | .temporary | .handedThrough =>
    -- the temporary / the clone is what the method modifies and returns; the operand keeps its value
    match memberCall m recv args false with
    | .ok (r, _) => .ok (r, recv)
    | .err c a => .err c a
    | .haz h => .haz h
    | .unmodelled => .unmodelled

/-! ### tuples: `u@N`, `u.set@N(v)` -/

/-- The rank literal of `x@N` / `set@N` once the parser accepted it: `std::stoul`, refused with
OUT_OF_INDICE above UINT_MAX (see `acceptItem` / `acceptSet`), so a rank ≥ 2^32 never reaches run
time (`unmodelled`). -/
def itemNo (n : Nat) : Res Nat :=
  if n ≥ 2 ^ 32 then .unmodelled else .ok n

/-- `item_no - 1` in `unsigned` arithmetic. -/
def itemIndex (no : Nat) : Nat := (no + (2 ^ 32 - 1)) % 2 ^ 32

def itemAtV (recv : Val) (index : Nat) : Res Val :=
  if recv.isNull then idxErr else
  match recv with
  | .tup decl items =>
    if index < decl.length then
      match items[index]? with
      | some v => .ok v
      | none => .haz .oob
    else idxErr
  | _ => .err Gen.EXC_RT_NOT_ROWTYPE

/-- type mixing of `set@`: like `mixElem` but without the ROWTYPE case (a NULL decimal given for an
integer item stores a null integer, a NULL integer given for a decimal item a null decimal). -/
def mixItem (dt : Ty) (a : Val) (oldTy : Ty) : Res (Option Val) :=
  match dt.major with
  | .int =>
    if a.type.major == .num then
      if a.isNull then .ok (some (.null Ty.int)) else
      match a.asNum with
      | .ok d =>
        match Num.intOfDecimal d with
        | .ok i => .ok (some (.int i))
        | .err c x => .err c x
        | .haz h => .haz h
        | .unmodelled => .unmodelled
      | .err c x => .err c x
      | .haz h => .haz h
      | .unmodelled => .unmodelled
    else if a.type.major == .none then .ok (some (.null Ty.int))
    else .ok none
  | .num =>
    if a.type.major == .int then
      if a.isNull then .ok (some (.null Ty.num)) else
      match a.asInt with
      | .ok i => .ok (some (.num (Num.bits i.toFloat)))
      | .err c x => .err c x
      | .haz h => .haz h
      | .unmodelled => .unmodelled
    else if a.type.major == .none then .ok (some (.null Ty.num))
    else .ok none
  | _ => if a.type.major == .none then .ok (some (.null oldTy)) else .ok none

def setItemV (recv : Val) (index : Nat) (a0 : Val) : Res (Val × Val) :=
  if recv.isNull then idxErr else
  match recv with
  | .tup decl items =>
    if a0.type.level != 0 then .err Gen.EXC_RT_MEMB_NOT_IMPL_S else
    if index < decl.length then
      match decl[index]?, items[index]? with
      | some dt, some old =>
        if dt == a0.type then let r := Val.tup decl (listPut items index a0); .ok (r, r)
        else
          match mixItem dt a0 old.type with
          | .ok (some v) => let r := Val.tup decl (listPut items index v); .ok (r, r)
          | .ok none => tyMismatch
          | .err c x => .err c x
          | .haz h => .haz h
          | .unmodelled => .unmodelled
      | _, _ => .haz .oob
    else idxErr
  | _ => .err Gen.EXC_RT_MEMB_NOT_IMPL_S

/-! ### compile time -/

def isOpaqueTy (t : Ty) : Bool := t.major == .none || (t.major == .tup && t.minor == 0)

/-- `MemberExpression::parse`: which static receiver types reach the built-in methods. -/
def memberDispatch (exp : Ty) : Option Nat :=
  if exp.level == 0 then
    match exp.major with
    | .obj | .str | .raw | .tup | .none => none
    | _ => some Gen.EXC_PARSE_INV_EXPRESSION
  else none

def level0Seq (exp : Ty) : Bool := exp.level != 0 || exp.major == .none || exp.major == .str || exp.major == .raw

/-- `MemberXXXExpression::parse`: `none` = accepted, `some code` = the ParseError. `locked` = the
receiver is a variable currently locked (constant, or being traversed by a `forall`). -/
def acceptMember (m : Member) (exp : Ty) (args : List Ty) (locked : Bool) : Option Nat :=
  match memberDispatch exp with
  | some c => some c
  | none =>
  match m with
  | .at =>
    match args with
    | a0 :: rest =>
      if !typeChecking a0 Ty.int then some Gen.EXC_PARSE_MEMB_ARG_TYPE_S
      else if !level0Seq exp then some Gen.EXC_PARSE_MEMB_NOT_IMPL_S
      else if rest.isEmpty then none else some Gen.EXC_PARSE_MEMB_ARG_NUM_S
    | [] => some Gen.EXC_PARSE_INV_EXPRESSION
  | .count =>
    if !(level0Seq exp || exp.major == .tup) then some Gen.EXC_PARSE_MEMB_NOT_IMPL_S
    else if args.isEmpty then none else some Gen.EXC_PARSE_MEMB_ARG_NUM_S
  | .delete =>
    if locked then some Gen.EXC_PARSE_CONST_VIOLATION_S
    else if !level0Seq exp then some Gen.EXC_PARSE_MEMB_NOT_IMPL_S
    else match args with
    | a0 :: rest =>
      if !typeChecking a0 Ty.int then some Gen.EXC_PARSE_MEMB_ARG_TYPE_S
      else if rest.isEmpty then none else some Gen.EXC_PARSE_MEMB_ARG_NUM_S
    | [] => some Gen.EXC_PARSE_INV_EXPRESSION
  | .put =>
    if locked then some Gen.EXC_PARSE_CONST_VIOLATION_S
    else if !level0Seq exp then some Gen.EXC_PARSE_MEMB_NOT_IMPL_S
    else match args with
    | [] => some Gen.EXC_PARSE_INV_EXPRESSION
    | a0 :: rest =>
      if !typeChecking a0 Ty.int then some Gen.EXC_PARSE_MEMB_ARG_TYPE_S else
      match rest with
      | [] => some Gen.EXC_PARSE_MEMB_ARG_NUM_S
      | a1 :: rest2 =>
        let bad : Option Nat :=
          if exp.level == 0 then
            if exp.major == .none then none
            else if !typeChecking a1 Ty.int then some Gen.EXC_PARSE_MEMB_ARG_TYPE_S else none
          else if !isOpaqueTy exp && !isOpaqueTy a1 && !typeChecking a1 exp.levelDown then
            some Gen.EXC_PARSE_TYPE_MISMATCH_S
          else none
        match bad with
        | some c => some c
        | none => if rest2.isEmpty then none else some Gen.EXC_PARSE_MEMB_ARG_NUM_S
  | .insert =>
    if locked then some Gen.EXC_PARSE_CONST_VIOLATION_S
    else if !level0Seq exp then some Gen.EXC_PARSE_MEMB_NOT_IMPL_S
    else match args with
    | [] => some Gen.EXC_PARSE_INV_EXPRESSION
    | a0 :: rest =>
      if !typeChecking a0 Ty.int then some Gen.EXC_PARSE_MEMB_ARG_TYPE_S else
      match rest with
      | [] => some Gen.EXC_PARSE_MEMB_ARG_NUM_S
      | a1 :: rest2 =>
        let bad : Option Nat :=
          if exp.level == 0 then
            if exp.major == .none then none
            else if exp.major == .str then
              if a1.major != .str && !typeChecking a1 Ty.int then some Gen.EXC_PARSE_MEMB_ARG_TYPE_S else none
            else
              if a1.major != .raw && a1.major != .str && !typeChecking a1 Ty.int then some Gen.EXC_PARSE_MEMB_ARG_TYPE_S else none
          else if (!isOpaqueTy exp || exp.major == .tup) && (!isOpaqueTy a1 || a1.major == .tup) then
            if a1.level != exp.level && a1.level != exp.level - 1 then some Gen.EXC_PARSE_TYPE_MISMATCH_S
            else if !isOpaqueTy exp && !isOpaqueTy a1 && !typeChecking a1 exp && !typeChecking a1 exp.levelDown then
              some Gen.EXC_PARSE_TYPE_MISMATCH_S
            else none
          else none
        match bad with
        | some c => some c
        | none => if rest2.isEmpty then none else some Gen.EXC_PARSE_MEMB_ARG_NUM_S
  | .concat =>
    if locked then some Gen.EXC_PARSE_CONST_VIOLATION_S
    else if !level0Seq exp then some Gen.EXC_PARSE_MEMB_NOT_IMPL_S
    else match args with
    | [] => some Gen.EXC_PARSE_INV_EXPRESSION
    | a0 :: rest =>
      let bad : Option Nat :=
        if exp.level == 0 then
          if exp.major == .none then none
          else if exp.major == .str then
            if a0.major != .str && !typeChecking a0 Ty.int then some Gen.EXC_PARSE_MEMB_ARG_TYPE_S else none
          else
            if a0.major != .raw && a0.major != .str && !typeChecking a0 Ty.int then some Gen.EXC_PARSE_MEMB_ARG_TYPE_S else none
        else if (!isOpaqueTy exp || exp.major == .tup) && (!isOpaqueTy a0 || a0.major == .tup) then
          if a0.level != exp.level && a0.level != exp.level - 1 then some Gen.EXC_PARSE_TYPE_MISMATCH_S
          else if !isOpaqueTy exp && !isOpaqueTy a0 && a0 != exp && a0 != exp.levelDown then
            some Gen.EXC_PARSE_TYPE_MISMATCH_S
          else none
        else none
      match bad with
      | some c => some c
      | none => if rest.isEmpty then none else some Gen.EXC_PARSE_MEMB_ARG_NUM_S

/-- `MemberXXXExpression::type`. -/
def memberType (m : Member) (exp : Ty) : Ty :=
  match m with
  | .count => Ty.int
  | .at =>
    if exp.level == 0 then
      match exp.major with
      | .str | .raw => Ty.int
      | .none => exp
      | _ => Ty.none
    else exp.levelDown
  | _ => exp

/-- `MemberSETExpression::parse` (`rank` = the value of the item-number literal, `decl` = the receiver's static
declaration). -/
def acceptSet (exp : Ty) (decl : List Ty) (rank : Nat) (arg : Ty) (locked : Bool) : Option Nat :=
  match memberDispatch exp with
  | some c => some c
  | none =>
    if locked then some Gen.EXC_PARSE_CONST_VIOLATION_S
    else if rank ≥ 2 ^ 32 then some Gen.EXC_PARSE_OUT_OF_INDICE
    else if exp.major != .none && exp.major != .tup then some Gen.EXC_PARSE_NOT_ROWTYPE
    else if exp.minor != 0 then
      if rank < 1 || rank > decl.length then some Gen.EXC_PARSE_OUT_OF_INDICE
      else match decl[rank - 1]? with
        | some dt => if !typeChecking arg dt then some Gen.EXC_PARSE_MEMB_ARG_TYPE_S else none
        | none => some Gen.EXC_PARSE_OUT_OF_INDICE
    else none

/-- `ItemExpression::parse`. -/
def acceptItem (exp : Ty) (rank : Nat) : Option Nat :=
  if rank ≥ 2 ^ 32 then some Gen.EXC_PARSE_OUT_OF_INDICE
  else if exp.major != .none && exp.major != .tup then some Gen.EXC_PARSE_NOT_ROWTYPE
  else if exp.minor != 0 && rank < 1 then some Gen.EXC_PARSE_OUT_OF_INDICE
  else none

/-- `ItemExpression::type`. -/
def itemType (exp : Ty) (decl : List Ty) (index : Nat) : Ty :=
  if exp.minor == 0 then Ty.none
  else match decl[index]? with
    | some t => t
    | none => Ty.none

/-- `TABExpression::parse` on the static argument types. -/
def acceptTab (args : List Ty) : Option Nat :=
  match args with
  | [] => none
  | [_] => some Gen.EXC_PARSE_FUNC_ARG_NUM_S
  | a0 :: b :: rest =>
    if !typeChecking a0 Ty.int then some Gen.EXC_PARSE_FUNC_ARG_TYPE_S
    else if b.major == .ptr then some Gen.EXC_PARSE_MEMB_ARG_TYPE_S
    else if b.level == Gen.TYPE_LEVEL_MAX then some Gen.EXC_PARSE_OUT_OF_DIMENSION
    else if rest.isEmpty then none else some Gen.EXC_PARSE_FUNC_ARG_NUM_S

def tabType (args : List Ty) : Ty :=
  match args with
  | _ :: b :: _ => b.levelUp
  | _ => { major := .none, level := 1 }

/-- `TUPExpression::parse`. -/
def acceptTup (args : List Ty) : Option Nat :=
  if args.any (fun t => t.level > 0 || t.major == .tup || t.major == .ptr) then some Gen.EXC_PARSE_FUNC_ARG_TYPE_S
  else none

def tupType (args : List Ty) : Ty := makeTupleTy args 0

/-! ### constructors and accessors in the generic evaluation monad -/

section
variable {m : Type → Type} [Monad m] [MonadLiftT Res m]

/-- `Type::levelUp()` as the C++ computes it: `Type(_major, _minor, _level + 1)` with `TypeLevel = uint8_t`, so the level
after 255 is 0. (`Ty.levelUp` of Model/Basic.lean is the same below the limit: `levelUp8_eq`.) -/
def levelUp8 (t : Ty) : Ty := { t with level := (t.level + 1) % 256 }

/-- `Type::levelDown()`: `_level - 1` in `uint8_t` (the level before 0 is 255) -/
def levelDown8 (t : Ty) : Ty := { t with level := (t.level + 255) % 256 }

/-- header of the table created by `tab(n, a1)` from the first evaluation of `a1`. The dimension test is
`a1.type().level() >= TYPE_LEVEL_MAX - 1` (repaired, 2c67aef; was an equality that an element of 255 dimensions passed, after
which the `uint8_t` level wrapped to 0: former finding C09.tab.levelWrap), so the `levelUp8` below never wraps. -/
def tabHeader (a1 : Val) : Res (Ty × List Ty) :=
  if a1.type.major == .none || a1.type == { major := .tup } then .err Gen.EXC_RT_COMPOUND_OPAQUE
  else if a1.type.level ≥ Gen.TYPE_LEVEL_MAX - 1 then .err Gen.EXC_RT_OUT_OF_DIMENSION
  else match a1 with
    | .tup decl _ => .ok (makeTupleTy decl 1, decl)
    | .tab t decl _ => if t.major == .tup then .ok (makeTupleTy decl ((t.level + 1) % 256), decl) else .ok (levelUp8 t, [])
    | _ => .ok (levelUp8 a1.type, [])

/-- the `while (--n > 0)` part: `k` further evaluations of the element expression, each of which
must have the item type. -/
def tabFill (t1 : Thunk m) (itemTy : Ty) : Nat → List Val → m (List Val)
  | 0, acc => pure acc
  | k + 1, acc => do
    let a ← t1
    if a.type != itemTy then rerr Gen.EXC_RT_VARYING_COLLECTION
    else tabFill t1 itemTy k (acc ++ [a])

/-- `tab()` / `tab(n, x)`. The element expression is evaluated max(n, 1) times. Counts above 2^20 are
not modelled (`reserve((unsigned)n)` then n pushes: memory exhaustion). -/
def biTab (args : List (Thunk m)) : m Val := do
  match args with
  | [] => return .null { major := .none, level := 1 }
  | [t0, t1] =>
    let a0 ← t0
    if a0.isNull then
      let a1 ← t1
      -- `if (a1_type.level() >= TYPE_LEVEL_MAX - 1) throw OUT_OF_DIMENSION` (2c67aef; the branch had no dimension test)
      if a1.type.level ≥ Gen.TYPE_LEVEL_MAX - 1 then rerr Gen.EXC_RT_OUT_OF_DIMENSION else
      return .null (levelUp8 a1.type)
    let n ← liftR a0.asInt
    if n < 0 then rerr Gen.EXC_RT_INDEX_RANGE_S else
    if n > 1048576 then liftR .unmodelled else
    let a1 ← t1
    let (t, decl) ← liftR (tabHeader a1)
    if n == 0 then return .tab t decl []
    let es ← tabFill t1 (levelDown8 t) (idxOf n - 1) [a1]     -- `item_type = tab->table_type().levelDown()`
    return .tab t decl es
  | _ => argTypeErr

end

/-- an element expression whose successive evaluations yield the values of a script (exhausted script: an error): `tab(n, e)`
evaluates `e` max(n, 1) times, and `e` may call functions, `random()`, in-place members… (instantiates the generic `biTab` /
`tabFill` at the state monad; Proofs/C09.lean `tabFill_stream`, `tab_varying`) -/
def nextVal : StateT (List Val) Res Val := fun s =>
  match s with
  | v :: rest => .ok (v, rest)
  | [] => .err Gen.EXC_RT_INV_EXPRESSION

/-- `tab(n, e)` with `e` yielding the script `vs` -/
def biTabScript (n : Val) (vs : List Val) : Res Val :=
  match (biTab (m := StateT (List Val) Res) [pure n, nextVal]).run vs with
  | .ok (r, _) => .ok r
  | .err c a => .err c a
  | .haz h => .haz h
  | .unmodelled => .unmodelled

section
variable {m : Type → Type} [Monad m] [MonadLiftT Res m]

/-- `tup()` / `tup(x, …)`. -/
def tupItems : List (Thunk m) → List Val → m (List Val)
  | [], acc => pure acc
  | t :: ts, acc => do
    let v ← t
    if v.type.major == .none then rerr Gen.EXC_RT_COMPOUND_OPAQUE
    -- "nesting and table are not allowed": also at run time (4db32b5; was tested on the static type only)
    else if v.type.level > 0 || v.type.major == .tup then rerr Gen.EXC_RT_FUNC_ARG_TYPE_S
    else tupItems ts (acc ++ [v])

def biTup (args : List (Thunk m)) : m Val := do
  match args with
  | [] => return .null { major := .tup }
  | _ =>
    let items ← tupItems args []
    return .tup (items.map Val.type) items

/-- `u@N` with `N` the literal's mathematical value. -/
def itemAt (recv : Thunk m) (n : Nat) : m Val := do
  let no ← liftR (itemNo n)
  let v ← recv
  liftR (itemAtV v (itemIndex no))

/-- `u.set@N(v)`: returns (result, receiver after). -/
def setItem (recv : Thunk m) (n : Nat) (arg : Thunk m) : m (Val × Val) := do
  let no ← liftR (itemNo n)
  let v ← recv
  if v.isNull then rerr Gen.EXC_RT_INDEX_RANGE_S else
  let a ← arg
  liftR (setItemV v (itemIndex no) a)

end

/-! ### the parse-time lock of a table traversed by `forall`

statement_forall.cpp `parse_clause`: while the body is parsed the symbol of the fetched expression (if it has one) is
`locked`, and the iterator "inherits constness of the target" (its `_locked` is set to the target's previous flag); both
are restored when the clause ends, normally or by a ParseError. member_{concat,put,delete,insert,set}.cpp `parse`: the very
first test is `if (exp->symbolId() != nid && ctx.getSymbol(exp->symbolId()).locked()) throw CONST_VIOLATION`;
member_at.cpp / member_count.cpp have no such test. `Expression::symbolId()` is the id of a plain variable, is passed
through by `.at / .put / .insert / .delete / .concat / .set@ / @N` (member_*.h, expression_item.h: `return _exp->symbolId()`)
and is `nid` for every other expression (`.count()`, literals, calls, operators). -/

/-- the receiver expression of a member call, as far as `symbolId()` is concerned -/
inductive RecvExp
  | var (sym : Nat)
  | chain (inner : RecvExp)      -- inner.at(…) / inner.put(…) / … / inner@N
  | other
  deriving Repr

def RecvExp.symbolId : RecvExp → Option Nat
  | .var s => some s
  | .chain e => e.symbolId
  | .other => none

/-- the seven built-in members; `set` is `set@N` -/
inductive MemberOp
  | m (m : Member)
  | set
  deriving DecidableEq, Repr

/-- the members whose `parse()` tests the lock (= the members that change their receiver) -/
def MemberOp.mutating : MemberOp → Bool
  | .m .concat | .m .put | .m .delete | .m .insert | .set => true
  | .m .at | .m .count => false

/-- the `locked` argument of `acceptMember` / `acceptSet` for a receiver expression under the flags `fl` -/
def recvLocked (recv : RecvExp) (fl : Nat → Bool) : Bool :=
  match recv.symbolId with
  | some s => fl s
  | none => false

/-- the head test of the member's `parse()`: is the call refused with CONST_VIOLATION -/
def lockRefuses (op : MemberOp) (recv : RecvExp) (fl : Nat → Bool) : Bool :=
  op.mutating && recvLocked recv fl

/-- flags while the body of `forall <iter> in <target>` is parsed: `es.locked(true); vt.locked(locked_ex_bak)` when the
fetched expression has a symbol, unchanged otherwise -/
def forallEnter (iter : Nat) (target : Option Nat) (fl : Nat → Bool) : Nat → Bool :=
  match target with
  | some sid => fun s => if s == iter then fl sid else if s == sid then true else fl s
  | none => fl

/-- flags after the clause (normal end and `catch (ParseError&)` alike):
`getSymbol(sid).locked(locked_ex_bak); vt.locked(locked_vt_bak)` with the values saved at entry (`before`) -/
def forallLeave (iter : Nat) (target : Option Nat) (before cur : Nat → Bool) : Nat → Bool :=
  fun s => if s == iter then before iter
    else if target == some s then before s
    else cur s

/-- a body as far as the lock is concerned: member calls, assignments `sym = expr;` (LETStatement::parse ends in
`Context::registerSymbol`, whose first test on an existing symbol is `if (s->locked()) throw ParseError(CONST_VIOLATION)`)
and nested `forall` -/
inductive LStmt
  | call (op : MemberOp) (recv : RecvExp)
  | assign (sym : Nat)
  | loop (iter : Nat) (target : RecvExp) (body : List LStmt)

mutual
  /-- parse one statement under the flags `fl`: `none` = a call was refused with CONST_VIOLATION, `some fl'` = accepted,
  flags afterwards -/
  def lockStmt : LStmt → (Nat → Bool) → Option (Nat → Bool)
    | .call op recv, fl => if lockRefuses op recv fl then none else some fl
    | .assign sym, fl => if fl sym then none else some fl
    | .loop iter target body, fl =>
      match lockBody body (forallEnter iter target.symbolId fl) with
      | none => none
      | some cur => some (forallLeave iter target.symbolId fl cur)
  def lockBody : List LStmt → (Nat → Bool) → Option (Nat → Bool)
    | [], fl => some fl
    | st :: rest, fl =>
      match lockStmt st fl with
      | none => none
      | some fl' => lockBody rest fl'
end

/-! ### forall -/

/-- First index visited (`none`: null or empty table, the body never runs). -/
def forallFirst (desc : Bool) (n : Nat) : Option Nat :=
  if n == 0 then none else some (if desc then n - 1 else 0)

/-- `data->index += data->step; if (index < 0 || index >= size) leave` with the size read at
that moment. -/
def forallNext (desc : Bool) (i n : Nat) : Option Nat :=
  if desc then (if i == 0 then none else if i - 1 < n then some (i - 1) else none)
  else (if i + 1 < n then some (i + 1) else none)

/-- The index sequence of a traversal of a table whose length stays `n`. -/
def forallOrder (desc : Bool) (n : Nat) : List Nat :=
  if desc then (List.range n).reverse else List.range n

/-- The indices obtained by running first/next (`fuel` steps at most). -/
def forallTrace (desc : Bool) (n : Nat) : Nat → Option Nat → List Nat
  | 0, _ => []
  | _ + 1, none => []
  | fuel + 1, some i => i :: forallTrace desc n fuel (forallNext desc i n)

/-- What the iterator variable denotes at index `i` (a pointer to the element). -/
def forallElem (tbl : Val) (i : Nat) : Res Val :=
  match tbl with
  | .tab _ _ es => match es[i]? with
    | some e => .ok e
    | none => .haz .oob
  | _ => .err Gen.EXC_RT_NOT_COLLECT

/-- `e = v;` inside the body (`LETStatement::doit` on a pointer): the pointed-to element is replaced
when the types are equal (`Type ==`: hashed minor for tuples), TYPE_MISMATCH otherwise. -/
def forallStep (tbl : Val) (i : Nat) (v : Val) : Res Val :=
  match tbl with
  | .tab t d es =>
    match es[i]? with
    | some old => if v.type != old.type then tyMismatch else .ok (.tab t d (listPut es i v))
    | none => .haz .oob
  | _ => .err Gen.EXC_RT_NOT_COLLECT

/-- forall as a fold: `body i elem acc` returns the new value of the iterator (written back when it
differs… always written: same value = no change) and the accumulator. -/
def forallFold {σ} (body : Nat → Val → σ → Res (Val × σ)) : List Nat → Val → σ → Res (Val × σ)
  | [], tbl, acc => .ok (tbl, acc)
  | i :: is, tbl, acc =>
    match forallElem tbl i with
    | .ok e =>
      match body i e acc with
      | .ok (e', acc') =>
        match forallStep tbl i e' with
        | .ok tbl' => forallFold body is tbl' acc'
        | .err c x => .err c x
        | .haz h => .haz h
        | .unmodelled => .unmodelled
      | .err c x => .err c x
      | .haz h => .haz h
      | .unmodelled => .unmodelled
    | .err c x => .err c x
    | .haz h => .haz h
    | .unmodelled => .unmodelled

end BlocV
