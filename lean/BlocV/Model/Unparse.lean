/-
  Model of `unparse` (C12), byte-exact.

  Transcribed from
    blocc/operator/op_*.cpp `unparse`    binary: `[(]a OP b[)]`; unary: `[(]OP[(]a[)][)]` — the inner
                                         parentheses are added when the operand is a NON-enclosed operator node
                                         (`!arg1->enclosed()`; `Expression::enclosed()` is `true` for every
                                         node that is not an operator); `not` is followed by a space;
    blocc/operator.cpp `OPVALS`          operator spellings (`power`, `and`, `matches`, …) via Gen.opvals;
    blocc/expression_integer/numeric/literal/boolean/variable/builtin/functor/item/member.cpp, member_set.cpp;
    blocc/value.cpp                      `readableInteger` (std::to_string), `readableNumeric` ("%.16g"),
                                         `readableLiteral`;
    blocc/executable.cpp `Executable::unparse`, blocc/statement.cpp `unparse_next`, every statement_*.cpp `unparse`
                                         (DOStatement::unparse writes `do ` + expression ALWAYS since 1a89173, also for an
                                         expression statement that was written without the keyword: `t.concat(5);` is
                                         saved as `do T.concat(5);`).

  Two renderings of the same tree are given: `unparseExpr` / `unparseProgram` (the bytes the C++ writes) and
  `toksExpr` / `toksDo` / `toksStmt` / `toksProgram` (the token sequence those bytes are meant to scan to). The parser theorems of Proofs/C12.lean are
  stated on `toksExpr`; that `unparseExpr e` scans to `toksExpr e` is checked by evaluation in the driver on
  every case of the correspondence run (`lex=1`); it is not a theorem (see notes/NOTES-C12.md, "left unproved").
-/
import BlocV.Model.Parse
import BlocV.Model.Builtins
import BlocV.Model.Fmt

namespace BlocV.Unparse
open BlocV BlocV.Parse

/-! ## Literals -/

/-- `Value::readableLiteral`. -/
def escByte (c : UInt8) : Bytes :=
  if c == 7 then [92, 97]
  else if c == 8 then [92, 98]
  else if c == 12 then [92, 102]
  else if c == 10 then [92, 110]
  else if c == 13 then [92, 114]
  else if c == 9 then [92, 116]
  else if c == 92 then [92, 92]
  else if c == 34 then [92, 34]
  else [c]

def escAll : Bytes → Bytes
  | [] => []
  | c :: t => escByte c ++ escAll t

def readableLiteral (s : Bytes) : Bytes := 34 :: (escAll s ++ [34])

/-- `NumericExpression::unparse`: "%.16g", plus ".0" when the text has neither 'e' nor '.'
(so `inf` / `nan` would become `inf.0` / `nan.0`; the parser cannot build those constants). -/
def numText (d : UInt64) : Bytes :=
  let s := Fmt.fmt16g d
  if s.contains 101 || s.contains 46 then s else s ++ [46, 48]

/-- `std::to_string(unsigned)` of an item number. -/
def natText (n : Nat) : Bytes := Fmt.natStr n

/-! ## Operators -/

def opIndex : POp → Nat
  | .add => 1 | .sub => 2 | .mul => 3 | .div => 4 | .exp => 5 | .mod => 8 | .and => 10 | .ior => 11 | .xor => 12
  | .pop => 15 | .pus => 16 | .eq => 20 | .ne => 21 | .lt => 22 | .le => 23 | .gt => 24 | .ge => 25
  | .band => 30 | .bior => 31 | .bxor => 32 | .matches => 35

def unIndex : PUn → Nat
  | .neg => 6 | .pos => 7 | .not => 13 | .bnot => 33

/-- `Operator::OPVALS[op]`. -/
def opText (op : POp) : Bytes := bytesOf (Gen.opvals.getD (opIndex op) "")
def unText (op : PUn) : Bytes := bytesOf (Gen.opvals.getD (unIndex op) "")

/-- `Expression::enclosed()`. -/
def enclosed : PExpr → Bool
  | .un _ enc _ => enc
  | .bin _ enc _ _ => enc
  | _ => true

def paren (b : Bool) (s : Bytes) : Bytes := if b then 40 :: (s ++ [41]) else s

def joinWith (sep : Bytes) : List Bytes → Bytes
  | [] => []
  | [x] => x
  | x :: xs => x ++ sep ++ joinWith sep xs

mutual
  /-- `Expression::unparse`. -/
  def unparseExpr : PExpr → Bytes
    | .int v => intToString v
    | .num d => numText d
    | .str s => readableLiteral s
    | .var n => n
    | .kw n => n
    | .call n args => n ++ [40] ++ joinWith [44, 32] (unparseArgs args) ++ [41]
    | .fcall n args => n ++ [40] ++ joinWith [44] (unparseArgs args) ++ [41]
    | .member e n args => unparseExpr e ++ [46] ++ n ++ [40] ++ joinWith [44, 32] (unparseArgs args) ++ [41]
    | .setm e no a => unparseExpr e ++ [46] ++ bytesOf "set" ++ [64] ++ natText no ++ [40] ++ unparseExpr a ++ [41]
    | .item e no => unparseExpr e ++ [64] ++ natText no
    | .un op enc x =>
      paren enc (unText op ++ (if op == .bnot then [32] else []) ++ paren (!enclosed x) (unparseExpr x))
    | .bin op enc a b => paren enc (unparseExpr a ++ [32] ++ opText op ++ [32] ++ unparseExpr b)
  def unparseArgs : List PExpr → List Bytes
    | [] => []
    | a :: as => unparseExpr a :: unparseArgs as
end

/-! ## Statements -/

def indent (n : Nat) : Bytes := (List.replicate n (bytesOf "    ")).flatten

def dirText : PDir → Bytes
  | .auto => []
  | .asc => bytesOf "asc "
  | .desc => bytesOf "desc "

/-- `Statement::KEYWORDS[STMT_DO]` (statement.h: `STMT_DO = 23`), read from the extracted keyword table: a
changed table changes the text of a saved DO statement and breaks `doKeyword_eq` (Proofs/Lemmas/Parse.lean). -/
def doKeyword : Bytes := bytesOf (Gen.stmtKeywords.getD 23 "")

def paramText (p : Bytes × Bytes) : Bytes := if p.2.isEmpty then p.1 else p.1 ++ [58] ++ p.2

mutual
  /-- `Statement::unparse(ctx, out)` of one statement at exec level `lvl` (the level decides the
  indentation of the lines the statement writes itself: elsif / else / exception / when / end). -/
  def unparseStmt (lvl : Nat) : PStmt → Bytes
    | .nop => bytesOf "nop"
    | .brk => bytesOf "break"
    | .cont => bytesOf "continue"
    | .trace e => bytesOf "trace " ++ unparseExpr e
    | .ret none => bytesOf "return"
    | .ret (some e) => bytesOf "return " ++ unparseExpr e
    | .letS n e nx => n ++ bytesOf " = " ++ unparseExpr e ++ unparseNext lvl nx
    | .letn n ty nx => n ++ [58] ++ ty ++ unparseNext lvl nx
    | .print args => bytesOf "print" ++ (unparseArgs args).flatMap (fun a => 32 :: a)
    | .put args => bytesOf "put" ++ (unparseArgs args).flatMap (fun a => 32 :: a)
    -- DOStatement::unparse: `Statement::KEYWORDS[keyword()]`, a blank, the expression (keyword always written)
    | .doS e => doKeyword ++ [32] ++ unparseExpr e
    | .raise n => bytesOf "raise " ++ n
    | .ifS rules els =>
      unparseRules lvl true rules ++
      (match els with
       | some b => indent lvl ++ bytesOf "else\n" ++ unparseBlock (lvl + 1) b
       | none => []) ++ indent lvl ++ bytesOf "end if"
    | .whileS c body =>
      bytesOf "while " ++ unparseExpr c ++ bytesOf " loop\n" ++ unparseBlock (lvl + 1) body ++ indent lvl ++ bytesOf "end loop"
    | .forS v b e step dir body =>
      bytesOf "for " ++ v ++ bytesOf " in " ++ unparseExpr b ++ bytesOf " to " ++ unparseExpr e ++ [32] ++
      (match step with
       | some s => bytesOf "step " ++ unparseExpr s ++ [32]
       | none => []) ++ dirText dir ++ bytesOf "loop\n" ++ unparseBlock (lvl + 1) body ++ indent lvl ++ bytesOf "end loop"
    | .forall v e dir body =>
      bytesOf "forall " ++ v ++ bytesOf " in " ++ unparseExpr e ++ [32] ++ dirText dir ++ bytesOf "loop\n" ++
      unparseBlock (lvl + 1) body ++ indent lvl ++ bytesOf "end loop"
    | .begin body catches =>
      -- BEGINStatement::unparse
      bytesOf "begin\n" ++ unparseBlock (lvl + 1) body ++
      (match catches with
       | [] => []
       | _ :: _ => indent lvl ++ bytesOf "exception\n") ++ unparseCatches lvl catches ++ indent lvl ++ bytesOf "end"
    | .func n params rt body catches =>
      bytesOf "function " ++ n ++
      (if params.isEmpty then [] else [40] ++ joinWith [44] (params.map paramText) ++ [41]) ++
      bytesOf " return " ++ rt ++ bytesOf " is\n" ++
      -- `_functor->body->unparse(*_functor->ctx, out)`: the BEGIN block at the function context's level 0
      bytesOf "begin\n" ++ unparseBlock 1 body ++
      (match catches with
       | [] => []
       | _ :: _ => bytesOf "exception\n") ++ unparseCatches 0 catches ++ bytesOf "end"

  /-- `unparse_next`. -/
  def unparseNext (lvl : Nat) : Option PStmt → Bytes
    | none => []
    | some s => bytesOf " , " ++ unparseStmt lvl s

  def unparseCatches (lvl : Nat) : List (Bytes × List PStmt) → Bytes
    | [] => []
    | (n, b) :: cs =>
      indent lvl ++ bytesOf "when " ++ n ++ bytesOf " then\n" ++ unparseBlock (lvl + 1) b ++ unparseCatches lvl cs

  def unparseRules (lvl : Nat) (first : Bool) : List (PExpr × List PStmt) → Bytes
    | [] => []
    | (c, b) :: rs =>
      (if first then bytesOf "if " else indent lvl ++ bytesOf "elsif ") ++ unparseExpr c ++ bytesOf " then\n" ++
      unparseBlock (lvl + 1) b ++ unparseRules lvl false rs

  /-- `Executable::unparse` at exec level `lvl` (without the END statement, which the owner adds). -/
  def unparseBlock (lvl : Nat) : List PStmt → Bytes
    | [] => []
    | s :: ss =>
      (match s with
       | .func .. => unparseStmt lvl s
       | _ => indent lvl ++ unparseStmt lvl s) ++ [59, 10] ++ unparseBlock lvl ss
end

/-- `Executable::unparse` of a whole program (exec level 0). -/
def unparseProgram (p : List PStmt) : Bytes := unparseBlock 0 p

/-! ## The token sequence of an unparsed expression -/

def intTok (v : Int64) : List Tok :=
  -- a negative value is written with a minus sign, which the scanner returns as a separate token
  if v < 0 then [ch 45, ⟨cINT, Fmt.natStr v.toInt.natAbs⟩] else [⟨cINT, intToString v⟩]

/-- DOUBLE when the text has no exponent, FLOAT otherwise (for a non-negative finite value). -/
def numTok (d : UInt64) : Tok :=
  let s := numText d
  ⟨if s.contains 101 then cFLT else cDBL, s⟩

def opTok (op : POp) : Tok :=
  match op with
  | .add => ch 43 | .sub => ch 45 | .mul => ch 42 | .div => ch 47 | .mod => ch 37
  | .and => ch 38 | .ior => ch 124 | .xor => ch 94 | .lt => ch 60 | .gt => ch 62
  | .exp => kw "power" | .matches => kw "matches" | .band => kw "and" | .bior => kw "or" | .bxor => kw "xor"
  | .pop => ⟨Gen.TOKEN_POPLEFT, bytesOf "<<"⟩ | .pus => ⟨Gen.TOKEN_PUSHRIGHT, bytesOf ">>"⟩
  | .eq => ⟨Gen.TOKEN_ISEQUAL, bytesOf "=="⟩ | .ne => ⟨Gen.TOKEN_ISNOTEQ, bytesOf "!="⟩
  | .le => ⟨Gen.TOKEN_ISEQLESS, bytesOf "<="⟩ | .ge => ⟨Gen.TOKEN_ISEQMORE, bytesOf ">="⟩

def unTok (op : PUn) : Tok :=
  match op with
  | .neg => ch 45 | .pos => ch 43 | .not => ch 126 | .bnot => kw "not"

def tparen (b : Bool) (ts : List Tok) : List Tok := if b then ch 40 :: (ts ++ [ch 41]) else ts

def joinToks (sep : Tok) : List (List Tok) → List Tok
  | [] => []
  | [x] => x
  | x :: xs => x ++ sep :: joinToks sep xs

mutual
  def toksExpr : PExpr → List Tok
    | .int v => intTok v
    | .num d => [numTok d]
    | .str s => [⟨cSTR, readableLiteral s⟩]
    | .var n => [⟨cKW, n⟩]
    | .kw n => [⟨cKW, n⟩]
    | .call n args => ⟨cKW, n⟩ :: ch 40 :: (joinToks (ch 44) (toksArgs args) ++ [ch 41])
    | .fcall n args => ⟨cKW, n⟩ :: ch 40 :: (joinToks (ch 44) (toksArgs args) ++ [ch 41])
    | .member e n args => toksExpr e ++ ch 46 :: ⟨cKW, n⟩ :: ch 40 :: (joinToks (ch 44) (toksArgs args) ++ [ch 41])
    | .setm e no a => toksExpr e ++ ch 46 :: kw "set" :: ch 64 :: ⟨cINT, natText no⟩ :: ch 40 :: (toksExpr a ++ [ch 41])
    | .item e no => toksExpr e ++ [ch 64, ⟨cINT, natText no⟩]
    | .un op enc x => tparen enc (unTok op :: tparen (!enclosed x) (toksExpr x))
    | .bin op enc a b => tparen enc (toksExpr a ++ opTok op :: toksExpr b)
  def toksArgs : List PExpr → List (List Tok)
    | [] => []
    | a :: as => toksExpr a :: toksArgs as
end

/-- The token sequence of a DO statement as `Executable::unparse` writes it: the keyword `do` (always
written by `DOStatement::unparse`), the tokens of the expression, the separator `;`. -/
def toksDo (e : PExpr) : List Tok := kw "do" :: (toksExpr e ++ [ch 59])

/-! ## The token sequence of an unparsed statement / program (all statement kinds)

`toksBlock p` is what `unparseBlock lvl p` is meant to scan to (indentation and newlines are not tokens, so the
level does not show). The driver compares it with `tokensOf (unparseProgram p)` on every case (`ptoks=`). -/

def dirToks : PDir → List Tok
  | .auto => []
  | .asc => [kw "asc"]
  | .desc => [kw "desc"]

def paramToks (p : Bytes × Bytes) : List Tok :=
  if p.2.isEmpty then [⟨cKW, p.1⟩] else [⟨cKW, p.1⟩, ch 58, ⟨cKW, p.2⟩]

mutual
  /-- tokens of one statement, without the separator `Executable::unparse` adds -/
  def toksStmt : PStmt → List Tok
    | .nop => [kw "nop"]
    | .brk => [kw "break"]
    | .cont => [kw "continue"]
    | .trace e => kw "trace" :: toksExpr e
    | .ret none => [kw "return"]
    | .ret (some e) => kw "return" :: toksExpr e
    | .letS n e nx => ⟨cKW, n⟩ :: ch 61 :: (toksExpr e ++ toksNext nx)
    | .letn n ty nx => ⟨cKW, n⟩ :: ch 58 :: ⟨cKW, ty⟩ :: toksNext nx
    | .print args => kw "print" :: (toksArgs args).flatten
    | .put args => kw "put" :: (toksArgs args).flatten
    | .doS e => kw "do" :: toksExpr e
    | .raise n => [kw "raise", ⟨cKW, n⟩]
    | .ifS rules els =>
      toksRules true rules ++
      (match els with
       | some b => kw "else" :: toksBlock b
       | none => []) ++ [kw "end", kw "if"]
    | .whileS c body => kw "while" :: (toksExpr c ++ kw "loop" :: (toksBlock body ++ [kw "end", kw "loop"]))
    | .forS v b e step dir body =>
      kw "for" :: ⟨cKW, v⟩ :: kw "in" :: (toksExpr b ++ kw "to" :: (toksExpr e ++
      (match step with
       | some s => kw "step" :: toksExpr s
       | none => []) ++ dirToks dir ++ kw "loop" :: (toksBlock body ++ [kw "end", kw "loop"])))
    | .forall v e dir body =>
      kw "forall" :: ⟨cKW, v⟩ :: kw "in" :: (toksExpr e ++ dirToks dir ++ kw "loop" :: (toksBlock body ++ [kw "end", kw "loop"]))
    | .begin body catches =>
      kw "begin" :: (toksBlock body ++
      (match catches with
       | [] => []
       | _ :: _ => [kw "exception"]) ++ toksCatches catches ++ [kw "end"])
    | .func n params rt body catches =>
      kw "function" :: ⟨cKW, n⟩ ::
      ((if params.isEmpty then [] else ch 40 :: (joinToks (ch 44) (params.map paramToks) ++ [ch 41])) ++
       kw "return" :: ⟨cKW, rt⟩ :: kw "is" :: kw "begin" :: (toksBlock body ++
      (match catches with
       | [] => []
       | _ :: _ => [kw "exception"]) ++ toksCatches catches ++ [kw "end"]))

  def toksNext : Option PStmt → List Tok
    | none => []
    | some s => ch 44 :: toksStmt s

  def toksCatches : List (Bytes × List PStmt) → List Tok
    | [] => []
    | (n, b) :: cs => kw "when" :: ⟨cKW, n⟩ :: kw "then" :: (toksBlock b ++ toksCatches cs)

  def toksRules (first : Bool) : List (PExpr × List PStmt) → List Tok
    | [] => []
    | (c, b) :: rs => (if first then kw "if" else kw "elsif") :: (toksExpr c ++ kw "then" :: (toksBlock b ++ toksRules false rs))

  /-- every statement followed by the separator `;` -/
  def toksBlock : List PStmt → List Tok
    | [] => []
    | s :: ss => toksStmt s ++ ch 59 :: toksBlock ss
end

def toksProgram (p : List PStmt) : List Tok := toksBlock p

end BlocV.Unparse
