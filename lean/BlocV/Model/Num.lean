/-
  Model — scalar arithmetic exactly as the C++ writes it.

  Integers: `Int64`. Every function below is the transcription of one expression of
  blocc/operator/op_*.cpp (after the `fix:` commits recorded in known_findings.json):
    op_add/sub/mul/neg : computed in uint64_t, converted back (wraps)
    op_div / op_mod    : zero divisor → DIVIDE_BY_ZERO; divisor −1 special-cased; else C `/` `%`
    op_pop (<<) op_pus (>>) : zero fill, negative displacement reverses, |n| ≥ 64 → 0
    op_exp             : square-and-multiply in uint64_t for n ≥ 0; n < 0 : 1/(b^−n) truncated
  Doubles are `UInt64` bit patterns; IEEE operations are delegated to Lean's `Float` (which has a
  logical model `Float.Model` in Lean 4.33 and compiles to the C operators) — executed, not
  reasoned about. What the properties state beyond "delegates to IEEE" (range test of
  int(decimal), truncation) is written on the bit pattern in exact arithmetic.
-/
import BlocV.Model.Basic

namespace BlocV
namespace Num

/-! ### Integers -/

def iadd (a b : Int64) : Int64 := a + b
def isub (a b : Int64) : Int64 := a - b
def imul (a b : Int64) : Int64 := a * b
def ineg (a : Int64) : Int64 := 0 - a
def iand (a b : Int64) : Int64 := a &&& b
def ior (a b : Int64) : Int64 := a ||| b
def ixor (a b : Int64) : Int64 := a ^^^ b
def inot (a : Int64) : Int64 := ~~~a

/-- `op_div.cpp` INTEGER×INTEGER. -/
def idiv (a b : Int64) : Res Int64 :=
  if b == 0 then .err Gen.EXC_RT_DIVIDE_BY_ZERO
  else if b == -1 then .ok (0 - a)
  else .ok (a / b)                -- C `/` : truncation toward zero; no overflow since b ≠ −1

/-- `op_mod.cpp` INTEGER×INTEGER. -/
def imod (a b : Int64) : Res Int64 :=
  if b == 0 then .err Gen.EXC_RT_DIVIDE_BY_ZERO
  else if b == -1 then .ok 0
  else .ok (a % b)                -- C `%` : sign of the dividend

/-- `op_pop.cpp` (`<<`): `(n >= 64 || n <= -64) ? 0 : (n >= 0 ? (u << n) : (u >> (-n)))` on uint64_t. -/
def ishl (a n : Int64) : Int64 :=
  if n ≥ 64 ∨ n ≤ -64 then 0
  else if n ≥ 0 then (a.toUInt64 <<< n.toUInt64).toInt64
  else (a.toUInt64 >>> (0 - n).toUInt64).toInt64

/-- `op_pus.cpp` (`>>`). -/
def ishr (a n : Int64) : Int64 :=
  if n ≥ 64 ∨ n ≤ -64 then 0
  else if n ≥ 0 then (a.toUInt64 >>> n.toUInt64).toInt64
  else (a.toUInt64 <<< (0 - n).toUInt64).toInt64

/-- The square-and-multiply loop of `op_exp.cpp`, `fuel` = remaining loop iterations (64 suffice:
`n` loses one bit per iteration). -/
def powLoop : Nat → UInt64 → UInt64 → UInt64 → UInt64
  | 0, r, _, _ => r
  | fuel + 1, r, b, n =>
    if n == 0 then r
    else powLoop fuel (if n &&& 1 == 1 then r * b else r) (b * b) (n >>> 1)

/-- `op_exp.cpp` INTEGER×INTEGER. -/
def ipow (a n : Int64) : Res Int64 :=
  if n < 0 then
    if a == 0 then .err Gen.EXC_RT_DIVIDE_BY_ZERO
    else if a == 1 then .ok 1
    else if a == -1 then .ok (if n &&& 1 == 1 then -1 else 1)
    else .ok 0
  else .ok (powLoop 64 1 a.toUInt64 n.toUInt64).toInt64

/-! ### Doubles as bit patterns -/

abbrev F64 := UInt64

def f (b : F64) : Float := Float.ofBits b
def canonNaN : F64 := 0x7ff8000000000000
/-- Bits of a float; every NaN is reported as one canonical pattern (payloads are not compared). -/
def bits (x : Float) : F64 := if x.isNaN then canonNaN else x.toBits


def fadd (a b : F64) : F64 := bits (f a + f b)
def fsub (a b : F64) : F64 := bits (f a - f b)
def fmul (a b : F64) : F64 := bits (f a * f b)
def fdiv (a b : F64) : F64 := bits (f a / f b)
def fneg (a : F64) : F64 := bits (0.0 - f a)
def fpow (a b : F64) : F64 := bits (Float.pow (f a) (f b))
def isZero (a : F64) : Bool := (a &&& 0x7fffffffffffffff) == 0   -- d == 0.0 (±0)

/-- Sign, biased exponent, mantissa fields. -/
def sign (b : F64) : Bool := b >>> 63 == 1
def expo (b : F64) : Nat := ((b >>> 52) &&& 0x7ff).toNat
def mant (b : F64) : Nat := (b &&& 0xfffffffffffff).toNat
def isNaN (b : F64) : Bool := expo b == 2047 && mant b != 0
def isInf (b : F64) : Bool := expo b == 2047 && mant b == 0

/-- Exact truncation toward zero of a finite double, as a mathematical integer. -/
def truncInt (b : F64) : Option Int :=
  if expo b == 2047 then none
  else
    let m : Nat := if expo b == 0 then mant b else mant b + 2 ^ 52
    let e : Int := (if expo b == 0 then 1 else (expo b : Int)) - 1075
    let mag : Nat := if e ≥ 0 then m * 2 ^ e.toNat else m / 2 ^ (-e).toNat
    some (if sign b then -(mag : Int) else (mag : Int))

/-- `builtin_int.cpp` NUMERIC: `if (!(d >= -2^63 && d < 2^63)) OUT_OF_RANGE; Integer(d)`.
The two comparisons are transcribed on the bit pattern: for a non-NaN double, `d < 2^63` iff it is
negative or its exponent field is below 1086 (= 1023 + 63); `d >= -2^63` iff it is non-negative,
or its exponent field is below 1086, or it is exactly −2^63. -/
def intOfDecimal (b : F64) : Res Int64 :=
  let lt63 : Bool := !isNaN b && (sign b || expo b < 1086)
  let geM63 : Bool := !isNaN b && (!sign b || expo b < 1086 || b == 0xc3e0000000000000)
  if !(geM63 && lt63) then .err Gen.EXC_RT_OUT_OF_RANGE
  else match truncInt b with
    | some z => .ok (Int64.ofInt z)     -- the C cast truncates toward zero; in range ⇒ exact
    | none => .haz .floatToInt

/-! ### fmod, exactly (the C library's `fmod` is exact by definition) -/

/-- Magnitude of a finite double as `m · 2^e` with `m : Nat`. -/
def decodeMag (b : F64) : Nat × Int :=
  if expo b == 0 then (mant b, -1074) else (mant b + 2 ^ 52, (expo b : Int) - 1075)

def bitLen : Nat → Nat := fun n => if n == 0 then 0 else Nat.log2 n + 1

/-- Encode `±(r · 2^e)` for `0 < r < 2^53`, `e ≥ −1074`, assumed exactly representable. -/
def encodeExact (neg : Bool) (r : Nat) (e : Int) : F64 :=
  let s : UInt64 := if neg then 0x8000000000000000 else 0
  if r == 0 then s else
  let k := bitLen r
  let E : Int := e + k + 1022
  if E ≥ 1 then
    let m : Nat := r * 2 ^ (53 - k) - 2 ^ 52
    s ||| (UInt64.ofNat E.toNat <<< 52) ||| UInt64.ofNat m
  else
    s ||| UInt64.ofNat (r * 2 ^ (e + 1074).toNat)

/-- `std::fmod(x, y)` for `y ≠ 0` (the callers raise DIVIDE_BY_ZERO first). -/
def fmod (x y : F64) : F64 :=
  if isNaN x || isNaN y || isInf x then canonNaN
  else if isInf y then x
  else
    let (mx, ex) := decodeMag x
    let (my, ey) := decodeMag y
    if my == 0 then canonNaN else
    let e := min ex ey
    let X := mx * 2 ^ (ex - e).toNat
    let Y := my * 2 ^ (ey - e).toNat
    encodeExact (sign x) (X % Y) e

/-- Total order comparison used by the relational operators: C `<` on doubles. -/
def flt (a b : F64) : Bool := f a < f b
def fle (a b : F64) : Bool := f a ≤ f b
def feq (a b : F64) : Bool := f a == f b

end Num
end BlocV
