/-
  Model of janbar/BLOC — basic vocabulary: types, values, outcomes.

  Transcribed from blocc/intrinsic_type.h, blocc/value.h, blocc/tuple_decl.cpp.
  Conventions (DESIGN.md §3.2): Int64 for integers, IEEE doubles as UInt64 bit patterns, byte strings as
  `List UInt8`; C-level hazards are outcomes of the model, not things it is too polite to do.
-/
import BlocV.Gen.Errors
import BlocV.Gen.Consts

namespace BlocV

/-- `Type::TypeMajor` (intrinsic_type.h). The numeric codes are checked against `Gen.typeMajors`. -/
inductive Major
  | none | bool | int | num | str | obj | raw | tup | ptr | imag
  deriving DecidableEq, Repr, Inhabited

def Major.code : Major → Nat
  | .none => 0 | .bool => 1 | .int => 2 | .num => 3 | .str => 4
  | .obj => 5 | .raw => 6 | .tup => 7 | .ptr => 8 | .imag => 9

/-- `bloc::Type` = (major, minor, level); `minor` is the module id of an object or the 16-bit
structure hash of a tuple. -/
structure Ty where
  major : Major
  minor : Nat := 0
  level : Nat := 0
  deriving DecidableEq, Repr, Inhabited

namespace Ty
def none : Ty := { major := .none }
def bool : Ty := { major := .bool }
def int : Ty := { major := .int }
def num : Ty := { major := .num }
def str : Ty := { major := .str }
def raw : Ty := { major := .raw }
def imag : Ty := { major := .imag }
def levelUp (t : Ty) : Ty := { t with level := t.level + 1 }
def levelDown (t : Ty) : Ty := { t with level := t.level - 1 }
end Ty

abbrev Bytes := List UInt8

/-- `TupleDecl::Decl::make_type`: DJB hash over the item types, reduced modulo `TYPE_MINOR_MAX`
(65535, *not* 65536); minor 0 means "opaque". `uint_fast32_t` is 64 bits on the platform. -/
def declHash (decl : List Ty) : Nat :=
  (decl.foldl (fun (h : UInt64) (m : Ty) =>
      ((h <<< 5) + h) + (((UInt64.ofNat m.minor) <<< 8) + UInt64.ofNat m.major.code)) 5381).toNat

def makeTupleTy (decl : List Ty) (level : Nat) : Ty :=
  if decl.isEmpty then { major := .tup, minor := 0, level := level }
  else { major := .tup, minor := declHash decl % Gen.TYPE_MINOR_MAX, level := level }

/-- A BLOC value (`bloc::Value` payload + type + NOTNULL flag; the LVALUE flag lives in the store). -/
inductive Val
  | null (t : Ty)
  | bool (b : Bool)
  | int (i : Int64)
  | num (d : UInt64)                       -- IEEE-754 binary64 bit pattern
  | imag (a b : UInt64)
  | str (s : Bytes)
  | raw (s : Bytes)
  | tup (decl : List Ty) (items : List Val)
  | tab (t : Ty) (decl : List Ty) (elems : List Val)   -- t = table type (level ≥ 1)
  | obj (tid : Nat) (id : Nat)
  deriving Repr, Inhabited

mutual
  def Val.beq : Val → Val → Bool
    | .null a, .null b => a == b
    | .bool a, .bool b => a == b
    | .int a, .int b => a == b
    | .num a, .num b => a == b
    | .imag a b, .imag c d => a == c && b == d
    | .str a, .str b => a == b
    | .raw a, .raw b => a == b
    | .tup d1 i1, .tup d2 i2 => d1 == d2 && Val.beqList i1 i2
    | .tab t1 d1 e1, .tab t2 d2 e2 => t1 == t2 && d1 == d2 && Val.beqList e1 e2
    | .obj a b, .obj c d => a == c && b == d
    | _, _ => false
  def Val.beqList : List Val → List Val → Bool
    | [], [] => true
    | a :: as, b :: bs => Val.beq a b && Val.beqList as bs
    | _, _ => false
end

instance : BEq Val := ⟨Val.beq⟩

def Val.type : Val → Ty
  | .null t => t
  | .bool _ => Ty.bool
  | .int _ => Ty.int
  | .num _ => Ty.num
  | .imag _ _ => Ty.imag
  | .str _ => Ty.str
  | .raw _ => Ty.raw
  | .tup decl _ => makeTupleTy decl 0
  | .tab t _ _ => t
  | .obj tid _ => { major := .obj, minor := tid }

def Val.isNull : Val → Bool
  | .null _ => true
  | _ => false

/-- What C/C++ leaves undefined or what would escape BLOC's own error reporting. -/
inductive Hazard
  | nullDeref | signedOverflow | divOverflow | shiftRange | floatToInt | foreignException
  | diverges | oob
  deriving DecidableEq, Repr, Inhabited

/-- Outcome of a model computation: a value, a BLOC runtime error (code from `Gen`, optional
argument = user exception name), a C-level hazard, or "this cell is not modelled". -/
inductive Res (α : Type)
  | ok (a : α)
  | err (code : Nat) (arg : Bytes := [])
  | haz (h : Hazard)
  | unmodelled
  deriving Repr, Inhabited, DecidableEq

instance : Monad Res where
  pure := Res.ok
  bind r f := match r with
    | .ok a => f a
    | .err c a => .err c a
    | .haz h => .haz h
    | .unmodelled => .unmodelled

def Res.isHazard {α} : Res α → Bool
  | .haz _ => true
  | _ => false

end BlocV
