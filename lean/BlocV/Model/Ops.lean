/-
  Model — the operators' `value()` methods (blocc/operator/op_*.cpp), at the level of values.

  Each function is the transcription of the nested `switch (a1.type().major()) / switch
  (a2.type().major())` of the corresponding C++ method: which (major, major, nullness) cell
  returns which value, raises which runtime error, or performs a C-level hazard. Where the result is
  written (LVAL1/LVAL2 reuse of an operand or a pool slot) is the business of Model/Store.lean.
  Imaginary (complex-number) cells are `unmodelled`: they are outside every property's statement.
-/
import BlocV.Model.Num

namespace BlocV

inductive BinOp
  | add | sub | mul | div | exp | mod | and | ior | xor | pop | pus
  | eq | ne | lt | le | gt | ge | band | bior | bxor
  deriving DecidableEq, Repr, Inhabited

inductive UnOp
  | neg | pos | not | bnot
  deriving DecidableEq, Repr, Inhabited

open Num

/-! ### typed accessors of `bloc::Value` (value.h): throw on type mismatch, nullptr on null -/

def Val.asInt (v : Val) : Res Int64 :=
  if v.type.major != .int || v.type.level != 0 then .err Gen.EXC_RT_NOT_INTEGER
  else match v with
    | .int i => .ok i
    | _ => .haz .nullDeref

def Val.asNum (v : Val) : Res F64 :=
  if v.type.major != .num || v.type.level != 0 then .err Gen.EXC_RT_NOT_NUMERIC
  else match v with
    | .num d => .ok d
    | _ => .haz .nullDeref

def Val.asBool (v : Val) : Res Bool :=
  if v.type.major != .bool || v.type.level != 0 then .err Gen.EXC_RT_NOT_BOOLEAN
  else match v with
    | .bool b => .ok b
    | _ => .haz .nullDeref

def Val.asStr (v : Val) : Res Bytes :=
  if v.type.major != .str || v.type.level != 0 then .err Gen.EXC_RT_NOT_LITERAL
  else match v with
    | .str s => .ok s
    | _ => .haz .nullDeref

def Val.asRaw (v : Val) : Res Bytes :=
  if v.type.major != .raw || v.type.level != 0 then .err Gen.EXC_RT_NOT_TABCHAR
  else match v with
    | .raw s => .ok s
    | _ => .haz .nullDeref

def inv {α} : Res α := .err Gen.EXC_RT_INV_EXPRESSION

/-! ### arithmetic -/

/-- The common shape of `op_add/sub/mul/div/exp/mod` on {untyped null, integer, decimal}.
`nn` is the result type of (untyped null, untyped null); `ii`/`ff` compute the non-null cells
(after the int → double conversion of a mixed pair). -/
def arith (nn : Ty) (ii : Int64 → Int64 → Res Int64) (ff : F64 → F64 → Res F64)
    (imagOk : Bool) (a1 a2 : Val) : Res Val :=
  let t1 := a1.type
  let t2 := a2.type
  if t1.level != 0 || t2.level != 0 then inv else
  match t1.major, t2.major with
  | .none, .none => .ok (.null nn)
  | .none, .int => .ok (.null t2)
  | .none, .num => .ok (.null t2)
  | .none, .imag => if imagOk then .ok (.null t2) else inv
  | .int, .none => .ok (.null Ty.int)
  | .num, .none => .ok (.null Ty.num)
  | .int, .int =>
    if a1.isNull || a2.isNull then .ok (.null Ty.int)
    else do let x ← a1.asInt; let y ← a2.asInt; let r ← ii x y; pure (.int r)
  | .int, .num =>
    if a1.isNull || a2.isNull then .ok (.null Ty.num)
    else do let x ← a1.asInt; let y ← a2.asNum; let r ← ff (bits x.toFloat) y; pure (.num r)
  | .num, .int =>
    if a1.isNull || a2.isNull then .ok (.null Ty.num)
    else do let x ← a1.asNum; let y ← a2.asInt; let r ← ff x (bits y.toFloat); pure (.num r)
  | .num, .num =>
    if a1.isNull || a2.isNull then .ok (.null Ty.num)
    else do let x ← a1.asNum; let y ← a2.asNum; let r ← ff x y; pure (.num r)
  | .imag, .none | .imag, .int | .imag, .num | .imag, .imag | .int, .imag | .num, .imag =>
    if imagOk then .unmodelled else inv
  | _, _ => inv

def fdivChecked (x y : F64) : Res F64 :=
  if isZero y then .err Gen.EXC_RT_DIVIDE_BY_ZERO else .ok (fdiv x y)

def fmodChecked (x y : F64) : Res F64 :=
  if isZero y then .err Gen.EXC_RT_DIVIDE_BY_ZERO else .ok (fmod x y)

/-- `op_add.cpp`: the arithmetic cells plus string concatenation. -/
def opAdd (a1 a2 : Val) : Res Val :=
  let t1 := a1.type
  let t2 := a2.type
  if t1.level != 0 || t2.level != 0 then inv else
  match t1.major, t2.major with
  | .none, .str => .ok a2
  | .str, .none => .ok a1
  | .str, .str =>
    match a1, a2 with
    | .str x, .str y => .ok (.str (x ++ y))
    | .str x, _ => .ok (.str x)
    | _, _ => .ok a2            -- a1 null: returns a2 (null or not)
  | _, _ => arith Ty.num (fun x y => .ok (iadd x y)) (fun x y => .ok (fadd x y)) true a1 a2

def opSub := arith Ty.num (fun x y => .ok (isub x y)) (fun x y => .ok (fsub x y)) true
def opMul := arith Ty.num (fun x y => .ok (imul x y)) (fun x y => .ok (fmul x y)) true
def opDiv := arith Ty.num idiv fdivChecked true
def opExp := arith Ty.num ipow (fun x y => .ok (fpow x y)) true
/-- `op_mod.cpp`: (null, null) yields a null of `a2.type()` = untyped; no imaginary cells. -/
def opMod := arith Ty.none imod fmodChecked false

/-! ### bitwise -/

/-- `op_and/ior/xor.cpp`, `op_pop/pus.cpp`: integers and untyped nulls only. -/
def bitwise (ii : Int64 → Int64 → Int64) (a1 a2 : Val) : Res Val :=
  let t1 := a1.type
  let t2 := a2.type
  if t1.level != 0 || t2.level != 0 then inv else
  match t1.major, t2.major with
  | .none, .none | .none, .int | .int, .none => .ok (.null Ty.int)
  | .int, .int =>
    if a1.isNull || a2.isNull then .ok (.null Ty.int)
    else do let x ← a1.asInt; let y ← a2.asInt; pure (.int (ii x y))
  | _, _ => inv

/-! ### relational (op_eq … op_ge) -/

/-- `std::string::compare` : memcmp on the common prefix (unsigned bytes), then the lengths. -/
def bytesCmp : Bytes → Bytes → Ordering
  | [], [] => .eq
  | [], _ :: _ => .lt
  | _ :: _, [] => .gt
  | a :: as, b :: bs => if a < b then .lt else if a > b then .gt else bytesCmp as bs

/-- A comparison result as a value; `unmodelled` passes through. -/
def boolRes : Res Bool → Res Val
  | .ok b => .ok (.bool b)
  | .err c a => .err c a
  | .haz h => .haz h
  | .unmodelled => .unmodelled

/-- Core of `op_eq.cpp` on two non-null operands. Tables and tuples compare by *address* of the
payload (`a1.collection() == a2.collection()`): two distinct values are never equal, so the model
returns `false` for them unless the caller knows they are the same cell (`same`). -/
def eqCore (same : Bool) (a1 a2 : Val) : Res Bool :=
  let t1 := a1.type
  let t2 := a2.type
  if t1.level > 0 then .ok (t2.level > 0 && same)
  else if t2.level > 0 then .ok false
  else match a1, a2 with
  | .bool x, .bool y => .ok (x == y)
  | .int x, .num y => .ok (feq (bits x.toFloat) y)
  | .int x, .int y => .ok (x == y)
  | .num x, .num y => .ok (feq x y)
  | .num x, .int y => .ok (feq x (bits y.toFloat))
  | .str x, .str y => .ok (x == y)
  | .raw x, .raw y => .ok (x == y)
  | .obj _ i, .obj _ j => .ok (i == j)
  | .tup _ _, .tup _ _ => .ok same
  | .imag _ _, _ | _, .imag _ _ => .unmodelled
  | _, _ => .ok false

/-- `op_eq.cpp`: null when either operand is null. -/
def opEq (same : Bool) (a1 a2 : Val) : Res Val :=
  if a1.isNull || a2.isNull then .ok (.null Ty.bool) else boolRes (eqCore same a1 a2)

/-- Core of `op_ne.cpp` (not literally `!eq`: transcribed cell by cell). -/
def neCore (same : Bool) (a1 a2 : Val) : Res Bool :=
  let t1 := a1.type
  let t2 := a2.type
  if t1.level > 0 then .ok (!(t2.level > 0 && same))
  else if t2.level > 0 then .ok true
  else match a1, a2 with
  | .bool x, .bool y => .ok (x != y)
  | .int x, .num y => .ok (!feq (bits x.toFloat) y)
  | .int x, .int y => .ok (x != y)
  | .num x, .num y => .ok (!feq x y)
  | .num x, .int y => .ok (!feq x (bits y.toFloat))
  | .str x, .str y => .ok (x != y)
  | .raw x, .raw y => .ok (x != y)
  | .obj _ i, .obj _ j => .ok (i != j)
  | .tup _ _, .tup _ _ => .ok (!same)
  | .imag _ _, _ | _, .imag _ _ => .unmodelled
  | _, _ => .ok true

def opNe (same : Bool) (a1 a2 : Val) : Res Val :=
  if a1.isNull || a2.isNull then .ok (.null Ty.bool) else boolRes (neCore same a1 a2)

/-- Core of `op_lt/le/gt/ge.cpp`: one switch on `a1.type().major()`; the second operand is read
through a typed accessor, which throws when its type does not fit. -/
def ordCore (ci : Int64 → Int64 → Bool) (cf : F64 → F64 → Bool) (cs : Ordering → Bool) (a1 a2 : Val) : Res Bool :=
  match a1.type.major with
  | .int =>
    if a2.type.major == .num then do
      let x ← a1.asInt; let y ← a2.asNum; pure (cf (bits x.toFloat) y)
    else do let x ← a1.asInt; let y ← a2.asInt; pure (ci x y)
  | .num =>
    if a2.type.major == .int then do
      let x ← a1.asNum; let y ← a2.asInt; pure (cf x (bits y.toFloat))
    else do let x ← a1.asNum; let y ← a2.asNum; pure (cf x y)
  | .str => do let x ← a1.asStr; let y ← a2.asStr; pure (cs (bytesCmp x y))
  | _ => .ok false

def ordered (ci : Int64 → Int64 → Bool) (cf : F64 → F64 → Bool) (cs : Ordering → Bool) (a1 a2 : Val) : Res Val :=
  if a1.isNull || a2.isNull then .ok (.null Ty.bool) else boolRes (ordCore ci cf cs a1 a2)

def opLt := ordered (· < ·) flt (· == .lt)
def opLe := ordered (· ≤ ·) fle (· != .gt)
def opGt := ordered (· > ·) (fun a b => flt b a) (· == .gt)
def opGe := ordered (· ≥ ·) (fun a b => fle b a) (· != .lt)

/-! ### logical (op_band / op_bior / op_bxor / op_bnot) — `a2` is evaluated lazily -/

def opBand (a1 : Val) (a2 : Unit → Res Val) : Res Val :=
  if a1.type.level != 0 then inv else
  match a1.type.major with
  | .none => do
    let v2 ← a2 ()
    if v2.type.level != 0 then inv else
    match v2.type.major with
    | .none => pure (.null Ty.bool)
    | .bool => match v2 with
      | .bool false => pure (.bool false)
      | _ => pure (.null Ty.bool)
    | _ => inv
  | .bool =>
    match a1 with
    | .bool false => .ok (.bool false)
    | _ => do
      let v2 ← a2 ()
      if v2.type.level != 0 then inv else
      match v2.type.major with
      | .none => pure (.null Ty.bool)
      | .bool => match v2 with
        | .bool false => pure (.bool false)
        | .bool true => if a1.isNull then pure (.null Ty.bool) else pure (.bool true)
        | _ => pure (.null Ty.bool)
      | _ => inv
  | _ => inv

def opBior (a1 : Val) (a2 : Unit → Res Val) : Res Val :=
  if a1.type.level != 0 then inv else
  match a1.type.major with
  | .none => do
    let v2 ← a2 ()
    if v2.type.level != 0 then inv else
    match v2.type.major with
    | .none => pure (.null Ty.bool)
    | .bool => match v2 with
      | .bool true => pure (.bool true)
      | _ => pure (.null Ty.bool)
    | _ => inv
  | .bool =>
    match a1 with
    | .bool true => .ok (.bool true)
    | _ => do
      let v2 ← a2 ()
      if v2.type.level != 0 then inv else
      match v2.type.major with
      | .none => pure (.null Ty.bool)
      | .bool => match v2 with
        | .bool true => pure (.bool true)
        | .bool false => if a1.isNull then pure (.null Ty.bool) else pure (.bool false)
        | _ => pure (.null Ty.bool)
      | _ => inv
  | _ => inv

def opBxor (a1 a2 : Val) : Res Val :=
  let t1 := a1.type
  let t2 := a2.type
  if t1.level != 0 || t2.level != 0 then inv else
  match t1.major, t2.major with
  | .none, .none | .none, .bool | .bool, .none => .ok (.null Ty.bool)
  | .bool, .bool =>
    match a1, a2 with
    | .bool x, .bool y => .ok (.bool (x != y))
    | _, .null _ => .ok a2
    | _, _ => .ok a1
  | _, _ => inv

/-! ### unary -/

def evalUn (op : UnOp) (a1 : Val) : Res Val :=
  if a1.type.level != 0 then inv else
  match op, a1.type.major with
  | .neg, .none => .ok a1
  | .neg, .int => match a1 with | .int x => .ok (.int (ineg x)) | _ => .ok a1
  | .neg, .num => match a1 with | .num x => .ok (.num (fneg x)) | _ => .ok a1
  | .neg, .imag => .unmodelled
  | .pos, .none | .pos, .int | .pos, .num | .pos, .imag => .ok a1
  | .not, .none => .ok (.null Ty.int)
  | .not, .int => match a1 with | .int x => .ok (.int (inot x)) | _ => .ok a1
  | .bnot, .none => .ok (.null Ty.bool)
  | .bnot, .bool => match a1 with | .bool x => .ok (.bool (x == false)) | _ => .ok a1
  | _, _ => inv

/-- All binary operators with both operands already evaluated (`same` = both operands denote the
same storage cell, only relevant to `==`/`!=` on tables and tuples). -/
def evalBin (op : BinOp) (a1 a2 : Val) (same : Bool := false) : Res Val :=
  match op with
  | .add => opAdd a1 a2
  | .sub => opSub a1 a2
  | .mul => opMul a1 a2
  | .div => opDiv a1 a2
  | .exp => opExp a1 a2
  | .mod => opMod a1 a2
  | .and => bitwise iand a1 a2
  | .ior => bitwise ior a1 a2
  | .xor => bitwise ixor a1 a2
  | .pop => bitwise ishl a1 a2
  | .pus => bitwise ishr a1 a2
  | .eq => opEq same a1 a2
  | .ne => opNe same a1 a2
  | .lt => opLt a1 a2
  | .le => opLe a1 a2
  | .gt => opGt a1 a2
  | .ge => opGe a1 a2
  | .band => opBand a1 (fun _ => .ok a2)
  | .bior => opBior a1 (fun _ => .ok a2)
  | .bxor => opBxor a1 a2

/-- The condition test of statement_if.cpp / statement_while.cpp:
`if (val.isNull() || !*val.boolean())` ⇒ the false branch. -/
def condTaken (v : Val) : Res Bool :=
  if v.isNull then .ok false else do let b ← v.asBool; pure b

end BlocV
