/-
  Model, storage level ("L1") — where an expression node writes its result.

  In the C++ every `Expression::value(ctx)` returns a `Value&`: a reference to a variable slot, to the
  constant held by a literal node, or to a slot of the context's temporary pool. A node writes its
  result *into one of its operands* when that operand's LVALUE flag is clear (macros LVAL1 / LVAL2 in
  every operator), otherwise into the next free pool slot (`Context::allocate` → `Pool::keep`, which
  hands out slot `wm` and bumps the watermark; the watermark is reset after every statement).
  Value semantics (C05), the stable meaning of literals (C04) and clone independence (C14) rest on
  one invariant: every cell that is not a temporary carries the flag (`FlagInv`).

  This file transcribes that discipline for constants, variables and the unary / binary operators
  (which operand each cell of op_*.cpp returns or overwrites). The *values* are those of
  Model/Ops.lean; Proofs/C05.lean proves that, under `FlagInv`, evaluation changes no variable and no
  constant and computes exactly the value-level result.
-/
import BlocV.Model.Ops

namespace BlocV

structure Cell where
  val : Val
  lv : Bool
  deriving Inhabited

inductive Loc
  | var (i : Nat)
  | cst (i : Nat)
  | tmp (i : Nat)
  deriving DecidableEq, Repr, Inhabited

structure Store where
  vars : List Cell
  csts : List Cell
  pool : List Cell
  wm : Nat
  deriving Inhabited

def Store.get (σ : Store) : Loc → Cell
  | .var i => σ.vars.getD i default
  | .cst i => σ.csts.getD i default
  | .tmp i => σ.pool.getD i default

def Store.set (σ : Store) (ℓ : Loc) (c : Cell) : Store :=
  match ℓ with
  | .var i => { σ with vars := σ.vars.set i c }
  | .cst i => { σ with csts := σ.csts.set i c }
  | .tmp i => { σ with pool := σ.pool.set i c }

/-- `Context::allocate(Value&&)` = `Pool::keep`: slot `wm` receives the value (flags of a fresh value:
not an lvalue), growing the pool when needed; the watermark moves up. -/
def alloc (σ : Store) (v : Val) : Loc × Store :=
  let c : Cell := { val := v, lv := false }
  let pool' := if σ.wm < σ.pool.length then σ.pool.set σ.wm c else σ.pool ++ List.replicate (σ.wm - σ.pool.length) default ++ [c]
  (.tmp σ.wm, { σ with pool := pool', wm := σ.wm + 1 })

/-- `LVAL1(V, A)`: `!A.lvalue() ? (A = std::move(V)) : ctx.allocate(std::move(V))`. -/
def lval1 (σ : Store) (v : Val) (a : Loc) : Loc × Store :=
  if !(σ.get a).lv then (a, σ.set a { val := v, lv := false }) else alloc σ v

/-- `LVAL2(V, A, B)`. -/
def lval2 (σ : Store) (v : Val) (a b : Loc) : Loc × Store :=
  if !(σ.get a).lv then (a, σ.set a { val := v, lv := false })
  else if !(σ.get b).lv then (b, σ.set b { val := v, lv := false })
  else alloc σ v

/-- Where a binary operator puts its result. -/
inductive Place
  | ret1 | ret2        -- return the operand reference itself, nothing written
  | l1 | l2            -- LVAL1 / LVAL2
  deriving DecidableEq, Repr

/-- Result placement of each cell of the binary operators (op_*.cpp). -/
def binPlace (op : BinOp) (a1 a2 : Val) : Place :=
  match op with
  | .add =>
    if a1.type.level == 0 && a2.type.level == 0 then
      match a1.type.major, a2.type.major with
      | .none, .str => .ret2
      | .str, .none => .ret1
      | .str, .str => if a1.isNull then .ret2 else .l1      -- lvalue a1: clone into a new slot; else append in place
      | _, _ => .l2
    else .l2
  | .bxor =>
    match a1, a2 with
    | .bool _, .bool _ => .l2
    | _, _ =>
      if a1.type.level == 0 && a2.type.level == 0 && a1.type.major == .bool && a2.type.major == .bool then
        (if a2.isNull then .ret2 else .ret1)
      else .l2
  | .band => match a1 with | .bool false => .l1 | _ => .l2
  | .bior => match a1 with | .bool true => .l1 | _ => .l2
  | _ => .l2

/-- Placement of the unary operators: `-null`, `+x`, `-x`/`~x`/`not x` on a typed null return the operand. -/
def unPlace (op : UnOp) (a1 : Val) : Place :=
  match op, a1 with
  | .pos, _ => .ret1
  | .neg, .null _ => .ret1
  | .not, .null t => if t.major == .none then .l1 else .ret1
  | .bnot, .null t => if t.major == .none then .l1 else .ret1
  | _, _ => .l1

inductive LExpr
  | cst (i : Nat)
  | var (i : Nat)
  | un (op : UnOp) (e : LExpr)
  | bin (op : BinOp) (a b : LExpr)
  deriving Repr, Inhabited

def place (σ : Store) (p : Place) (v : Val) (ℓ1 ℓ2 : Loc) : Loc × Store :=
  match p with
  | .ret1 => (ℓ1, σ)
  | .ret2 => (ℓ2, σ)
  | .l1 => lval1 σ v ℓ1
  | .l2 => lval2 σ v ℓ1 ℓ2

/-- Is the right operand of `and` / `or` evaluated (op_band.cpp / op_bior.cpp)? -/
def rightForced (op : BinOp) (v1 : Val) : Bool :=
  match op, v1 with
  | .band, .bool false => false
  | .bior, .bool true => false
  | _, _ => true

/-- `Expression::value(ctx)` at storage level: the location of the result and the store after. -/
def evalL : LExpr → Store → Res (Loc × Store)
  | .cst i, σ => .ok (.cst i, σ)
  | .var i, σ => .ok (.var i, σ)
  | .un op e, σ =>
    match evalL e σ with
    | .ok (ℓ1, σ1) =>
      let a1 := (σ1.get ℓ1).val
      match evalUn op a1 with
      | .ok v => .ok (place σ1 (unPlace op a1) v ℓ1 ℓ1)
      | .err c a => .err c a
      | .haz h => .haz h
      | .unmodelled => .unmodelled
    | .err c a => .err c a
    | .haz h => .haz h
    | .unmodelled => .unmodelled
  | .bin op a b, σ =>
    match evalL a σ with
    | .ok (ℓ1, σ1) =>
      let a1 := (σ1.get ℓ1).val
      if !rightForced op a1 then
        match evalBin op a1 (.null Ty.none) with
        | .ok v => .ok (lval1 σ1 v ℓ1)
        | .err c x => .err c x
        | .haz h => .haz h
        | .unmodelled => .unmodelled
      else
      match evalL b σ1 with
      | .ok (ℓ2, σ2) =>
        let a1' := (σ2.get ℓ1).val
        let a2 := (σ2.get ℓ2).val
        match evalBin op a1' a2 (ℓ1 == ℓ2) with
        | .ok v => .ok (place σ2 (binPlace op a1' a2) v ℓ1 ℓ2)
        | .err c x => .err c x
        | .haz h => .haz h
        | .unmodelled => .unmodelled
      | .err c x => .err c x
      | .haz h => .haz h
      | .unmodelled => .unmodelled
    | .err c a => .err c a
    | .haz h => .haz h
    | .unmodelled => .unmodelled

/-- `Context::storeVariable(id, e)` for an expression result at `ℓ` (same-type and type-changing
branches store alike): a temporary is *swapped* into the slot — the slot's old value lands in the
pool slot —, an lvalue is cloned; the slot keeps the LVALUE flag either way. -/
def storeVar (σ : Store) (i : Nat) (ℓ : Loc) : Store :=
  if (σ.get ℓ).lv = false then
    (σ.set (.var i) { val := (σ.get ℓ).val, lv := true }).set ℓ (σ.get (.var i))
  else if ℓ = .var i then σ
  else σ.set (.var i) { val := (σ.get ℓ).val, lv := true }

/-- `Context::onStatementEnd`: the watermark goes back to 0, pool slots keep their (dead) contents. -/
def endStatement (σ : Store) : Store := { σ with wm := 0 }

/-- The invariant everything rests on: every variable slot and every constant cell carries LVALUE. -/
def FlagInv (σ : Store) : Prop := (∀ c ∈ σ.vars, c.lv = true) ∧ (∀ c ∈ σ.csts, c.lv = true)

/-- The value-level expression the storage-level one denotes. -/
def LExpr.pure (vars csts : List Val) : LExpr → Res Val
  | .cst i => .ok (csts.getD i (.null Ty.none))
  | .var i => .ok (vars.getD i (.null Ty.none))
  | .un op e => match LExpr.pure vars csts e with
    | .ok v => evalUn op v
    | r => r
  | .bin op a b => match LExpr.pure vars csts a with
    | .ok v1 =>
      if !rightForced op v1 then evalBin op v1 (.null Ty.none)
      else match LExpr.pure vars csts b with
        | .ok v2 => evalBin op v1 v2
        | r => r
    | r => r

end BlocV
