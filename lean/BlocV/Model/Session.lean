/-
  C11 — sessions: texts submitted one after the other to ONE context, parse-time AND run-time.

  A context carries (a) the parse-time tables of Model/ParseCtx.lean (symbol types, flags, function table, `_backed`),
  (b) the values of the variables and the output stream — the interpreter model's `St` (Model/Interp.lean) — and (c) the
  function definitions behind the function table: the FUNCTION statements of the texts accepted so far.

  `Parser::parse` on a text either throws (ParseError: nothing is run, `Executable::run` is never reached, so no value
  changes — parsing evaluates nothing) or returns the executable, which is then run: `runText` is `Interp.runProgram` started
  from the carried variables with the carried declarations in front (what `DrvFE.handleSrcs` does for two texts).
  The run-time part does not read the parse-time tables: everything the run needs from them (types of first registration,
  function table) is recomputed by `collectFuncs` / `mainDecls` from the declarations and the text — that this is adequate
  is what the correspondence `sess` (vlib/props/c11.py, histories) checks against the library.
-/
import BlocV.Model.ParseCtx
import BlocV.Model.Interp

namespace BlocV.Session
open BlocV

def isFunc : Stmt → Bool
  | .funcS .. => true
  | _ => false

/-- `Executable::run` of an accepted text in a context holding the variables of `st` and the functions declared by `decls` -/
def runText (fuel : Nat) (decls : List Stmt) (st : St) (prog : List Stmt) : RunResult :=
  let funcs := collectFuncs (decls ++ prog)
  -- every symbol the parser registered exists from the start, holding a typed null; existing variables keep their value
  let vars0 := (mainDecls funcs prog).foldl
    (fun vs (n, t) => if vs.any (·.1 == n) then vs else vs ++ [(n, Val.null t)]) st.vars
  let st1 : St := { st with vars := vars0, returned := none, budget := 300000 }
  match execList funcs 0 fuel prog st1 with
  | (.ok _, s) => { outcome := .ok s.returned, st := s }
  | (.err c a, s) => { outcome := .err c a, st := s }
  | (.haz h, s) => { outcome := .haz h, st := s }
  | (.unmodelled, s) => { outcome := .unmodelled, st := s }

structure Sess where
  /-- parse-time tables -/
  pc : ParseCtx.Ctx
  /-- run-time: variables with their values, output -/
  rt : St
  /-- the FUNCTION statements accepted so far -/
  decls : List Stmt

/-- one submitted text: its context effects (statement heads) and the program it elaborates to (`Elab.frontEnd`) -/
structure Sub where
  eff : ParseCtx.Text
  prog : List Stmt

/-- `Parser::parse` then, when accepted, `Executable::run` -/
def submit (H : ParseCtx.Decl → Nat) (fuel : Nat) (s : Sess) (t : Sub) : Sess × Option RunResult :=
  match ParseCtx.parseTextN H s.pc t.eff with
  | .reject c' => ({ s with pc := c' }, none)
  | .accept c' =>
    let r := runText fuel s.decls s.rt t.prog
    ({ pc := c', rt := r.st, decls := s.decls ++ t.prog.filter isFunc }, some r)

/-- a history of submitted texts: the results of the runs (none = rejected), and the final session -/
def submitAll (H : ParseCtx.Decl → Nat) (fuel : Nat) : Sess → List Sub → List (Option RunResult) × Sess
  | s, [] => ([], s)
  | s, t :: ts =>
    let r := submit H fuel s t
    let rest := submitAll H fuel r.1 ts
    (r.2 :: rest.1, rest.2)

end BlocV.Session
