/-
  Model of the plugin-module machinery of BLOC (C16, C17).

  Part `Perm` (C16): blocc/plugin_manager.{h,cpp} (loaded modules, granted names), the trusted flag of
  blocc/context.cpp (copied by clone / createChildShell / createChildRuntime, kept by purge), the permission test of
  ComplexCTORExpression::parse (expression_complex_ctor.cpp:70-73), IMPORTStatement::parse + loadModule
  (statement_import.cpp), INCLUDEStatement::parse + loadSource (statement_include.cpp), typed declarations
  (statement_letn.cpp), function bodies compiled in a child shell (statement_function.cpp).

  Part `H` (C17): the reference counter of blocc/complex.cpp, operation by operation (factory, copy ctor, move ctor,
  destructor, operator=, swap(Complex&), swap(Complex&&)), with the C-level hazards as outcomes.

  Part `S` (C17): contexts owning handles; the store-level operations of value.cpp / context.cpp / functor_manager.cpp
  expressed as sequences of handle operations (Value::clone = copy ctor, Value::_clear = destructor, Value move = the
  same handle changes owner). A runtime context of a call is always owned by the function table of its root: `createEnv`
  hands it back to the function's cache also when binding an argument throws (the values already bound stay in its
  slots until the context is recycled or the root released: Model/ObjProg.lean `doCall`), so no store-level operation
  loses a context.
-/
namespace BlocV.Plugin

abbrev Name := String

/-! ## Part Perm — C16 -/
namespace Perm

/-- A shared library as `dlopen` sees it: identified by its file, declares one interface name. -/
structure Lib where
  file : String
  modName : Name
  deriving DecidableEq, Repr

/-- Statements that may stand anywhere (top level or function body). Only what matters for permissions is kept:
`ctor m` = any statement containing the constructor call `m(...)`; `typedDecl m` = `x : m;`;
`importName n` = `import n;`; `importPath p` = `import "p";`; `call f` = a call of the user function `f`. -/
inductive Simple
  | ctor (m : Name)
  | typedDecl (m : Name)
  | importName (n : Name)
  | importPath (p : String)
  | call (f : Name)
  deriving DecidableEq, Repr

/-- Top-level statements: a simple one, a function definition, `include "file";`. -/
inductive Top
  | simple (s : Simple)
  | func (f : Name) (body : List Simple)
  | incl (file : String)
  deriving Repr

/-- The world outside the process: what `dlopen("libbloc_<n>.so.<v>")` and `dlopen(path)` find, and the parsed content
of the files `include` can open. Theorems hold for every `Ext`. -/
structure Ext where
  byName : Name → Option Lib
  byPath : String → Option Lib
  source : String → Option (List Top)

/-- Process-wide state (`PluginManager`): `_modules[1..]` in registration order, `_trustedPluginNames`.
`everGranted` is a ghost field: every name ever passed to `unbanPlugin`. -/
structure Proc where
  loaded : List Lib
  granted : List Name
  everGranted : List Name
  deriving Repr

def Proc.init : Proc := ⟨[], [], []⟩

/-- `findModuleTypeId(name) != 0`: exact, case-sensitive comparison with the declared interface names. -/
def Proc.isLoaded (p : Proc) (m : Name) : Bool := p.loaded.any (·.modName == m)

/-- `bannedPlugin` negated: exact string comparison with the granted names. -/
def Proc.isGranted (p : Proc) (m : Name) : Bool := p.granted.contains m

/-- `unbanPlugin`: push the name unless already there. -/
def Proc.unban (p : Proc) (n : Name) : Proc :=
  { p with granted := if p.isGranted n then p.granted else p.granted ++ [n], everGranted := p.everGranted ++ [n] }

def Proc.clearPerms (p : Proc) : Proc := { p with granted := [] }

/-- `registerModule`: an already registered dlhandle is accepted again; a different library declaring an already
registered name is refused; otherwise appended. -/
def Proc.register (p : Proc) (l : Lib) : Proc × Bool :=
  if p.loaded.any (·.file == l.file) then (p, true)
  else if p.isLoaded l.modName then (p, false)
  else ({ p with loaded := p.loaded ++ [l] }, true)

/-- Ghost tag of a compiled constructor node: the facts the permission test saw. -/
structure Tag where
  ctxTrusted : Bool
  granted : Bool
  deriving DecidableEq, Repr

inductive Node
  | ctor (m : Name) (t : Tag)
  | call (f : Name)
  | nop
  deriving DecidableEq, Repr

structure Obj where
  m : Name
  t : Tag
  deriving DecidableEq, Repr

/-- A context: the trusted flag, the module objects it holds (in variables, tables, tuples, the returned slot), its
function table (name ↦ compiled body). -/
structure Ctx where
  trusted : Bool
  objs : List Obj
  funs : List (Name × List Node)
  deriving Repr

inductive PErr
  | restrictedCtor | restrictedPath | restrictedInclude | importFailed | undefinedSymbol | includeFailed | tooNested
  deriving DecidableEq, Repr

def lookupFun (funs : List (Name × List Node)) (f : Name) : Option (List Node) :=
  match funs.find? (·.1 == f) with
  | some e => some e.2
  | none => none

/-- `createOrReplace`: same name (arity is not modelled) replaces, else appended. -/
def setFun (funs : List (Name × List Node)) (f : Name) (b : List Node) : List (Name × List Node) :=
  if funs.any (·.1 == f) then funs.map (fun e => if e.1 == f then (f, b) else e) else funs ++ [(f, b)]

/-- One statement compiled with trusted flag `tr` (the flag of the context, or of the child shell of a function, which
is a copy of it). Imports act on the process at compile time, also when the compilation fails later. -/
def compileSimple (ext : Ext) (tr : Bool) (funs : List (Name × List Node)) (p : Proc) : Simple → Proc × Except PErr Node
  | .ctor m =>
    if p.isLoaded m then
      -- expression_complex_ctor.cpp:72
      if !tr && !p.isGranted m then (p, .error .restrictedCtor)
      else (p, .ok (.ctor m ⟨tr, p.isGranted m⟩))
    else
      -- not a module name: a user function of that name, or an undefined symbol
      match lookupFun funs m with
      | some _ => (p, .ok (.call m))
      | none => (p, .error .undefinedSymbol)
  | .typedDecl m =>
    -- statement_letn.cpp: a loaded module name gives a typed null; no permission is asked, no object exists
    if p.isLoaded m then (p, .ok .nop) else (p, .error .undefinedSymbol)
  | .importName n =>
    -- statement_import.cpp: a bare name is accepted whatever the flag; loadModule runs at compile time
    match ext.byName n with
    | none => (p, .error .importFailed)
    | some l =>
      let (p', ok) := p.register l
      if ok then (p', .ok .nop) else (p', .error .importFailed)
  | .importPath path =>
    if !tr then (p, .error .restrictedPath)
    else match ext.byPath path with
      | none => (p, .error .importFailed)
      | some l =>
        let (p', ok) := p.register l
        if ok then (p', .ok .nop) else (p', .error .importFailed)
  | .call f =>
    match lookupFun funs f with
    | some _ => (p, .ok (.call f))
    | none => (p, .error .undefinedSymbol)

def compileSimples (ext : Ext) (tr : Bool) (funs : List (Name × List Node)) : Proc → List Simple → Proc × Except PErr (List Node)
  | p, [] => (p, .ok [])
  | p, s :: rest =>
    match compileSimple ext tr funs p s with
    | (p1, .error e) => (p1, .error e)
    | (p1, .ok n) =>
      match compileSimples ext tr funs p1 rest with
      | (p2, .error e) => (p2, .error e)
      | (p2, .ok ns) => (p2, .ok (n :: ns))

/-- Result of compiling a program text: the process and the function table change even when the text is rejected
(functions already complete stay installed, modules already imported stay loaded). -/
structure CompRes where
  proc : Proc
  funs : List (Name × List Node)
  res : Except PErr (List Node)

abbrev Funs := List (Name × List Node)

/-- Compile a list of top-level statements at include nesting `depth`; `inc` compiles the content of an included
file (one nesting level deeper). -/
def compileList (ext : Ext) (tr : Bool) (inc : Nat → Proc → Funs → List Top → CompRes) (depth : Nat) :
    Proc → Funs → List Top → CompRes
  | p, funs, [] => ⟨p, funs, .ok []⟩
  | p, funs, .simple s :: rest =>
    match compileSimple ext tr funs p s with
    | (p1, .error e) => ⟨p1, funs, .error e⟩
    | (p1, .ok n) =>
      let r := compileList ext tr inc depth p1 funs rest
      ⟨r.proc, r.funs, r.res.map (n :: ·)⟩
  | p, funs, .func f body :: rest =>
    -- the function is declared before its body is parsed (recursion allowed); the body is parsed in a child shell
    -- whose flags are a copy of the context's (context.cpp:517-523)
    let funs0 := if (lookupFun funs f).isSome then funs else setFun funs f []
    match compileSimples ext tr funs0 p body with
    | (p1, .error e) => ⟨p1, funs, .error e⟩          -- rollback of the declaration
    | (p1, .ok b) =>
      let r := compileList ext tr inc depth p1 (setFun funs f b) rest
      ⟨r.proc, r.funs, r.res.map (Node.nop :: ·)⟩
  | p, funs, .incl file :: rest =>
    -- statement_include.cpp:80-85: permission first, nesting limit second, then the file
    if !tr then ⟨p, funs, .error .restrictedInclude⟩
    else if depth > 2 then ⟨p, funs, .error .tooNested⟩
    else match ext.source file with
      | none => ⟨p, funs, .error .includeFailed⟩
      | some tops =>
        let r1 := inc (depth + 1) p funs tops
        match r1.res with
        | .error _ => ⟨r1.proc, r1.funs, .error .includeFailed⟩
        | .ok ns =>
          let r := compileList ext tr inc depth r1.proc r1.funs rest
          ⟨r.proc, r.funs, r.res.map (ns ++ ·)⟩

/-- `fuel` bounds the include recursion of the definition; `loadSource` itself refuses when `p.nesting() > 2`, so
with fuel ≥ 4 the fuel is never what stops a compilation. -/
def compileTops (ext : Ext) (tr : Bool) : Nat → Nat → Proc → Funs → List Top → CompRes
  | 0 => fun _ p funs _ => ⟨p, funs, .error .tooNested⟩
  | fuel + 1 => compileList ext tr (compileTops ext tr fuel)

/-- Execution: a constructor node creates an object carrying the node's tag; a call runs the body currently
installed under that name. Run-time failures are not modelled (objects are over-approximated). -/
def runNodes (funs : List (Name × List Node)) : Nat → List Node → List Obj → List Obj
  | 0, _, objs => objs
  | _ + 1, [], objs => objs
  | fuel + 1, .ctor m t :: rest, objs => runNodes funs fuel rest (objs ++ [⟨m, t⟩])
  | fuel + 1, .call f :: rest, objs =>
    match lookupFun funs f with
    | some b => runNodes funs fuel rest (runNodes funs fuel b objs)
    | none => runNodes funs fuel rest objs
  | fuel + 1, .nop :: rest, objs => runNodes funs fuel rest objs

/-- The whole process as the host sees it. `trustedSeen` is a ghost flag: some context was trusted at some time. -/
structure World where
  proc : Proc
  ctxs : List (Option Ctx)
  exes : List (Option (List Node))
  trustedSeen : Bool
  lastErr : Option PErr
  deriving Repr

def World.init : World := ⟨Proc.init, [], [], false, none⟩

inductive HostOp
  | unban (n : Name)                     -- bloc_unban_plugin / PluginManager::unbanPlugin
  | clearPerms                           -- bloc_clear_plugin_permissions
  | newCtx (trusted : Bool)              -- new Context [+ trusted(true)]; the C API can only create untrusted ones
  | setTrusted (k : Nat) (b : Bool)      -- Context::trusted(b) (C++ only)
  | clone (k : Nat)                      -- Context::clone / bloc_clone_context
  | free (k : Nat)
  | purge (k : Nat)                      -- Context::purge: variables and functions dropped, flags kept
  | compile (k : Nat) (prog : List Top)  -- Parser::parse in context k; the executable (or nothing) is appended
  | run (x : Nat) (k : Nat)              -- Executable::run(ctx k, statements of x)
  | freeExe (x : Nat)
  deriving Repr

def runFuel : Nat := 64
def compFuel : Nat := 5

def getCtx (w : World) (k : Nat) : Option Ctx :=
  match w.ctxs[k]? with
  | some (some c) => some c
  | _ => none

def getExe (w : World) (x : Nat) : Option (List Node) :=
  match w.exes[x]? with
  | some (some e) => some e
  | _ => none

def hostStep (ext : Ext) (w : World) : HostOp → World
  | .unban n => { w with proc := w.proc.unban n }
  | .clearPerms => { w with proc := w.proc.clearPerms }
  | .newCtx tr => { w with ctxs := w.ctxs ++ [some ⟨tr, [], []⟩], trustedSeen := w.trustedSeen || tr }
  | .setTrusted k b =>
    match getCtx w k with
    | some c => { w with ctxs := w.ctxs.set k (some { c with trusted := b }), trustedSeen := w.trustedSeen || b }
    | none => w
  | .clone k =>
    match getCtx w k with
    | some c => { w with ctxs := w.ctxs ++ [some c] }
    | none => w
  | .free k => { w with ctxs := w.ctxs.set k none }
  | .purge k =>
    match getCtx w k with
    | some c => { w with ctxs := w.ctxs.set k (some { c with objs := [], funs := [] }) }
    | none => w
  | .compile k prog =>
    match getCtx w k with
    | some c =>
      let r := compileTops ext c.trusted compFuel 0 w.proc c.funs prog
      let c' := { c with funs := r.funs }
      match r.res with
      | .ok ns => { w with proc := r.proc, ctxs := w.ctxs.set k (some c'), exes := w.exes ++ [some ns], lastErr := none }
      | .error e => { w with proc := r.proc, ctxs := w.ctxs.set k (some c'), exes := w.exes ++ [none], lastErr := some e }
    | none => w
  | .run x k =>
    match getExe w x, getCtx w k with
    | some ns, some c => { w with ctxs := w.ctxs.set k (some { c with objs := runNodes c.funs runFuel ns c.objs }) }
    | _, _ => w
  | .freeExe x => { w with exes := w.exes.set x none }

def hostRun (ext : Ext) (w : World) (ops : List HostOp) : World := ops.foldl (hostStep ext) w

end Perm

/-! ## Part H — the handle reference counter of complex.cpp (C17) -/
namespace H

/-- A `Complex` handle as a piece of storage: `gone` = destructed (or never constructed), `null` = `_refcount ==
nullptr` (the state the move constructor and `swap(Complex&&)` leave behind), `ref o` = shares the counter of object `o`. -/
inductive Slot
  | gone
  | null
  | ref (o : Nat)
  deriving DecidableEq, Repr

inductive Ev
  | create (o : Nat)
  | destroy (o : Nat)
  deriving DecidableEq, Repr

/-- `cnt o` = the `int` the shared counter of object `o` holds (meaningless once `freed o`, i.e. after
`delete _refcount`); `destroyed o` = number of `destroyObject` calls the module received for `o`. -/
structure HState where
  slots : List Slot
  nobj : Nat
  cnt : Nat → Int
  freed : Nat → Bool
  destroyed : Nat → Nat
  log : List Ev

def HState.init : HState := ⟨[], 0, fun _ => 0, fun _ => false, fun _ => 0, []⟩

/-- C-level outcomes that end the process: `nullDeref` = `*_refcount` with `_refcount == nullptr`; `dangling` = use of a
counter that was deleted; `illFormed` = the operation names a handle that does not exist or was already destructed
(not a behaviour of the class but a malformed test). -/
inductive HErr
  | nullDeref
  | dangling
  | illFormed
  deriving DecidableEq, Repr

def upd {α : Type} (f : Nat → α) (k : Nat) (v : α) : Nat → α := fun x => if x = k then v else f x

/-- The number of live handles sharing object `o`. -/
def refs (s : HState) (o : Nat) : Nat := s.slots.count (.ref o)

/-- `if ((*_refcount -= 1) == 0) { delete _refcount; destroyObject(_instance); }` applied to handle `i`; the handle is
left `null` (what it holds between this point and the next assignment is never read). -/
def drop (s : HState) (i : Nat) : Except HErr HState :=
  match s.slots[i]? with
  | some (.ref o) =>
    if s.freed o then .error .dangling
    else if s.cnt o - 1 = 0 then
      .ok { s with slots := s.slots.set i .null, cnt := upd s.cnt o (s.cnt o - 1), freed := upd s.freed o true,
                   destroyed := upd s.destroyed o (s.destroyed o + 1), log := s.log ++ [.destroy o] }
    else .ok { s with slots := s.slots.set i .null, cnt := upd s.cnt o (s.cnt o - 1) }
  | some .null => .error .nullDeref
  | _ => .error .illFormed

/-- handle `i` (currently null) takes a reference to `o`: `_refcount = c._refcount; *_refcount += 1`. -/
def acquire (s : HState) (i : Nat) (o : Nat) : Except HErr HState :=
  if s.freed o then .error .dangling
  else .ok { s with slots := s.slots.set i (.ref o), cnt := upd s.cnt o (s.cnt o + 1) }

inductive HOp
  | new                      -- Complex::newInstance succeeded: `new Complex(type_id, handle)`, counter = 1
  | copy (i : Nat)           -- Complex(const Complex&)
  | move (i : Nat)           -- Complex(Complex&&)
  | dtor (i : Nat)           -- ~Complex
  | assign (i j : Nat)       -- h_i = h_j
  | swap (i j : Nat)         -- h_i.swap(h_j)
  | swapMove (i j : Nat)     -- h_i.swap(std::move(h_j))
  deriving DecidableEq, Repr

def liveSlot (s : HState) (i : Nat) : Option Slot :=
  match s.slots[i]? with
  | some .gone => none
  | r => r

def step (s : HState) : HOp → Except HErr HState
  | .new =>
    .ok { s with slots := s.slots ++ [.ref s.nobj], nobj := s.nobj + 1, cnt := upd s.cnt s.nobj 1,
                 freed := upd s.freed s.nobj false, destroyed := upd s.destroyed s.nobj 0, log := s.log ++ [.create s.nobj] }
  | .copy i =>
    match liveSlot s i with
    | some (.ref o) => acquire { s with slots := s.slots ++ [.null] } s.slots.length o
    | some _ => .error .nullDeref
    | none => .error .illFormed
  | .move i =>
    match liveSlot s i with
    | some c => .ok { s with slots := s.slots.set i .null ++ [c] }
    | none => .error .illFormed
  | .dtor i =>
    match drop s i with
    | .ok s1 => .ok { s1 with slots := s1.slots.set i .gone }
    | .error e => .error e
  | .assign i j =>
    match liveSlot s i, liveSlot s j with
    | some _, some _ =>
      if i = j then .ok s
      else match drop s i with
        | .error e => .error e
        | .ok s1 =>
          match s1.slots[j]? with
          | some (.ref o) =>
            match acquire s1 i o with
            | .error e => .error e
            | .ok s2 => if s2.cnt o < 2 then .ok { s2 with slots := s2.slots.set i .null } else .ok s2
          | _ => .error .nullDeref
    | _, _ => .error .illFormed
  | .swap i j =>
    match liveSlot s i, liveSlot s j with
    | some a, some b => .ok { s with slots := (s.slots.set i b).set j a }
    | _, _ => .error .illFormed
  | .swapMove i j =>
    match liveSlot s i, liveSlot s j with
    | some _, some _ =>
      match drop s i with
      | .error e => .error e
      | .ok s1 =>
        match s1.slots[j]? with
        | some b => .ok { s1 with slots := (s1.slots.set i b).set j .null }
        | none => .error .illFormed
    | _, _ => .error .illFormed

def run (s : HState) : List HOp → Except HErr HState
  | [] => .ok s
  | op :: rest =>
    match step s op with
    | .ok s1 => run s1 rest
    | .error e => .error e

/-- the hazard (if any) a sequence runs into, from the empty state -/
def runErr (ops : List HOp) : Option HErr :=
  match run HState.init ops with
  | .error e => some e
  | .ok _ => none

/-- No handle is left (every constructed handle was destructed): quiescence at the handle level. -/
def quiescent (s : HState) : Bool := s.slots.all (· == .gone)

end H

/-! ## Part S — contexts owning handles (C17) -/
namespace S
open H

/-- Who is responsible for destructing a handle. `ctx k`: the handle sits in a `Value` owned by context `k` (variable,
table element, tuple item, temporary pool, returned slot) or by a runtime context cached under it. -/
inductive CtxSt
  | live
  | released
  deriving DecidableEq, Repr

structure SState where
  h : HState
  owner : List Nat          -- owner[i] = context of handle i (same length as h.slots)
  ctxs : List CtxSt
  root : List Nat           -- root[k] = the root context under whose function table runtime context k is cached (k itself for a root)

def SState.init : SState := ⟨HState.init, [], [], []⟩

inductive SOp
  | newCtx                       -- new Context
  | childCtx (k : Nat)           -- createChildRuntime for a call made in k (cached under k's root, released with it)
  | construct (k : Nat)          -- ComplexCTORExpression::value in k: factory, the handle goes to k's pool
  | clone (i : Nat) (k : Nat)    -- Value::clone of the value holding handle i, the copy owned by k
  | clear (i : Nat)              -- Value::_clear of the value holding handle i
  | give (i : Nat) (k : Nat)     -- Value move: handle i changes owner (no counter operation)
  | release (k : Nat)            -- delete root context k: every handle it or its cached children own is destructed
  deriving DecidableEq, Repr

def ctxLive (s : SState) (k : Nat) : Bool := s.ctxs[k]? == some .live

def rootOf (s : SState) (k : Nat) : Nat := (s.root[k]?).getD k

/-- the contexts `release r` deletes: `r` and the runtime contexts cached under it (every runtime context created
for a call under `r` is in the cache of its function, or in use by a call in progress — release happens between calls) -/
def doomed (s : SState) (r : Nat) (c : Nat) : Bool := rootOf s c == r && s.ctxs[c]? == some .live

/-- destruct every live handle among the first `n` whose owner satisfies `p`, in handle order -/
def destructWhere (p : Nat → Bool) (owner : List Nat) : Nat → HState → Except HErr HState
  | 0, h => .ok h
  | n + 1, h =>
    match destructWhere p owner n h with
    | .error e => .error e
    | .ok h1 =>
      match owner[n]?, liveSlot h1 n with
      | some k, some _ => if p k then H.step h1 (.dtor n) else .ok h1
      | _, _ => .ok h1

def sstep (s : SState) : SOp → Except HErr SState
  | .newCtx => .ok { s with ctxs := s.ctxs ++ [.live], root := s.root ++ [s.ctxs.length] }
  | .childCtx k =>
    if ctxLive s k then .ok { s with ctxs := s.ctxs ++ [.live], root := s.root ++ [rootOf s k] } else .error .illFormed
  | .construct k =>
    if ctxLive s k then
      match H.step s.h .new with
      | .ok h => .ok { s with h := h, owner := s.owner ++ [k] }
      | .error e => .error e
    else .error .illFormed
  | .clone i k =>
    if ctxLive s k then
      match H.step s.h (.copy i) with
      | .ok h => .ok { s with h := h, owner := s.owner ++ [k] }
      | .error e => .error e
    else .error .illFormed
  | .clear i =>
    match H.step s.h (.dtor i) with
    | .ok h => .ok { s with h := h }
    | .error e => .error e
  | .give i k =>
    if ctxLive s k && (liveSlot s.h i).isSome then .ok { s with owner := s.owner.set i k } else .error .illFormed
  | .release k =>
    if ctxLive s k && rootOf s k == k then
      match destructWhere (doomed s k) s.owner s.h.slots.length s.h with
      | .ok h => .ok { s with h := h, ctxs := s.ctxs.mapIdx fun c st => if doomed s k c then .released else st }
      | .error e => .error e
    else .error .illFormed

def srun (s : SState) : List SOp → Except HErr SState
  | [] => .ok s
  | op :: rest =>
    match sstep s op with
    | .ok s1 => srun s1 rest
    | .error e => .error e

/-- every context and every program involved has been released (none is live) -/
def allReleased (s : SState) : Bool := s.ctxs.all (· != .live)

end S

end BlocV.Plugin
