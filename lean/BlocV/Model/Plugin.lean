/-
  Model of the plugin-module machinery of BLOC (C16, C17).

  Part `Perm` (C16): blocc/plugin_manager.{h,cpp} (loaded modules, granted names), the trusted flag of
  blocc/context.cpp (copied by clone / createChildShell / createChildRuntime, kept by purge), the permission test of
  ComplexCTORExpression::parse (expression_complex_ctor.cpp:70-73), IMPORTStatement::parse + loadModule
  (statement_import.cpp), INCLUDEStatement::parse + loadSource (statement_include.cpp), typed declarations
  (statement_letn.cpp), function bodies compiled in a child shell (statement_function.cpp).

  Part `H` (C17): the reference counter of blocc/complex.cpp, operation by operation (factory, copy ctor, move ctor,
  destructor, operator=, swap(Complex&), swap(Complex&&)), with the C-level hazards as outcomes.

  Part `S` (C17): contexts owning handles; the store-level operations of value.cpp / context.cpp / functor_manager.cpp
  expressed as sequences of handle operations (Value::clone = copy ctor, Value::_clear = destructor, Value move = the
  same handle changes owner). A runtime context of a call is always owned by the function table of its root: `createEnv`
  hands it back to the function's cache also when binding an argument throws (the values already bound stay in its
  slots until the context is recycled or the root released: Model/ObjProg.lean `doCall`), so no store-level operation
  loses a context.
-/
namespace BlocV.Plugin

abbrev Name := String

/-! ## Part Perm — C16 -/
namespace Perm

/-- A shared library as `dlopen` sees it: identified by its file, declares one interface name. -/
structure Lib where
  file : String
  modName : Name
  deriving DecidableEq, Repr

/-- Statements that may stand anywhere (top level or function body). Only what matters for permissions is kept:
`ctor m` = any statement containing the constructor call `m(...)`; `typedDecl m` = `x : m;`;
`importName n` = `import n;`; `importPath p` = `import "p";`; `call f` = a call of the user function `f`. -/
inductive Simple
  | ctor (m : Name)
  | typedDecl (m : Name)
  | importName (n : Name)
  | importPath (p : String)
  | call (f : Name)
  | trace (b : Bool)        -- `trace true;` / `trace false;` (statement_trace.cpp: `ctx.trace(b)` when it RUNS)
  | raise                   -- `raise BOOM;` (any statement that ends its program with a run-time error)
  | bad                     -- a text the parser rejects for a reason that has nothing to do with permissions
  deriving DecidableEq, Repr

/-- Top-level statements: a simple one, a function definition, `include "file";`. -/
inductive Top
  | simple (s : Simple)
  | func (f : Name) (body : List Simple)
  | incl (file : String)
  deriving Repr

/-- The world outside the process: what `dlopen("libbloc_<n>.so.<v>")` and `dlopen(path)` find, and the parsed content
of the files `include` can open. Theorems hold for every `Ext`. -/
structure Ext where
  byName : Name → Option Lib
  byPath : String → Option Lib
  source : String → Option (List Top)

/-- Process-wide state (`PluginManager`): `_modules[1..]` in registration order, `_trustedPluginNames`.
`everGranted` is a ghost field: every name ever passed to `unbanPlugin`. -/
structure Proc where
  loaded : List Lib
  granted : List Name
  everGranted : List Name
  deriving Repr

def Proc.init : Proc := ⟨[], [], []⟩

/-- `findModuleTypeId(name) != 0`: exact, case-sensitive comparison with the declared interface names. -/
def Proc.isLoaded (p : Proc) (m : Name) : Bool := p.loaded.any (·.modName == m)

/-- `bannedPlugin` negated: exact string comparison with the granted names. -/
def Proc.isGranted (p : Proc) (m : Name) : Bool := p.granted.contains m

/-- `unbanPlugin`: push the name unless already there. -/
def Proc.unban (p : Proc) (n : Name) : Proc :=
  { p with granted := if p.isGranted n then p.granted else p.granted ++ [n], everGranted := p.everGranted ++ [n] }

def Proc.clearPerms (p : Proc) : Proc := { p with granted := [] }

/-- `registerModule`: an already registered dlhandle is accepted again; a different library declaring an already
registered name is refused; otherwise appended. -/
def Proc.register (p : Proc) (l : Lib) : Proc × Bool :=
  if p.loaded.any (·.file == l.file) then (p, true)
  else if p.isLoaded l.modName then (p, false)
  else ({ p with loaded := p.loaded ++ [l] }, true)

/-- Ghost tag of a compiled constructor node: the facts the permission test saw. -/
structure Tag where
  ctxTrusted : Bool
  granted : Bool
  deriving DecidableEq, Repr

inductive Node
  | ctor (m : Name) (t : Tag)
  | call (f : Name)
  | nop
  | trace (b : Bool)
  | raise
  deriving DecidableEq, Repr

structure Obj where
  m : Name
  t : Tag
  deriving DecidableEq, Repr

/-- A context: the trusted flag (`_flags & FLAG_TRUSTED`), the module objects it holds (in variables, tables, tuples,
the returned slot), its function table (name ↦ compiled body), the trace mode (`_trace`: the only other per-context
switch a host or a script can flip; kept here so that "nothing but the trust setter changes the trusted bit" is a
statement about every member that writes a flag of `Context`). -/
structure Ctx where
  trusted : Bool
  objs : List Obj
  funs : List (Name × List Node)
  trace : Bool
  deriving Repr

inductive PErr
  | restrictedCtor | restrictedPath | restrictedInclude | importFailed | undefinedSymbol | includeFailed | tooNested
  | syntaxError
  deriving DecidableEq, Repr

def lookupFun (funs : List (Name × List Node)) (f : Name) : Option (List Node) :=
  match funs.find? (·.1 == f) with
  | some e => some e.2
  | none => none

/-- `createOrReplace`: same name (arity is not modelled) replaces, else appended. -/
def setFun (funs : List (Name × List Node)) (f : Name) (b : List Node) : List (Name × List Node) :=
  if funs.any (·.1 == f) then funs.map (fun e => if e.1 == f then (f, b) else e) else funs ++ [(f, b)]

/-- One statement compiled with trusted flag `tr` (the flag of the context, or of the child shell of a function, which
is a copy of it). Imports act on the process at compile time, also when the compilation fails later. -/
def compileSimple (ext : Ext) (tr : Bool) (funs : List (Name × List Node)) (p : Proc) : Simple → Proc × Except PErr Node
  | .ctor m =>
    if p.isLoaded m then
      -- expression_complex_ctor.cpp:72
      if !tr && !p.isGranted m then (p, .error .restrictedCtor)
      else (p, .ok (.ctor m ⟨tr, p.isGranted m⟩))
    else
      -- not a module name: a user function of that name, or an undefined symbol
      match lookupFun funs m with
      | some _ => (p, .ok (.call m))
      | none => (p, .error .undefinedSymbol)
  | .typedDecl m =>
    -- statement_letn.cpp: a loaded module name gives a typed null; no permission is asked, no object exists
    if p.isLoaded m then (p, .ok .nop) else (p, .error .undefinedSymbol)
  | .importName n =>
    -- statement_import.cpp: a bare name is accepted whatever the flag; loadModule runs at compile time
    match ext.byName n with
    | none => (p, .error .importFailed)
    | some l =>
      let (p', ok) := p.register l
      if ok then (p', .ok .nop) else (p', .error .importFailed)
  | .importPath path =>
    if !tr then (p, .error .restrictedPath)
    else match ext.byPath path with
      | none => (p, .error .importFailed)
      | some l =>
        let (p', ok) := p.register l
        if ok then (p', .ok .nop) else (p', .error .importFailed)
  | .call f =>
    match lookupFun funs f with
    | some _ => (p, .ok (.call f))
    | none => (p, .error .undefinedSymbol)
  | .trace b => (p, .ok (.trace b))        -- statement_trace.cpp: parsing changes nothing
  | .raise => (p, .ok .raise)
  | .bad => (p, .error .syntaxError)

def compileSimples (ext : Ext) (tr : Bool) (funs : List (Name × List Node)) : Proc → List Simple → Proc × Except PErr (List Node)
  | p, [] => (p, .ok [])
  | p, s :: rest =>
    match compileSimple ext tr funs p s with
    | (p1, .error e) => (p1, .error e)
    | (p1, .ok n) =>
      match compileSimples ext tr funs p1 rest with
      | (p2, .error e) => (p2, .error e)
      | (p2, .ok ns) => (p2, .ok (n :: ns))

/-- Result of compiling a program text: the process and the function table change even when the text is rejected
(functions already complete stay installed, modules already imported stay loaded). -/
structure CompRes where
  proc : Proc
  funs : List (Name × List Node)
  res : Except PErr (List Node)

abbrev Funs := List (Name × List Node)

/-- Compile a list of top-level statements at include nesting `depth`; `inc` compiles the content of an included
file (one nesting level deeper). -/
def compileList (ext : Ext) (tr : Bool) (inc : Nat → Proc → Funs → List Top → CompRes) (depth : Nat) :
    Proc → Funs → List Top → CompRes
  | p, funs, [] => ⟨p, funs, .ok []⟩
  | p, funs, .simple s :: rest =>
    match compileSimple ext tr funs p s with
    | (p1, .error e) => ⟨p1, funs, .error e⟩
    | (p1, .ok n) =>
      let r := compileList ext tr inc depth p1 funs rest
      ⟨r.proc, r.funs, r.res.map (n :: ·)⟩
  | p, funs, .func f body :: rest =>
    -- the function is declared before its body is parsed (recursion allowed); the body is parsed in a child shell
    -- whose flags are a copy of the context's (context.cpp:517-523)
    let funs0 := if (lookupFun funs f).isSome then funs else setFun funs f []
    match compileSimples ext tr funs0 p body with
    | (p1, .error e) => ⟨p1, funs, .error e⟩          -- rollback of the declaration
    | (p1, .ok b) =>
      let r := compileList ext tr inc depth p1 (setFun funs f b) rest
      ⟨r.proc, r.funs, r.res.map (Node.nop :: ·)⟩
  | p, funs, .incl file :: rest =>
    -- statement_include.cpp:80-85: permission first, nesting limit second, then the file
    if !tr then ⟨p, funs, .error .restrictedInclude⟩
    else if depth > 2 then ⟨p, funs, .error .tooNested⟩
    else match ext.source file with
      | none => ⟨p, funs, .error .includeFailed⟩
      | some tops =>
        let r1 := inc (depth + 1) p funs tops
        match r1.res with
        | .error _ => ⟨r1.proc, r1.funs, .error .includeFailed⟩
        | .ok ns =>
          let r := compileList ext tr inc depth r1.proc r1.funs rest
          ⟨r.proc, r.funs, r.res.map (ns ++ ·)⟩

/-- `fuel` bounds the include recursion of the definition; `loadSource` itself refuses when `p.nesting() > 2`, so
with fuel ≥ 4 the fuel is never what stops a compilation. -/
def compileTops (ext : Ext) (tr : Bool) : Nat → Nat → Proc → Funs → List Top → CompRes
  | 0 => fun _ p funs _ => ⟨p, funs, .error .tooNested⟩
  | fuel + 1 => compileList ext tr (compileTops ext tr fuel)

/-- What a run carries: the objects of the context, its trace mode, whether a run-time error ended the run. -/
structure RunSt where
  objs : List Obj
  trace : Bool
  raised : Bool
  deriving Repr

/-- Execution: a constructor node creates an object carrying the node's tag; a call runs the body currently
installed under that name in a runtime context that STARTS with the caller's trace mode (functor_manager.cpp:128,135)
and whose own `trace` statements stay local; `trace b` at the level of the context itself sets its trace mode; a
`raise` ends the run (what was created before stays in the context). Run-time failures of constructors are not
modelled here (objects are over-approximated). No node writes the trusted bit: `RunSt` has no such field. -/
def runNodes (funs : List (Name × List Node)) : Nat → List Node → RunSt → RunSt
  | 0, _, r => r
  | _ + 1, [], r => r
  | fuel + 1, n :: rest, r =>
    if r.raised then r else
    match n with
    | .ctor m t => runNodes funs fuel rest { r with objs := r.objs ++ [⟨m, t⟩] }
    | .call f =>
      match lookupFun funs f with
      | some b =>
        let r1 := runNodes funs fuel b r
        runNodes funs fuel rest { r1 with trace := r.trace }
      | none => runNodes funs fuel rest r
    | .nop => runNodes funs fuel rest r
    | .trace b => runNodes funs fuel rest { r with trace := b }
    | .raise => { r with raised := true }

/-- The whole process as the host sees it. `trustedSeen` is a ghost flag: some context was trusted at some time. -/
structure World where
  proc : Proc
  ctxs : List (Option Ctx)
  exes : List (Option (List Node))
  trustedSeen : Bool
  lastErr : Option PErr
  lastRaised : Bool            -- the last `run` ended with a run-time error
  deriving Repr

def World.init : World := ⟨Proc.init, [], [], false, none, false⟩

inductive HostOp
  | unban (n : Name)                     -- bloc_unban_plugin / PluginManager::unbanPlugin
  | clearPerms                           -- bloc_clear_plugin_permissions
  | newCtx (trusted : Bool)              -- new Context [+ trusted(true)]; the C API can only create untrusted ones
  | setTrusted (k : Nat) (b : Bool)      -- Context::trusted(b) (C++ only)
  | setTrace (k : Nat) (b : Bool)        -- Context::trace(b) / bloc_ctx_enable_trace
  | clone (k : Nat)                      -- Context::clone / bloc_clone_context[2]: new Context, `_flags` copied, symbols and functions copied
  | free (k : Nat)                       -- delete / bloc_free_context
  | purge (k : Nat)                      -- Context::purge / bloc_ctx_purge: variables and functions dropped, trace mode reset, `_flags` kept
  | compile (k : Nat) (prog : List Top)  -- Parser::parse in context k; the executable (or nothing) is appended
  | run (x : Nat) (k : Nat)              -- Executable::run(ctx k, statements of x)
  | freeExe (x : Nat)
  deriving Repr

def runFuel : Nat := 64
def compFuel : Nat := 5

def getCtx (w : World) (k : Nat) : Option Ctx :=
  match w.ctxs[k]? with
  | some (some c) => some c
  | _ => none

def getExe (w : World) (x : Nat) : Option (List Node) :=
  match w.exes[x]? with
  | some (some e) => some e
  | _ => none

def hostStep (ext : Ext) (w : World) : HostOp → World
  | .unban n => { w with proc := w.proc.unban n }
  | .clearPerms => { w with proc := w.proc.clearPerms }
  | .newCtx tr => { w with ctxs := w.ctxs ++ [some ⟨tr, [], [], false⟩], trustedSeen := w.trustedSeen || tr }
  | .setTrusted k b =>
    match getCtx w k with
    | some c => { w with ctxs := w.ctxs.set k (some { c with trusted := b }), trustedSeen := w.trustedSeen || b }
    | none => w
  | .setTrace k b =>
    match getCtx w k with
    | some c => { w with ctxs := w.ctxs.set k (some { c with trace := b }) }
    | none => w
  | .clone k =>
    match getCtx w k with
    | some c => { w with ctxs := w.ctxs ++ [some { c with trace := false }] }
    | none => w
  | .free k => { w with ctxs := w.ctxs.set k none }
  | .purge k =>
    match getCtx w k with
    | some c => { w with ctxs := w.ctxs.set k (some { c with objs := [], funs := [], trace := false }) }
    | none => w
  | .compile k prog =>
    match getCtx w k with
    | some c =>
      let r := compileTops ext c.trusted compFuel 0 w.proc c.funs prog
      let c' := { c with funs := r.funs }
      match r.res with
      | .ok ns => { w with proc := r.proc, ctxs := w.ctxs.set k (some c'), exes := w.exes ++ [some ns], lastErr := none }
      | .error e => { w with proc := r.proc, ctxs := w.ctxs.set k (some c'), exes := w.exes ++ [none], lastErr := some e }
    | none => w
  | .run x k =>
    match getExe w x, getCtx w k with
    | some ns, some c =>
      let r := runNodes c.funs runFuel ns ⟨c.objs, c.trace, false⟩
      { w with ctxs := w.ctxs.set k (some { c with objs := r.objs, trace := r.trace }), lastRaised := r.raised }
    | _, _ => w
  | .freeExe x => { w with exes := w.exes.set x none }

def hostRun (ext : Ext) (w : World) (ops : List HostOp) : World := ops.foldl (hostStep ext) w

end Perm

/-! ## Part H — the handle reference counter of complex.cpp (C17) -/
namespace H

/-- A `Complex` handle as a piece of storage: `gone` = destructed (or never constructed), `null` = `_refcount ==
nullptr` (the state the move constructor and `swap(Complex&&)` leave behind), `ref o` = shares the counter of object `o`. -/
inductive Slot
  | gone
  | null
  | ref (o : Nat)
  deriving DecidableEq, Repr

inductive Ev
  | create (o : Nat)
  | destroy (o : Nat)
  deriving DecidableEq, Repr

/-- `cnt o` = the `int` the shared counter of object `o` holds (meaningless once `freed o`, i.e. after
`delete _refcount`); `destroyed o` = number of `destroyObject` calls the module received for `o`. -/
structure HState where
  slots : List Slot
  nobj : Nat
  cnt : Nat → Int
  freed : Nat → Bool
  destroyed : Nat → Nat
  log : List Ev

def HState.init : HState := ⟨[], 0, fun _ => 0, fun _ => false, fun _ => 0, []⟩

/-- C-level outcomes that end the process: `nullDeref` = `*_refcount` with `_refcount == nullptr`; `dangling` = use of a
counter that was deleted; `illFormed` = the operation names a handle that does not exist or was already destructed
(not a behaviour of the class but a malformed test). -/
inductive HErr
  | nullDeref
  | dangling
  | illFormed
  deriving DecidableEq, Repr

def upd {α : Type} (f : Nat → α) (k : Nat) (v : α) : Nat → α := fun x => if x = k then v else f x

/-- The number of live handles sharing object `o`. -/
def refs (s : HState) (o : Nat) : Nat := s.slots.count (.ref o)

/-- `if ((*_refcount -= 1) == 0) { delete _refcount; destroyObject(_instance); }` applied to handle `i`; the handle is
left `null` (what it holds between this point and the next assignment is never read). -/
def drop (s : HState) (i : Nat) : Except HErr HState :=
  match s.slots[i]? with
  | some (.ref o) =>
    if s.freed o then .error .dangling
    else if s.cnt o - 1 = 0 then
      .ok { s with slots := s.slots.set i .null, cnt := upd s.cnt o (s.cnt o - 1), freed := upd s.freed o true,
                   destroyed := upd s.destroyed o (s.destroyed o + 1), log := s.log ++ [.destroy o] }
    else .ok { s with slots := s.slots.set i .null, cnt := upd s.cnt o (s.cnt o - 1) }
  | some .null => .error .nullDeref
  | _ => .error .illFormed

/-- handle `i` (currently null) takes a reference to `o`: `_refcount = c._refcount; *_refcount += 1`. -/
def acquire (s : HState) (i : Nat) (o : Nat) : Except HErr HState :=
  if s.freed o then .error .dangling
  else .ok { s with slots := s.slots.set i (.ref o), cnt := upd s.cnt o (s.cnt o + 1) }

inductive HOp
  | new                      -- Complex::newInstance succeeded: `new Complex(type_id, handle)`, counter = 1
  | copy (i : Nat)           -- Complex(const Complex&)
  | move (i : Nat)           -- Complex(Complex&&)
  | dtor (i : Nat)           -- ~Complex
  | assign (i j : Nat)       -- h_i = h_j
  | swap (i j : Nat)         -- h_i.swap(h_j)
  | swapMove (i j : Nat)     -- h_i.swap(std::move(h_j))
  deriving DecidableEq, Repr

def liveSlot (s : HState) (i : Nat) : Option Slot :=
  match s.slots[i]? with
  | some .gone => none
  | r => r

def step (s : HState) : HOp → Except HErr HState
  | .new =>
    .ok { s with slots := s.slots ++ [.ref s.nobj], nobj := s.nobj + 1, cnt := upd s.cnt s.nobj 1,
                 freed := upd s.freed s.nobj false, destroyed := upd s.destroyed s.nobj 0, log := s.log ++ [.create s.nobj] }
  | .copy i =>
    match liveSlot s i with
    | some (.ref o) => acquire { s with slots := s.slots ++ [.null] } s.slots.length o
    | some _ => .error .nullDeref
    | none => .error .illFormed
  | .move i =>
    match liveSlot s i with
    | some c => .ok { s with slots := s.slots.set i .null ++ [c] }
    | none => .error .illFormed
  | .dtor i =>
    match drop s i with
    | .ok s1 => .ok { s1 with slots := s1.slots.set i .gone }
    | .error e => .error e
  | .assign i j =>
    match liveSlot s i, liveSlot s j with
    | some _, some _ =>
      if i = j then .ok s
      else match drop s i with
        | .error e => .error e
        | .ok s1 =>
          match s1.slots[j]? with
          | some (.ref o) =>
            match acquire s1 i o with
            | .error e => .error e
            | .ok s2 => if s2.cnt o < 2 then .ok { s2 with slots := s2.slots.set i .null } else .ok s2
          | _ => .error .nullDeref
    | _, _ => .error .illFormed
  | .swap i j =>
    match liveSlot s i, liveSlot s j with
    | some a, some b => .ok { s with slots := (s.slots.set i b).set j a }
    | _, _ => .error .illFormed
  | .swapMove i j =>
    match liveSlot s i, liveSlot s j with
    | some _, some _ =>
      match drop s i with
      | .error e => .error e
      | .ok s1 =>
        match s1.slots[j]? with
        | some b => .ok { s1 with slots := (s1.slots.set i b).set j .null }
        | none => .error .illFormed
    | _, _ => .error .illFormed

def run (s : HState) : List HOp → Except HErr HState
  | [] => .ok s
  | op :: rest =>
    match step s op with
    | .ok s1 => run s1 rest
    | .error e => .error e

/-- the hazard (if any) a sequence runs into, from the empty state -/
def runErr (ops : List HOp) : Option HErr :=
  match run HState.init ops with
  | .error e => some e
  | .ok _ => none

/-- No handle is left (every constructed handle was destructed): quiescence at the handle level. -/
def quiescent (s : HState) : Bool := s.slots.all (· == .gone)

end H

/-! ## Part S — contexts owning handles (C17) -/
namespace S
open H

/-- Who is responsible for destructing a handle. `ctx k`: the handle sits in a `Value` owned by context `k` (variable,
table element, tuple item, temporary pool, returned slot) or by a runtime context cached under it. -/
inductive CtxSt
  | live
  | released
  deriving DecidableEq, Repr

structure SState where
  h : HState
  owner : List Nat          -- owner[i] = context of handle i (same length as h.slots)
  ctxs : List CtxSt
  root : List Nat           -- root[k] = the root context under whose function table runtime context k is cached (k itself for a root)

def SState.init : SState := ⟨HState.init, [], [], []⟩

inductive SOp
  | newCtx                       -- new Context
  | childCtx (k : Nat)           -- createChildRuntime for a call made in k (cached under k's root, released with it)
  | construct (k : Nat)          -- ComplexCTORExpression::value in k: factory, the handle goes to k's pool
  | clone (i : Nat) (k : Nat)    -- Value::clone of the value holding handle i, the copy owned by k
  | clear (i : Nat)              -- Value::_clear of the value holding handle i
  | give (i : Nat) (k : Nat)     -- Value move: handle i changes owner (no counter operation)
  | release (k : Nat)            -- delete root context k: every handle it or its cached children own is destructed
  deriving DecidableEq, Repr

def ctxLive (s : SState) (k : Nat) : Bool := s.ctxs[k]? == some .live

def rootOf (s : SState) (k : Nat) : Nat := (s.root[k]?).getD k

/-- the contexts `release r` deletes: `r` and the runtime contexts cached under it (every runtime context created
for a call under `r` is in the cache of its function, or in use by a call in progress — release happens between calls) -/
def doomed (s : SState) (r : Nat) (c : Nat) : Bool := rootOf s c == r && s.ctxs[c]? == some .live

/-- destruct every live handle among the first `n` whose owner satisfies `p`, in handle order -/
def destructWhere (p : Nat → Bool) (owner : List Nat) : Nat → HState → Except HErr HState
  | 0, h => .ok h
  | n + 1, h =>
    match destructWhere p owner n h with
    | .error e => .error e
    | .ok h1 =>
      match owner[n]?, liveSlot h1 n with
      | some k, some _ => if p k then H.step h1 (.dtor n) else .ok h1
      | _, _ => .ok h1

def sstep (s : SState) : SOp → Except HErr SState
  | .newCtx => .ok { s with ctxs := s.ctxs ++ [.live], root := s.root ++ [s.ctxs.length] }
  | .childCtx k =>
    if ctxLive s k then .ok { s with ctxs := s.ctxs ++ [.live], root := s.root ++ [rootOf s k] } else .error .illFormed
  | .construct k =>
    if ctxLive s k then
      match H.step s.h .new with
      | .ok h => .ok { s with h := h, owner := s.owner ++ [k] }
      | .error e => .error e
    else .error .illFormed
  | .clone i k =>
    if ctxLive s k then
      match H.step s.h (.copy i) with
      | .ok h => .ok { s with h := h, owner := s.owner ++ [k] }
      | .error e => .error e
    else .error .illFormed
  | .clear i =>
    match H.step s.h (.dtor i) with
    | .ok h => .ok { s with h := h }
    | .error e => .error e
  | .give i k =>
    if ctxLive s k && (liveSlot s.h i).isSome then .ok { s with owner := s.owner.set i k } else .error .illFormed
  | .release k =>
    if ctxLive s k && rootOf s k == k then
      match destructWhere (doomed s k) s.owner s.h.slots.length s.h with
      | .ok h => .ok { s with h := h, ctxs := s.ctxs.mapIdx fun c st => if doomed s k c then .released else st }
      | .error e => .error e
    else .error .illFormed

def srun (s : SState) : List SOp → Except HErr SState
  | [] => .ok s
  | op :: rest =>
    match sstep s op with
    | .ok s1 => srun s1 rest
    | .error e => .error e

/-- every context and every program involved has been released (none is live) -/
def allReleased (s : SState) : Bool := s.ctxs.all (· != .live)

end S

/-! ## Part M — modules, constructor failures and method calls on top of S (C17)

`ComplexCTORExpression::value` → `Complex::newInstance(type_id, ctor_id, ctx, args)`: the module's `createObject` either
returns a handle (then `new Complex(type_id, handle)`: the object belongs to module `type_id` for ever) or returns
nothing / raises (then NO `Complex` exists: nothing was created, nothing will be destroyed). `MemberMETHODExpression::
value` (member_complex.cpp:50-62): the receiver VALUE is evaluated; a null value → the method is not executed; a value
whose run-time type `val.type().minor()` differs from the `_method_type_id` the call was compiled for → run-time error
`EXC_RT_BAD_COMPLEX_S`, the module is not called; otherwise `plug.instance->executeMethod(*val.complex(), method id,
ctx, _args)` — the argument expressions of the script, as they are. -/
namespace M
open H S

/-- one execution of a module method, as the module sees it -/
structure Call where
  o : Nat                 -- the object it was executed on
  m : Nat                 -- the module whose method it is (`_method_type_id`)
  pos : Nat               -- how many create/destroy events had happened before
  name : String
  args : List String      -- the argument dump
  deriving DecidableEq, Repr

structure MState where
  s : SState
  modOf : List Nat        -- modOf[o] = the module (type id) object `o` was created by
  calls : List Call
  failed : Nat            -- constructor calls that produced no object
  refused : Nat           -- method calls stopped by the receiver check
  unloaded : Bool         -- `bloc_deinit_plugins` / `PluginManager::destroy()` was called (and no module imported again)

def MState.init : MState := ⟨SState.init, [], [], 0, 0, false⟩

inductive MOp
  | store (op : SOp)                                        -- any store-level operation except a construction
  | construct (k m : Nat)                                   -- constructor of module m succeeded, the handle goes to context k
  | constructFail (k m : Nat)                               -- createObject returned nothing / raised
  | method (i m : Nat) (name : String) (args : List String) -- method of module m called on the value holding handle i
  | deinit                                                  -- bloc_deinit_plugins: every module instance deleted, libraries closed
  deriving DecidableEq, Repr

def isConstruct : SOp → Bool
  | .construct _ => true
  | _ => false

/-- while the modules are loaded -/
def mstepLoaded (s : MState) : MOp → Except HErr MState
  | .store op =>
    if isConstruct op then .error .illFormed      -- a construction must say which module: `construct k m`
    else match sstep s.s op with
      | .ok s' => .ok { s with s := s' }
      | .error e => .error e
  | .construct k m =>
    match sstep s.s (.construct k) with
    | .ok s' => .ok { s with s := s', modOf := s.modOf ++ [m] }
    | .error e => .error e
  | .constructFail k _ =>
    if ctxLive s.s k then .ok { s with failed := s.failed + 1 } else .error .illFormed
  | .method i m name args =>
    match liveSlot s.s.h i with
    | some (.ref o) =>
      if s.modOf[o]? == some m then .ok { s with calls := s.calls ++ [⟨o, m, s.s.h.log.length, name, args⟩] }
      else .ok { s with refused := s.refused + 1 }
    | some .null => .error .nullDeref      -- `*val.complex()` of a moved-from handle (never produced by the store level)
    | _ => .error .illFormed
  | .deinit => .ok { s with unloaded := true }

/-- after `PluginManager::destroy()` (and before any module is imported again): `PluginManager::instance()` is a NEW
manager holding only the placeholder entry; `plugged(type id)` answers that entry, whose `instance` is null
(plugin_manager.h:51-56). `Complex::newInstance` then returns nothing (`if (module.instance)`, complex.cpp:54): every
constructor call fails; `~Complex` of a LAST reference and `executeMethod` call through the null instance
(complex.cpp:70, member_complex.cpp:62): the C-level hazard `nullDeref`. An operation that destroys nothing is as before. -/
def mstepUnloaded (s : MState) : MOp → Except HErr MState
  | .store op =>
    if isConstruct op then .error .illFormed
    else match sstep s.s op with
      | .ok s' => if s'.h.log.length == s.s.h.log.length then .ok { s with s := s' } else .error .nullDeref
      | .error e => .error e
  | .construct k _ => if ctxLive s.s k then .ok { s with failed := s.failed + 1 } else .error .illFormed
  | .constructFail k _ => if ctxLive s.s k then .ok { s with failed := s.failed + 1 } else .error .illFormed
  | .method i m _ _ =>
    match liveSlot s.s.h i with
    | some (.ref o) => if s.modOf[o]? == some m then .error .nullDeref else .ok { s with refused := s.refused + 1 }
    | some .null => .error .nullDeref
    | _ => .error .illFormed
  | .deinit => .ok s

def mstep (s : MState) (op : MOp) : Except HErr MState :=
  if s.unloaded then mstepUnloaded s op else mstepLoaded s op

def mrun (s : MState) : List MOp → Except HErr MState
  | [] => .ok s
  | op :: rest =>
    match mstep s op with
    | .ok s1 => mrun s1 rest
    | .error e => .error e

/-- the store-level operation(s) an `MOp` stands for -/
def toS : MOp → List SOp
  | .store op => [op]
  | .construct k _ => [.construct k]
  | .constructFail _ _ => []
  | .method _ _ _ _ => []
  | .deinit => []

end M

end BlocV.Plugin
