/-
  C13R2 — every reader of source text, call by call (model side; theorems in Proofs/C13.lean).
  A file of its own so that Model/Lex.lean (imported by the parser / CLI models) stays untouched.
-/
import BlocV.Model.Lex

namespace BlocV.Lex
open BlocV

/-! ## Every reader of source text, call by call (C13R2)

  Every way source bytes reach `tokenizer_buf` (`scanner->reader(handle, str, &n, 1023)`):

    reader (C++)                                       used by
    `bloc::StringReader::read`  blocc/string_reader.cpp   `bloc_parse_executable`, `bloc_parse_expression` (C API; the
                                                          `const char*` is cut at its first NUL before the reader sees it),
                                                          `bloc -e words…`, the test suite
    `ReadFile::read`            apps/read_file.cpp        `bloc FILE`, `bloc -` (the FILE* is stdin), the CLI command `load`
    `ReadFile::read` (private)  blocc/statement_include.cpp   `include "file";` (INCLUDEStatement::loadSource)
    `ReadInput::read`           apps/cli_parser.cpp       the interactive loop: `bloc_readstdin` (blocc/readstdin.c) when
                                                          libreadline could not be loaded, else the readline line server

  Each `read` is transcribed as ONE CALL (`…Call max acc stream`: `acc` = `buf[0..n)` most recent byte first,
  `stream` = what the source still holds; result = the bytes returned, the source afterwards), and the reader is
  the sequence of calls `tokenizer_buf` makes until a call returns 0 bytes (`calls`). That they all are the line
  discipline `lineSplit` (after CR removal for the first three, WITHOUT it for the interactive ones) is proved
  (Proofs/C13.lean: `stringReader_eq_lineReader`, `fileReader_eq_lineReader`, `includeReader_eq_lineReader`,
  `stdinReader_eq_lineSplit`, `readlineLine_eq_lineSplit`), not assumed. -/

/-- `StringReader::read`:
```
  while (p != _text.end() && c < max_size) {
    ++_pos;
    if (*p != '\r') buf[c++] = *p;     // discard cr
    if (*p == '\n') break;
    ++p; }
  return c;
``` -/
def srCall (max : Nat) : Bytes → Bytes → Bytes × Bytes
  | acc, [] => (acc.reverse, [])
  | acc, c :: t =>
    if acc.length < max then
      let acc' := if c != 13 then c :: acc else acc
      if c == 10 then (acc'.reverse, t) else srCall max acc' t
    else (acc.reverse, c :: t)

/-- `ReadFile::read` of apps/read_file.cpp:
```
  while (read < max_size) {
    if (::fread(&buf[read], sizeof(char), 1, _file) == 1) {
      if (buf[read] == '\r') continue;       // the slot is overwritten by the next byte
      if (buf[read++] != '\n') continue; }
    break; }
  return read;
```
The capacity test comes BEFORE the byte is fetched. -/
def rfCall (max : Nat) : Bytes → Bytes → Bytes × Bytes
  | acc, [] => (acc.reverse, [])
  | acc, c :: t =>
    if acc.length < max then
      if c == 13 then rfCall max acc t
      else if c != 10 then rfCall max (c :: acc) t
      else ((c :: acc).reverse, t)
    else (acc.reverse, c :: t)

/-- The private `ReadFile::read` of blocc/statement_include.cpp (the reader of INCLUDED sources): a textual copy
of the one in apps/read_file.cpp — the check compares the two function bodies on every run (a difference is a
broken tie) and exercises this one through a real `include "file";`. Kept as a definition of its own: it is
separate code, and `includeReader_eq_lineReader` is a theorem about THIS transcription. -/
def incCall (max : Nat) : Bytes → Bytes → Bytes × Bytes
  | acc, [] => (acc.reverse, [])
  | acc, c :: t =>
    if acc.length < max then
      if c == 13 then incCall max acc t
      else if c != 10 then incCall max (c :: acc) t
      else ((c :: acc).reverse, t)
    else (acc.reverse, c :: t)

/-- `bloc_readstdin(buf, maxlen)` (blocc/readstdin.c), what `ReadInput::read` returns without readline:
```
  while (len < maxlen && (chr = getchar()) != EOF) {
    buf[len++] = (char) chr;
    if (chr == '\n') break; }
  return len;
```
No CR is dropped here. -/
def stdinCall (max : Nat) : Bytes → Bytes → Bytes × Bytes
  | acc, [] => (acc.reverse, [])
  | acc, c :: t =>
    if acc.length < max then
      if c == 10 then ((c :: acc).reverse, t) else stdinCall max (c :: acc) t
    else (acc.reverse, c :: t)

/-- The calls `tokenizer_buf` makes: one `read` per scanner buffer until a call returns 0 bytes. `fuel` bounds
the number of calls (`calls` gives one more than the source has bytes). -/
def callsF (call : Bytes → Bytes × Bytes) : Nat → Bytes → List Bytes
  | 0, _ => []
  | fuel + 1, stream =>
    let r := call stream
    if r.1.isEmpty then [] else r.1 :: callsF call fuel r.2

def calls (call : Bytes → Bytes × Bytes) (text : Bytes) : List Bytes := callsF call (text.length + 1) text

def stringReader (max : Nat) (text : Bytes) : List Bytes := calls (srCall max []) text
def fileReader (max : Nat) (text : Bytes) : List Bytes := calls (rfCall max []) text
def includeReader (max : Nat) (text : Bytes) : List Bytes := calls (incCall max []) text
def stdinReader (max : Nat) (text : Bytes) : List Bytes := calls (stdinCall max []) text

/-- `ReadInput::read` with readline, for ONE line `readline()` returned (no terminator; `rl_pos` walks through it):
the copy loop stops after a '\n' (returns), or when the buffer is full (returns `max_size`), or at the end of
the line — then, when the buffer is not full, the line's '\n' is appended, the line is freed and the next call
asks readline for a new one. A line that ends exactly at a full buffer gets its '\n' alone in the next call.
`rlCopy`: the `while (*rl_pos && n < max_size)` loop: (bytes copied, rest of the line, stopped by '\n'). -/
def rlCopy (max : Nat) : Bytes → Bytes → Bytes × Bytes × Bool
  | acc, [] => (acc.reverse, [], false)
  | acc, c :: t =>
    if acc.length < max then
      if c == 10 then ((c :: acc).reverse, t, true) else rlCopy max (c :: acc) t
    else (acc.reverse, c :: t, false)

/-- One call while a line is being served: the chunk, and `some rest` when the line is not finished. -/
def rlCall (max : Nat) (rest : Bytes) : Bytes × Option Bytes :=
  let r := rlCopy max [] rest
  if r.2.2 then (r.1, some r.2.1)
  else if max ≤ r.1.length then (r.1, some r.2.1)
  else (r.1 ++ [10], none)

/-- All the calls that serve one readline line. -/
def readlineLineF (max : Nat) : Nat → Bytes → List Bytes
  | 0, _ => []
  | fuel + 1, rest =>
    match rlCall max rest with
    | (c, none) => [c]
    | (c, some r) => c :: readlineLineF max fuel r

def readlineLine (max : Nat) (line : Bytes) : List Bytes := readlineLineF max (line.length + 2) line

/-- The seeded reader of C13-m4 (the byte is fetched BEFORE the capacity test:
`while ((c = fgetc(_file)) != EOF && read < max_size)`): kept as the negation witness of
`reader_delivers_every_byte` for a reader of that shape. -/
def eagerCall (max : Nat) : Bytes → Bytes → Bytes × Bytes
  | acc, [] => (acc.reverse, [])
  | acc, c :: t =>
    if acc.length < max then
      if c == 13 then eagerCall max acc t
      else if c != 10 then eagerCall max (c :: acc) t
      else ((c :: acc).reverse, t)
    else (acc.reverse, t)                                      -- `c` has been consumed and is dropped

/-! ## A split that cannot matter (C13R2, section 2)

  `safeSplit a b`: decided WITHOUT running the chunked scanner — it follows the WHOLE-text scanner over the first
  fragment `a` and asks, at every token start (rest of the fragment `r`), whether the rule choice on `r ++ b` is the
  rule choice on `r` alone (`noCross`: no rule of the current start condition matches across the end of the
  fragment: not the last token of `a` continued into `b`, and not an earlier one either — `1e+|5`), and whether the
  beginning-of-line flag a fresh buffer gets can change the first token of `b` (`bolOk`: `a` ends with '\n', or the
  `^[ \t]*#.*` rule makes no difference at the head of `b`); both fragments NUL-free, `a` non-empty (an empty
  reader result is the end of the input). The start condition is whatever the whole-text scan of `a` leaves
  (INITIAL, COMMENT or LITERAL). -/

def noCross (b : Bytes) : Nat → St → Bool → Bytes → Bool
  | 0, _, _, _ => true
  | _ + 1, _, _, [] => true
  | fuel + 1, st, bol, c :: t =>
    let m := pick (rulesOf st) bol (c :: t)
    pick (rulesOf st) bol (c :: t ++ b) == m &&
      (m.2 == 0 || noCross b fuel (nextSt st m.1) (endsNl ((c :: t).take m.2)) ((c :: t).drop m.2))

def bolOk (a b : Bytes) : Bool :=
  endsWithNl a || pick (rulesOf (lex .initial true a).2) true b == pick (rulesOf (lex .initial true a).2) false b

def safeSplit (a b : Bytes) : Bool :=
  noNul a && noNul b && (b.isEmpty || (!a.isEmpty && noCross b a.length .initial true a && bolOk a b))

/-! ## Any number of cuts (C13R3)

  `safeCuts frags`: every cut is safe with respect to EVERYTHING that follows it (a match may run across several
  short chunks: `1|2|3`): scanning chunk `a` in the start condition the previous chunks leave, with beginning-of-line
  set (fresh buffer), no rule matches across its end into the rest of the text, and the beginning-of-line flag does
  not change the first token of the rest. Chunks non-empty and NUL-free. -/


def bolOkFrom (st : St) (a R : Bytes) : Bool :=
  endsWithNl a || pick (rulesOf (lex st true a).2) true R == pick (rulesOf (lex st true a).2) false R

def safeCutsFrom : St → List Bytes → Bool
  | _, [] => true
  | _, [c] => noNul c
  | st, a :: b :: cs =>
    noNul a && !a.isEmpty && noCross (b :: cs).flatten a.length st true a && bolOkFrom st a (b :: cs).flatten
      && safeCutsFrom (lex st true a).2 (b :: cs)

def safeCuts (frags : List Bytes) : Bool := safeCutsFrom .initial frags


/-- A byte of literal content that is not a delimiter, not an escape introducer, not NUL ('\n' is plain). -/
def plainByte (c : UInt8) : Bool := c != 34 && c != 92 && c != 0

/-! ## The buffer size of the RECORDED finding (C13R3)

  `chunkMax` follows the code (`Gen.LEX_BUFFER - 1`, regenerated from tokenizer.lex on every run), so that the model
  keeps describing what the scanner does. The finding `C13.unaligned_chunk_splits_token` however is recorded for
  "a line longer than 1023 bytes": its region is fixed here and does NOT move when the code's buffer shrinks — a
  text whose lines fit 1023 bytes and that is cut by a smaller buffer is a violation, not the known finding. -/
def recordedMax : Nat := 1023

/-- `fragSplit` / `fragReader` of Model/Lex.lean with the clamp as a parameter. -/
def fragSplitAt (mx : Nat) : Nat → List Nat → Nat → Bytes → List Bytes
  | 0, _, _, _ => []
  | _ + 1, _, _, [] => []
  | fuel + 1, sizes, last, c :: t =>
    let want := match sizes with
      | [] => last
      | n :: _ => n
    let w := Nat.max 1 (Nat.min want mx)
    ((c :: t).take w) :: fragSplitAt mx fuel sizes.tail want ((c :: t).drop w)

def fragReaderAt (mx : Nat) (sizes : List Nat) (text : Bytes) : List Bytes :=
  fragSplitAt mx text.length sizes mx text

end BlocV.Lex
