/-
  Model — `std::stod(const std::string&)` as `num(string)` / `isnum(string)` use it
  (blocc/builtin/builtin_num.cpp, builtin_isnum.cpp): glibc `strtod` in the "C" locale on `c_str()`,
  `std::invalid_argument` when nothing was converted, `std::out_of_range` when `errno == ERANGE`;
  the end pointer is not looked at, so anything may follow the number (also a NUL: `c_str()` ends there,
  and a NUL is no part of any number, so the scan below needs no special case for it).

  Everything is exact integer arithmetic on the digits (no `Float`):
    * `roundBin`: the correctly rounded (nearest, ties to even) binary64 of a positive rational, with
      glibc's ERANGE rule — overflow, or a result that is TINY AFTER ROUNDING (x86-64:
      `TININESS_AFTER_ROUNDING`; the value rounded to 53 bits with unbounded exponent is still below
      2^-1022) and inexact. `0x0.fffffffffffffcp-1022` is therefore accepted (= 2^-1022) while
      `0x0.fffffffffffff8p-1022` is ERANGE although it also rounds to 2^-1022.
      (Model/Parse.lean `strtodPos`, the reader of numeric LITERALS, is a separate older copy that answers
      "2^-1022" in that whole window; see notes/NOTES-C10.md.)
    * `stod`: the grammar — white space (isspace: 9..13, 32), sign, then `inf[inity]` / `nan[(n-char-seq)]`
      (any case), a hexadecimal float `0x h* [. h*] [p [sign] d+]` with at least one hex digit, or a decimal
      float `d* [. d*] [e [sign] d+]` with at least one digit. `0x` without a hex digit is the number 0.
      An exponent without digits is not consumed. A NaN is returned as the canonical quiet NaN (the
      framework does not compare NaN signs/payloads: harness/blocprobe.cpp prints every NaN as 7ff8…).
-/
import BlocV.Model.Num

namespace BlocV.Strtod
open BlocV BlocV.Num

/-- round-half-even of `num / den` (den > 0). -/
def rhe (num den : Nat) : Nat :=
  let q := num / den
  let r := num % den
  if 2 * r < den then q else if 2 * r > den then q + 1 else if q % 2 == 0 then q else q + 1

/-- `num/den / 2^e` rounded to the nearest integer (ties to even), and whether that was exact. -/
def roundAt (num den : Nat) (e : Int) : Nat × Bool :=
  if e ≥ 0 then
    let d := den * 2 ^ e.toNat
    (rhe num d, num % d == 0)
  else
    let n := num * 2 ^ (-e).toNat
    (rhe n den, n % den == 0)

/-- `floor (log2 (num/den))` for num, den > 0. -/
def floorLog2 (num den : Nat) : Int :=
  let l0 : Int := (Nat.log2 num : Int) - (Nat.log2 den : Int)
  let ge (x : Int) : Bool := if x ≥ 0 then num ≥ den * 2 ^ x.toNat else num * 2 ^ (-x).toNat ≥ den
  if ge (l0 + 1) then l0 + 1 else if ge l0 then l0 else l0 - 1

/-- Magnitude bits of `strtod` on the exact non-negative rational `num/den`; `none` = ERANGE. -/
def roundBin (num den : Nat) : Option F64 :=
  if num == 0 then some 0 else
  let e0 : Int := floorLog2 num den - 52
  -- 53 significant bits, exponent unbounded
  let q0 := (roundAt num den e0).1
  let qe : Nat × Int := if q0 == 2 ^ 53 then (2 ^ 52, e0 + 1) else (q0, e0)
  if qe.2 ≥ -1074 then
    -- not tiny: a normal number, or overflow
    let biased : Int := qe.2 + 1075
    if biased ≥ 2047 then none
    else some (UInt64.ofNat (biased.toNat * 2 ^ 52 + (qe.1 - 2 ^ 52)))
  else
    -- tiny after rounding: the subnormal grid 2^-1074; ERANGE unless exact
    let r := roundAt num den (-1074)
    if r.2 then some (UInt64.ofNat r.1) else none

def isSpace (c : UInt8) : Bool := c == 32 || (9 ≤ c && c ≤ 13)
def isDigit (c : UInt8) : Bool := 48 ≤ c && c ≤ 57
def hexVal (c : UInt8) : Option Nat :=
  if 48 ≤ c && c ≤ 57 then some (c.toNat - 48)
  else if 97 ≤ c && c ≤ 102 then some (c.toNat - 87)
  else if 65 ≤ c && c ≤ 70 then some (c.toNat - 55) else none
def isHex (c : UInt8) : Bool := (hexVal c).isSome
def lowerB (c : UInt8) : UInt8 := if 65 ≤ c && c ≤ 90 then c + 32 else c

def natOf (base : Nat) (ds : Bytes) : Nat := ds.foldl (fun n c => n * base + (hexVal c).getD 0) 0

/-- `[eEpP] [+-] d+` : the exponent, 0 when there is no digit (then nothing is consumed). -/
def exponent (marker : UInt8) (r : Bytes) : Int :=
  match r with
  | m :: r1 =>
    if lowerB m != marker then 0 else
    let (neg, r2) := match r1 with
      | 45 :: t => (true, t)
      | 43 :: t => (false, t)
      | t => (false, t)
    let ds := r2.takeWhile isDigit
    if ds.isEmpty then 0 else
    let n : Nat := natOf 10 ds
    if neg then -(n : Int) else n
  | [] => 0

/-- Outcome of `std::stod`. -/
inductive R
  | invalid           -- std::invalid_argument
  | range             -- std::out_of_range
  | val (b : F64)
  deriving DecidableEq, Repr

def withSign (neg : Bool) (o : Option F64) : R :=
  match o with
  | some b => .val (if neg then b ||| 0x8000000000000000 else b)
  | none => .range

/-- digits `ip`, fraction digits `fp` in `base` (10 or 16), binary/decimal exponent `ex`:
the value is `m * base^(-|fp|) * B^ex` with B = 10 (decimal) or 2 (hexadecimal). -/
def decValue (neg : Bool) (ip fp : Bytes) (ex : Int) : R :=
  let ds := (ip ++ fp).dropWhile (· == 48)
  let m := natOf 10 ds
  if m == 0 then .val (if neg then 0x8000000000000000 else 0) else
  let p : Int := ex - fp.length
  -- 10^(p) ≤ value < 10^(p + |ds|): beyond these bounds the outcome is ERANGE whatever the digits
  if p + ds.length > 400 then .range
  else if p + ds.length < -400 then .range
  else if p ≥ 0 then withSign neg (roundBin (m * 10 ^ p.toNat) 1) else withSign neg (roundBin m (10 ^ (-p).toNat))

def hexValue (neg : Bool) (ip fp : Bytes) (ex : Int) : R :=
  let ds := (ip ++ fp).dropWhile (· == 48)
  let m := natOf 16 ds
  if m == 0 then .val (if neg then 0x8000000000000000 else 0) else
  let p : Int := ex - 4 * fp.length
  if p + 4 * ds.length > 1200 then .range
  else if p + 4 * ds.length < -1200 then .range
  else if p ≥ 0 then withSign neg (roundBin (m * 2 ^ p.toNat) 1) else withSign neg (roundBin m (2 ^ (-p).toNat))

/-- case-insensitive prefix test -/
def startsCI (s : Bytes) (word : List UInt8) : Bool := (s.take word.length).map lowerB == word

/-- digits, optional point, digits; returns (ip, fp, rest). -/
def mantissa (isD : UInt8 → Bool) (s : Bytes) : Bytes × Bytes × Bytes :=
  let ip := s.takeWhile isD
  let r1 := s.dropWhile isD
  match r1 with
  | 46 :: r => (ip, r.takeWhile isD, r.dropWhile isD)
  | _ => (ip, [], r1)

def stod (s : Bytes) : R :=
  let s1 := s.dropWhile isSpace
  let (neg, s2) := match s1 with
    | 45 :: r => (true, r)
    | 43 :: r => (false, r)
    | r => (false, r)
  if startsCI s2 [105, 110, 102] then .val (if neg then 0xfff0000000000000 else 0x7ff0000000000000)
  else if startsCI s2 [110, 97, 110] then .val canonNaN
  else
    let hex : Option (Bytes × Bytes × Bytes) := match s2 with
      | 48 :: x :: r =>
        if lowerB x == 120 then
          let m := mantissa isHex r
          if m.1.isEmpty && m.2.1.isEmpty then none else some m
        else none
      | _ => none
    match hex with
    | some (ip, fp, rest) => hexValue neg ip fp (exponent 112 rest)
    | none =>
      let (ip, fp, rest) := mantissa isDigit s2
      if ip.isEmpty && fp.isEmpty then .invalid
      else decValue neg ip fp (exponent 101 rest)

end BlocV.Strtod
