/-
  Model — several contexts in one process (C14).

  A `World` is what a host holds after compiling some programs and cloning some contexts:

  * `progs`   — the compiled executables. Statements and expression nodes are `const` trees shared by
                every context that runs them (`bloc_execute2(ctx, exec)`) — immutable in the model.
  * `shared`  — the mutable cells the C++ really shares between contexts. They are not guessed:
                extract/shared.py lists every `mutable` member, every non-const `static` and the
                heap cells shared by design (Gen/Shared.lean, regenerated on every run); `cellKind`
                below assigns each listed cell to a `SharedKind`, and `all_shared_cells_classified`
                (Proofs/C14.lean) is proved by evaluation over the generated list — a NEW shared
                mutable field is unclassified and breaks the obligation. A static declared
                `thread_local` is per-thread state, not a shared cell: the extractor lists it apart
                (`Gen.threadLocalCells`), `threadCellKind` classifies that list, and the state lives
                with the context (`Ctx.whatBuf`) — in this model a thread IS a context whose steps
                are interleaved with the steps of the others. A cell that loses its `thread_local`
                re-enters `Gen.sharedCells`, where `cellKind` does not know it.
  * `ctxs`    — per-context state: `St` of Model/Interp.lean (variables, value saved by `return`,
                printed output) + the function declarations + the position of the current run.

  Transcribed from: context.cpp (`Context::clone`: deep copy of every `MemorySlot` — value cloned with
  the LVALUE flag set, symbol copied —, `_fctm->reset(*other._fctm)`; `purge`; the destructor),
  functor_manager.cpp (`reset`: entries re-created without their context cache, the `Functor` itself —
  name, parameters, body, prototype context — shared through a `shared_ptr`; `createEnv`),
  statement.cpp (`execute`: `_level = ctx.execLevel()` on the shared node), executable.cpp (`run`),
  bloc_capi.cpp (`bloc_execute2`, `bloc_error_set`), exception.h (`Error::what`: formats into a
  `static thread_local char buf[256]` since fix 1cb0b5a — one buffer per thread).

  Granularity: one `step` = one top-level statement of the context's current run (`Executable::run`
  loop body), executed by `exec` of Model/Interp.lean. Everything proved about interleavings is
  schedule-independence OF THIS MODEL at that granularity; that finer real interleavings cannot do
  more is the data-race-freedom assumption, which is exactly what the recorded races break. The C++
  memory model, the allocator and `FILE*` locking are outside.

  Two places where the model used to be cleaner than the code, and no longer is (both repaired):
  * a function body runs for the calling root (output stream, stop condition): the code does so
    since fix 137dbae; before, the call context was a copy of the function's prototype context
    (`Functor::ctx`, kind `functorProto`) and used the ORIGINAL's stream / stop flag / lifetime;
  * handler selection compares the error's own name (`catchMatches`): `BEGINStatement::docatch`
    compares the clause name with `Error::what()`, which formats the error's own name into the
    buffer of the CALLING thread and is read back by that thread at once. Since fix 1cb0b5a the
    buffer is `thread_local`, so no other context's error can be in it: the comparison is with the
    error's own name, as modelled. (Before, it was one process-wide static buffer — a shared cell
    of kind `whatBuffer` — which a thread formatting its own error could overwrite in between:
    a handled user exception could miss its handler, finding C14.what_static_buffer, fixed.)
-/
import BlocV.Model.Interp
import BlocV.Model.Store
import BlocV.Gen.Shared

namespace BlocV.World
open BlocV

/-! ### the shared mutable cells -/

inductive SharedKind
  /-- `Statement::_level`, written by every `Statement::execute` on the shared node -/
  | stmtLevel
  /-- `mutable Value v` of the constant nodes (literals, `true/false/null/pi/ee/ii/phi`) and the
  `mutable payload _value` inside them: handed out by reference from `value() const` -/
  | constValue
  /-- `MemberATExpression/TABExpression::_type_volatile`, written by `type() const` -/
  | typeVolatile
  /-- `bloc_error` of bloc_capi.cpp: {message pointer, number} and `bloc_error_msg`, the record's own copy of the
  message text: process-wide -/
  | errorRecord
  /-- `Context::random`'s function-local statics (generator state, `seeded`) -/
  | rngState
  /-- `PluginManager::_instance`, `_internal`: the module registry singleton -/
  | pluginRegistry
  /-- `Complex::_refcount`: plain `int` counter shared by every copy of an object handle -/
  | objectRefcount
  /-- `Functor::ctx`: the parse-time context of a function, shared through `FunctorPtr` -/
  | functorProto
  /-- `ERRORExpression::v`: prototype tuple of the `error` built-in; only its type is read -/
  | errorTuple
  /-- declared mutable/static but owned by ONE context instance (every `MemorySlot` copy makes its
  own `Symbol`): `Symbol::_safety`, `_locked` -/
  | perContext
  /-- written during static initialisation or by explicit host configuration only
  (`machine_bom`, `debug_ctx`, `ItemExpression::_opaque`, `RuntimeError::THROWABLES`) -/
  | processConfig
  deriving DecidableEq, Repr, Inhabited

/-- The classification of every extracted cell. Anything not listed is `none`. -/
def cellKind (c : String × String) : Option SharedKind :=
  if c.2 == "v" then
    (if c.1 == "blocc/builtin/builtin_error.h" then some .errorTuple
     else if ["blocc/builtin/builtin_ee.h", "blocc/builtin/builtin_false.h", "blocc/builtin/builtin_ii.h",
              "blocc/builtin/builtin_null.h", "blocc/builtin/builtin_phi.h", "blocc/builtin/builtin_pi.h",
              "blocc/builtin/builtin_true.h", "blocc/expression_boolean.h", "blocc/expression_integer.h",
              "blocc/expression_literal.h", "blocc/expression_numeric.h"].contains c.1 then some .constValue
     else none)
  else if c == ("blocc/value.h", "_value") then some .constValue
  else if c == ("blocc/statement.h", "_level") then some .stmtLevel
  else if c == ("blocc/member/member_at.h", "_type_volatile") then some .typeVolatile
  else if c == ("blocc/builtin/builtin_tab.h", "_type_volatile") then some .typeVolatile
  else if c == ("blocc/bloc_capi.cpp", "bloc_error") then some .errorRecord
  -- the record's own copy of the message text (fix 97cdad4): part of the same process-wide record
  else if c == ("blocc/bloc_capi.cpp", "bloc_error_msg") then some .errorRecord
  else if c == ("blocc/context.cpp", "r") then some .rngState
  else if c == ("blocc/context.cpp", "seeded") then some .rngState
  else if c == ("blocc/plugin_manager.h", "_instance") then some .pluginRegistry
  else if c == ("blocc/plugin_manager.h", "_internal") then some .pluginRegistry
  else if c == ("blocc/complex.h", "_refcount") then some .objectRefcount
  else if c == ("blocc/functor_manager.h", "ctx") then some .functorProto
  else if c == ("blocc/symbol.h", "_safety") then some .perContext
  else if c == ("blocc/symbol.h", "_locked") then some .perContext
  else if c == ("blocc/builtin/builtin_getsys.cpp", "machine_bom") then some .processConfig
  else if c == ("blocc/debug.cpp", "debug_ctx") then some .processConfig
  else if c == ("blocc/expression_item.h", "_opaque") then some .processConfig
  else if c == ("blocc/exception_runtime.h", "THROWABLES") then some .processConfig
  else none

/-- Per-thread cells (`Gen.threadLocalCells`): one instance per thread. Not shared, so not a
`SharedKind`; the model keeps their content in the context the thread runs. -/
inductive ThreadKind
  /-- `Error::what()`'s function-local `static thread_local char buf[256]`: the message of the last
  error the thread formatted (`Ctx.whatBuf`) -/
  | whatBuffer
  deriving DecidableEq, Repr, Inhabited

/-- The classification of every extracted `thread_local` cell. Anything not listed is `none`.
`("blocc/exception.h", "buf")` is known HERE and deliberately NOT to `cellKind`: if the declaration
loses its `thread_local`, the cell is listed in `Gen.sharedCells` and is unclassified there. -/
def threadCellKind (c : String × String) : Option ThreadKind :=
  if c == ("blocc/exception.h", "buf") then some .whatBuffer
  else none

/-- The kinds a statement step of the model writes. Every other kind is left alone by every
operation of the model (`footprint`). What the C++ does to the others is said in NOTES-C14.md:
`rngState` by `random()` (documented shared input, not in the modelled built-ins), `objectRefcount`
/ `pluginRegistry` by module objects (shared by design, not in the modelled values), `typeVolatile`
by `type()` of table members (tables are not in the statement language of Model/Interp.lean). -/
def writtenKinds : List SharedKind := [.stmtLevel, .errorRecord]

/-- A statement node of a shared executable, or of a shared function body. -/
inductive StmtRef
  | prog (pid : Nat) (path : List Nat)
  | fn (f : Func) (path : List Nat)

inductive CellVal
  /-- constant-node cells: value + LVALUE flag, as in Model/Store.lean -/
  | cells (cs : List Cell)
  /-- every `_level` write that may have happened so far: (node, value written) -/
  | levels (log : List (StmtRef × Nat))
  /-- the last error formatted / recorded: (number, argument) -/
  | lastError (e : Option (Nat × Bytes))
  /-- a cell no operation of the model reaches -/
  | opaque (n : Nat)

abbrev Shared := SharedKind → CellVal

/-! ### which `_level` value a statement node receives

`Statement::execute` stores `ctx.execLevel()` — the depth of the context's exec stack — into the node.
At run time only `BEGINStatement::doit` pushes that stack (`execBegin(this)` … `execEnd()`, also
around the handler clause; `if`/`while`/`for` push it only while PARSING), and a function body runs
in its own call context whose stack starts empty. So the value is
`(depth at the start of the run) + (number of enclosing begin blocks)`: lexical, given the base. -/

mutual
  /-- level stored into the node at relative path `p` below `s` when `s` itself is executed at level `d`
  (path = block index, statement index, block index, …; `d` for a path that names no node) -/
  def levelOf (d : Nat) : Stmt → List Nat → Nat
    | _, [] => d
    | .ifS rules, k :: rest => levelRules d rules k rest
    | .whileS _ body, 0 :: rest => levelList d body rest
    | .forS _ _ _ _ _ body, 0 :: rest => levelList d body rest
    | .beginS body _, 0 :: rest => levelList (d + 1) body rest
    | .beginS _ catches, (k + 1) :: rest => levelCatches (d + 1) catches k rest
    | _, _ => d
  def levelList (d : Nat) : List Stmt → List Nat → Nat
    | _, [] => d
    | [], _ => d
    | s :: _, 0 :: rest => levelOf d s rest
    | _ :: r, (i + 1) :: rest => levelList d r (i :: rest)
  def levelRules (d : Nat) : List (Option Expr × List Stmt) → Nat → List Nat → Nat
    | [], _, _ => d
    | (_, b) :: _, 0, rest => levelList d b rest
    | _ :: r, k + 1, rest => levelRules d r k rest
  def levelCatches (d : Nat) : List (String × List Stmt) → Nat → List Nat → Nat
    | [], _, _ => d
    | (_, b) :: _, 0, rest => levelList d b rest
    | _ :: r, k + 1, rest => levelCatches d r k rest
end

mutual
  /-- relative paths of `s` and of every statement nested in it -/
  def pathsOf : Stmt → List (List Nat)
    | .ifS rules => [] :: pathsRules 0 rules
    | .whileS _ body => [] :: (pathsList 0 body).map (0 :: ·)
    | .forS _ _ _ _ _ body => [] :: (pathsList 0 body).map (0 :: ·)
    | .beginS body catches => [] :: ((pathsList 0 body).map (0 :: ·) ++ pathsCatches 1 catches)
    | _ => [[]]
  def pathsList (i : Nat) : List Stmt → List (List Nat)
    | [] => []
    | s :: r => (pathsOf s).map (i :: ·) ++ pathsList (i + 1) r
  def pathsRules (k : Nat) : List (Option Expr × List Stmt) → List (List Nat)
    | [] => []
    | (_, b) :: r => (pathsList 0 b).map (k :: ·) ++ pathsRules (k + 1) r
  def pathsCatches (k : Nat) : List (String × List Stmt) → List (List Nat)
    | [] => []
    | (_, b) :: r => (pathsList 0 b).map (k :: ·) ++ pathsCatches (k + 1) r
end

/-- Every `_level` write executing top-level statement `i` of program `pid` at exec level `d` can
perform on the program's own nodes (the nodes actually reached are a subset; unreached ones keep
what they held). -/
def stmtLevelWrites (pid i d : Nat) (s : Stmt) : List (StmtRef × Nat) :=
  (pathsOf s).map fun rel => (StmtRef.prog pid (i :: rel), levelOf d s rel)

/-- … and on the body of a function the statement may call: the call context's exec stack starts
empty, whoever calls. The body is the block `begin … exception … end`: block 0 = body, k+1 = clause k. -/
def funcLevelWrites (f : Func) : List (StmtRef × Nat) :=
  (pathsOf (.beginS f.body f.catches)).map fun rel => (StmtRef.fn f rel, levelOf 0 (.beginS f.body f.catches) rel)

/-! ### contexts and the world -/

abbrev CtxId := Nat

structure Ctx where
  /-- variables, value saved by `return`, printed output (this context's own stream), work budget -/
  st : St := {}
  /-- function declarations (`FunctorManager::_declarations`; call-context caches are not state) -/
  funcs : List Func := []
  /-- the executable of the current run -/
  prog : Nat := 0
  /-- next top-level statement of that run -/
  pc : Nat := 0
  /-- a run is in progress -/
  running : Bool := false
  /-- how the last run ended (what `bloc_execute2` / `bloc_drop_returned` hand to the host) -/
  result : Option (Res (Option Val)) := none
  /-- a top-level `return` ended the last run and the host has not called `bloc_reset_stop`: the
  return condition is still set, and `Executable::run` returns at once while it is -/
  retPending : Bool := false
  /-- depth of the exec stack between runs: 0 unless a foreign exception unwound through a
  `begin` block (then `execEnd` was skipped) -/
  execLevel : Nat := 0
  /-- PER-THREAD, kept with the context its thread runs: `Error::what()`'s `thread_local` buffer as
  `bloc_execute2` leaves it — the (number, argument) of the error that ended this context's last
  failed run, the text `bloc_error.msg` points into right after that run. (Errors handled inside a
  statement format into the same buffer and are read back within the same step: `exec` compares the
  error's own name, see the header.) A clone is a new context: nothing formatted for it yet. -/
  whatBuf : Option (Nat × Bytes) := none
  deriving Inhabited

structure World where
  progs : List (List Stmt)
  fuel : Nat
  shared : Shared
  ctxs : CtxId → Option Ctx

def upd (f : CtxId → Option Ctx) (c : CtxId) (v : Option Ctx) : CtxId → Option Ctx :=
  fun d => if d = c then v else f d

def updShared (s : Shared) (k : SharedKind) (v : CellVal) : Shared :=
  fun j => if j = k then v else s j

def appendLevels (s : Shared) (ws : List (StmtRef × Nat)) : Shared :=
  match s .stmtLevel with
  | .levels log => updShared s .stmtLevel (.levels (log ++ ws))
  | _ => s

/-- `bloc_error_set(re.what(), re.no)`: the ONE process-wide record {message pointer, number}. The
text it points to is in the failing thread's own buffer (`Ctx.whatBuf`), not a shared cell. -/
def recordError (s : Shared) (code : Nat) (arg : Bytes) : Shared :=
  updShared s .errorRecord (.lastError (some (code, arg)))

/-- `FunctorManager::createOrReplace` over the declarations of a program, starting from the
declarations the context already has (`collectFuncs` of Model/Interp.lean starts from none). -/
def declare (fs0 : List Func) (prog : List Stmt) : List Func :=
  prog.foldl (fun fs st => match st with
    | .funcS n ps rt b c =>
      let f0 : Func := { name := n, params := ps, ret := rt, body := b, catches := c }
      let fs1 := addFunc fs f0
      let tab0 : SymTab := ps.map fun (pn, pt) => (pn, pt, pt)
      let tab := declCatches fs1 1000 (declList fs1 1000 tab0 b) c
      addFunc fs { f0 with decls := tab.first }
    | _ => fs) fs0

/-- `Context::clone`: variables (values deep-copied, every one an lvalue) and function declarations;
no saved return value, no pending stop condition, an own output stream, no run in progress. -/
def cloneCtx (src : Ctx) : Ctx :=
  { st := { vars := src.st.vars, returned := none, out := [] }, funcs := src.funcs, execLevel := 0 }

/-- `Context::purge`: variables, declarations, saved value and stop condition are dropped; the context
object stays usable (for a NEW program: the executables compiled against the old symbols are not). -/
def purgeCtx (c : Ctx) : Ctx :=
  { c with st := { c.st with vars := [], returned := none }, funcs := [], running := false, retPending := false }

/-- One statement of the run of context `ctx` (`Executable::run` loop body), returning the context
after it and what it wrote to the shared cells: the `_level` log entries and, when the run ends with
an error, the error record (the message itself goes to the thread's own `what` buffer, `whatBuf`).
Reads: the context itself, the shared immutable programs, the fuel. -/
def stepCtx (progs : List (List Stmt)) (fuel : Nat) (ctx : Ctx) : Ctx × List (StmtRef × Nat) × Option (Nat × Bytes) :=
  if !ctx.running then (ctx, [], none) else
  match (progs.getD ctx.prog [])[ctx.pc]? with
  | none => ({ ctx with running := false, result := some (.ok ctx.st.returned) }, [], none)
  | some stmt =>
    let lw := stmtLevelWrites ctx.prog ctx.pc ctx.execLevel stmt ++ (ctx.funcs.map funcLevelWrites).flatten
    match exec ctx.funcs 0 fuel stmt ctx.st with
    | (.ok .norm, s') => ({ ctx with st := s', pc := ctx.pc + 1 }, lw, none)
    | (.ok .ret, s') => ({ ctx with st := s', running := false, result := some (.ok s'.returned), retPending := true }, lw, none)
    | (.ok _, s') => ({ ctx with st := s', running := false, result := some (.ok s'.returned) }, lw, none)
    | (.err c a, s') => ({ ctx with st := s', running := false, result := some (.err c a), whatBuf := some (c, a) }, lw, some (c, a))
    | (.haz h, s') => ({ ctx with st := s', running := false, result := some (.haz h) }, lw, none)
    | (.unmodelled, s') => ({ ctx with st := s', running := false, result := some .unmodelled }, lw, none)

inductive Op
  /-- `Parser::parse` of program `pid` in context `c`: registers its symbols (typed nulls) and its
  function declarations; nothing runs -/
  | compile (c : CtxId) (pid : Nat)
  /-- `bloc_execute2(c, exec pid)` is entered (returns at once when a `return` is still pending) -/
  | start (c : CtxId) (pid : Nat)
  /-- the next top-level statement of `c`'s run -/
  | step (c : CtxId)
  | clone (src dst : CtxId)
  | purge (c : CtxId)
  | free (c : CtxId)
  deriving DecidableEq, Repr

/-- the context an operation writes (`clone` reads `src`, writes `dst`) -/
def Op.target : Op → CtxId
  | .compile c _ | .start c _ | .step c | .purge c | .free c => c
  | .clone _ dst => dst

def apply (w : World) : Op → World
  | .compile c pid =>
    match w.ctxs c with
    | none => w
    | some ctx =>
      let prog := w.progs.getD pid []
      let funcs := declare ctx.funcs prog
      let vars := (mainDecls funcs prog).foldl (fun vs (n, t) => if vs.any (·.1 == n) then vs else vs ++ [(n, Val.null t)]) ctx.st.vars
      { w with ctxs := upd w.ctxs c (some { ctx with funcs := funcs, st := { ctx.st with vars := vars } }) }
  | .start c pid =>
    match w.ctxs c with
    | none => w
    | some ctx =>
      if ctx.running then w else
      if ctx.retPending then
        { w with ctxs := upd w.ctxs c (some { ctx with prog := pid, pc := 0, result := some (.ok none),
                                                         st := { ctx.st with returned := none } }) } else
      { w with ctxs := upd w.ctxs c (some { ctx with prog := pid, pc := 0, running := true, result := none,
                                                       st := { ctx.st with returned := none } }) }
  | .step c =>
    match w.ctxs c with
    | none => w
    | some ctx =>
      let r := stepCtx w.progs w.fuel ctx
      let sh := appendLevels w.shared r.2.1
      let sh := match r.2.2 with
        | some (code, arg) => recordError sh code arg
        | none => sh
      { w with ctxs := upd w.ctxs c (some r.1), shared := sh }
  | .clone src dst =>
    match w.ctxs src with
    | none => w
    | some s => { w with ctxs := upd w.ctxs dst (some (cloneCtx s)) }
  | .purge c =>
    match w.ctxs c with
    | none => w
    | some ctx => { w with ctxs := upd w.ctxs c (some (purgeCtx ctx)) }
  | .free c => { w with ctxs := upd w.ctxs c none }

/-- the statement step as a relation-free function, as the task names it -/
def step (w : World) (c : CtxId) : World := apply w (.step c)

def run (w : World) (ops : List Op) : World := ops.foldl apply w

/-- Shared cells of a fresh process: the constant cells of the compiled programs (every one carries
the LVALUE flag since fix fa51031), nothing logged, no error recorded. -/
def initShared (consts : List Cell) : Shared
  | .constValue => .cells consts
  | .stmtLevel => .levels []
  | .errorRecord => .lastError none
  | _ => .opaque 0

def initWorld (progs : List (List Stmt)) (fuel : Nat := 100000) (consts : List Cell := []) : World :=
  { progs := progs, fuel := fuel, shared := initShared consts, ctxs := fun c => if c = 0 then some {} else none }

/-- Everything a script or the per-context part of the host API can observe of one context. -/
def view (w : World) (c : CtxId) : Option Ctx := w.ctxs c

end BlocV.World
