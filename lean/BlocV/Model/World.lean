/-
  Model — several contexts in one process (C14).

  A `World` is what a host holds after compiling some programs and cloning some contexts:

  * `progs`   — the compiled executables. Statements and expression nodes are `const` trees shared by
                every context that runs them (`bloc_execute2(ctx, exec)`) — immutable in the model.
  * `shared`  — the mutable cells the C++ really shares between contexts. They are not guessed:
                extract/shared.py lists every `mutable` member, every non-const `static` and the
                heap cells shared by design (Gen/Shared.lean, regenerated on every run); `cellKind`
                below assigns each listed cell to a `SharedKind`, and `all_shared_cells_classified`
                (Proofs/C14.lean) is proved by evaluation over the generated list — a NEW shared
                mutable field is unclassified and breaks the obligation. A static declared
                `thread_local` is per-thread state, not a shared cell: the extractor lists it apart
                (`Gen.threadLocalCells`), `threadCellKind` classifies that list, and the state lives
                with the context (`Ctx.whatBuf`) — in this model a thread IS a context whose steps
                are interleaved with the steps of the others. A cell that loses its `thread_local`
                re-enters `Gen.sharedCells`, where `cellKind` does not know it.
  * `ctxs`    — per-context state: `St` of Model/Interp.lean (variables, value saved by `return`,
                printed output) + the function declarations + the position of the current run.

  r2 (what `Context::clone` copies, member by member: `cloneCtx`; calls and variables are linked by
  table / slot INDEX: `linked`, `symLinked`, `LWorld`; an executed `function` statement re-installs its
  function in the running context: `reinstall`; `bloc_break` / `bloc_reset_stop` / trusted / trace:
  `Op.host`; the fuel bookkeeping is `execList`'s, so that a stepped run IS `runProgram`:
  Proofs/C14.lean `world_run_eq_runProgram`).

  Transcribed from: context.cpp (`Context::clone`: deep copy of every `MemorySlot` — value cloned with
  the LVALUE flag set, symbol copied —, `_fctm->reset(*other._fctm)`; `purge`; the destructor),
  functor_manager.cpp (`reset`: entries re-created without their context cache, the `Functor` itself —
  name, parameters, body, prototype context — shared through a `shared_ptr`; `createEnv`;
  `findDeclaration`, `createOrReplace`), expression_functor.cpp (`_id`), statement_function.cpp (`doit`),
  statement.cpp (`execute`: `_level = ctx.execLevel()` on the shared node), executable.cpp (`run`),
  bloc_capi.cpp (`bloc_execute2`, `bloc_error_set`), exception.h (`Error::what`: formats into a
  `static thread_local char buf[256]` since fix 1cb0b5a — one buffer per thread).

  Granularity: one `step` = one top-level statement of the context's current run (`Executable::run`
  loop body), executed by `exec` of Model/Interp.lean. Everything proved about interleavings is
  schedule-independence OF THIS MODEL at that granularity; that finer real interleavings cannot do
  more is the data-race-freedom assumption, which is exactly what the recorded races break. The C++
  memory model, the allocator and `FILE*` locking are outside.

  Two places where the model used to be cleaner than the code, and no longer is (both repaired):
  * a function body runs for the calling root (output stream, stop condition): the code does so
    since fix 137dbae; before, the call context was a copy of the function's prototype context
    (`Functor::ctx`, kind `functorProto`) and used the ORIGINAL's stream / stop flag / lifetime;
  * handler selection compares the error's own name (`catchMatches`): `BEGINStatement::docatch`
    compares the clause name with `Error::what()`, which formats the error's own name into the
    buffer of the CALLING thread and is read back by that thread at once. Since fix 1cb0b5a the
    buffer is `thread_local`, so no other context's error can be in it: the comparison is with the
    error's own name, as modelled. (Before, it was one process-wide static buffer — a shared cell
    of kind `whatBuffer` — which a thread formatting its own error could overwrite in between:
    a handled user exception could miss its handler, finding C14.what_static_buffer, fixed.)
-/
import BlocV.Model.Interp
import BlocV.Model.Store
import BlocV.Gen.Shared

namespace BlocV.World
open BlocV

/-! ### the shared mutable cells -/

inductive SharedKind
  /-- `Statement::_level`, written by every `Statement::execute` on the shared node -/
  | stmtLevel
  /-- `mutable Value v` of the constant nodes (literals, `true/false/null/pi/ee/ii/phi`) and the
  `mutable payload _value` inside them: handed out by reference from `value() const` -/
  | constValue
  /-- `MemberATExpression/TABExpression::_type_volatile`, written by `type() const` -/
  | typeVolatile
  /-- `bloc_error` of bloc_capi.cpp: {message pointer, number} and `bloc_error_msg`, the record's own copy of the
  message text: process-wide -/
  | errorRecord
  /-- `Context::random`'s function-local statics (generator state, `seeded`) -/
  | rngState
  /-- `PluginManager::_instance`, `_internal`: the module registry singleton -/
  | pluginRegistry
  /-- `Complex::_refcount`: plain `int` counter shared by every copy of an object handle -/
  | objectRefcount
  /-- `Functor::ctx`: the parse-time context of a function, shared through `FunctorPtr` -/
  | functorProto
  /-- `ERRORExpression::v`: prototype tuple of the `error` built-in; only its type is read -/
  | errorTuple
  /-- declared mutable/static but owned by ONE context instance (every `MemorySlot` copy makes its
  own `Symbol`): `Symbol::_safety`, `_locked` -/
  | perContext
  /-- written during static initialisation or by explicit host configuration only
  (`machine_bom`, `debug_ctx`, `ItemExpression::_opaque`, `RuntimeError::THROWABLES`) -/
  | processConfig
  deriving DecidableEq, Repr, Inhabited

/-- The classification of every extracted cell. Anything not listed is `none`. -/
def cellKind (c : String × String) : Option SharedKind :=
  if c.2 == "v" then
    (if c.1 == "blocc/builtin/builtin_error.h" then some .errorTuple
     else if ["blocc/builtin/builtin_ee.h", "blocc/builtin/builtin_false.h", "blocc/builtin/builtin_ii.h",
              "blocc/builtin/builtin_null.h", "blocc/builtin/builtin_phi.h", "blocc/builtin/builtin_pi.h",
              "blocc/builtin/builtin_true.h", "blocc/expression_boolean.h", "blocc/expression_integer.h",
              "blocc/expression_literal.h", "blocc/expression_numeric.h"].contains c.1 then some .constValue
     else none)
  else if c == ("blocc/value.h", "_value") then some .constValue
  else if c == ("blocc/statement.h", "_level") then some .stmtLevel
  else if c == ("blocc/member/member_at.h", "_type_volatile") then some .typeVolatile
  else if c == ("blocc/builtin/builtin_tab.h", "_type_volatile") then some .typeVolatile
  else if c == ("blocc/bloc_capi.cpp", "bloc_error") then some .errorRecord
  -- the record's own copy of the message text (fix 97cdad4): part of the same process-wide record
  else if c == ("blocc/bloc_capi.cpp", "bloc_error_msg") then some .errorRecord
  else if c == ("blocc/context.cpp", "r") then some .rngState
  else if c == ("blocc/context.cpp", "seeded") then some .rngState
  else if c == ("blocc/plugin_manager.h", "_instance") then some .pluginRegistry
  else if c == ("blocc/plugin_manager.h", "_internal") then some .pluginRegistry
  else if c == ("blocc/complex.h", "_refcount") then some .objectRefcount
  else if c == ("blocc/functor_manager.h", "ctx") then some .functorProto
  else if c == ("blocc/symbol.h", "_safety") then some .perContext
  else if c == ("blocc/symbol.h", "_locked") then some .perContext
  else if c == ("blocc/builtin/builtin_getsys.cpp", "machine_bom") then some .processConfig
  else if c == ("blocc/debug.cpp", "debug_ctx") then some .processConfig
  else if c == ("blocc/expression_item.h", "_opaque") then some .processConfig
  else if c == ("blocc/exception_runtime.h", "THROWABLES") then some .processConfig
  else none

/-- Per-thread cells (`Gen.threadLocalCells`): one instance per thread. Not shared, so not a
`SharedKind`; the model keeps their content in the context the thread runs. -/
inductive ThreadKind
  /-- `Error::what()`'s function-local `static thread_local char buf[256]`: the message of the last
  error the thread formatted (`Ctx.whatBuf`) -/
  | whatBuffer
  deriving DecidableEq, Repr, Inhabited

/-- The classification of every extracted `thread_local` cell. Anything not listed is `none`.
`("blocc/exception.h", "buf")` is known HERE and deliberately NOT to `cellKind`: if the declaration
loses its `thread_local`, the cell is listed in `Gen.sharedCells` and is unclassified there. -/
def threadCellKind (c : String × String) : Option ThreadKind :=
  if c == ("blocc/exception.h", "buf") then some .whatBuffer
  else none

/-- The kinds a statement step of the model writes. Every other kind is left alone by every
operation of the model (`footprint`). What the C++ does to the others is said in NOTES-C14.md:
`rngState` by `random()` (documented shared input, not in the modelled built-ins), `objectRefcount`
/ `pluginRegistry` by module objects (shared by design, not in the modelled values), `typeVolatile`
by `type()` of table members (tables are not in the statement language of Model/Interp.lean). -/
def writtenKinds : List SharedKind := [.stmtLevel, .errorRecord]

/-- A statement node of a shared executable, or of a shared function body. -/
inductive StmtRef
  | prog (pid : Nat) (path : List Nat)
  | fn (f : Func) (path : List Nat)

inductive CellVal
  /-- constant-node cells: value + LVALUE flag, as in Model/Store.lean -/
  | cells (cs : List Cell)
  /-- every `_level` write that may have happened so far: (node, value written) -/
  | levels (log : List (StmtRef × Nat))
  /-- the last error formatted / recorded: (number, argument) -/
  | lastError (e : Option (Nat × Bytes))
  /-- a cell no operation of the model reaches -/
  | opaque (n : Nat)

abbrev Shared := SharedKind → CellVal

/-! ### which `_level` value a statement node receives

`Statement::execute` stores `ctx.execLevel()` — the depth of the context's exec stack — into the node.
At run time only `BEGINStatement::doit` pushes that stack (`execBegin(this)` … `execEnd()`, also
around the handler clause; `if`/`while`/`for` push it only while PARSING), and a function body runs
in its own call context whose stack starts empty. So the value is
`(depth at the start of the run) + (number of enclosing begin blocks)`: lexical, given the base. -/

mutual
  /-- level stored into the node at relative path `p` below `s` when `s` itself is executed at level `d`
  (path = block index, statement index, block index, …; `d` for a path that names no node) -/
  def levelOf (d : Nat) : Stmt → List Nat → Nat
    | _, [] => d
    | .ifS rules, k :: rest => levelRules d rules k rest
    | .whileS _ body, 0 :: rest => levelList d body rest
    | .forS _ _ _ _ _ body, 0 :: rest => levelList d body rest
    | .beginS body _, 0 :: rest => levelList (d + 1) body rest
    | .beginS _ catches, (k + 1) :: rest => levelCatches (d + 1) catches k rest
    | _, _ => d
  def levelList (d : Nat) : List Stmt → List Nat → Nat
    | _, [] => d
    | [], _ => d
    | s :: _, 0 :: rest => levelOf d s rest
    | _ :: r, (i + 1) :: rest => levelList d r (i :: rest)
  def levelRules (d : Nat) : List (Option Expr × List Stmt) → Nat → List Nat → Nat
    | [], _, _ => d
    | (_, b) :: _, 0, rest => levelList d b rest
    | _ :: r, k + 1, rest => levelRules d r k rest
  def levelCatches (d : Nat) : List (String × List Stmt) → Nat → List Nat → Nat
    | [], _, _ => d
    | (_, b) :: _, 0, rest => levelList d b rest
    | _ :: r, k + 1, rest => levelCatches d r k rest
end

mutual
  /-- relative paths of `s` and of every statement nested in it -/
  def pathsOf : Stmt → List (List Nat)
    | .ifS rules => [] :: pathsRules 0 rules
    | .whileS _ body => [] :: (pathsList 0 body).map (0 :: ·)
    | .forS _ _ _ _ _ body => [] :: (pathsList 0 body).map (0 :: ·)
    | .beginS body catches => [] :: ((pathsList 0 body).map (0 :: ·) ++ pathsCatches 1 catches)
    | _ => [[]]
  def pathsList (i : Nat) : List Stmt → List (List Nat)
    | [] => []
    | s :: r => (pathsOf s).map (i :: ·) ++ pathsList (i + 1) r
  def pathsRules (k : Nat) : List (Option Expr × List Stmt) → List (List Nat)
    | [] => []
    | (_, b) :: r => (pathsList 0 b).map (k :: ·) ++ pathsRules (k + 1) r
  def pathsCatches (k : Nat) : List (String × List Stmt) → List (List Nat)
    | [] => []
    | (_, b) :: r => (pathsList 0 b).map (k :: ·) ++ pathsCatches (k + 1) r
end

/-- Every `_level` write executing top-level statement `i` of program `pid` at exec level `d` can
perform on the program's own nodes (the nodes actually reached are a subset; unreached ones keep
what they held). -/
def stmtLevelWrites (pid i d : Nat) (s : Stmt) : List (StmtRef × Nat) :=
  (pathsOf s).map fun rel => (StmtRef.prog pid (i :: rel), levelOf d s rel)

/-- … and on the body of a function the statement may call: the call context's exec stack starts
empty, whoever calls. The body is the block `begin … exception … end`: block 0 = body, k+1 = clause k. -/
def funcLevelWrites (f : Func) : List (StmtRef × Nat) :=
  (pathsOf (.beginS f.body f.catches)).map fun rel => (StmtRef.fn f rel, levelOf 0 (.beginS f.body f.catches) rel)

/-! ### contexts and the world -/

abbrev CtxId := Nat

structure Ctx where
  /-- variables, value saved by `return`, printed output (this context's own stream), work budget -/
  st : St := {}
  /-- function declarations (`FunctorManager::_declarations`; call-context caches are not state) -/
  funcs : List Func := []
  /-- the executable of the current run -/
  prog : Nat := 0
  /-- next top-level statement of that run -/
  pc : Nat := 0
  /-- a run is in progress -/
  running : Bool := false
  /-- how the last run ended (what `bloc_execute2` / `bloc_drop_returned` hand to the host) -/
  result : Option (Res (Option Val)) := none
  /-- a top-level `return` ended the last run and the host has not called `bloc_reset_stop`: the
  return condition is still set, and `Executable::run` returns at once while it is -/
  retPending : Bool := false
  /-- depth of the exec stack between runs: 0 unless a foreign exception unwound through a
  `begin` block (then `execEnd` was skipped) -/
  execLevel : Nat := 0
  /-- PER-THREAD, kept with the context its thread runs: `Error::what()`'s `thread_local` buffer as
  `bloc_execute2` leaves it — the (number, argument) of the error that ended this context's last
  failed run, the text `bloc_error.msg` points into right after that run. (Errors handled inside a
  statement format into the same buffer and are read back within the same step: `exec` compares the
  error's own name, see the header.) A clone is a new context: nothing formatted for it yet. -/
  whatBuf : Option (Nat × Bytes) := none
  /-- `_flags & FLAG_TRUSTED` (`Context::trusted(bool)`: restricted plugins may be imported). The ONLY
  member besides the storage pool and the declarations that `Context::clone` copies (`other->_flags =
  _flags`); `Context::purge` leaves it. -/
  trusted : Bool := false
  /-- `_trace` (`bloc_ctx_enable_trace`). NOT copied by `Context::clone` (the clone is a `new Context`:
  `_trace = false`); reset by `Context::purge`. -/
  trace : Bool := false
  deriving Inhabited

structure World where
  progs : List (List Stmt)
  fuel : Nat
  shared : Shared
  ctxs : CtxId → Option Ctx

def upd (f : CtxId → Option Ctx) (c : CtxId) (v : Option Ctx) : CtxId → Option Ctx :=
  fun d => if d = c then v else f d

def updShared (s : Shared) (k : SharedKind) (v : CellVal) : Shared :=
  fun j => if j = k then v else s j

def appendLevels (s : Shared) (ws : List (StmtRef × Nat)) : Shared :=
  match s .stmtLevel with
  | .levels log => updShared s .stmtLevel (.levels (ws ++ log))   -- newest first (a set of possible writes; prepending keeps a step O(|ws|))
  | _ => s

/-- `bloc_error_set(re.what(), re.no)`: the ONE process-wide record {message pointer, number}. The
text it points to is in the failing thread's own buffer (`Ctx.whatBuf`), not a shared cell. -/
def recordError (s : Shared) (code : Nat) (arg : Bytes) : Shared :=
  updShared s .errorRecord (.lastError (some (code, arg)))

/-- `FunctorManager::createOrReplace` over the declarations of a program, starting from the
declarations the context already has (`collectFuncs` of Model/Interp.lean starts from none). -/
def declare (fs0 : List Func) (prog : List Stmt) : List Func :=
  prog.foldl (fun fs st => match st with
    | .funcS n ps rt b c =>
      let f0 : Func := { name := n, params := ps, ret := rt, body := b, catches := c }
      let fs1 := addFunc fs f0
      let tab0 : SymTab := ps.map fun (pn, pt) => (pn, pt, pt)
      let tab := declCatches fs1 1000 (declList fs1 1000 tab0 b) c
      addFunc fs { f0 with decls := tab.first }
    | _ => fs) fs0

/-! ### calls are linked by TABLE INDEX

`FunctorExpression::parse` resolves `f(a, b)` ONCE, while compiling: `findDeclaration(name, #args)` → the
position of the first entry with that name and arity in the compiling context's table, kept in the node
(`_id`). At run time `FunctorExpression::value` takes `ctx.functorManager().getDeclaration(_id)` of the
context that RUNS the node — for a shared executable (`bloc_execute2(clone, exec)`) and for a shared
function body that is the clone's table, not the one the index was computed in. `exec` of
Model/Interp.lean looks the callee up by (name, arity) in the running context's table. The two agree
exactly when the running table continues the compile-time table position by position (`linked`) and
holds each signature once (`createOrReplace` guarantees that): `index_call_eq_name_call` in
Proofs/C14.lean. `clone` keeps a table linked because `FunctorManager::reset` copies EVERY entry IN
ORDER (`clone_copies_functions`); `createOrReplace` keeps it linked because it replaces in place or
appends (`linked_declare`). A run that is NOT linked calls whatever sits at the index (or reads past the
end of the vector): the model does not predict it — `LWorld.linkedAll` tells the comparator. -/

/-- what `findDeclaration` compares: name and number of parameters -/
abbrev Sig := String × Nat

def sigOf (f : Func) : Sig := (f.name, f.params.length)

/-- the signatures of a table, in table order -/
def sigs (fs : List Func) : List Sig := fs.map sigOf

/-- the table `fs` continues the compile-time table `l` position by position -/
def linked (l : List Sig) (fs : List Func) : Bool := l.isPrefixOf (sigs fs)

/-- the C++ call: index computed in the compile-time table `l`, entry taken from the running table `fs` -/
def callByIndex (l : List Sig) (fs : List Func) (name : String) (arity : Nat) : Option Func :=
  match l.idxOf? (name, arity) with
  | some i => fs[i]?
  | none => none

/-- the model's call (`callFunc` of Model/Interp.lean): first entry of the running table with that name and arity -/
def callByName (fs : List Func) (name : String) (arity : Nat) : Option Func :=
  fs.find? (fun f => f.name == name && f.params.length == arity)

/-- `FunctorManager::reset` as seeded mutation C14-m3 has it (an entry whose NAME is already in the new
table is skipped): kept here as the counter-model that shows what `clone_copies_functions` excludes. -/
def resetSkippingNames (fs : List Func) : List Func :=
  fs.foldl (fun acc f => if acc.any (·.name == f.name) then acc else acc ++ [f]) []

/-- `Context::clone`, member by member (context.h, private section — everything a `Context` has):
  * `_storage_pool`  — copied slot by slot (`MemorySlot(const MemorySlot&)`: value cloned with the LVALUE
                       flag, `new Symbol(*m.symbol)`: name, type, safety and locked flags) → `st.vars`;
  * `_fctm`          — a NEW manager, then `reset(*_fctm)`: one entry per declaration of the source, IN
                       ORDER, overloads (same name, other arity) included, sharing the `Functor`, WITHOUT
                       the cache of call contexts (a recycled call context starts like a new one —
                       `createEnv` — so the cache is not observable) → `funcs`: the same list;
  * `_flags`         — copied → `trusted`;
  * `_root`          — `this`: the clone is its own root; a function body called in it tests the CLONE's
                       stop condition (`createChildRuntime` re-binds `_root`, fix 137dbae; seeded C14-m4);
  * `_returnCondition`, `_breakCondition`, `_continueCondition` — false (`new Context`): a pending
                       top-level `return` / `bloc_break` of the source is NOT inherited → `retPending`;
  * `_returned`      — null: the value saved by `return` stays with the source → `st.returned`;
  * `_controlstack`, `_execstack`, `_temporary_storage`, `_backed_symbols`, `_parsing` — empty / false
                       → `execLevel := 0`, no running `forall` (`st.iters`), no run in progress;
  * `_recursion`     — 0 (a root context; call contexts get caller + 1 in `createEnv`);
  * `_trace`         — false, whatever the source has → `trace`;
  * `_last_error`    — default (read by the `error` built-in only, outside the statement language here);
  * `_sout`, `_serr` — own `FILE*` on the descriptors given (`clone(fd_out, fd_err)`) or on a `dup` of the
                       source's (`clone()`): own buffer → `st.out := []`;
  * `_ts_init`       — now.
The work budget (`st.budget`) is a model device: a clone starts with a full one. -/
def cloneCtx (src : Ctx) : Ctx :=
  { st := { vars := src.st.vars, returned := none, out := [] }, funcs := src.funcs, execLevel := 0,
    trusted := src.trusted, trace := false }

/-- `Context::purge`: variables, declarations, saved value and stop condition are dropped; the context
object stays usable (for a NEW program: the executables compiled against the old symbols are not). -/
def purgeCtx (c : Ctx) : Ctx :=
  { c with st := { c.st with vars := [], returned := none }, funcs := [], running := false, retPending := false,
           trace := false }

/-- What a finished statement makes of the run: `Executable::run` goes on after a normal end, stops
on any stop condition (a top-level `return` leaves the return condition SET — `retPending`), and
`bloc_execute2` turns a `RuntimeError` into the error record. `lw` = the `_level` writes performed. -/
def stepOutcome (ctx : Ctx) (lw : List (StmtRef × Nat)) : Res Flow × St → Ctx × List (StmtRef × Nat) × Option (Nat × Bytes)
  | (.ok .norm, s') => ({ ctx with st := s', pc := ctx.pc + 1 }, lw, none)
  | (.ok .ret, s') => ({ ctx with st := s', running := false, result := some (.ok s'.returned), retPending := true }, lw, none)
  | (.ok _, s') => ({ ctx with st := s', running := false, result := some (.ok s'.returned) }, lw, none)
  | (.err c a, s') => ({ ctx with st := s', running := false, result := some (.err c a), whatBuf := some (c, a) }, lw, some (c, a))
  | (.haz h, s') => ({ ctx with st := s', running := false, result := some (.haz h) }, lw, none)
  | (.unmodelled, s') => ({ ctx with st := s', running := false, result := some .unmodelled }, lw, none)

/-- `FUNCTIONStatement::doit`: a function declaration is an EXECUTABLE statement. Compiling it
(`FUNCTIONStatement::parse` → `createOrReplace`) puts the functor into the table, and every time the
statement is executed it puts ITS functor back into the entry with that name and arity of the RUNNING
context's table (`e.functor = _functor; e.clearCache()`), `EXC_RT_INTERNAL_ERROR_S` if there is no such
entry. So running an old executable in a context that has redefined one of its functions since
re-installs the old definition — there, and in no other context. (`exec` of Model/Interp.lean treats the
statement as a no-op, which is right as long as the entry already holds that functor: always, inside
ONE program that declares each signature once.) The private symbol table of the re-installed function
(`Func.decls`) is recomputed against the running table, as `declare` does — the compile-time one can
differ only if a callee's declared return type was changed by a redefinition in between. -/
def reinstall (fs : List Func) : Stmt → Option (List Func)
  | .funcS n ps rt b c =>
    if fs.any (sameSig { name := n, params := ps, ret := rt, body := b, catches := c }) then
      some (declare fs [.funcS n ps rt b c])
    else none
  | _ => some fs

def declName : Stmt → String
  | .funcS n _ _ _ _ => n
  | _ => ""

/-! ### when re-executing the declarations of a program changes nothing (checkable)

`wfDecls [] prog`: every declaration of `prog` introduces a NEW signature, and every user-function call
the symbol pass (`declStmt` … of Model/Interp.lean) looks at in its body and handlers names a signature
declared so far or the function itself — what the parser enforces (`FunctorExpression::parse`:
undefined symbol / bad number of arguments otherwise). For such a program executing a declaration
(`reinstall`) after the compilation puts back exactly the compiled function (Proofs/C14.lean
`stableDecls_of_wf`), so a stepped run IS `runProgram`. The driver evaluates it for every generated
program (`wf=`). The predicates mirror the recursion of `typeOfExpr` / `declStmt` … fuel for fuel. -/

mutual
  /-- every user-function call the typing pass looks at in `e` has a signature accepted by `S` -/
  def exprOK (S : String → Nat → Bool) : Nat → Expr → Bool
    | 0, _ => true
    | fuel + 1, e =>
      match e with
      | .lit _ => true
      | .var _ => true
      | .un _ a => exprOK S fuel a
      | .bin _ a b => exprOK S fuel a && exprOK S fuel b
      | .call _ args => argsOK S fuel args
      | .member _ recv _ => exprOK S fuel recv
      | .errorE => true
      | .item .errorE _ => true
      | .item (.call "tup" args) _ => argsOK S fuel args
      | .item _ _ => true
      | .fcall name args => S name args.length
  def argsOK (S : String → Nat → Bool) : Nat → List Expr → Bool
    | _, [] => true
    | fuel, a :: as => exprOK S fuel a && argsOK S fuel as
end


mutual
  /-- … the same for everything the symbol pass (`declStmt` …) looks at in a statement -/
  def stmtOK (S : String → Nat → Bool) : Nat → Stmt → Bool
    | 0, _ => true
    | fuel + 1, st =>
      match st with
      | .letS _ e => exprOK S 100 e
      | .forS _ _ _ _ _ body => listOK S fuel body
      | .forallS _ src _ body => exprOK S 100 src && listOK S fuel body
      | .whileS _ body => listOK S fuel body
      | .ifS rules => rulesOK S fuel rules
      | .beginS body catches => listOK S fuel body && catchesOK S fuel catches
      | _ => true
  def listOK (S : String → Nat → Bool) : Nat → List Stmt → Bool
    | 0, _ => true
    | _, [] => true
    | fuel + 1, s :: rest => stmtOK S fuel s && listOK S fuel rest
  def rulesOK (S : String → Nat → Bool) : Nat → List (Option Expr × List Stmt) → Bool
    | 0, _ => true
    | _, [] => true
    | fuel + 1, (_, body) :: rest => listOK S fuel body && rulesOK S fuel rest
  def catchesOK (S : String → Nat → Bool) : Nat → List (String × List Stmt) → Bool
    | 0, _ => true
    | _, [] => true
    | fuel + 1, (_, body) :: rest => listOK S fuel body && catchesOK S fuel rest
end


/-- Checkable well-formedness of the declarations of a program, given the signatures `seen` already in the
table: each declared signature is NEW, and every user-function call the symbol pass looks at in its body
and handlers names a signature declared so far or the function itself — what the parser enforces anyway
(`FunctorExpression::parse`: undefined symbol / bad number of arguments otherwise). -/
def wfDecls (seen : List Sig) : List Stmt → Bool
  | [] => true
  | .funcS n ps _ b c :: rest =>
    !(seen.contains (n, ps.length)) &&
    listOK (fun name k => (seen ++ [(n, ps.length)]).contains (name, k)) 1000 b &&
    catchesOK (fun name k => (seen ++ [(n, ps.length)]).contains (name, k)) 1000 c &&
    wfDecls (seen ++ [(n, ps.length)]) rest
  | _ :: rest => wfDecls seen rest



/-- One statement of the run of context `ctx` (`Executable::run` loop body), returning the context
after it and what it wrote to the shared cells: the `_level` log entries and, when the run ends with
an error, the error record (the message itself goes to the thread's own `what` buffer, `whatBuf`).
Reads: the context itself, the shared immutable programs, the fuel.

* A stop condition that arrived while the run was in progress (`bloc_break` from another thread =
  `returnCondition(true)` on this root) ends the run at the statement boundary: `if
  (ctx.stopCondition()) break;` — nothing more is executed, the run is a success.
* Fuel: statement number `pc` runs with `fuel - pc - 1`, and the run is out of fuel when `fuel - pc = 0`
  — exactly the bookkeeping of `execList` in Model/Interp.lean, so that a run stepped to its end here
  IS `runProgram` (Proofs/C14.lean `world_run_eq_runProgram`), not merely similar to it.
* A function declaration re-installs its function in this context's table (`reinstall`). -/
def stepCtx (progs : List (List Stmt)) (fuel : Nat) (ctx : Ctx) : Ctx × List (StmtRef × Nat) × Option (Nat × Bytes) :=
  if !ctx.running then (ctx, [], none) else
  if ctx.retPending then ({ ctx with running := false, result := some (.ok ctx.st.returned) }, [], none) else
  match fuel - ctx.pc with
  | 0 => stepOutcome ctx [] (.err oofCode [], ctx.st)
  | f + 1 =>
    match (progs.getD ctx.prog [])[ctx.pc]? with
    | none => ({ ctx with running := false, result := some (.ok ctx.st.returned) }, [], none)
    | some stmt =>
      match reinstall ctx.funcs stmt with
      | none => stepOutcome ctx [] (.err Gen.EXC_RT_INTERNAL_ERROR_S (nameBytes (declName stmt)), ctx.st)
      | some fs' =>
        stepOutcome { ctx with funcs := fs' }
          (stmtLevelWrites ctx.prog ctx.pc ctx.execLevel stmt ++ (ctx.funcs.map funcLevelWrites).flatten)
          (exec ctx.funcs 0 f stmt ctx.st)

/-- What the host can do to a context besides compiling and running: `bloc_break` / `bloc_reset_stop`
(`returnCondition(true/false)` on the root), `Context::trusted(b)`, `bloc_ctx_enable_trace`. -/
inductive HostCall
  | brk | resetStop | trusted (b : Bool) | trace (b : Bool)
  deriving DecidableEq, Repr

def hostCtx : HostCall → Ctx → Ctx
  | .brk, c => { c with retPending := true }
  | .resetStop, c => { c with retPending := false }
  | .trusted b, c => { c with trusted := b }
  | .trace b, c => { c with trace := b }

inductive Op
  /-- `Parser::parse` of program `pid` in context `c`: registers its symbols (typed nulls) and its
  function declarations; nothing runs -/
  | compile (c : CtxId) (pid : Nat)
  /-- `bloc_execute2(c, exec pid)` is entered (returns at once when a `return` is still pending) -/
  | start (c : CtxId) (pid : Nat)
  /-- the next top-level statement of `c`'s run -/
  | step (c : CtxId)
  | clone (src dst : CtxId)
  | purge (c : CtxId)
  | free (c : CtxId)
  /-- a host call on context `c` that is neither compile nor run -/
  | host (c : CtxId) (h : HostCall)
  deriving DecidableEq, Repr

/-- the context an operation writes (`clone` reads `src`, writes `dst`) -/
def Op.target : Op → CtxId
  | .compile c _ | .start c _ | .step c | .purge c | .free c | .host c _ => c
  | .clone _ dst => dst

def apply (w : World) : Op → World
  | .compile c pid =>
    match w.ctxs c with
    | none => w
    | some ctx =>
      let prog := w.progs.getD pid []
      let funcs := declare ctx.funcs prog
      let vars := (mainDecls funcs prog).foldl (fun vs (n, t) => if vs.any (·.1 == n) then vs else vs ++ [(n, Val.null t)]) ctx.st.vars
      { w with ctxs := upd w.ctxs c (some { ctx with funcs := funcs, st := { ctx.st with vars := vars } }) }
  | .start c pid =>
    match w.ctxs c with
    | none => w
    | some ctx =>
      if ctx.running then w else
      if ctx.retPending then
        { w with ctxs := upd w.ctxs c (some { ctx with prog := pid, pc := 0, result := some (.ok none),
                                                         st := { ctx.st with returned := none } }) } else
      { w with ctxs := upd w.ctxs c (some { ctx with prog := pid, pc := 0, running := true, result := none,
                                                       st := { ctx.st with returned := none } }) }
  | .step c =>
    match w.ctxs c with
    | none => w
    | some ctx =>
      let r := stepCtx w.progs w.fuel ctx
      let sh := appendLevels w.shared r.2.1
      let sh := match r.2.2 with
        | some (code, arg) => recordError sh code arg
        | none => sh
      { w with ctxs := upd w.ctxs c (some r.1), shared := sh }
  | .clone src dst =>
    match w.ctxs src with
    | none => w
    | some s => { w with ctxs := upd w.ctxs dst (some (cloneCtx s)) }
  | .purge c =>
    match w.ctxs c with
    | none => w
    | some ctx => { w with ctxs := upd w.ctxs c (some (purgeCtx ctx)) }
  | .free c => { w with ctxs := upd w.ctxs c none }
  | .host c h =>
    match w.ctxs c with
    | none => w
    | some ctx => { w with ctxs := upd w.ctxs c (some (hostCtx h ctx)) }

/-- the statement step as a relation-free function, as the task names it -/
def step (w : World) (c : CtxId) : World := apply w (.step c)

def run (w : World) (ops : List Op) : World := ops.foldl apply w

/-! ### which executable was compiled against which table (instrumentation, changes nothing)

An executable is a host object: `compile c pid` creates it against the table `c` has after the
program's declarations. `LWorld` carries that table's signatures per program and whether every
`start` so far ran its executable in a context whose table continues it. `applyL` performs `apply` on
the world (`applyL_world` in Proofs/C14.lean) — the flag only tells where the by-name lookup of the
model IS the by-index lookup of the code. -/

/-- Variables are linked the same way: `VariableExpression` holds the SLOT INDEX (`_id`) of the symbol in
the compiling context's storage pool and `loadVariable(_id)` / `storeVariable(_id, …)` index the pool of
the running context. `St.vars` is in slot order (registration appends, assignment replaces in place,
`clone` copies the pool slot by slot), so the condition is again "continues position by position". -/
def symLinked (l : List String) (vars : List (String × Val)) : Bool := l.isPrefixOf (vars.map (·.1))

structure LWorld where
  w : World
  /-- compile-time function-table signatures and symbol names (slot order) of each compiled program -/
  link : Nat → Option (List Sig × List String)
  /-- every `start` so far was of a compiled executable whose table the running context continues -/
  linkedAll : Bool

def applyL (lw : LWorld) (op : Op) : LWorld :=
  let w' := apply lw.w op
  match op with
  | .compile c pid =>
    match w'.ctxs c with
    | some x => { lw with w := w', link := fun p => if p = pid then some (sigs x.funcs, x.st.vars.map (·.1)) else lw.link p }
    | none => { lw with w := w' }
  | .start c pid =>
    match lw.w.ctxs c, lw.link pid with
    | some x, some l => { lw with w := w', linkedAll := lw.linkedAll && linked l.1 x.funcs && symLinked l.2 x.st.vars }
    | some _, none => { lw with w := w', linkedAll := false }
    | none, _ => { lw with w := w' }
  | _ => { lw with w := w' }

def runL (lw : LWorld) (ops : List Op) : LWorld := ops.foldl applyL lw

/-- Shared cells of a fresh process: the constant cells of the compiled programs (every one carries
the LVALUE flag since fix fa51031), nothing logged, no error recorded. -/
def initShared (consts : List Cell) : Shared
  | .constValue => .cells consts
  | .stmtLevel => .levels []
  | .errorRecord => .lastError none
  | _ => .opaque 0

def initWorld (progs : List (List Stmt)) (fuel : Nat := 100000) (consts : List Cell := []) : World :=
  { progs := progs, fuel := fuel, shared := initShared consts, ctxs := fun c => if c = 0 then some {} else none }

def initLWorld (progs : List (List Stmt)) (fuel : Nat := 100000) : LWorld :=
  { w := initWorld progs fuel, link := fun _ => none, linkedAll := true }

/-- Everything a script or the per-context part of the host API can observe of one context. -/
def view (w : World) (c : CtxId) : Option Ctx := w.ctxs c

end BlocV.World
