/-
  Driver glue for C12 (command `unp <hex source>`). Not part of the model: traversals of whole programs,
  string rendering of the answer. `partial` is allowed here (whitelisted like DrvC18.lean).

  Answer:  model=<perr N | txt=<hex>> re=<ok | perr N | -> fix=<0|1> txt2=<hex|-> tree=<same|norm|diff|->
           wf=<0|1> lex=<0|1> beh=<same|diff|na> kf=<region,…|->
    txt   unparseProgram (parse text)            re    outcome of parsing txt again
    fix   second unparse = first                 tree  second tree = first / = norm first / neither
    wf    every expression of the program is in the proven image (Roundtrip.wf) and the statement-level
          side conditions hold            lex   every expression's text scans to `toksExpr`, every DO
                                                statement's text to `toksDo`
    kf    regions of the recorded findings the program lies in (wrapped integers, 17-digit decimals, fused print items)
    beh   both trees run through the interpreter model: outcome, output, variables equal
-/
import BlocV.Proto
import BlocV.Model.Parse
import BlocV.Model.Unparse
import BlocV.Spec.Roundtrip
import BlocV.Model.Interp
import BlocV.Proofs.Lemmas.ParseBlock   -- only for the fuel measure `C12L.ssizeB` (core-only file, no Mathlib)

namespace BlocV.DrvC12
open BlocV BlocV.Proto BlocV.Parse BlocV.Unparse BlocV.Roundtrip

/-- every expression a statement holds directly (not those of nested statements) -/
def ownExprs : PStmt → List PExpr
  | .trace e => [e]
  | .ret (some e) => [e]
  | .letS _ e _ => [e]
  | .print args => args
  | .put args => args
  | .doS e => [e]
  | .ifS rules _ => rules.map (·.1)
  | .whileS c _ => [c]
  | .forS _ b e st _ _ => [b, e] ++ st.toList
  | .forall _ e _ _ => [e]
  | _ => []

/-- all statements of a program, nested and chained ones included -/
partial def allStmts : List PStmt → List PStmt
  | [] => []
  | s :: ss =>
    let sub : List PStmt := match s with
      | .letS _ _ (some n) => allStmts [n]
      | .letn _ _ (some n) => allStmts [n]
      | .ifS rules els => (rules.flatMap fun r => allStmts r.2) ++ (match els with | some b => allStmts b | none => [])
      | .whileS _ b => allStmts b
      | .forS _ _ _ _ _ b => allStmts b
      | .forall _ _ _ b => allStmts b
      | .begin b cs => allStmts b ++ cs.flatMap fun c => allStmts c.2
      | .func _ _ _ b cs => allStmts b ++ cs.flatMap fun c => allStmts c.2
      | _ => []
    s :: sub ++ allStmts ss

mutual
  partial def normStmt : PStmt → PStmt
    | .trace e => .trace (norm e)
    | .ret e => .ret (e.map norm)
    | .letS n e nx => .letS n (norm e) (nx.map normStmt)
    | .letn n t nx => .letn n t (nx.map normStmt)
    | .print a => .print (a.map norm)
    | .put a => .put (a.map norm)
    | .doS e => .doS (norm e)
    | .ifS rules els => .ifS (rules.map fun r => (norm r.1, normBlock r.2)) (els.map normBlock)
    | .whileS c b => .whileS (norm c) (normBlock b)
    | .forS v b e st d body => .forS v (norm b) (norm e) (st.map norm) d (normBlock body)
    | .forall v e d body => .forall v (norm e) d (normBlock body)
    | .begin b cs => .begin (normBlock b) (cs.map fun c => (c.1, normBlock c.2))
    | .func n ps rt b cs => .func n ps rt (normBlock b) (cs.map fun c => (c.1, normBlock c.2))
    | s => s
  partial def normBlock (b : List PStmt) : List PStmt := b.map normStmt
end

def regions (p : List PStmt) : List String :=
  let ss := allStmts p
  let es := ss.flatMap ownExprs
  (if es.any hasNegInt then ["C12.wrapped_integer_literal"] else []) ++
  (if es.any hasNum17 then ["C12.decimal_16_digits"] else []) ++
  (if ss.any (fun s => match s with | .print a => printAdj a | .put a => printAdj a | _ => false) then ["C12.print_items_fuse"] else [])
  -- C12.do_without_keyword (`Roundtrip.doHead`) is repaired (1a89173) and no region any more: a DO statement
  -- that does not load again is reported with `kf=-`, i.e. as a violation.

/-- the proven image: every expression well formed; statement-level side conditions of the round trip -/
def progWf (p : List PStmt) : Bool :=
  let ss := allStmts p
  (ss.flatMap ownExprs).all wf && (regions p).isEmpty

def lexOk (p : List PStmt) : Bool :=
  let ss := allStmts p
  (ss.flatMap ownExprs).all (fun e => tokensOf (unparseExpr e ++ [59]) == toksExpr e ++ [ch 59]) &&
  -- the text of a saved DO statement scans to the keyword + the expression's tokens (domain of `stmt_do_roundtrip`)
  ss.all (fun s => match s with | .doS e => tokensOf (unparseStmt 0 (.doS e) ++ [59]) == toksDo e | _ => true)

/-! ### statement / program level (round C12-deepen): what `C12.stmt_roundtrip_flat`, `C12.print_roundtrip`,
`C12.program_roundtrip_partial` and `C12.unparse_fixpoint_program` speak about, evaluated on every case -/

/-- the saved BYTES of the whole program scan (C13 lexer model) to the token list the statement theorems are stated on -/
def progToksOk (p : List PStmt) : Bool := tokensOf (unparseProgram p) == toksProgram p

/-- the parser on `toksProgram p` gives `normP p` (statement of `program_roundtrip_partial`, evaluated for EVERY program,
also those with blocks, which the theorem does not cover yet) -/
def progRt (p : List PStmt) : Bool :=
  let ts := toksProgram p
  match pProgram (parseFuel ts) ts with
  | .ok q => reprStr q == reprStr (normP p)
  | .error _ => false

/-- every print / put list satisfies the explicit side condition of `print_roundtrip` -/
def itemsOk (p : List PStmt) : Bool :=
  (allStmts p).all fun s => match s with | .print a => itemsSep a | .put a => itemsSep a | _ => true

/-- fixpoint / behaviour at program level (theorems for all programs; evaluated as a cross-check of the definitions) -/
def progFix (p : List PStmt) : Bool :=
  unparseProgram (normP p) == unparseProgram p && toksProgram (normP p) == toksProgram p

partial def exprForms : PExpr → List String
  | .int _ => ["int"] | .num _ => ["num"] | .str _ => ["str"] | .var _ => ["var"] | .kw _ => ["const"]
  | .call _ a => "call" :: a.flatMap exprForms
  | .fcall _ a => "fcall" :: a.flatMap exprForms
  | .member e _ a => "member" :: (exprForms e ++ a.flatMap exprForms)
  | .setm e _ a => "setm" :: (exprForms e ++ exprForms a)
  | .item e _ => "item" :: exprForms e
  | .un _ _ x => "un" :: exprForms x
  | .bin _ _ a b => "bin" :: (exprForms a ++ exprForms b)

def stmtForm : PStmt → String
  | .nop => "nop" | .brk => "break" | .cont => "continue" | .trace _ => "trace" | .ret none => "return" | .ret (some _) => "returnv"
  | .letS _ _ none => "let" | .letS _ _ (some _) => "letchain" | .letn _ _ none => "letn" | .letn _ _ (some _) => "letnchain"
  | .print _ => "print" | .put _ => "put" | .doS _ => "do" | .raise _ => "raise" | .ifS _ none => "if" | .ifS _ (some _) => "ifelse"
  | .whileS .. => "while" | .forS _ _ _ none _ _ => "for" | .forS _ _ _ (some _) _ _ => "forstep" | .forall .. => "forall"
  | .begin _ [] => "begin" | .begin _ (_ :: _) => "beginexc" | .func .. => "function"

/-- the distinct statement and expression forms of a program (for the evidence) -/
def forms (p : List PStmt) : String :=
  let ss := allStmts p
  let fs := ss.map stmtForm ++ (ss.flatMap ownExprs).flatMap exprForms
  let ds := fs.foldl (fun acc x => if acc.contains x then acc else acc ++ [x]) []
  if ds.isEmpty then "-" else ",".intercalate ds

def showRun (r : RunResult) : String :=
  let outc := match r.outcome with
    | .ok (some v) => "ok " ++ valStr v
    | .ok none => "ok-"
    | .err c a => if c == oofCode then "oof" else resStr (.err c a : Res Val)
    | .haz h => resStr (.haz h : Res Val)
    | .unmodelled => "unmodelled"
  outc ++ "/" ++ hexOfBytes r.st.output ++ "/" ++ ";".intercalate (r.st.vars.map fun (n, v) => n ++ ":" ++ valStr v)

def behaviour (p1 p2 : List PStmt) : String :=
  match toProgram p1, toProgram p2 with
  | some a, some b =>
    let ra := showRun (runProgram 20000 a)
    let rb := showRun (runProgram 20000 b)
    if ra.startsWith "unmodelled" || ra.startsWith "oof" || rb.startsWith "unmodelled" || rb.startsWith "oof" then "na"
    else if ra == rb then "same" else "diff"
  | _, _ => "na"

def errStr (c : Nat) : String := "perr:" ++ toString c

def handleUnp (hex : String) : String :=
  let text := bytesOfHex hex
  match parseText text with
  | .error c => "model=" ++ errStr c
  | .ok p =>
    let t1 := unparseProgram p
    let b := fun (x : Bool) => if x then "1" else "0"
    let common := " wf=" ++ b (progWf p) ++ " lex=" ++ b (lexOk p) ++ " ptoks=" ++ b (progToksOk p) ++ " prt=" ++ b (progRt p) ++
      " flat=" ++ b (wfFlatB p) ++ " wfp=" ++ b (wfP p) ++ " pfuel=" ++ b (decide (16 * BlocV.C12L.ssizeB p + 31 ≤ parseFuel (toksProgram p))) ++ " isep=" ++ b (itemsOk p) ++ " pfix=" ++ b (progFix p) ++ " forms=" ++ forms p
    let kf := regions p
    let kfs := " kf=" ++ (if kf.isEmpty then "-" else ",".intercalate kf)
    match parseText t1 with
    | .error c => "model=txt=" ++ hexOfBytes t1 ++ " re=" ++ errStr c ++ " fix=0 txt2=- tree=-" ++ common ++ " beh=na" ++ kfs
    | .ok p2 =>
      let t2 := unparseProgram p2
      let r1 := reprStr p
      let r2 := reprStr p2
      let tree := if r1 == r2 then "same" else if reprStr (normP p) == r2 then "norm" else "diff"
      "model=txt=" ++ hexOfBytes t1 ++ " re=ok fix=" ++ (if t1 == t2 then "1" else "0") ++
        " txt2=" ++ (if t1 == t2 then "-" else hexOfBytes t2) ++ " tree=" ++ tree ++ common ++
        " beh=" ++ behaviour p p2 ++ kfs

/-- `lit <hex>`: readableLiteral / parseLiteral round trip of one byte string -/
def handleLit (hex : String) : String :=
  let s := bytesOfHex hex
  let r := readableLiteral s
  "model=txt=" ++ hexOfBytes r ++ " back=" ++ hexOfBytes (parseLiteral r)

def handle (words : List String) : Option String :=
  match words with
  | ["unp", hex] => some (handleUnp hex)
  | ["unp"] => some (handleUnp "")
  | ["lit", hex] => some (handleLit hex)
  | ["lit"] => some (handleLit "")
  | _ => none

end BlocV.DrvC12
