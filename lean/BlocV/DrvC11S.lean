/-
  Second driver file of the C11 correspondence: the command `sess` (run-time behaviour of a history of texts, predicted by the
  session model Model/Session.lean through the source-text front end). Separate from DrvC11.lean because the interpreter
  model and the parse-context model both have a `St` / `Ty`. I/O glue only; no `partial`.
-/
import BlocV.Model.Session
import BlocV.DrvFE

namespace BlocV.DrvC11S
open BlocV

/-! ### `sess <fuel> <hex text> <hex text> …`: the run-time behaviour of a history, predicted by the session model

Every text goes through the source-text front end (`Elab.frontEnd`: reader, scanner, parser model, elaboration); a text the
front end rejects is a rejected text — the session model skips it (`Session.submit`: nothing runs, nothing changes) —, an
accepted one is run by `Session.runText` (= `Interp.runProgram` on the carried variables and declarations). -/

def sessLoop (fu : Nat) : List String → List Stmt → BlocV.St → List String → List String × BlocV.St × Option String
  | [], _, st, acc => (acc, st, none)
  | h :: hs, decls, st, acc =>
    match DrvFE.loadRaw h with
    | .error a =>
      if a.startsWith "model=perr" then sessLoop fu hs decls st (acc ++ ["rej"])
      else (acc, st, some a)
    | .ok prog =>
      let r := Session.runText fu decls st prog
      sessLoop fu hs (decls ++ prog.filter Session.isFunc) r.st (acc ++ [DrvFE.showOutcome r.outcome])

def handleSess (fuel : String) (hexes : List String) : String :=
  match sessLoop (fuel.toNat?.getD 100000) hexes [] {} [] with
  | (_, _, some a) => a
  | (os, st, none) => "model=" ++ ";".intercalate (os.map DrvFE.noBlank) ++ " out=" ++ Proto.hexOfBytes st.output

def handle (words : List String) : Option String :=
  match words with
  | "sess" :: fuel :: hexes => some (handleSess fuel hexes)
  | _ => none

end BlocV.DrvC11S
