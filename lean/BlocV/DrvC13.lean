/-
  Driver commands of round C13R2 (no `partial`):
    rdc <reader> <max> [<hex>]   the chunks the model reader returns call after call, reader ::= sr (StringReader) | rf
                                 (apps ReadFile) | inc (the include reader) | stdin (bloc_readstdin) | rl (readline line
                                 server, the text cut into lines) | line (the whole-text `lineReader`);
                                 answers `model=chunks=<hex>,… spec=eq|ne`: `spec` = the chunks satisfy `Delivers` (Spec/Lex.lean)
                                 for the text minus CRs (sr, rf, inc, line) / the text itself (stdin) / its lines each with
                                 a '\n' (rl) — evaluated, not assumed.
    lexbuf                       the generated buffer size the model uses (`Gen.LEX_BUFFER`), `chunkMax`, `recordedMax`
    rdp <reader> [<hex>]         for the program-behaviour families: the sizes of the model reader's chunks at 1023 and
                                 their concatenation, + the finding region: `model=<n,n,…|->/<hexflat> [kf=…]`
    tok <hex> <reader>           the command of round C13 (was in Main.lean, block C13; moved here unchanged) + for every case
                                 in which the reader delivers exactly TWO chunks `[a, b]` (text ≤ 600 bytes): ` note=<safe|unsafe>:<eq|ne>:<2|n>` (`:n` = three chunks or more, `safeCuts`) —
                                 `safeSplit a b` and whether the RAW token sequences `lexChunks [a,b]`, `lexWhole (a++b)` are
                                 equal (the check asserts safe ⇔ eq on NUL-free cases: the unproved direction is tested)
-/
import BlocV.Proto
import BlocV.Spec.Lex
import BlocV.Model.LexReaders

namespace BlocV.DrvC13
open BlocV BlocV.Proto BlocV.Lex

/-- The lines `readline()` hands out for a piped text: cut at every '\n', a last unterminated line included. -/
def cutLines : Bytes → Bytes → List Bytes
  | cur, [] => if cur.isEmpty then [] else [cur.reverse]
  | cur, c :: t => if c == 10 then cur.reverse :: cutLines [] t else cutLines (c :: cur) t

def readerChunks (name : String) (max : Nat) (text : Bytes) : Option (List Bytes × Bytes) :=
  match name with
  | "sr" => some (stringReader max text, stripCr text)
  | "rf" => some (fileReader max text, stripCr text)
  | "inc" => some (includeReader max text, stripCr text)
  | "line" => some (lineReader max text, stripCr text)
  | "stdin" => some (stdinReader max text, text)
  | "rl" =>
    let ls := cutLines [] text
    some ((ls.map (readlineLine max)).flatten, (ls.map (· ++ [10])).flatten)
  | _ => none

def deliversB (max : Nat) (chunks : List Bytes) (expected : Bytes) : Bool :=
  chunks.flatten == expected && chunks.all fun c => !c.isEmpty && c.length ≤ max

/-- The region of the recorded findings. `chunks` = what the model reader delivers with the CODE's buffer size,
`chunksRec` = with the size the finding was recorded for (1023): "unaligned" only when both are. -/
def regionOf (dropsCr : Bool) (text : Bytes) (chunks chunksRec : List Bytes) : String :=
  if !noNul text then " kf=C13.nul_truncates_chunk"
  else if !aligned chunks && !aligned chunksRec then " kf=C13.unaligned_chunk_splits_token"
  else if dropsCr && loneCr text then " kf=C13.reader_drops_lone_cr"
  else ""

def handleRdc (reader : String) (maxw : String) (hex : String) : String :=
  let max := maxw.toNat?.getD 0
  if max == 0 then "bad-max" else
  match readerChunks reader max (bytesOfHex hex) with
  | none => "bad-reader"
  | some (cs, expected) =>
    "model=chunks=" ++ ",".intercalate (cs.map hexOfBytes) ++ " spec=" ++ (if deliversB max cs expected then "eq" else "ne")

def handleRdp (reader : String) (hex : String) : String :=
  let text := bytesOfHex hex
  match readerChunks reader chunkMax text, readerChunks reader recordedMax text with
  | some (cs, _), some (csRec, _) =>
    let sizes := if cs.isEmpty then "-" else ",".intercalate (cs.map fun c => toString c.length)
    "model=" ++ sizes ++ "/" ++ hexOfBytes cs.flatten ++ regionOf (reader != "stdin" && reader != "rl") text cs csRec
  | _, _ => "bad-reader"

def tokStr (ts : List Tok) : String :=
  "toks=" ++ ",".intercalate (ts.map fun t => toString t.code ++ ":" ++ hexOfBytes t.text)

def fragsAt (mx : Nat) (reader : String) (text : Bytes) : List Bytes :=
  if reader == "sr" then lineReader mx text
  else if reader.startsWith "lines:" then
    lineSplit (Nat.max 1 (Nat.min ((reader.drop 6).toString.toNat?.getD 0) mx)) text
  else if reader == "-" then fragReaderAt mx [] text
  else fragReaderAt mx ((reader.splitOn ",").map fun w => w.toNat?.getD 1) text

def handleTok (hex reader : String) : String :=
  let text := bytesOfHex hex
  let isSr := reader == "sr"
  let frags := fragsAt chunkMax reader text
  let specText := if isSr then crlfToLf text else text
  let kf := regionOf isSr text frags (fragsAt recordedMax reader text)
  -- (texts up to 600 bytes: keeps the driver's time on the long every-position corpora where it was)
  let note := if text.length > 600 then "" else match frags with
    | [] => ""
    | [_] => ""
    | [a, b] => " note=" ++ (if safeSplit a b then "safe" else "unsafe") ++ ":" ++
        (if lexChunks [a, b] == lexWhole (a ++ b) then "eq" else "ne") ++ ":2"
    | _ => " note=" ++ (if safeCuts frags then "safe" else "unsafe") ++ ":" ++
        (if lexChunks frags == lexWhole frags.flatten then "eq" else "ne") ++ ":n"
  "model=" ++ tokStr (popStream true frags) ++ " spec=" ++ tokStr (specStream true specText) ++ kf ++ note

def handle (words : List String) : Option String :=
  match words with
  | ["tok", hex, reader] => some (handleTok hex reader)
  | ["tok", reader] => some (handleTok "" reader)
  | ["rdc", reader, max, hex] => some (handleRdc reader max hex)
  | ["rdc", reader, max] => some (handleRdc reader max "")
  | ["rdp", reader, hex] => some (handleRdp reader hex)
  | ["rdp", reader] => some (handleRdp reader "")
  | ["lexbuf"] => some ("lexbuf=" ++ toString Gen.LEX_BUFFER ++ " chunk=" ++ toString chunkMax ++ " recorded=" ++ toString recordedMax)
  | _ => none

end BlocV.DrvC13
