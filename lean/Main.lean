/-
  blocv — the Lean driver of the correspondence check: reads one case per line, answers one line.
  Imports Model, Spec and KF, never the proofs. I/O glue only.
-/
import BlocV.Proto
import BlocV.Model.Typing
-- BEGIN GENOPS
import BlocV.Model.GenEval
-- END GENOPS
import BlocV.Model.Builtins
import BlocV.Model.Fmt
import BlocV.SExp
import BlocV.Spec.Arith

-- BEGIN C13
import BlocV.Spec.Lex
-- END C13
-- BEGIN C13R2
import BlocV.DrvC13
-- END C13R2

-- BEGIN C18
import BlocV.DrvC18
-- END C18
-- BEGIN C18F
import BlocV.DrvC18F
-- END C18F

-- BEGIN C19
import BlocV.DrvC19
-- END C19

-- BEGIN C16 C17
import BlocV.DrvC1617
-- END C16 C17

-- BEGIN C12
import BlocV.DrvC12
-- END C12

-- BEGIN C14
import BlocV.DrvC14
-- END C14

-- BEGIN C15
import BlocV.DrvC15
-- END C15

-- BEGIN C09
import BlocV.DrvC09
-- END C09


-- BEGIN C02FE
import BlocV.DrvFE
-- END C02FE

-- BEGIN C10
import BlocV.DrvC10
-- END C10

-- BEGIN C05
import BlocV.DrvC05
-- END C05

-- BEGIN C11
import BlocV.DrvC11
import BlocV.DrvC11S
-- END C11

-- BEGIN C02R3
import BlocV.Model.Safety
import BlocV.KF.C02
-- END C02R3

open BlocV BlocV.Proto

def specIRes : Spec.IRes → String
  | .val z => "ok I:" ++ toString z
  | .divideByZero => "rerr " ++ toString Gen.EXC_RT_DIVIDE_BY_ZERO
  | .outOfRange => "rerr " ++ toString Gen.EXC_RT_OUT_OF_RANGE

/-- Spec answer of a binary operator on two non-null integers (the domain on which C03 speaks). -/
def specBinInt (op : BinOp) (a b : Int) : Option String :=
  match op with
  | .add => some (specIRes (.val (Spec.add a b)))
  | .sub => some (specIRes (.val (Spec.sub a b)))
  | .mul => some (specIRes (.val (Spec.mul a b)))
  | .div => some (specIRes (Spec.div a b))
  | .mod => some (specIRes (Spec.mod a b))
  -- the spec's exact power is only *executed* for small exponents (the theorem covers all of them)
  | .exp => if b ≥ 0 ∧ b ≤ 4096 then some (specIRes (.val (Spec.pow a b.toNat))) else none
  | .and => some (specIRes (.val (Spec.band a b)))
  | .ior => some (specIRes (.val (Spec.bor a b)))
  | .xor => some (specIRes (.val (Spec.bxor a b)))
  | .pop => some (specIRes (.val (Spec.shl a b)))
  | .pus => some (specIRes (.val (Spec.shr a b)))
  | _ => none

def parseTyStr (s : String) : Option Ty :=
  match pTy s.toList with
  | some ((t, _), []) => some t
  | _ => none

-- BEGIN C13
/-- `tok <hex text> <reader>`: reader ::= `-` (1023-byte fragments) | `n,n,…` (fragment sizes) |
`lines:<max>` (line discipline on the raw bytes) | `sr` (the library's StringReader: drops CR, 1023).
Answers the `Parser::pop()` stream of the chunked scanner (model), of the whole-text scanner (spec)
and the finding region the case lies in. -/
def tokStr (ts : List Lex.Tok) : String :=
  "toks=" ++ ",".intercalate (ts.map fun t => toString t.code ++ ":" ++ hexOfBytes t.text)

def handleTok (hex reader : String) : String :=
  let text := bytesOfHex hex
  let isSr := reader == "sr"
  let frags : List Bytes :=
    if isSr then Lex.lineReader Lex.chunkMax text
    else if reader.startsWith "lines:" then
      Lex.lineSplit (Nat.max 1 (Nat.min ((reader.drop 6).toString.toNat?.getD 0) Lex.chunkMax)) text
    else if reader == "-" then Lex.fragReader [] text
    else Lex.fragReader ((reader.splitOn ",").map fun w => w.toNat?.getD 1) text
  let specText := if isSr then Lex.crlfToLf text else text
  let kf :=
    if !Lex.noNul text then " kf=C13.nul_truncates_chunk"
    else if !Lex.aligned frags then " kf=C13.unaligned_chunk_splits_token"
    else if isSr && Lex.loneCr text then " kf=C13.reader_drops_lone_cr"
    else ""
  "model=" ++ tokStr (Lex.popStream true frags) ++ " spec=" ++ tokStr (Lex.specStream true specText) ++ kf
-- END C13

def handle (words : List String) : String :=
  -- BEGIN C13R2
  if let some r := DrvC13.handle words then r else
  -- END C13R2
  -- BEGIN C11
  if let some r := DrvC11.handle words then r else
  if let some r := DrvC11S.handle words then r else
  -- END C11
  -- BEGIN C05
  if let some r := DrvC05.handle words then r else
  -- END C05
  -- BEGIN C10
  if let some r := DrvC10.handle words then r else
  -- END C10
  -- BEGIN C02FE
  if let some r := DrvFE.handle words then r else
  -- END C02FE
  -- BEGIN C18F
  if let some r := DrvC18F.handle words then r else
  -- END C18F
  -- BEGIN C09
  if let some r := DrvC09.handle words then r else
  -- END C09
  -- BEGIN C15
  if let some r := DrvC15.handle words then r else
  -- END C15
  -- BEGIN C14
  if let some r := DrvC14.handle words then r else
  -- END C14
  -- BEGIN C12
  if let some r := DrvC12.handle words then r else
  -- END C12
  -- BEGIN C16 C17
  if let some r := DrvC1617.handle words then r else
  -- END C16 C17
  -- BEGIN C19
  if let some r := DrvC19.handle words then r else
  -- END C19
  -- BEGIN C18
  if let some r := DrvC18.handle words then r else
  -- END C18
  match words with
  -- BEGIN C02R4
  | "bityk" :: name :: k :: rest =>
    -- as `bity` (compile-time view of a built-in call: acceptance + static result type) given the k static argument types, followed by
    -- the k argument VALUES: names the known-finding region of C02 the call lies in (KF/C02.lean `c02BuiltinGap`: a function of the
    -- built-in, the static argument types and the run-time argument classes)
    let n := k.toNat?.getD 0
    match (rest.take n).mapM parseTyStr, (rest.drop n).mapM parseVal with
    | some tys, some vals =>
      let acc := match acceptBuiltin name tys with
        | some none => "ok"
        | some (some code) => toString code
        | none => "unmodelled"
      let ty := match Gen.builtinTypes.find? (·.1 == name) with
        | some (_, .const m) => tyStrSimple { major := m }
        | some (_, .arg0) => tyStrSimple (tys.headD Ty.none)
        | _ => "custom"
      let kf := if KF.c02BuiltinGap name tys (vals.map fun v => (v.type, v.isNull)) then " kf=C02.static_vs_runtime.bity." ++ name else ""
      if acc == "unmodelled" then "model=unmodelled" ++ kf else "model=accept=" ++ acc ++ " ty=" ++ ty ++ kf
    | _, _ => "bad-op"
  -- END C02R4
  -- BEGIN C02R3
  | ["opk", name, v1, v2, st1, st2] =>
    -- as `op` with static operand types, plus the known-finding region of C02 the case lies in (KF/C02.lean `c02OpGap`: a
    -- function of operator, static operand types, run-time operand types)
    match binOpOfName name, parseVal v1, parseVal v2, parseTyStr st1, parseTyStr st2 with
    | some op, some a, some b, some t1, some t2 =>
      if !acceptBin op t1 t2 then "model=perr " ++ toString Gen.EXC_PARSE_TYPE_MISMATCH_S
      else "model=" ++ resStr (evalBin op a b) ++
        (if KF.c02OpGap op t1 t2 a.type b.type then " kf=C02.static_vs_runtime.op." ++ name else "") ++
        " note=" ++ tyStrSimple (typeBin op t1 t2)
    | _, _, _, _, _ => "bad-op"
  | ["gmarg", name, st, sa] =>
    -- value argument of put / insert / concat on a level-0 receiver, from the regenerated Gen/MemberSigs.lean (`*_arg0`), and the
    -- hand model's verdict on the same call
    match Member.ofName name, parseTyStr st, parseTyStr sa with
    | some mb, some t, some a =>
      "model=gen arg=" ++ (match GenEval.arg0Ok (GenEval.arg0Of mb) t a with | some true => "ok" | some false => "argtype" | none => "nocase")
        ++ " harg=" ++ (match acceptMember mb t ((GenEval.lead mb) ++ [a]) false with | none => "ok" | some c => toString c)
    | _, _, _ => "bad-op"
  | "sflag" :: toks =>
    -- the run-time safety-flag machine of Model/Safety.lean driven by the loop events of a scenario (vlib/props/c02.py
    -- `safety_scenarios`): F:v / A:v enter a for / forall over v, W while, U one frame closed (normal end, break),
    -- T return (every open loop closes, rest of the unit skipped), X runtime error (onRuntimeError, rest skipped),
    -- R:v run-time probe (`v = h()`, h declared integer returning a string): TYPE_MISMATCH iff the flag is set,
    -- S:v static probe at the head of a unit (`v = "abc"`): rejected iff set, `;` end of unit. Answers the flag seen by every
    -- probe and, per unit, the flags of $K I J E afterwards.
    let names := ["$K", "I", "J", "E"]
    let bits := fun (s : Safety.FlagSt) => String.join (names.map fun n => if s.flags n then "1" else "0")
    let r := toks.foldl (fun (acc : Safety.FlagSt × Bool × String × List String) tok =>
      let (s, skip, ps, us) := acc
      if tok == ";" then (s, false, ps, us ++ [bits s])
      else if skip then acc
      else match tok.splitOn ":" with
        | ["F", n] => (Safety.step s (.enterFor n), false, ps, us)
        | ["A", n] =>
          if Safety.forallRefused s n then (Safety.step s (.error 0), true, ps ++ "r", us)
          else (Safety.step s (.enterForall n), false, ps, us)
        | ["W"] => (Safety.step s .enterWhile, false, ps, us)
        | ["U"] => (Safety.step s .unstack, false, ps, us)
        | ["T"] => (Safety.run s (List.replicate s.ctl.length .unstack), true, ps, us)
        | ["X"] => (Safety.step s (.error 0), true, ps, us)
        | ["R", n] => if s.flags n then (Safety.step s (.error 0), true, ps ++ "1", us) else (s, false, ps ++ "0", us)
        | ["S", n] => if s.flags n then (s, true, ps ++ "1", us) else (s, false, ps ++ "0", us)
        | _ => (s, skip, ps ++ "?", us)) (Safety.unitStart, false, "", [])
    "model=p=" ++ r.2.2.1 ++ " u=" ++ ",".intercalate r.2.2.2
  -- END C02R3
  -- BEGIN INT
  | ["isteps", fuel, hex] =>
    -- the statements of a program typed one by one at the interactive prompt (Model/Interp.lean `runInteractive`); answers the
    -- outcome of every statement, the printed output, the variables and the depth of the control stack left behind
    match SExp.readProgram (String.fromUTF8! (ByteArray.mk (bytesOfHex hex).toArray)) with
    | none => "bad-prog"
    | some prog =>
      let funcs := collectFuncs prog
      let vars0 := (mainDecls funcs prog).foldl (fun vs (n, t) => if vs.any (·.1 == n) then vs else vs ++ [(n, Val.null t)]) ([] : List (String × Val))
      let (rs, st) := runInteractive funcs (fuel.toNat?.getD 100000) prog { vars := vars0 }
      let showR := fun (r : Res Flow) => match r with
        | .ok .ret => "ret"
        | .ok _ => "ok"
        | .err c a => if c == oofCode then "oof" else resStr (.err c a : Res Val)
        | .haz h => resStr (.haz h : Res Val)
        | .unmodelled => "unmodelled"
      "model=steps=" ++ ",".intercalate (rs.map showR) ++ " out=" ++ hexOfBytes st.output ++ " vars=" ++
        ";".intercalate (st.vars.map fun (n, v) => n ++ ":" ++ valStr v) ++ " note=cd=" ++ toString st.ctl.length
  | ["lockchk", hex] =>
    -- the parser's lock check on a whole program (Model/Interp.lean `lockProgram`)
    match SExp.readProgram (String.fromUTF8! (ByteArray.mk (bytesOfHex hex).toArray)) with
    | none => "bad-prog"
    | some prog => if lockProgram prog then "model=ok" else "model=perr " ++ toString Gen.EXC_PARSE_CONST_VIOLATION_S
  -- END INT
  -- BEGIN C13
  | ["tok", hex, reader] => handleTok hex reader
  | ["tok", reader] => handleTok "" reader
  | ["lexrules"] => "rules=" ++ ",".intercalate (Lex.ruleSources.map fun r => hexOfBytes r.toUTF8.toList)
  -- END C13
  -- BEGIN GENOPS
  | ["gop", name, v1, v2, st1, st2] =>
    -- what the REGENERATED tables (Gen/OpTypes.lean via Model/GenEval.lean) say about a binary node: acceptance by the
    -- production, static type, kind of run-time outcome (val | inv | acc | null); hacc / hty = the same two static facts from the
    -- hand-written model (Typing.acceptBin / typeBin), equal to the former by Proofs/C02G as long as that module checks
    match binOpOfName name, parseVal v1, parseVal v2, parseTyStr st1, parseTyStr st2 with
    | some op, some a, some b, some t1, some t2 =>
      "model=gen accept=" ++ (if GenEval.acceptBin op t1 t2 then "ok" else "perr") ++ " ty=" ++ tyStrSimple (GenEval.typeBin op t1 t2)
        ++ " rt=" ++ GenEval.predictBin op a b
        ++ " hacc=" ++ (if acceptBin op t1 t2 then "ok" else "perr") ++ " hty=" ++ tyStrSimple (typeBin op t1 t2)
    | _, _, _, _, _ => "bad-op"
  | ["gun", name, v1, st1] =>
    match unOpOfName name, parseVal v1, parseTyStr st1 with
    | some op, some a, some t1 =>
      "model=gen accept=" ++ (if GenEval.acceptUn op t1 then "ok" else "perr") ++ " ty=" ++ tyStrSimple (GenEval.typeUn op t1)
        ++ " rt=" ++ GenEval.predictUn op a
        ++ " hacc=" ++ (if acceptUn op t1 then "ok" else "perr") ++ " hty=" ++ tyStrSimple (typeUn op t1)
    | _, _, _ => "bad-op"
  | ["gmemb", name, st] =>
    -- receiver side of a member method's parse(), from the regenerated Gen/MemberSigs.lean
    match Member.ofName name, parseTyStr st with
    | some mb, some t =>
      -- hrecv: the hand model (Members.acceptMember) on the argument types the family writes (integers, resp. the receiver itself)
      let args : List Ty := match mb with
        | .count => [] | .at => [Ty.int] | .delete => [Ty.int] | .put => [Ty.int, Ty.int] | .insert => [Ty.int, t] | .concat => [t]
      "model=gen recv=" ++ (if GenEval.recvOk mb t then "ok" else "notimpl") ++ " disp=" ++
        (match memberDispatch t with | none => "ok" | some c => toString c) ++ " hrecv=" ++
        (if acceptMember mb t args false == some Gen.EXC_PARSE_MEMB_NOT_IMPL_S then "notimpl" else "ok")
    | _, _ => "bad-op"
  -- END GENOPS
  | ["op", name, v1, v2, st1, st2] =>
    -- static operand types given explicitly (they differ from the value types for declared function results)
    match binOpOfName name, parseVal v1, parseVal v2, parseTyStr st1, parseTyStr st2 with
    | some op, some a, some b, some t1, some t2 =>
      if !acceptBin op t1 t2 then "model=perr " ++ toString Gen.EXC_PARSE_TYPE_MISMATCH_S
      else "model=" ++ resStr (evalBin op a b) ++ " note=" ++ tyStrSimple (typeBin op t1 t2)
    | _, _, _, _, _ => "bad-op"
  | ["prog", fuel, hex] =>
    -- whole program as an S-expression (hex); answers outcome, printed output and final variables
    match SExp.readProgram (String.fromUTF8! (ByteArray.mk (bytesOfHex hex).toArray)) with
    | none => "bad-prog"
    | some prog =>
      let r := runProgram (fuel.toNat?.getD 100000) prog
      let outc := match r.outcome with
        | .ok (some v) => "ok " ++ valStr v
        | .ok none => "ok-"
        | .err c a => if c == oofCode then "oof" else resStr (.err c a : Res Val)
        | .haz h => resStr (.haz h : Res Val)
        | .unmodelled => "unmodelled"
      "model=" ++ outc ++ " out=" ++ hexOfBytes r.st.output ++ " vars=" ++
        ";".intercalate (r.st.vars.map fun (n, v) => n ++ ":" ++ valStr v)
  | ["progs", fuel, hex1, hex2] =>
    -- two programs run one after the other in the same context (the second also sees the functions of the first)
    match SExp.readProgram (String.fromUTF8! (ByteArray.mk (bytesOfHex hex1).toArray)),
          SExp.readProgram (String.fromUTF8! (ByteArray.mk (bytesOfHex hex2).toArray)) with
    | some p1, some p2 =>
      let fu := fuel.toNat?.getD 100000
      let showO := fun (o : Res (Option Val)) => match o with
        | .ok (some v) => "ok " ++ valStr v
        | .ok none => "ok-"
        | .err c a => if c == oofCode then "oof" else resStr (.err c a : Res Val)
        | .haz h => resStr (.haz h : Res Val)
        | .unmodelled => "unmodelled"
      let r1 := runProgram fu p1
      let funcs := collectFuncs (p1 ++ p2)
      let vars0 := (mainDecls funcs p2).foldl (fun vs (n, t) => if vs.any (·.1 == n) then vs else vs ++ [(n, Val.null t)]) r1.st.vars
      let st1 : St := { r1.st with vars := vars0, returned := none, budget := 300000 }
      let r2 : RunResult := match execList funcs 0 fu p2 st1 with
        | (.ok _, s) => { outcome := .ok s.returned, st := s }
        | (.err c a, s) => { outcome := .err c a, st := s }
        | (.haz h, s) => { outcome := .haz h, st := s }
        | (.unmodelled, s) => { outcome := .unmodelled, st := s }
      "model=" ++ showO r1.outcome ++ ";" ++ showO r2.outcome ++ " out=" ++ hexOfBytes r2.st.output ++ " vars=" ++
        ";".intercalate (r2.st.vars.map fun (n, v) => n ++ ":" ++ valStr v)
    | _, _ => "bad-prog"
  | "bity" :: name :: sts =>
    -- compile-time view of a built-in call: acceptance of the argument types (generated signatures) and static result type
    match sts.mapM parseTyStr with
    | some tys =>
      let acc := match acceptBuiltin name tys with
        | some none => "ok"
        | some (some code) => toString code
        | none => "unmodelled"
      let ty := match Gen.builtinTypes.find? (·.1 == name) with
        | some (_, .const m) => tyStrSimple { major := m }
        | some (_, .arg0) => tyStrSimple (tys.headD Ty.none)
        | _ => "custom"
      if acc == "unmodelled" then "model=unmodelled" else "model=accept=" ++ acc ++ " ty=" ++ ty
    | none => "bad-op"
  | "bi" :: name :: vs =>
    -- built-in call with already evaluated arguments (static types = value types)
    match vs.mapM parseVal with
    | some args =>
      match acceptBuiltin name (args.map Val.type) with
      | some (some code) => "model=perr " ++ toString code
      | _ =>
        match evalBuiltin (m := Res) Fmt.fmt16g name (args.map fun v => Res.ok v) with
        | some r => "model=" ++ resStr r
        | none => "model=unmodelled"
    | none => "bad-op"
  | ["opseq", side, name, v1, vs] =>
    -- the same node evaluated once per element of vs (a loop): results joined by ';'
    match binOpOfName name, parseVal v1 with
    | some op, some a =>
      let rs := (vs.splitOn ",").map fun t =>
        match parseVal t with
        | some b => resStr (if side == "l" then evalBin op a b else evalBin op b a)
        | none => "bad"
      "model=" ++ ";".intercalate rs
    | _, _ => "bad-op"
  | ["un", name, v1, st1] =>
    match unOpOfName name, parseVal v1, parseTyStr st1 with
    | some op, some a, some t1 =>
      if !acceptUn op t1 then "model=perr " ++ toString Gen.EXC_PARSE_TYPE_MISMATCH_S
      else "model=" ++ resStr (evalUn op a) ++ " note=" ++ tyStrSimple (typeUn op t1)
    | _, _, _ => "bad-op"
  | ["op", name, v1, v2] =>
    match binOpOfName name, parseVal v1, parseVal v2 with
    | some op, some a, some b =>
      if !acceptBin op a.type b.type then "model=perr " ++ toString Gen.EXC_PARSE_TYPE_MISMATCH_S else
      let m := "model=" ++ resStr (evalBin op a b)
      match a, b with
      | .int x, .int y =>
        match specBinInt op x.toInt y.toInt with
        | some s => m ++ " spec=" ++ s
        | none => m
      | _, _ => m
    | _, _, _ => "bad-op"
  | ["un", name, v1] =>
    match unOpOfName name, parseVal v1 with
    | some op, some a =>
      if !acceptUn op a.type then "model=perr " ++ toString Gen.EXC_PARSE_TYPE_MISMATCH_S else
      let m := "model=" ++ resStr (evalUn op a)
      match op, a with
      | .neg, .int x => m ++ " spec=" ++ specIRes (.val (Spec.neg x.toInt))
      | .not, .int x => m ++ " spec=" ++ specIRes (.val (Spec.bnot x.toInt))
      | _, _ => m
    | _, _ => "bad-op"
  | ["intdec", v1] =>
    match parseVal v1 with
    | some (.num d) =>
      "model=" ++ resStr (Num.intOfDecimal d >>= fun i => pure (Val.int i))
        ++ " spec=" ++ specIRes (Spec.intOfDecimal (Num.truncInt d))
    | _ => "bad-op"
  | _ => "bad-op"

partial def loop (h : IO.FS.Stream) (out : IO.FS.Stream) : IO Unit := do
  let line ← h.getLine
  if line.isEmpty then return ()
  let ws := (line.trimAscii.toString.splitOn " ").filter (· ≠ "")
  match ws with
  | [] => loop h out
  | id :: rest =>
    out.putStrLn (id ++ " " ++ handle rest)
    loop h out

def main : IO Unit := do
  let out ← IO.getStdout
  loop (← IO.getStdin) out
