#!/bin/sh
# Build the Lean library, the proofs and the blocv driver from files on disk (offline).
set -e
cd "$(dirname "$0")/lean"
lake build BlocV blocv
