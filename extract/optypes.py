"""Translator tie for the operators (task GENOPS).

Re-reads, on every run, from /repo (or $VERIF_REPO):
  a. the `type(Context&)` method of every blocc/operator/op_*.{h,cpp}           -> a decision list over the majors of t1, t2
  b. the `value(Context&)` method of every blocc/operator/op_*.cpp              -> the operand-major pairs that reach a result
  c. every `new OpXXXExpression(...)` production of blocc/parse_expression.cpp -> which check guards which operand
  d. (receiver part only) the `parse()` of blocc/member/member_{concat,at,put,count,delete,insert}.cpp -> lock test, accepted
     level-0 receiver majors, whether the first argument is checked before the receiver  (lean/BlocV/Gen/MemberSigs.lean)
and writes lean/BlocV/Gen/OpTypes.lean.  lean/BlocV/Proofs/C02G.lean proves the hand-written model
(Model/Typing.lean, Model/Ops.lean) equal to the interpretation of these tables (Model/GenEval.lean), so a change of one
if-chain / case label / assert call makes a THEOREM stop checking.

Every shape is asserted; an idiom that is not recognised raises ExtractError with file:line — a broken tie, never a
silent fallback.

Condition language of type() (the smallest that covers the 25 files as of the pinned tree):
   stmt  ::= `const Type& tN = argN->type(ctx);`           (N in 1, 2; binds tN)
           | `if (cond) return res;`
           | `return res;`                                  (last statement)
   cond  ::= disjunction of conjunctions of atoms            (no parentheses inside)
   atom  ::= `tN == Type::MAJOR` | `tN.major() == Type::MAJOR`   (both compare the major only: Type::operator==(TypeMajor))
   res   ::= `Value::type_xxx` | `tN` | `argN->type(ctx)`

Shapes of value():
   nested   `if (a1.type().level() == 0 && a2.type().level() == 0) { switch (a1.type().major()) { case A: switch (a2.type().major())
            { case B: ... return ...; default: break; } break; ... default: break; } } throw RuntimeError(EXC_RT_INV_EXPRESSION);`
   lazy     (band, bior) the same with `Value& a2 = arg2->value(ctx); if (a2.type().level() == 0) { switch ... }` inside each outer case
   unary    `if (a1.type().level() == 0) { switch (a1.type().major()) { case A: ... default: break; } } throw INV_EXPRESSION`
   eqchain  (eq, ne) null test first, level tests, then `switch (t1.major())` whose cases are chains of `if (t2 == Type::B)`
   ord      (lt, le, gt, ge) null test first, then one `switch (a1.type().major())`; inside a case `if (a2.type() == Type::B)` tests,
            the remaining operand read through ONE typed accessor (`*a2.integer()` ...), which throws on any other type
   regex    (match) null test first, then both operands through `.literal()`
"""
import os
import re

from gen import ExtractError, REPO, rd, strip_comments

MAJ = {"NO_TYPE": ".none", "BOOLEAN": ".bool", "INTEGER": ".int", "NUMERIC": ".num", "LITERAL": ".str",
       "COMPLEX": ".obj", "TABCHAR": ".raw", "ROWTYPE": ".tup", "POINTER": ".ptr", "IMAGINARY": ".imag"}
TYCONST = {"type_no_type": ".none", "type_boolean": ".bool", "type_integer": ".int", "type_numeric": ".num", "type_literal": ".str",
           "type_complex": ".obj", "type_tabchar": ".raw", "type_rowtype": ".tup", "type_pointer": ".ptr", "type_imaginary": ".imag"}
ACCESSOR = {"boolean": "BOOLEAN", "integer": "INTEGER", "numeric": "NUMERIC", "literal": "LITERAL", "tabchar": "TABCHAR",
            "imaginary": "IMAGINARY", "complex": "COMPLEX", "tuple": "ROWTYPE", "collection": None}
NULL_FIRST = r"if\s*\(\s*a1\.isNull\(\)\s*\|\|\s*a2\.isNull\(\)\s*\)\s*return\s+LVAL2\(\s*Value\(\s*Value::type_boolean\s*\)\s*,\s*a1\s*,\s*a2\s*\)\s*;"

BINARY = ["add", "sub", "mul", "div", "exp", "mod", "and", "ior", "xor", "pop", "pus", "eq", "ne", "lt", "le", "gt", "ge",
          "band", "bior", "bxor", "match"]
UNARY = ["neg", "pos", "not", "bnot"]


class Src:
    """comment-stripped text that still knows its line numbers"""

    def __init__(self, rel):
        self.rel = rel
        raw = rd(rel)
        # strip comments but keep the newlines, so that offsets map to the lines of the file
        def blank(m):
            return re.sub(r"[^\n]", " ", m.group(0))
        s = re.sub(r"/\*.*?\*/", blank, raw, flags=re.S)
        s = re.sub(r"//[^\n]*", blank, s)
        self.text = s

    def line(self, off):
        return self.text.count("\n", 0, off) + 1

    def fail(self, off, why):
        raise ExtractError("%s:%d: %s" % (self.rel, self.line(off), why))


def match_brace(src, open_off):
    """offset just after the `}` matching the `{` at open_off"""
    t = src.text
    if t[open_off] != "{":
        src.fail(open_off, "expected '{'")
    depth = 0
    i = open_off
    while i < len(t):
        if t[i] == "{":
            depth += 1
        elif t[i] == "}":
            depth -= 1
            if depth == 0:
                return i + 1
        i += 1
    src.fail(open_off, "unbalanced braces")


def method_body(src, cls, name, ret):
    """(start, end) offsets of the text between the braces of `ret cls::name(Context& ctx) const { ... }`"""
    ms = list(re.finditer(r"%s\s*%s::%s\s*\(\s*Context\s*&\s*ctx\s*\)\s*const\s*\{" % (ret, cls, name), src.text))
    if len(ms) != 1:
        raise ExtractError("%s: %s::%s(Context&) const found %d times" % (src.rel, cls, name, len(ms)))
    o = ms[0].end() - 1
    return o + 1, match_brace(src, o) - 1


# ------------------------------------------------------------------------------------------------ a. type()

def parse_res(src, off, txt):
    txt = txt.strip()
    m = re.fullmatch(r"Value::(type_\w+)", txt)
    if m:
        if m.group(1) not in TYCONST:
            src.fail(off, "type(): unknown type constant %s" % txt)
        return ".const " + TYCONST[m.group(1)]
    m = re.fullmatch(r"t([12])", txt) or re.fullmatch(r"arg([12])->type\(ctx\)", txt)
    if m:
        return ".arg" + m.group(1)
    src.fail(off, "type(): unrecognised result expression %r" % txt)


def parse_cond(src, off, txt):
    def atom(a):
        m = re.fullmatch(r"\s*t([12])(?:\.major\(\))?\s*==\s*Type::(\w+)\s*", a)
        if not m or m.group(2) not in MAJ:
            src.fail(off, "type(): unrecognised condition atom %r (only `tN == Type::MAJOR` / `tN.major() == Type::MAJOR`)" % a.strip())
        return "(.t%sis %s)" % (m.group(1), MAJ[m.group(2)])
    if "(" in txt.replace(".major()", "") or ")" in txt.replace(".major()", ""):
        src.fail(off, "type(): parenthesised condition %r is outside the condition language" % txt.strip())
    disj = []
    for d in txt.split("||"):
        conj = [atom(a) for a in d.split("&&")]
        c = conj[-1]
        for a in reversed(conj[:-1]):
            c = "(.and %s %s)" % (a, c)
        disj.append(c)
    c = disj[-1]
    for d in reversed(disj[:-1]):
        c = "(.or %s %s)" % (d, c)
    return c


def extract_type(op, cls):
    """returns (chain, default) as Lean terms"""
    h = Src("blocc/operator/op_%s.h" % op)
    m = re.findall(r"const\s+Type\s*&\s*type\s*\(\s*Context\s*&\s*ctx\s*\)\s*const\s*override\s*(\{[^}]*\}|;)", h.text)
    if len(m) != 1:
        raise ExtractError("%s: declaration of type(Context&) const override found %d times" % (h.rel, len(m)))
    if m[0] != ";":
        mm = re.fullmatch(r"\{\s*return\s+([^;]+);\s*\}", m[0])
        if not mm:
            raise ExtractError("%s: inline type() is not a single return statement: %r" % (h.rel, m[0]))
        return [], parse_res(h, h.text.find(m[0]), mm.group(1))
    src = Src("blocc/operator/op_%s.cpp" % op)
    a, b = method_body(src, cls, "type", r"const\s+Type\s*&")
    pos = a
    t = src.text
    chain = []
    bound = set()
    default = None
    while True:
        mws = re.match(r"\s+", t[pos:b])
        if mws:
            pos += mws.end()
        if pos >= b:
            break
        if default is not None:
            src.fail(pos, "type(): code after the final return")
        rest = t[pos:b]
        md = re.match(r"const\s+Type\s*&\s*t([12])\s*=\s*arg([12])->type\(ctx\)\s*;", rest)
        if md:
            if md.group(1) != md.group(2):
                src.fail(pos, "type(): t%s bound to arg%s" % (md.group(1), md.group(2)))
            bound.add(md.group(1))
            pos += md.end()
            continue
        mi = re.match(r"if\s*\((.*?)\)\s*return\s+([^;]+);", rest, flags=re.S)
        if mi and "{" not in mi.group(0) and "if" not in mi.group(1):
            cond = parse_cond(src, pos, mi.group(1))
            for n in re.findall(r"\.t([12])is", cond):
                if n not in bound:
                    src.fail(pos, "type(): t%s used before it is bound" % n)
            chain.append((cond, parse_res(src, pos, mi.group(2))))
            pos += mi.end()
            continue
        mr = re.match(r"return\s+([^;]+);", rest)
        if mr:
            default = parse_res(src, pos, mr.group(1))
            pos += mr.end()
            continue
        src.fail(pos, "type(): unrecognised statement near %r" % rest[:60])
    if default is None:
        src.fail(a, "type(): no final return")
    return chain, default


# ------------------------------------------------------------------------------------------------ b. value()

def split_switch(src, open_off):
    """the `{` at open_off opens a switch body: returns [(labels, body_start, body_end)], labels = list of MAJOR names or
    ['default']; consecutive labels form one group"""
    end = match_brace(src, open_off)
    t = src.text
    i = open_off + 1
    depth = 0
    marks = []       # (offset of label, offset after ':', name)
    lab = re.compile(r"(case\s+Type::(\w+)\s*:|default\s*:)")
    while i < end - 1:
        c = t[i]
        if c in "{(":
            depth += 1
        elif c in "})":
            depth -= 1
        elif depth == 0 and (t.startswith("case", i) or t.startswith("default", i)) and not (t[i - 1].isalnum() or t[i - 1] == "_"):
            m = lab.match(t, i)
            if not m:
                src.fail(i, "value(): unrecognised case label near %r" % t[i:i + 40])
            name = m.group(2) or "default"
            if name != "default" and name not in MAJ:
                src.fail(i, "value(): unknown major type %s" % name)
            marks.append((i, m.end(), name))
            i = m.end()
            continue
        i += 1
    if not marks:
        src.fail(open_off, "value(): switch without case labels")
    if t[open_off + 1:marks[0][0]].strip():
        src.fail(open_off, "value(): code before the first case label")
    groups = []
    cur = []
    for k, (o, e, name) in enumerate(marks):
        nxt = marks[k + 1][0] if k + 1 < len(marks) else end - 1
        cur.append(name)
        if t[e:nxt].strip():
            groups.append((cur, e, nxt))
            cur = []
    if cur:
        src.fail(marks[-1][0], "value(): trailing case label without a body")
    names = [n for g in groups for n in g[0]]
    if len(set(names)) != len(names):
        src.fail(open_off, "value(): duplicated case label")
    if groups[-1][0] != ["default"]:
        src.fail(groups[-1][1], "value(): the switch does not end with its own `default:` group")
    if not re.fullmatch(r"\s*break\s*;\s*", t[groups[-1][1]:groups[-1][2]]):
        src.fail(groups[-1][1], "value(): `default:` is not a bare `break;`")
    return groups[:-1], end


def ends_with_return(src, a, b):
    body = src.text[a:b].strip()
    while body.startswith("{") and body.endswith("}"):
        body = body[1:-1].strip()
    if not re.search(r"(?:^|[;}{])\s*(?:return|throw)\b[^;]*;\s*$", body, flags=re.S):
        src.fail(a, "value(): a case body does not end with a return/throw statement (it would fall out of the switch)")


def expect(src, pos, pat, what):
    m = re.compile(r"\s*" + pat, flags=re.S).match(src.text, pos)
    if not m:
        src.fail(pos, "value(): expected %s, found %r" % (what, src.text[pos:pos + 60].strip()))
    return m.end()


THROW_INV = r"throw\s+RuntimeError\(\s*EXC_RT_INV_EXPRESSION\s*\)\s*;"


def inner_switch_labels(src, a, b, lazy):
    """the text [a,b) of an outer case: (lazy: `{ Value& a2 = ...; if (a2 level 0) {` )? `switch (a2.type().major()) {…}` `break;`"""
    t = src.text
    pos = a
    if lazy:
        m = re.compile(r"\s*\{", flags=re.S).match(t, pos)
        if not m:
            src.fail(pos, "value(): expected a block")
        blk_end = match_brace(src, m.end() - 1)
        pos = m.end()
        # optional short-circuit on a1 before a2 is evaluated
        m = re.compile(r"\s*if\s*\(\s*!a1\.isNull\(\)\s*&&\s*\*a1\.boolean\(\)\s*==\s*(?:true|false)\s*\)\s*return\s+LVAL1\([^;]*;", flags=re.S).match(t, pos)
        if m:
            pos = m.end()
        pos = expect(src, pos, r"Value\s*&\s*a2\s*=\s*arg2->value\(ctx\)\s*;", "`Value& a2 = arg2->value(ctx);`")
        pos = expect(src, pos, r"if\s*\(\s*a2\.type\(\)\.level\(\)\s*==\s*0\s*\)\s*\{", "`if (a2.type().level() == 0) {`")
        if_end = match_brace(src, pos - 1)
    pos = expect(src, pos, r"switch\s*\(\s*a2\.type\(\)\.major\(\)\s*\)\s*\{", "`switch (a2.type().major()) {`")
    groups, send = split_switch(src, pos - 1)
    labels = []
    for labs, ga, gb in groups:
        ends_with_return(src, ga, gb)
        labels += labs
    pos = send
    if lazy:
        pos = expect(src, pos, r"\}", "end of the level test")
        if pos != if_end:
            src.fail(pos, "value(): unexpected code after the inner switch")
        pos = expect(src, pos, r"break\s*;", "`break;`")
        pos = expect(src, pos, r"\}", "end of the case block")
        if pos != blk_end:
            src.fail(pos, "value(): unexpected code in the case block")
    else:
        pos = expect(src, pos, r"break\s*;", "`break;` after the inner switch")
    if t[pos:b].strip():
        src.fail(pos, "value(): unexpected code after the inner switch of a case")
    return labels


def extract_value(op, cls):
    """returns (shape, data)"""
    src = Src("blocc/operator/op_%s.cpp" % op)
    a, b = method_body(src, cls, "value", r"Value\s*&")
    t = src.text
    pos = expect(src, a, r"Value\s*&\s*a1\s*=\s*arg1->value\(ctx\)\s*;", "`Value& a1 = arg1->value(ctx);`")
    unary = op in UNARY
    has_a2 = re.compile(r"\s*Value\s*&\s*a2\s*=\s*arg2->value\(ctx\)\s*;").match(t, pos)
    if has_a2:
        if unary:
            src.fail(pos, "value(): a unary operator reads arg2")
        pos = has_a2.end()
    m = re.compile(r"\s*" + NULL_FIRST, flags=re.S).match(t, pos)
    if m:
        if not has_a2:
            src.fail(pos, "value(): null test before a2 is evaluated")
        pos = m.end()
        # ---- regex
        if re.compile(r"\s*try\b").match(t, pos):
            acc = set(re.findall(r"\*a([12])\.(\w+)\(\)", t[pos:b]))
            if acc != {("1", "literal"), ("2", "literal")}:
                src.fail(pos, "value(): match does not read exactly *a1.literal() and *a2.literal()")
            return "regex", None
        # ---- eq / ne
        m2 = re.compile(r"\s*const\s+Type\s*&\s*t1\s*=\s*a1\.type\(\)\s*;\s*const\s+Type\s*&\s*t2\s*=\s*a2\.type\(\)\s*;", flags=re.S).match(t, pos)
        if m2:
            pos = m2.end()
            pos = expect(src, pos, r"if\s*\(\s*t1\.level\(\)\s*>\s*0\s*\)\s*\{", "`if (t1.level() > 0) {`")
            pos = match_brace(src, pos - 1)
            pos = expect(src, pos, r"if\s*\(\s*t2\.level\(\)\s*>\s*0\s*\)\s*\{", "`if (t2.level() > 0) {`")
            pos = match_brace(src, pos - 1)
            pos = expect(src, pos, r"switch\s*\(\s*t1\.major\(\)\s*\)\s*\{", "`switch (t1.major()) {`")
            groups, send = split_switch(src, pos - 1)
            pairs = []
            for labs, ga, gb in groups:
                ends_with_return(src, ga, gb)
                body = t[ga:gb]
                conds = re.findall(r"if\s*\(([^{;]*?)\)\s*\{", body)
                tests = []
                for c in conds:
                    mc = re.fullmatch(r"\s*t2\s*==\s*Type::(\w+)\s*", c)
                    if not mc or mc.group(1) not in MAJ:
                        src.fail(ga, "value(): unrecognised test %r in a case of the equality chain" % c.strip())
                    tests.append(mc.group(1))
                if body.count("if") != len(conds):
                    src.fail(ga, "value(): an `if` of the equality chain is not of the form `if (t2 == Type::X) {`")
                if len(set(tests)) != len(tests) or not tests:
                    src.fail(ga, "value(): empty or repeated tests in a case of the equality chain")
                for l in labs:
                    for x in tests:
                        pairs.append((l, x))
            tail = t[send:b]
            if not re.fullmatch(r"\s*Value\s+val\(\s*Bool\(\s*(?:true|false)\s*\)\s*\)\s*;\s*return\s+LVAL2\(val,\s*a1,\s*a2\)\s*;\s*", tail):
                src.fail(send, "value(): the equality chain does not end with a constant boolean")
            return "eqchain", pairs
        # ---- lt / le / gt / ge
        pos = expect(src, pos, r"switch\s*\(\s*a1\.type\(\)\.major\(\)\s*\)\s*\{", "`switch (a1.type().major()) {`")
        groups, send = split_switch(src, pos - 1)
        cases = []
        for labs, ga, gb in groups:
            ends_with_return(src, ga, gb)
            if len(labs) != 1:
                src.fail(ga, "value(): grouped case labels in an ordering operator")
            body = t[ga:gb]
            a1acc = set(re.findall(r"a1\.(\w+)\(\)", body)) - {"type"}
            if len(a1acc) != 1 or ACCESSOR.get(next(iter(a1acc))) != labs[0]:
                src.fail(ga, "value(): case %s does not read a1 through its own typed accessor only (%s)" % (labs[0], sorted(a1acc)))
            ifs = []
            rest = body
            for mi in re.finditer(r"if\s*\(\s*a2\.type\(\)\s*==\s*Type::(\w+)\s*\)\s*\{", body):
                o = ga + mi.end() - 1
                e = match_brace(src, o)
                blk = t[o:e]
                acc = set(re.findall(r"a2\.(\w+)\(\)", blk)) - {"type"}
                if mi.group(1) not in MAJ or len(acc) != 1 or ACCESSOR.get(next(iter(acc))) != mi.group(1):
                    src.fail(o, "value(): the block guarded by a2.type() == Type::%s reads a2 through %s" % (mi.group(1), sorted(acc)))
                ifs.append(mi.group(1))
                rest = rest.replace(t[ga + mi.start():e], " ")
            if "if" in rest:
                src.fail(ga, "value(): unrecognised test in case %s of an ordering operator" % labs[0])
            acc = set(re.findall(r"a2\.(\w+)\(\)", rest)) - {"type"}
            if len(acc) != 1 or ACCESSOR.get(next(iter(acc))) is None:
                src.fail(ga, "value(): the fall-through of case %s reads a2 through %s (exactly one typed accessor expected)" % (labs[0], sorted(acc)))
            cases.append((labs[0], ifs, ACCESSOR[next(iter(acc))]))
        tail = t[send:b]
        if not re.fullmatch(r"\s*Value\s+val\(\s*Bool\(\s*false\s*\)\s*\)\s*;\s*return\s+LVAL2\(val,\s*a1,\s*a2\)\s*;\s*", tail):
            src.fail(send, "value(): the ordering operator does not end with `false`")
        return "ord", cases
    # ---- switch forms: level guard, switch on a1, throw INV_EXPRESSION
    if has_a2:
        pos = expect(src, pos, r"if\s*\(\s*a1\.type\(\)\.level\(\)\s*==\s*0\s*&&\s*a2\.type\(\)\.level\(\)\s*==\s*0\s*\)\s*\{",
                     "`if (a1.type().level() == 0 && a2.type().level() == 0) {`")
        shape = "nested"
    else:
        pos = expect(src, pos, r"if\s*\(\s*a1\.type\(\)\.level\(\)\s*==\s*0\s*\)\s*\{", "`if (a1.type().level() == 0) {`")
        shape = "unary" if unary else "lazy"
    guard_end = match_brace(src, pos - 1)
    pos = expect(src, pos, r"switch\s*\(\s*a1\.type\(\)\.major\(\)\s*\)\s*\{", "`switch (a1.type().major()) {`")
    groups, send = split_switch(src, pos - 1)
    pos = expect(src, send, r"\}", "end of the level guard")
    if pos != guard_end:
        src.fail(send, "value(): unexpected code after the outer switch")
    pos = expect(src, pos, THROW_INV, "`throw RuntimeError(EXC_RT_INV_EXPRESSION);`")
    if t[pos:b].strip():
        src.fail(pos, "value(): code after the final throw")
    if shape == "unary":
        ms = []
        for labs, ga, gb in groups:
            ends_with_return(src, ga, gb)
            if "switch" in t[ga:gb]:
                src.fail(ga, "value(): nested switch in a unary operator")
            ms += labs
        return "unary", ms
    pairs = []
    for labs, ga, gb in groups:
        inner = inner_switch_labels(src, ga, gb, shape == "lazy")
        for l in labs:
            for x in inner:
                pairs.append((l, x))
    return shape, pairs


# ------------------------------------------------------------------------------------------------ c. parse_expression.cpp

def split_args(src, off, txt):
    out, depth, cur = [], 0, ""
    for ch in txt:
        if ch in "(":
            depth += 1
        elif ch in ")":
            depth -= 1
        if ch == "," and depth == 0:
            out.append(cur)
            cur = ""
        else:
            cur += ch
    out.append(cur)
    return [x.strip() for x in out]


SUBPARSERS = {"factor", "primary", "term", "sum", "bitshift", "bitlogic", "relation", "element"}


def parse_check(src, off, txt, first):
    """one constructor argument of `new OpXXXExpression(...)`"""
    m = re.fullmatch(r"(assertType|assertTypeUniform)\((.*)\)", txt, flags=re.S)
    if not m:
        if (first and txt == "result") or (not first and re.fullmatch(r"(\w+)\(\)", txt) and txt[:-2] in SUBPARSERS):
            return ".nocheck"
        src.fail(off, "unrecognised operand expression %r" % txt)
    args = split_args(src, off, m.group(2))
    if len(args) not in (4, 5) or args[2:4] != ["p", "ctx"] or (len(args) == 5 and args[4] != "false"):
        src.fail(off, "unrecognised %s call %r" % (m.group(1), txt))
    operand = args[0]
    if first and operand != "result":
        src.fail(off, "the first operand of the production is not `result`: %r" % operand)
    if not first and not (re.fullmatch(r"(\w+)\(\)", operand) and operand[:-2] in SUBPARSERS):
        src.fail(off, "the second operand of the production is not a sub-parser call: %r" % operand)
    mt = re.fullmatch(r"Type::(\w+)", args[1])
    if mt and mt.group(1) in MAJ:
        ty = "(.const %s)" % MAJ[mt.group(1)]
    elif args[1] == "result->type(ctx)":
        if first:
            src.fail(off, "first operand checked against itself")
        ty = ".arg1"
    else:
        src.fail(off, "unrecognised type argument %r" % args[1])
    return "(.%s %s)" % ("assertType" if m.group(1) == "assertType" else "assertUniform", ty)


def preceding_check(src, t, at):
    """The check of the left operand when it is a statement of its own directly before the production at offset `at`:
    returns (PCheck text, offset of that statement's call), or None when the previous statement is not such a check. Anything between the two statements
    other than `return` / `result =` means the check does not guard this production."""
    s = t.rfind(";", 0, at)
    if s < 0 or not re.fullmatch(r"\s*(return|result\s*=)\s*", t[s + 1:at]):
        return None
    b = max(t.rfind(";", 0, s), t.rfind("{", 0, s), t.rfind("}", 0, s))
    stmt = t[b + 1:s]
    mm = re.fullmatch(r"\s*((case\s+[^:;{}]+|default)\s*:\s*)*((assertType|assertTypeUniform)\(result\s*,.*\))\s*", stmt, flags=re.S)
    if not mm:
        return None
    call = mm.group(3)
    args = split_args(src, s, call[call.index("(") + 1:-1])
    if len(args) != 5 or args[4] != "false":
        src.fail(s, "the left-operand check before a production must keep `result` on failure (5th argument false): %r" % call)
    return parse_check(src, s, call, True), b + 1 + mm.start(3)


def extract_checks():
    src = Src("blocc/parse_expression.cpp")
    t = src.text
    found = {}
    consumed = set()      # offsets of the stand-alone left-operand checks that a production has taken
    for m in re.finditer(r"new\s+Op(\w+)Expression\s*\(", t):
        o = m.end() - 1
        depth, i = 0, o
        while True:
            if t[i] == "(":
                depth += 1
            elif t[i] == ")":
                depth -= 1
                if depth == 0:
                    break
            i += 1
        args = split_args(src, o, t[o + 1:i])
        name = m.group(1).lower()
        if name in UNARY:
            if len(args) != 1:
                src.fail(o, "unary operator %s built with %d operands" % (name, len(args)))
            # the operand of a unary operator is a sub-parser call, never `result`
            chk = (parse_check(src, o, args[0], False),)
        elif name in BINARY:
            if len(args) != 2:
                src.fail(o, "binary operator %s built with %d operands" % (name, len(args)))
            chk = (parse_check(src, o, args[0], True), parse_check(src, o, args[1], False))
            if chk[0] == ".nocheck":
                # since /repo 565b1e8 the left operand is checked by a statement of its own, placed DIRECTLY before the one that
                # builds the node: `assertType[Uniform](result, T, p, ctx, false);` then `return|result = new OpX(result, …);`
                pre = preceding_check(src, t, m.start())
                if pre is not None:
                    chk = (pre[0], chk[1])
                    consumed.add(pre[1])
        else:
            src.fail(o, "production for an operator without a model entry: Op%sExpression" % m.group(1))
        if name in found and found[name][0] != chk:
            src.fail(o, "two productions of operator %s check their operands differently (%s at line %d)" % (name, found[name][0], found[name][1]))
        found.setdefault(name, (chk, src.line(o)))
    # C02R4: every stand-alone `assertType[Uniform](result, …);` STATEMENT of the file must have been taken by the production that
    # directly follows it: a check that drifted away from its production (another statement in between, a production that no
    # longer has the bare `result` as first operand, a check in front of something that is not a production) is refused, not dropped
    for ms in re.finditer(r"(?:[;{}]|(?:case\s+[^:;{}]+|default)\s*:)\s*((?:assertType|assertTypeUniform)\(\s*result\s*,)", t):
        # a statement, not an argument: what follows the matching parenthesis is `;`
        i, depth = ms.end(1) - 1 - len(ms.group(1)) + ms.group(1).index("("), 0
        j = i
        while True:
            if t[j] == "(":
                depth += 1
            elif t[j] == ")":
                depth -= 1
                if depth == 0:
                    break
            j += 1
        if re.match(r"\s*;", t[j + 1:]) and ms.start(1) not in consumed:
            src.fail(ms.start(1), "the stand-alone check `%s` is not directly followed by the operator production it guards "
                     "(`return|result = new OpXXXExpression(result, …)`)" % re.sub(r"\s+", " ", t[ms.start(1):j + 1]))
    for name in BINARY + UNARY:
        if name not in found:
            raise ExtractError("%s: no production builds Op%sExpression" % (src.rel, name.upper()))
    return {k: v[0] for k, v in found.items()}


# ------------------------------------------------------------------------------------------------ emission

def lean_pairs(ps):
    return "[" + ", ".join("(%s, %s)" % (MAJ[a], MAJ[b]) for a, b in ps) + "]"


def lean_majors(ms):
    return "[" + ", ".join(MAJ[m] for m in ms) + "]"


def gen_optypes():
    files = sorted(f[3:-4] for f in os.listdir(os.path.join(REPO, "blocc", "operator")) if re.fullmatch(r"op_\w+\.cpp", f))
    if sorted(BINARY + UNARY) != files:
        raise ExtractError("blocc/operator: operator files %s differ from the operators the model knows %s" % (
            sorted(set(files) ^ set(BINARY + UNARY)), "(add the operator to extract/optypes.py, Model/Ops.lean, Model/GenEval.lean)"))
    checks = extract_checks()
    o = ["-- GENERATED by extract/optypes.py from blocc/operator/op_*.{h,cpp} (type(), value()) and blocc/parse_expression.cpp. Do not edit.",
         "import BlocV.Model.Basic", "namespace BlocV.Gen", "",
         "/-- Condition of one step of an operator's `type()` if-chain: tests on the MAJOR of the static operand types. -/",
         "inductive TCond", "  | t1is (m : Major)", "  | t2is (m : Major)", "  | and (a b : TCond)", "  | or (a b : TCond)", "  deriving Repr", "",
         "/-- Result of a step: `Value::type_xxx`, or the static type of the first / second operand. -/",
         "inductive TRes", "  | const (m : Major)", "  | arg1", "  | arg2", "  deriving Repr", "",
         "/-- `type()`: the first step whose condition holds decides; otherwise `dflt`. -/",
         "structure TRule where", "  chain : List (TCond × TRes)", "  dflt : TRes", "  deriving Repr", "",
         "/-- The type an operand is checked against in parse_expression.cpp: `Type::X`, or `result->type(ctx)` (the first operand). -/",
         "inductive PType", "  | const (m : Major)", "  | arg1", "  deriving Repr", "",
         "/-- The check wrapped around one operand of a production of parse_expression.cpp. -/",
         "inductive PCheck", "  | nocheck", "  | assertType (t : PType)", "  | assertUniform (t : PType)", "  deriving Repr", "",
         "/-- Shape of `value()` and the operand majors that reach a result (extract/optypes.py describes each shape). -/",
         "inductive VShape",
         "  | nested (pairs : List (Major × Major))",
         "  | lazy (pairs : List (Major × Major))",
         "  | eqchain (pairs : List (Major × Major))",
         "  | ord (cases : List (Major × List Major × Major))",
         "  | regex",
         "  | unary (ms : List Major)",
         "  deriving Repr", "",
         "namespace Op", ""]
    rows_bin, rows_un = [], []
    for op in BINARY + UNARY:
        cls = "Op%sExpression" % op.upper()
        chain, dflt = extract_type(op, cls)
        shape, data = extract_value(op, cls)
        o.append("/-- `%s::type` -/" % cls)
        o.append("def %s_type : TRule := { chain := [%s], dflt := %s }" % (op, ", ".join("(%s, %s)" % (c, r) for c, r in chain), dflt))
        o.append("/-- `%s::value` -/" % cls)
        if shape in ("nested", "lazy", "eqchain"):
            o.append("def %s_pairs : List (Major × Major) := %s" % (op, lean_pairs(data)))
            o.append("def %s_value : VShape := .%s %s_pairs" % (op, shape, op))
        elif shape == "ord":
            o.append("def %s_cases : List (Major × List Major × Major) := [%s]" % (
                op, ", ".join("(%s, %s, %s)" % (MAJ[a], lean_majors(ifs), MAJ[f]) for a, ifs, f in data)))
            o.append("def %s_value : VShape := .ord %s_cases" % (op, op))
        elif shape == "regex":
            o.append("def %s_value : VShape := .regex" % op)
        else:
            o.append("def %s_majors : List Major := %s" % (op, lean_majors(data)))
            o.append("def %s_value : VShape := .unary %s_majors" % (op, op))
        expected = {"add": "nested", "sub": "nested", "mul": "nested", "div": "nested", "exp": "nested", "mod": "nested", "and": "nested",
                    "ior": "nested", "xor": "nested", "pop": "nested", "pus": "nested", "bxor": "nested", "band": "lazy", "bior": "lazy",
                    "eq": "eqchain", "ne": "eqchain", "lt": "ord", "le": "ord", "gt": "ord", "ge": "ord", "match": "regex",
                    "neg": "unary", "pos": "unary", "not": "unary", "bnot": "unary"}[op]
        if shape != expected:
            raise ExtractError("blocc/operator/op_%s.cpp: value() has shape `%s`, the model (Model/Ops.lean) is written for `%s`" % (op, shape, expected))
        o.append("/-- production(s) of parse_expression.cpp building `%s` -/" % cls)
        if op in UNARY:
            o.append("def %s_check : PCheck := %s" % (op, checks[op][0].strip("()") if checks[op][0] == ".nocheck" else checks[op][0][1:-1]))
            rows_un.append('  ("%s", Op.%s_type, Op.%s_check, Op.%s_value)' % (op, op, op, op))
        else:
            for k in (0, 1):
                c = checks[op][k]
                o.append("def %s_check%d : PCheck := %s" % (op, k + 1, c if c == ".nocheck" else c[1:-1]))
            rows_bin.append('  ("%s", Op.%s_type, Op.%s_check1, Op.%s_check2, Op.%s_value)' % (op, op, op, op, op))
        o.append("")
    o.append("end Op")
    o.append("")
    o.append("/-- every binary operator file: (name, type(), check of operand 1, check of operand 2, value()) -/")
    o.append("def binOps : List (String × TRule × PCheck × PCheck × VShape) := [")
    o.append(",\n".join(rows_bin))
    o.append("]")
    o.append("")
    o.append("/-- every unary operator file: (name, type(), check of the operand, value()) -/")
    o.append("def unOps : List (String × TRule × PCheck × VShape) := [")
    o.append(",\n".join(rows_un))
    o.append("]")
    o.append("")
    o.append("end BlocV.Gen")
    return "\n".join(o) + "\n"


# ------------------------------------------------------------------------------------------------ d. member methods (receiver part)

MEMBERS = ["concat", "at", "put", "count", "delete", "insert"]


def extract_member(name):
    """the receiver-side checks of `MemberXXXExpression::parse`: is the lock of the receiver symbol tested, which level-0
    receiver majors pass the first `switch (exp_type.major())` (every level >= 1 passes: the switch is guarded by
    `if (exp_type.level() == 0)`), and whether the first argument is parsed and checked before the receiver"""
    src = Src("blocc/member/member_%s.cpp" % name)
    cls = "Member%sExpression" % name.upper()
    ms = list(re.finditer(r"%s\s*\*\s*%s::parse\s*\(\s*Parser\s*&\s*p\s*,\s*Context\s*&\s*ctx\s*,\s*Expression\s*\*\s*exp\s*\)\s*\{" % (cls, cls), src.text))
    if len(ms) != 1:
        raise ExtractError("%s: %s::parse found %d times" % (src.rel, cls, len(ms)))
    a = ms[0].end()
    b = match_brace(src, a - 1) - 1
    t = src.text
    k = t.find("catch (ParseError", a, b)
    if k < 0:
        src.fail(a, "parse(): no catch (ParseError&) clause")
    body_end = k
    locks = list(re.finditer(r"if\s*\(\s*exp->symbolId\(\)\s*!=\s*Expression::nid\s*\)\s*\{\s*const\s+Symbol\s*&\s*s\s*=\s*ctx\.getSymbol\(exp->symbolId\(\)\)\s*;\s*"
                             r"if\s*\(\s*s\.locked\(\)\s*\)\s*throw\s+ParseError\(\s*EXC_PARSE_CONST_VIOLATION_S\b[^;]*;\s*\}", t[a:body_end]))
    if len(locks) > 1 or (len(locks) == 0 and "locked" in t[a:body_end]):
        src.fail(a, "parse(): unrecognised lock test")
    sw = list(re.finditer(r"if\s*\(\s*exp_type\.level\(\)\s*==\s*0\s*\)\s*\{\s*switch\s*\(\s*exp_type\.major\(\)\s*\)\s*\{", t[a:body_end]))
    if not sw:
        src.fail(a, "parse(): no `if (exp_type.level() == 0) { switch (exp_type.major()) {` receiver test")
    first = sw[0]
    o = a + first.end() - 1
    end = match_brace(src, o)
    inner = t[o + 1:end - 1]
    m = re.fullmatch(r"\s*((?:case\s+Type::\w+\s*:\s*)+)break\s*;\s*default\s*:\s*throw\s+ParseError\(\s*EXC_PARSE_MEMB_NOT_IMPL_S\b[^;]*;\s*", inner, flags=re.S)
    if not m:
        src.fail(o, "parse(): the receiver switch is not `case ...: break; default: throw ParseError(EXC_PARSE_MEMB_NOT_IMPL_S, ...)`")
    labels = re.findall(r"case\s+Type::(\w+)\s*:", m.group(1))
    for l in labels:
        if l not in MAJ:
            src.fail(o, "parse(): unknown major %s" % l)
    if len(set(labels)) != len(labels):
        src.fail(o, "parse(): duplicated receiver label")
    # is an argument parsed (and checked) before the receiver test?
    before = t[a:a + first.start()]
    argfirst = bool(re.search(r"args\.push_back\(", before))
    if argfirst and not re.search(r"args\.push_back\(\s*ParseExpression::expression\(p,\s*ctx\)\s*\)\s*;\s*if\s*\(\s*!ParseExpression::typeChecking\(args\.back\(\),\s*Type::INTEGER,\s*p,\s*ctx\)\s*\)\s*"
                                  r"throw\s+ParseError\(\s*EXC_PARSE_MEMB_ARG_TYPE_S\b", before):
        src.fail(a, "parse(): an argument is parsed before the receiver test but not checked against INTEGER")
    return {"lock": len(locks) == 1, "labels": labels, "argfirst": argfirst}


# ------------------------------------------------------------------------------------------------ d'. member methods: the value argument, level-0 receivers

ARG_MEMBERS = ["put", "insert", "concat"]


def extract_member_arg0(name):
    """the SECOND `if (exp_type.level() == 0) { switch (exp_type.major()) {…} }` of put / insert / concat: per receiver major the test
    on the value argument (the last argument parsed): `break` alone = anything; otherwise
    `if ([args.back()->type(ctx) != Type::M && …] !typeChecking(args.back(), Type::INTEGER)) throw MEMB_ARG_TYPE_S; break;`
    = accepted iff the argument's major is one of the M or it type-checks as INTEGER. (The collection branch — the `else` — is not
    extracted.)"""
    src = Src("blocc/member/member_%s.cpp" % name)
    t = src.text
    a = t.index("Member%sExpression::parse" % name.upper())
    sw = list(re.finditer(r"if\s*\(\s*exp_type\.level\(\)\s*==\s*0\s*\)\s*\{\s*switch\s*\(\s*exp_type\.major\(\)\s*\)\s*\{", t[a:]))
    if len(sw) != 2:
        src.fail(a, "parse(): expected exactly two `if (exp_type.level() == 0) { switch (exp_type.major()) {` tests, found %d" % len(sw))
    o = a + sw[1].end() - 1
    pre = t[a + sw[0].end():a + sw[1].start()]
    if len(re.findall(r"args\.push_back\(", pre)) != (1 if name == "concat" else 2):
        src.fail(o, "parse(): the second receiver switch does not follow the value argument")
    end = match_brace(src, o)
    if not re.match(r"\s*\}\s*else\b", t[end:]):
        src.fail(end, "parse(): the second receiver switch is not followed by the collection branch (`else`)")
    body = t[o + 1:end - 1]
    # split at the labels
    labs = list(re.finditer(r"(case\s+Type::(\w+)\s*:|default\s*:)", body))
    rules, cur = [], []
    for i, mlab in enumerate(labs):
        seg = body[mlab.end():labs[i + 1].start() if i + 1 < len(labs) else len(body)]
        cur.append(mlab.group(2) or "default")
        if not seg.strip():
            continue
        seg = seg.strip()
        if cur == ["default"]:
            if not re.fullmatch(r"throw\s+ParseError\(\s*EXC_PARSE_MEMB_NOT_IMPL_S\b[^;]*;", seg):
                src.fail(o, "parse(): default of the second receiver switch is not `throw ParseError(EXC_PARSE_MEMB_NOT_IMPL_S…`")
        elif re.fullmatch(r"break\s*;", seg):
            rules += [(l, None) for l in cur]
        else:
            mm = re.fullmatch(r"if\s*\((.*?)\)\s*throw\s+ParseError\(\s*EXC_PARSE_MEMB_ARG_TYPE_S\b[^;]*;\s*break\s*;", seg, flags=re.S)
            if not mm:
                src.fail(o, "parse(): unrecognised case body in the second receiver switch: %r" % seg[:80])
            conj = [x.strip() for x in mm.group(1).split("&&")]
            ms, tc = [], False
            for x in conj:
                m1 = re.fullmatch(r"args\.back\(\)->type\(ctx\)\s*!=\s*Type::(\w+)", x)
                if m1 and m1.group(1) in MAJ:
                    ms.append(m1.group(1))
                elif re.fullmatch(r"!ParseExpression::typeChecking\(args\.back\(\),\s*Type::INTEGER,\s*p,\s*ctx\)", x):
                    tc = True
                else:
                    src.fail(o, "parse(): unrecognised conjunct %r in the argument test" % x)
            rules += [(l, (ms, tc)) for l in cur]
        cur = []
    return rules


def lean_member_arg0(name):
    rows = []
    for l, r in extract_member_arg0(name):
        rows.append("(%s, %s)" % (MAJ[l], ".any" if r is None else "(.oneOf %s %s)" % (lean_majors(r[0]), "true" if r[1] else "false")))
    return "def %s_arg0 : List (Major × ArgRule) := [%s]" % (name, ", ".join(rows))


def gen_membersigs():
    mfiles = sorted(f[7:-4] for f in os.listdir(os.path.join(REPO, "blocc", "member")) if re.fullmatch(r"member_\w+\.cpp", f))
    if sorted(MEMBERS + ["set", "complex"]) != mfiles:
        raise ExtractError("blocc/member: member files %s differ from the members the model knows" % sorted(set(mfiles) ^ set(MEMBERS + ["set", "complex"])))
    o = ["-- GENERATED by extract/optypes.py from the parse() method of blocc/member/member_{concat,at,put,count,delete,insert}.cpp. Do not edit.",
         "import BlocV.Model.Basic", "namespace BlocV.Gen", "",
         "/-- Receiver side of a member method's `parse()`: `lockChecked` = a locked receiver symbol is EXC_PARSE_CONST_VIOLATION_S;",
         "`receivers` = the level-0 receiver majors that pass the first `switch (exp_type.major())` (others:",
         "EXC_PARSE_MEMB_NOT_IMPL_S; every receiver of level ≥ 1 passes); `argFirst` = the first argument is parsed and checked",
         "against INTEGER before the receiver is looked at. -/",
         "structure MemberRecv where", "  lockChecked : Bool", "  receivers : List Major", "  argFirst : Bool", "  deriving Repr", "",
         "/-- Test on the value argument of put / insert / concat for a level-0 receiver of a given major: anything, or: the argument's",
         "major is one of `ms`, or (`orInt`) it type-checks as INTEGER; otherwise EXC_PARSE_MEMB_ARG_TYPE_S. -/",
         "inductive ArgRule", "  | any", "  | oneOf (ms : List Major) (orInt : Bool)", "  deriving Repr", "",
         "namespace Memb", ""]
    rows = []
    for name in MEMBERS:
        r = extract_member(name)
        o.append("/-- `Member%sExpression::parse` -/" % name.upper())
        o.append("def %s_recv : MemberRecv := { lockChecked := %s, receivers := %s, argFirst := %s }" % (
            name, "true" if r["lock"] else "false", lean_majors(r["labels"]), "true" if r["argfirst"] else "false"))
        rows.append('  ("%s", Memb.%s_recv)' % (name, name))
    o.append("")
    for name in ARG_MEMBERS:
        o.append("/-- `Member%sExpression::parse`, second receiver switch (level-0 receivers): the value argument -/" % name.upper())
        o.append(lean_member_arg0(name))
    o += ["", "end Memb", "", "def memberRecvs : List (String × MemberRecv) := [", ",\n".join(rows), "]", "", "end BlocV.Gen"]
    return "\n".join(o) + "\n"


if __name__ == "__main__":
    print(gen_optypes())
    print(gen_membersigs())
