#!/usr/bin/env python3
"""C14 extractor: every piece of mutable state of libblocc that is NOT owned by one Context instance.

Re-reads /repo/blocc on every run and lists, with file:line,
  (a) every `mutable` data member (a member that `const` code — `Expression::value() const`,
      `Statement::execute() const`, `type() const` — may write; statements and expression nodes are
      shared by every context that runs the same executable or calls the same function),
  (b) every `static` data declaration that is not `const`/`constexpr` (class statics, file statics,
      function-local statics),
  (c) every namespace-scope variable definition in a .cpp/.c file whose type does not start with
      `const` (definitions of (b)'s class statics are merged with their declaration).
A cell of (b)/(c) declared `thread_local` (or `__thread`) is PER-THREAD state: every thread has its own
instance, so it is not a cell that contexts running on different threads share. It is listed apart, as
`threadLocalCells` (how = "thread_local"), never in `sharedCells`: the model classifies the two lists
separately (`cellKind` / `threadCellKind` of Model/World.lean). Removing the `thread_local` from such a
declaration moves the cell back into `sharedCells`, where it is unclassified — the obligation breaks.
It emits lean/BlocV/Gen/Shared.lean. Model/World.lean classifies every listed cell and
`all_shared_cells_classified` is proved by `decide` over the generated list: a NEW shared mutable
field (or a renamed / moved one) makes that theorem — and with it the C14 footprint obligation —
fail until somebody has looked at the field and said which class of the model it belongs to.

Pure listing: no assertion about the source shape beyond "blocc/ exists and the scan found the
anchor cells the C14 model is about" (so that a scan that silently finds nothing is an error)."""
import os
import re
import sys

REPO = os.environ.get("VERIF_REPO", "/repo")
HERE = os.path.dirname(os.path.abspath(__file__))
OUT = os.path.join(os.path.dirname(HERE), "lean", "BlocV", "Gen", "Shared.lean")

SKIP_DIRS = ("win32",)                       # not compiled on this platform
SKIP_FILES = ("lex._tokenizer.c",)           # flex output: `%option reentrant`, only `static const` tables
ANCHORS = [("blocc/statement.h", "_level"), ("blocc/exception.h", "buf"), ("blocc/bloc_capi.cpp", "bloc_error"),
           ("blocc/context.cpp", "r"), ("blocc/expression_integer.h", "v"), ("blocc/member/member_at.h", "_type_volatile"),
           ("blocc/complex.h", "_refcount"), ("blocc/functor_manager.h", "ctx")]


class ExtractError(Exception):
    pass


def strip_comments_keep_lines(s):
    def blank(m):
        return re.sub(r"[^\n]", " ", m.group(0))
    s = re.sub(r"/\*.*?\*/", blank, s, flags=re.S)
    s = re.sub(r"//[^\n]*", blank, s)
    # string literals cannot hide a declaration keyword, but may contain ';' — blank their contents
    s = re.sub(r'"(?:[^"\\\n]|\\.)*"', lambda m: '"' + " " * (len(m.group(0)) - 2) + '"', s)
    return s


RE_MUTABLE = re.compile(r"\bmutable\s+([^;(){}]+?)\s*\b(\w+)\s*(?:\[[^\]]*\])?\s*(?:=[^;]*)?;")
RE_STATIC = re.compile(
    r"^[ \t]*(?:[A-Z_]+_API\s+)?(?:constexpr\s+)?static\s+(?!const\b|constexpr\b|inline\b)"
    r"((?:struct\s*\{[^}]*\}\s*)|[^;(){}=]*?)\b(\w+)\s*(?:\[[^\]]*\])?\s*(?:=[^;]*)?;", re.M)
# `thread_local` written BEFORE `static` (RE_STATIC anchors on `static` and would not see the declaration at all), or a
# function-local / class-scope `thread_local` without `static` (block scope: implies static storage duration)
RE_TLS = re.compile(
    r"^[ \t]*(?:[A-Z_]+_API\s+)?(?:thread_local|__thread)\s+(?:static\s+)?(?!const\b|constexpr\b)"
    r"((?:struct\s*\{[^}]*\}\s*)|[^;(){}=]*?)\b(\w+)\s*(?:\[[^\]]*\])?\s*(?:=[^;]*)?;", re.M)
RE_IS_TLS = re.compile(r"\b(?:thread_local|__thread)\b")
RE_GLOBAL = re.compile(
    r"^(?!const\b|static\b|typedef\b|using\b|return\b|extern\b|namespace\b|class\b|struct\b|enum\b|template\b|#)"
    r"([A-Za-z_][\w:<>,\*& ]*?[ \*&])((?:\w+::)*\w+)\s*(?:\[[^\]]*\])?\s*(?:=[^;\n{]*)?;[ \t]*$", re.M)
# heap cells shared between contexts by design (not `mutable`, not `static`): the object reference counter
RE_REFCOUNT = re.compile(r"\bint\s*\*\s*(_refcount)\b\s*(?:=[^;]*)?;")
# ... and the parse-time ("prototype") context every function carries: clones share the Functor through a
# shared_ptr, and every call copies root / output stream / flags from that one object
RE_PROTO = re.compile(r"struct\s+Functor\s*\{[^}]*?\bContext\s*\*\s*(ctx)\b\s*(?:=[^;]*)?;", re.S)


def scan():
    root = os.path.join(REPO, "blocc")
    if not os.path.isdir(root):
        raise ExtractError("blocc/: not found under %s" % REPO)
    cells = []    # (file, line, name, how, decl text)
    for dp, dns, fns in os.walk(root):
        dns[:] = sorted(d for d in dns if d not in SKIP_DIRS)
        for fn in sorted(fns):
            if not fn.endswith((".h", ".cpp", ".c", ".lex")) or fn in SKIP_FILES:
                continue
            p = os.path.join(dp, fn)
            rel = os.path.relpath(p, REPO)
            raw = open(p, encoding="latin-1").read()
            src = strip_comments_keep_lines(raw)
            lines = raw.split("\n")

            def add(m, how, name):
                ln = src.count("\n", 0, m.start(2)) + 1
                cells.append((rel, ln, name, how, " ".join(lines[ln - 1].split())))

            for m in RE_MUTABLE.finditer(src):
                add(m, "mutable", m.group(2))
            tls_at = set()
            for m in RE_STATIC.finditer(src):
                if re.search(r"\bconstexpr\b", m.group(0)):
                    continue
                if RE_IS_TLS.search(m.group(0)):
                    # `static thread_local T x;`: one instance per thread
                    if re.search(r"\bthread_local\s+const\b", m.group(0)):
                        continue
                    tls_at.add(m.start(2))
                    add(m, "thread_local", m.group(2))
                    continue
                add(m, "static", m.group(2))
            for m in RE_TLS.finditer(src):
                if m.start(2) in tls_at or re.search(r"\bconstexpr\b", m.group(0)):
                    continue
                tls_at.add(m.start(2))
                add(m, "thread_local", m.group(2))
            if fn.endswith((".cpp", ".c")):
                for m in RE_GLOBAL.finditer(src):
                    if m.group(2).split("::")[-1] == "operator" or m.start(2) in tls_at:
                        continue
                    add(m, "thread_local" if RE_IS_TLS.search(m.group(0)) else "global", m.group(2))
            for m in list(RE_REFCOUNT.finditer(src)) + list(RE_PROTO.finditer(src)):
                ln = src.count("\n", 0, m.start(1)) + 1
                cells.append((rel, ln, m.group(1), "shared-heap", " ".join(lines[ln - 1].split())))
    # a class static is declared in the header and defined in a .cpp: keep the declaration, drop `Class::name` definitions of it
    declared = {c[2] for c in cells if c[3] in ("static", "thread_local")}
    out = []
    for c in cells:
        if c[3] == "global" and "::" in c[2] and c[2].split("::")[-1] in declared:
            continue
        out.append(c)
    out.sort()
    have = {(c[0], c[2]) for c in out}
    for a in ANCHORS:
        if a not in have:
            raise ExtractError("shared.py: anchor cell %s:%s not found — the scan no longer recognises the source" % a)
    return out


def lean_str(s):
    return '"' + s.replace("\\", "\\\\").replace('"', '\\"') + '"'


def is_thread_local(c):
    return c[3] == "thread_local"


def lean_list(items):
    """a Lean list literal body; `[` … `]` are written by the caller (an empty list stays well-formed)"""
    return ",\n".join(items)


def gen_shared(cells=None):
    cells = scan() if cells is None else cells
    shared = [c for c in cells if not is_thread_local(c)]
    tls = [c for c in cells if is_thread_local(c)]

    def names(cs):
        seen = []
        for c in cs:
            k = (c[0], c[2])
            if k not in seen:
                seen.append(k)
        return seen

    def pairs(cs):
        return lean_list("  (%s, %s)" % (lean_str(f), lean_str(n)) for f, n in names(cs))

    def sites(cs):
        return lean_list("  (%s, %d, %s, %s)" % (lean_str(c[0]), c[1], lean_str(c[2]), lean_str(c[3])) for c in cs)

    o = ["-- GENERATED by extract/shared.py. Do not edit.",
         "namespace BlocV.Gen", "",
         "/-- Every `mutable` member, non-const `static` and non-const namespace-scope variable of blocc/",
         "that is NOT declared `thread_local` (file, name), sorted: the cells contexts on different threads",
         "share. The C14 footprint obligation is stated over this list. -/",
         "def sharedCells : List (String × String) := [", pairs(shared), "]", "",
         "/-- The same cells with the line and the kind of declaration they were found at (information only:",
         "no proof mentions it, so that moving a line does not invalidate anything). -/",
         "def sharedCellSites : List (String × Nat × String × String) := [", sites(shared), "]", "",
         "/-- The non-const statics / namespace-scope variables declared `thread_local`: one instance per",
         "thread, hence per-thread state and not shared between contexts that run on different threads.",
         "Classified apart (`World.threadCellKind`); a cell that loses its `thread_local` leaves this list",
         "and re-enters `sharedCells`. -/",
         "def threadLocalCells : List (String × String) := [", pairs(tls), "]", "",
         "def threadLocalCellSites : List (String × Nat × String × String) := [", sites(tls), "]", "",
         "end BlocV.Gen"]
    return "\n".join(x for x in o if x is not None) + "\n"


def regenerate(write=True):
    """Returns (changed_files, errors, cells)."""
    try:
        cells = scan()
        txt = gen_shared(cells)
    except ExtractError as e:
        return [], ["Shared.lean: %s" % e], []
    old = open(OUT).read() if os.path.exists(OUT) else None
    changed = []
    if old != txt:
        changed.append("Shared.lean")
        if write:
            os.makedirs(os.path.dirname(OUT), exist_ok=True)
            open(OUT, "w").write(txt)
    return changed, [], cells


if __name__ == "__main__":
    ch, er, cells = regenerate()
    for c in cells:
        print("%s:%d: [%s] %s    | %s" % (c[0], c[1], c[3], c[2], c[4]))
    print("changed:", ch)
    for e in er:
        print("EXTRACT-ERROR", e)
    sys.exit(1 if er else 0)
