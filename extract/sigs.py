"""Extract the parse-time signature of every built-in function from blocc/builtin/builtin_*.cpp.

Each `XXXExpression::parse` body is linearised into a list of argument specs:
   (optional?, [checks])   with checks among
   tc:<MAJOR>            ParseExpression::typeChecking(args.back(), Type::<MAJOR>, …) must hold
   tcor:<M1>|<M2>        nested typeChecking (first fails → second must hold)   [raw]
   level0                args.back()->type(ctx).level() > 0 is rejected
   accept:<M1>|…         switch on the major type: listed cases accepted, default rejected
   reject:<M1>|…         switch on the major type: listed cases rejected, default accepted
Only these idioms may occur; anything else raises ExtractError for that built-in unless it is in
HAND (built-ins whose parse() is irregular and is transcribed by hand in the model)."""
import os
import re

from gen import ExtractError, rd, strip_comments, string_array

HAND = {"tup", "tab", "read", "readln", "input", "getsys", "typeof", "error", "null", "true", "on", "false", "off",
        "phi", "pi", "ee", "ii", "max", "min", "bool", "imag", "random", "getenv", "isnull"}


def parse_body(src, cls, rel):
    m = re.search(r"%s\s*\*\s*%s::parse\s*\(\s*Parser\s*&\s*p\s*,\s*Context\s*&\s*ctx\s*\)\s*\{" % (cls, cls), src)
    if not m:
        raise ExtractError("%s: %s::parse not found" % (rel, cls))
    i = m.end()
    depth = 1
    j = i
    while depth and j < len(src):
        if src[j] == "{":
            depth += 1
        elif src[j] == "}":
            depth -= 1
        j += 1
    body = src[i:j]
    k = body.find("catch (ParseError")
    return body[:k] if k >= 0 else body


def extract_sig(name, rel):
    src = strip_comments(rd(rel))
    src = re.sub(r"DBG\([^;]*;", "", src)
    m = re.search(r"(\w+Expression)\s*\*\s*\w+Expression::parse", src)
    if not m:
        raise ExtractError("%s: no parse()" % rel)
    body = parse_body(src, m.group(1), rel)
    # tokenise into the statements we know
    pos = 0
    args = []          # list of dict(optional, checks)
    optional_from_here = False
    all_optional = False
    pats = [
        ("open", r"TokenPtr\s+t\s*=\s*p\.pop\(\)\s*;\s*if\s*\(\s*t->code\s*!=\s*'\('\s*\)\s*throw\s+ParseError\([^;]*;"),
        ("optall", r"if\s*\(\s*p\.front\(\)->code\s*!=\s*'\)'\s*\)"),
        ("arg", r"args\.push_back\(\s*ParseExpression::expression\(p,\s*ctx\)\s*\)\s*;"),
        ("tcor", r"if\s*\(\s*!ParseExpression::typeChecking\(args\.back\(\),\s*Type::(\w+),\s*p,\s*ctx\)\s*\)\s*\{\s*if\s*\(\s*!ParseExpression::typeChecking\(args\.back\(\),\s*Type::(\w+),\s*p,\s*ctx\)\s*\)\s*throw\s+ParseError\([^;]*;"),
        ("tc", r"if\s*\(\s*!ParseExpression::typeChecking\(args\.back\(\),\s*Type::(\w+),\s*p,\s*ctx\)\s*\)\s*throw\s+ParseError\([^;]*;"),
        ("typevar", r"const\s+Type\s*&\s*type\s*=\s*args\.back\(\)->type\(ctx\)\s*;"),
        ("level0", r"if\s*\(\s*(?:args\.back\(\)->type\(ctx\)|type)\.level\(\)\s*>\s*0\s*\)\s*throw\s+ParseError\([^;]*;"),
        ("switch", r"switch\s*\(\s*(?:args\.back\(\)->type\(ctx\)|type)\.major\(\)\s*\)\s*\{(.*?)\n\s*\}"),
        ("mand", r"t\s*=\s*p\.pop\(\)\s*;\s*if\s*\(\s*t->code\s*!=\s*Parser::Chain\s*\)\s*throw\s+ParseError\([^;]*;"),
        ("opt", r"if\s*\(\s*p\.front\(\)->code\s*==\s*Parser::Chain\s*\)\s*\{\s*t\s*=\s*p\.pop\(\)\s*;"),
        ("close", r"assertClosedFunction\(p,\s*ctx,\s*\w+\)\s*;"),
        ("ret", r"return\s+new\s+\w+\(std::move\(args\)\)\s*;"),
        ("brace", r"[{}]"),
        ("try", r"try"),
        ("decl", r"std::vector<Expression\*>\s+args\s*;"),
    ]
    body = body.strip()
    while pos < len(body):
        mws = re.match(r"\s+", body[pos:])
        if mws:
            pos += mws.end()
            continue
        for kind, pat in pats:
            mm = re.match(pat, body[pos:], flags=re.S)
            if mm:
                break
        else:
            raise ExtractError("%s: parse() of '%s' contains an unrecognised construct near: %r" % (rel, name, body[pos:pos + 80]))
        pos += mm.end()
        if kind == "optall":
            all_optional = True
        elif kind == "opt":
            optional_from_here = True
        elif kind == "arg":
            args.append({"optional": all_optional or optional_from_here, "checks": []})
        elif kind == "tc":
            args[-1]["checks"].append("tc:" + mm.group(1))
        elif kind == "tcor":
            args[-1]["checks"].append("tcor:%s|%s" % (mm.group(1), mm.group(2)))
        elif kind == "level0":
            args[-1]["checks"].append("level0")
        elif kind == "switch":
            sw = mm.group(1)
            labels = re.findall(r"case\s+Type::(\w+)\s*:", sw)
            # shape A: cases … break; default: throw   shape B: cases … throw; default: break
            first_stmt = re.search(r"case\s+Type::\w+\s*:\s*(?:case\s+Type::\w+\s*:\s*)*(\w+)", sw)
            if not labels or not first_stmt:
                raise ExtractError("%s: unrecognised switch in parse() of '%s'" % (rel, name))
            if first_stmt.group(1) == "break" and re.search(r"default\s*:\s*throw", sw):
                args[-1]["checks"].append("accept:" + "|".join(labels))
            elif first_stmt.group(1) == "throw" and re.search(r"default\s*:\s*break", sw):
                args[-1]["checks"].append("reject:" + "|".join(labels))
            else:
                raise ExtractError("%s: unrecognised switch shape in parse() of '%s'" % (rel, name))
    return args


MAJ = {"NO_TYPE": ".none", "BOOLEAN": ".bool", "INTEGER": ".int", "NUMERIC": ".num", "LITERAL": ".str",
       "COMPLEX": ".obj", "TABCHAR": ".raw", "ROWTYPE": ".tup", "POINTER": ".ptr", "IMAGINARY": ".imag"}


def lean_check(c):
    if c == "level0":
        return ".level0"
    k, v = c.split(":")
    ms = "[" + ", ".join(MAJ[x] for x in v.split("|")) + "]"
    if k == "tc":
        return ".tc " + MAJ[v]
    if k == "tcor":
        a, b = v.split("|")
        return ".tcor %s %s" % (MAJ[a], MAJ[b])
    return ".%s %s" % (k, ms)


def gen_sigs():
    kws = string_array(rd("blocc/expression_builtin.cpp"), r"BuiltinExpression::KEYWORDS\[\]", "blocc/expression_builtin.cpp")
    files = {"on": "true", "off": "false", "null": "null", "replace": "replace"}
    o = ["-- GENERATED by extract/sigs.py from the parse() method of every blocc/builtin/builtin_*.cpp. Do not edit.",
         "import BlocV.Model.Basic", "namespace BlocV.Gen", "",
         "/-- One parse-time check on an argument of a built-in (see extract/sigs.py). -/",
         "inductive ArgCheck", "  | tc (m : Major)", "  | tcor (a b : Major)", "  | level0", "  | accept (ms : List Major)",
         "  | reject (ms : List Major)", "  deriving Repr", "",
         "structure ArgSpec where", "  optional : Bool", "  checks : List ArgCheck", "  deriving Repr", "",
         "/-- (name, argument specs) for every built-in whose parse() follows the regular idioms. -/",
         "def builtinSigs : List (String × List ArgSpec) := ["]
    rows = []
    hand = []
    for kw in kws:
        if kw in HAND:
            hand.append(kw)
            continue
        rel = "blocc/builtin/builtin_%s.cpp" % files.get(kw, kw)
        sig = extract_sig(kw, rel)
        rows.append('  ("%s", [%s])' % (kw, ", ".join("{ optional := %s, checks := [%s] }" % (
            "true" if a["optional"] else "false", ", ".join(lean_check(c) for c in a["checks"])) for a in sig)))
    o.append(",\n".join(rows))
    o.append("]")
    o.append("")
    # static result types: `const Type& type(Context& ctx) const override { return Value::type_X; }` in the header
    tymap = {"type_boolean": ".bool", "type_integer": ".int", "type_numeric": ".num", "type_literal": ".str", "type_tabchar": ".raw",
             "type_imaginary": ".imag", "type_no_type": ".none", "type_complex": ".obj", "type_rowtype": ".tup"}
    trows = []
    for kw in kws:
        rel = "blocc/builtin/builtin_%s.h" % files.get(kw, kw)
        try:
            h = strip_comments(rd(rel))
        except ExtractError:
            continue
        m = re.search(r"const\s+Type\s*&\s*type\s*\(\s*Context\s*&\s*ctx\s*\)\s*const\s*override\s*(\{[^}]*\}|;)", h)
        if not m:
            raise ExtractError("%s: type() declaration not found" % rel)
        body = m.group(1)
        mc = re.search(r"return\s+Value::(type_\w+)\s*;", body)
        if mc and mc.group(1) in tymap:
            trows.append('  ("%s", .const %s)' % (kw, tymap[mc.group(1)]))
        elif re.search(r"return\s+_args\[0\]->type\(ctx\)\s*;", body):
            trows.append('  ("%s", .arg0)' % kw)
        else:
            trows.append('  ("%s", .custom)' % kw)
    o.append("/-- Static result type of a built-in as written in its header: a constant type, the type of its")
    o.append("first argument, or computed by code (`custom`: transcribed by hand in the model). -/")
    o.append("inductive RetSpec")
    o.append("  | const (m : Major)")
    o.append("  | arg0")
    o.append("  | custom")
    o.append("  deriving Repr")
    o.append("")
    o.append("def builtinTypes : List (String × RetSpec) := [")
    o.append(",\n".join(trows))
    o.append("]")
    o.append("")
    o.append("def builtinHand : List String := [" + ", ".join('"%s"' % h for h in hand) + "]")
    o.append("")
    o.append("end BlocV.Gen")
    return "\n".join(o) + "\n"


if __name__ == "__main__":
    print(gen_sigs())
