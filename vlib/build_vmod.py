"""Build of the verification-only plugin modules of harness/vmod (C16, C17).

`vmod_build()` compiles harness/vmod/vmod.cpp twice against the headers of /repo and the libblocc of the current
sanitizer build: `libbloc_vmod.so.<SOVERSION>` (module name "vmod") and `libbloc_vmod2.so.<SOVERSION>` (module name
"vmod2"), and returns the directory holding them. The directory lives inside the impl build directory (so it is
dropped together with it) and is keyed by the hash of the module source.

How BLOC finds a module (blocc/plugin_manager.cpp): `import NAME;` calls
`dlopen("libbloc_" NAME ".so." LIBSOVERSION, RTLD_LAZY)` with a bare file name, so the dynamic loader's search order
applies (LD_LIBRARY_PATH, the RPATH/RUNPATH of the process, ld.so.cache, default directories); `import "<path>";`
(trusted contexts only) calls `dlopen(<path>)` verbatim. No environment variable of BLOC's own is involved.
LIBSOVERSION is a compile definition of libblocc (= VERSION_MAJOR.VERSION_MINOR of /repo/CMakeLists.txt); here it is
read off the built library's file name. `probe_env()` returns the environment additions the probe needs:
LD_LIBRARY_PATH = the vmod directory + the directories of the repo's own modules (csv is used as a third module)."""
import glob
import os
import re
import time

from . import build


def soversion(impl_dir):
    """SOVERSION of the built libblocc (e.g. '2.9'), read from blocc/libblocc.so.<major>.<minor>"""
    best = None
    for p in glob.glob(os.path.join(impl_dir, "blocc", "libblocc.so.*")):
        m = re.search(r"libblocc\.so\.(\d+\.\d+)$", p)
        if m:
            best = m.group(1)
    if best is None:
        # fall back on the CMake variables
        txt = open(os.path.join(build.REPO, "CMakeLists.txt")).read()
        ma = re.search(r'set\s*\(\s*VERSION_MAJOR\s+"(\d+)"', txt)
        mi = re.search(r'set\s*\(\s*VERSION_MINOR\s+"(\d+)"', txt)
        if not (ma and mi):
            raise build.BuildError("vmod: cannot determine LIBSOVERSION of libblocc", impl_dir)
        best = "%s.%s" % (ma.group(1), mi.group(1))
    return best


def vmod_build(variant="asan"):
    """Returns (directory, soversion). The directory holds libbloc_vmod.so.<sov> and libbloc_vmod2.so.<sov>."""
    d = build.impl_build(variant)
    src = os.path.join(build.VERIF, "harness", "vmod", "vmod.cpp")
    if not os.path.isfile(src):
        raise build.BuildError("vmod: source file missing", src)
    sov = soversion(d)
    flags = {"asan": build.SAN, "tsan": "-fsanitize=thread -fno-omit-frame-pointer", "plain": ""}[variant].split()
    hh = build.files_hash([src])
    out = os.path.join(d, "vmod-%s" % hh)
    with build.Lock("vmod-%s" % variant):
        if os.path.exists(os.path.join(out, ".done")):
            return out, sov
        os.makedirs(out, exist_ok=True)
        t0 = time.time()
        for name in ("vmod", "vmod2"):
            lib = os.path.join(out, "libbloc_%s.so.%s" % (name, sov))
            cmd = (["g++", "-std=c++11", "-O1", "-g", "-fPIC", "-shared", "-D" + build.GUARD, '-DVMOD_NAME="%s"' % name]
                   + flags + ["-I" + build.REPO, "-I" + d, src, "-o", lib + ".tmp",
                              "-Wl,-soname,libbloc_%s.so.%s" % (name, sov),
                              "-L" + os.path.join(d, "blocc"), "-lblocc", "-Wl,-rpath," + os.path.join(d, "blocc")])
            rc, o = build._sh(cmd, logfile=os.path.join(d, "build.log"))
            if rc != 0:
                raise build.BuildError("harness/vmod does not compile against the current tree", o[-6000:])
            os.rename(lib + ".tmp", lib)
        open(os.path.join(out, ".done"), "w").write(hh)
        build.log("built vmod modules in %.1fs -> %s" % (time.time() - t0, out))
        return out, sov


def module_dirs(impl_dir):
    """directories of the repo's own modules in the impl build (csv, utf8, ...)"""
    base = os.path.join(impl_dir, "modules")
    if not os.path.isdir(base):
        return []
    return sorted(os.path.join(base, e) for e in os.listdir(base)
                  if glob.glob(os.path.join(base, e, "libbloc_*.so*")))


def probe_env(variant="asan"):
    """Environment additions for blocprobe so that `import vmod;`, `import vmod2;`, `import csv;` resolve,
    plus the facts the case generators need (absolute paths for import-by-path)."""
    out, sov = vmod_build(variant)
    d = build.impl_build(variant)
    dirs = [out] + module_dirs(d)
    old = os.environ.get("LD_LIBRARY_PATH", "")
    env = {"LD_LIBRARY_PATH": ":".join(dirs + ([old] if old else []))}
    info = {"dir": out, "sov": sov,
            "vmod_path": os.path.join(out, "libbloc_vmod.so.%s" % sov),
            "vmod2_path": os.path.join(out, "libbloc_vmod2.so.%s" % sov),
            "csv_path": os.path.join(d, "modules", "csv", "libbloc_csv.so.%s" % sov)}
    return env, info
