"""The decision procedure of one check run (DESIGN.md §5): rebuild Impl, re-extract the generated
tables, re-check the proofs (build + axiom audit + forbidden-token scan), run the correspondence,
decide, write evidence."""
import json
import os
import random
import re
import subprocess
import sys
import time

from . import build, run

VERIF = build.VERIF
LEAN = build.LEAN
ALLOWED_AXIOMS = {"propext", "Classical.choice", "Quot.sound"}
FORBIDDEN = [r"\bsorry\b", r"\badmit\b", r"^\s*axiom\s", r"\bnative_decide\b", r"\bbv_decide\b",
             r"implemented_by", r"\bunsafe\s", r"maxHeartbeats\s+0\b"]
PARTIAL_OK = {"Main.lean", os.path.join("BlocV", "Proto.lean"), os.path.join("BlocV", "SExp.lean"), os.path.join("BlocV", "DrvC18.lean"), os.path.join("BlocV", "DrvC12.lean"), os.path.join("BlocV", "DrvC15.lean")}

HAZARD_CRASH = {
    "nullDeref": lambda c: c in ("segv", "ubsan:null") or c.startswith("asan:"),
    "signedOverflow": lambda c: c == "ubsan:signed-integer-overflow",
    "divOverflow": lambda c: c in ("fpe", "ubsan:div-overflow"),
    "shiftRange": lambda c: c == "ubsan:shift",
    "floatToInt": lambda c: c == "ubsan:float-cast-overflow",
    "foreignException": lambda c: c.startswith("exc:") or c == "abort",
    "oob": lambda c: c.startswith("asan:") or c in ("exc:std::out_of_range", "segv", "ubsan:bounds"),
}


GEN_ONLY_FOR = {"OpTypes.lean": {"C02"}, "MemberSigs.lean": {"C02"}}


def log(*a):
    print("[check]", *a, file=sys.stderr, flush=True)


def load_findings():
    p = os.path.join(VERIF, "known_findings.json")
    if not os.path.exists(p):
        return []
    return json.load(open(p))["findings"]


def strip_lean_comments(text):
    # nested block comments and line comments
    out, i, depth = [], 0, 0
    while i < len(text):
        if text.startswith("/-", i):
            depth += 1
            i += 2
        elif depth and text.startswith("-/", i):
            depth -= 1
            i += 2
        elif depth:
            if text[i] == "\n":
                out.append("\n")
            i += 1
        elif text.startswith("--", i):
            j = text.find("\n", i)
            i = len(text) if j < 0 else j
        else:
            out.append(text[i])
            i += 1
    return "".join(out)


def forbidden_scan():
    hits = []
    for root, _, files in os.walk(LEAN):
        if ".lake" in root or os.sep + "scratch" in root:
            continue
        for fn in files:
            if not fn.endswith(".lean"):
                continue
            p = os.path.join(root, fn)
            rel = os.path.relpath(p, LEAN)
            code = strip_lean_comments(open(p).read())
            for pat in FORBIDDEN:
                for m in re.finditer(pat, code, flags=re.M):
                    hits.append("%s: %s" % (rel, m.group(0).strip()))
            if rel not in PARTIAL_OK and re.search(r"\bpartial\s+def\b", code):
                hits.append("%s: partial def" % rel)
    return hits


def theorems_of(module):
    p = os.path.join(LEAN, module.replace(".", os.sep) + ".lean")
    code = strip_lean_comments(open(p).read())
    ns = []
    names = []
    for ln in code.split("\n"):
        m = re.match(r"\s*namespace\s+(\S+)", ln)
        if m:
            ns.append(m.group(1))
            continue
        m = re.match(r"\s*end\s+(\S+)", ln)
        if m and ns and ns[-1] == m.group(1):
            ns.pop()
            continue
        m = re.match(r"\s*(?:@\[[^\]]*\]\s*)?(?:protected\s+|private\s+)?theorem\s+([^\s:({\[]+)", ln)
        if m:
            names.append(".".join(ns + [m.group(1)]))
    return names


def audit_axioms(module, theorems):
    """#print axioms for every theorem; returns dict name -> set(axioms) (or None when it failed)."""
    if not theorems:
        return {}, ""
    tmp = os.path.join(LEAN, ".lake", "audit_%s_%d.lean" % (module.replace(".", "_"), os.getpid()))
    with open(tmp, "w") as f:
        f.write("import %s\n" % module)
        for t in theorems:
            f.write("#print axioms %s\n" % t)
    r = subprocess.run(["lake", "env", "lean", tmp], cwd=LEAN, stdout=subprocess.PIPE, stderr=subprocess.STDOUT, text=True)
    os.unlink(tmp)
    res = {}
    out = r.stdout
    for t in theorems:
        m = re.search(r"'%s' depends on axioms: \[([^\]]*)\]" % re.escape(t), out, flags=re.S)
        if m:
            res[t] = set(x.strip() for x in m.group(1).replace("\n", " ").split(",") if x.strip())
        elif re.search(r"'%s' does not depend on any axioms" % re.escape(t), out):
            res[t] = set()
        else:
            res[t] = None
    return res, out


class Case:
    __slots__ = ("cid", "model_line", "impl_line", "meta", "pick")

    def __init__(self, cid, model_line, impl_line, meta=None, pick=-1):
        self.cid = cid
        self.model_line = model_line    # text after the id, for blocv
        self.impl_line = impl_line      # ops for blocprobe
        self.meta = meta or {}
        self.pick = pick                # which '|' part of the impl answer is the outcome


def parse_model(ans):
    """'model=<..> spec=<..> kf=<..>' -> dict"""
    d = {}
    for key in ("model", "spec", "kf", "note"):
        m = re.search(r"(?:^| )%s=(.*?)(?= (?:model|spec|kf|note)=|$)" % key, ans)
        if m:
            d[key] = m.group(1)
    return d


def outcomes_agree(impl, model):
    """impl: 'ok V' | 'ok-' | 'rerr c [arg]' | 'perr c l:c' | 'crash cls' | 'diverges';
    model: same vocabulary plus 'hazard h' and 'perr c' without position."""
    if model.startswith("hazard "):
        h = model.split()[1]
        if h == "diverges":
            return impl.endswith("diverges")
        if impl.startswith("crash "):
            return HAZARD_CRASH.get(h, lambda c: False)(impl.split(" ", 1)[1])
        if h == "foreignException" and "foreign-exception" in impl:
            return True
        return False
    if model.startswith("perr ") and impl.startswith("perr "):
        return model.split()[1] == impl.split()[1]
    return impl == model


class Check:
    """Base class of a property check. Subclasses define: pid, proof_modules, gen_cases(),
    and may override judge()."""
    pid = "C00"
    proof_modules = []
    harness = "blocprobe"
    level = "proof"
    trusted_base = [
        "Lean 4.33 kernel + elaborator (theorems audited to depend only on propext, Classical.choice, Quot.sound)",
        "extract/gen.py (generated tables are the tables in /repo's sources)",
        "harness/blocprobe.cpp + vlib comparator (canonical lines describe what the library did)",
        "Lean compiler/runtime executing Model and Spec in blocv (correspondence only)",
    ]
    assumptions = []
    rule = ""

    def __init__(self, tier, seed):
        self.tier = tier
        self.seed = seed
        self.rng = random.Random(seed * 1000003 + sum(map(ord, self.pid)))
        self.t0 = time.time()
        self.violations = []       # (what, replay dict)
        self.known_hits = {}       # finding id -> what
        self.findings = [f for f in load_findings() if f["property"] == self.pid]
        self.stats = {}
        self.samples = []
        self.obligations = 0
        self.discharged = 0
        self.axioms = {}
        self.broken_ties = []      # strings naming theorem / extractor / build that no longer checks
        self.evaluations = 0
        self.distinct = set()

    # ---------------------------------------------------------------- steps
    def step_extract(self):
        sys.path.insert(0, os.path.join(VERIF, "extract"))
        import gen
        changed, errors = gen.regenerate()
        if changed:
            log("generated tables changed:", changed)
            self.stats["gen_changed"] = changed
        for e in errors:
            # an extractor that no longer recognises its source construct breaks the tie of the properties whose theorems /
            # driver answers use that table; the tables of extract/optypes.py are used by C02's obligations (Proofs/C02G) only —
            # the other checks keep running against the last good table, which none of their answers depends on
            only = next((props for name, props in GEN_ONLY_FOR.items() if e.startswith(name + ":")), None)
            if only is not None and self.pid not in only:
                self.stats.setdefault("extractor_errors_of_other_properties", []).append(e[:300])
                continue
            self.broken_ties.append("extractor: " + e)

    def step_proofs(self):
        hits = forbidden_scan()
        for h in hits:
            self.broken_ties.append("forbidden token in Lean sources: " + h)
        # the driver and THIS property's proof modules (with what they import) — not the umbrella library: a proof obligation of
        # another property that no longer checks (e.g. a generated table of C02 after a change to parse_expression.cpp) is that
        # property's broken tie, not this one's
        ok, out = build.lean_build(["blocv"] + list(self.proof_modules))
        if not ok:
            errs = [ln for ln in out.split("\n") if "error" in ln.lower()][:20]
            self.broken_ties.append("lake build failed: " + " | ".join(errs)[:1500])
            # the search for a failing input needs the executable model: the driver imports Model/Spec only,
            # so it can usually still be built when a proof file no longer checks
            build.lean_build(["blocv"])
        for mod in self.proof_modules:
            thms = theorems_of(mod)
            self.obligations += len(thms)
            if not ok:
                # find out which theorems of this module still check: build the module alone
                ok_m, out_m = build.lean_build([mod])
                if not ok_m:
                    self.broken_ties.append("proof module %s no longer checks" % mod)
                    continue
            ax, raw = audit_axioms(mod, thms)
            for t in thms:
                a = ax.get(t)
                if a is None:
                    self.broken_ties.append("theorem %s: axiom audit failed" % t)
                elif not a <= ALLOWED_AXIOMS:
                    self.broken_ties.append("theorem %s depends on %s" % (t, sorted(a - ALLOWED_AXIOMS)))
                else:
                    self.discharged += 1
                    self.axioms[t] = sorted(a)
        if self.tier == "thorough":
            for mod in self.proof_modules:
                r = subprocess.run(["lake", "env", "leanchecker", mod], cwd=LEAN, stdout=subprocess.PIPE,
                                   stderr=subprocess.STDOUT, text=True)
                self.stats.setdefault("leanchecker", {})[mod] = "ok" if r.returncode == 0 else r.stdout[-500:]
                if r.returncode != 0:
                    self.broken_ties.append("leanchecker rejects %s" % mod)
        return ok

    def gen_cases(self):
        return []

    def corpus_cases(self):
        return []

    def step_correspondence(self):
        cases = self.corpus_cases() + self.gen_cases()
        if not cases:
            return
        try:
            hbin = build.harness_build(self.harness)
        except build.BuildError as e:
            self.broken_ties.append("build: %s: %s" % (e.what, e.output[-800:]))
            return
        t = time.time()
        impl = run.run_harness(hbin, ["%s %s" % (c.cid, c.impl_line) for c in cases], timeout_s=self.case_timeout())
        self.stats["impl_s"] = round(time.time() - t, 1)
        t = time.time()
        mlines = ["%s %s" % (c.cid, c.model_line) for c in cases if c.model_line]
        model = run.run_driver(mlines) if mlines else {}
        self.stats["model_s"] = round(time.time() - t, 1)
        if "#driver-error" in model:
            self.broken_ties.append("driver: " + model["#driver-error"][-400:])
        for c in cases:
            self.evaluations += 1
            iraw = impl.get(c.cid)
            if iraw is None:
                self.record_violation("harness lost case", c, "?", {})
                continue
            m = parse_model(model.get(c.cid, "")) if c.model_line else {}
            self.judge(c, iraw, m, impl.get(c.cid + "#stderr", ""))

    def case_timeout(self):
        return 10

    def impl_outcome(self, c, iraw):
        if iraw.startswith("crash ") or iraw.endswith("diverges"):
            return iraw
        parts = iraw.split("|")
        return parts[c.pick] if parts else iraw

    def nontrivial(self, c, iout, m):
        return True

    def judge(self, c, iraw, m, stderr):
        iout = self.impl_outcome(c, iraw)
        mout = m.get("model")
        key = (c.model_line, iout)
        if self.nontrivial(c, iout, m):
            self.distinct.add(key)
        self.tally(c, iout, m)
        if len(self.samples) < 12 and self.rng.random() < 0.02:
            self.samples.append({"case": c.model_line or c.impl_line, "impl": iout, "model": mout, "spec": m.get("spec")})
        if mout is None:
            self.record_violation("model gave no answer", c, iout, m)
            return
        if mout == "unmodelled":
            self.stats["unmodelled"] = self.stats.get("unmodelled", 0) + 1
            return
        kf = m.get("kf")
        if kf is None and mout.startswith("hazard "):
            kf = self.hazard_kf(c, mout.split()[1])
        spec = m.get("spec")
        agree_model = outcomes_agree(iout, mout)
        agree_spec = (spec is None) or outcomes_agree(iout, spec)
        if kf:
            entry = next((f for f in self.findings if f["id"] == kf and f.get("status", "known") == "known"), None)
            if entry is not None and (agree_model or (spec is not None and agree_spec)):
                if agree_model and not (spec is not None and agree_spec and not mout.startswith("hazard")):
                    self.known_hits.setdefault(kf, {"what": entry["what"], "example": c.model_line or c.impl_line, "impl": iout})
                return
            self.record_violation("behaviour in known-finding region %s matches neither the recorded defect nor the specification" % kf
                                  if entry else "hazard/defect region %s is not a listed known finding" % kf, c, iout, m, stderr)
            return
        if mout.startswith("hazard "):
            self.record_violation("model reaches a C-level hazard outside every recorded region", c, iout, m, stderr)
            return
        if not agree_model:
            self.record_violation("implementation differs from the model" + ("" if agree_spec else " and from the specification"),
                                  c, iout, m, stderr)
            return
        if not agree_spec:
            self.record_violation("implementation and model agree but contradict the specification", c, iout, m, stderr)

    def hazard_kf(self, c, hazard):
        """Name of the known-finding region a model hazard belongs to (None = no region)."""
        return None

    def tally(self, c, iout, m):
        k = iout.split(" ")[0] + ((" " + iout.split(" ")[1]) if iout.startswith(("rerr", "perr", "crash")) and " " in iout else "")
        d = self.stats.setdefault("impl_outcomes", {})
        d[k] = d.get(k, 0) + 1

    def record_violation(self, what, c, iout, m, stderr=""):
        self.violations.append({"what": what, "case": c.model_line, "impl_ops": c.impl_line, "impl": iout,
                                "model": m.get("model"), "spec": m.get("spec"), "kf": m.get("kf"), "meta": c.meta,
                                "stderr_tail": stderr[-1500:] if stderr else ""})

    # ---------------------------------------------------------------- search when a tie broke without a witness
    def search_failing_input(self):
        """Called when a tie is broken but the correspondence found no concrete failing input.
        Subclasses may run a deeper enumeration; default: nothing further."""
        return None

    # ---------------------------------------------------------------- replay of a recorded violation file
    def replay(self, rep):
        """`./check Cnn --replay <file>`: the cases recorded in a replay file are run again on the CURRENT tree through the harness
        and the driver and judged as in a normal run: exit 1 (with a VIOLATION line naming the replay) while one of them still
        fails, exit 0 when all pass. A file that records only broken ties re-checks the proof obligations instead."""
        path = rep.get("replay", "").split("--replay")[-1].strip() or "replays/%s-%s-seed%d.json" % (self.pid, self.tier, self.seed)
        self.step_extract()
        try:
            build.impl_build()
        except build.BuildError as e:
            print("BUILD-ERROR: %s" % e.what)
            return 2
        recs = [v for v in rep.get("violations", []) if v.get("impl_ops")]
        if not recs:
            self.step_proofs()
            for b in self.broken_ties[:5]:
                print("  broken: " + b[:300])
            if self.broken_ties:
                print("VIOLATION property=%s replay=%s no-failing-input-found" % (self.pid, path))
            return 1 if self.broken_ties else 0
        build.lean_build(["blocv"])
        cases = []
        for i, v in enumerate(recs):
            c = Case("r%d" % i, v.get("case") or "", v["impl_ops"], v.get("meta") or {})
            cases.append(c)
        # families that pick one '|' part of the answer record the index in the case they generated; the generators are
        # deterministic per seed, so the recorded pick is recovered from the generated case with the same lines when there is one
        try:
            picks = {(g.model_line, g.impl_line): g.pick for g in self.corpus_cases() + self.gen_cases()}
            for c in cases:
                c.pick = picks.get((c.model_line, c.impl_line), c.pick)
        except Exception:
            pass
        hbin = build.harness_build(self.harness)
        impl = run.run_harness(hbin, ["%s %s" % (c.cid, c.impl_line) for c in cases], timeout_s=self.case_timeout())
        mlines = ["%s %s" % (c.cid, c.model_line) for c in cases if c.model_line]
        model = run.run_driver(mlines) if mlines else {}
        for c in cases:
            iraw = impl.get(c.cid, "?")
            m = parse_model(model.get(c.cid, "")) if c.model_line else {}
            print("case=%s\n  impl=%s\n  model=%s spec=%s" % ((c.model_line or c.impl_line)[:300], str(iraw)[:300], m.get("model"), m.get("spec")))
            self.judge(c, iraw, m, impl.get(c.cid + "#stderr", ""))
        for fid, info in sorted(self.known_hits.items()):
            print("KNOWN-FINDING: property=%s %s [%s]" % (self.pid, info["what"], fid))
        if self.violations:
            print("VIOLATION property=%s replay=%s" % (self.pid, path))
            print("  %s" % self.violations[0]["what"])
        return 1 if self.violations else 0

    # ---------------------------------------------------------------- driver
    def run(self):
        self.step_extract()
        try:
            build.impl_build()
        except build.BuildError as e:
            print("BUILD-ERROR: /repo does not build with hooks on: %s\n%s" % (e.what, e.output[-3000:]))
            self.write_evidence(extra={"build_error": e.what})
            return 2
        self.step_proofs()
        self.step_correspondence()
        if self.broken_ties and not self.violations:
            self.search_failing_input()
        return self.finish()

    def finish(self):
        os.makedirs(os.path.join(VERIF, "replays"), exist_ok=True)
        rc = 0
        for fid, info in sorted(self.known_hits.items()):
            print("KNOWN-FINDING: property=%s %s [%s] e.g. %s -> %s" % (self.pid, info["what"], fid, info["example"], info["impl"]))
        if self.violations:
            rc = 1
            # group, keep the smallest representative per 'what'
            self.violations.sort(key=lambda v: len(v.get("impl_ops") or ""))
            path = os.path.join("replays", "%s-%s-seed%d.json" % (self.pid, self.tier, self.seed))
            with open(os.path.join(VERIF, path), "w") as f:
                json.dump({"property": self.pid, "broken_ties": self.broken_ties, "count": len(self.violations),
                           "violations": self.violations[:400],
                           "replay": "./check %s --replay %s" % (self.pid, path)}, f, indent=1)
            print("VIOLATION property=%s replay=%s" % (self.pid, path))
            v = self.violations[0]
            print("  %s: case=%s impl=%s model=%s spec=%s" % (v["what"], v["case"] or v["impl_ops"][:200], v["impl"], v["model"], v["spec"]))
        elif self.broken_ties:
            rc = 1
            path = os.path.join("replays", "%s-%s-seed%d.json" % (self.pid, self.tier, self.seed))
            with open(os.path.join(VERIF, path), "w") as f:
                json.dump({"property": self.pid, "broken_ties": self.broken_ties, "violations": [],
                           "note": "a proof obligation / generated table / build no longer checks; the search over "
                                   "the correspondence streams found no input on which the implementation fails the property"}, f, indent=1)
            print("VIOLATION property=%s replay=%s no-failing-input-found" % (self.pid, path))
            for b in self.broken_ties[:5]:
                print("  broken: " + b[:300])
        if rc == 0:
            stale = os.path.join(VERIF, "replays", "%s-%s-seed%d.json" % (self.pid, self.tier, self.seed))
            if os.path.exists(stale):
                os.unlink(stale)
        self.write_evidence()
        return rc

    def write_evidence(self, extra=None):
        os.makedirs(os.path.join(VERIF, "evidence"), exist_ok=True)
        cov = {
            "obligations": self.obligations,
            "discharged": self.discharged,
            "checker_cmd": "cd lean && lake build %s && lake env lean <#print axioms of every theorem>%s" % (
                " ".join(self.proof_modules), " && lake env leanchecker <module>" if self.tier == "thorough" else ""),
            "trusted_base": self.trusted_base,
            "theorems": self.axioms,
            "evaluations": self.evaluations,
            "distinct_nontrivial": len(self.distinct),
            "rule": self.rule,
            "samples": self.samples[:12] or [{"note": "no correspondence cases in this run"}],
            "stats": dict(self.stats, timeouts_retried=dict(run.RETRY_STATS)),
            "known_findings_hit": sorted(self.known_hits),
            "broken_ties": self.broken_ties,
            "exhaustive": bool(self.stats.get("exhaustive", False)),
        }
        if extra:
            cov.update(extra)
        ev = {"property_id": self.pid, "tier": self.tier, "seed": self.seed, "level": self.level,
              "coverage": cov, "assumptions": self.assumptions, "wall_s": round(time.time() - self.t0, 1),
              "violations": len(self.violations) + (1 if (self.broken_ties and not self.violations) else 0)}
        with open(os.path.join(VERIF, "evidence", "%s.json" % self.pid), "w") as f:
            json.dump(ev, f, indent=1)
