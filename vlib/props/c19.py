"""C19 — the `bloc` command reports outcome, output and arguments faithfully.

Three witnesses per case: the REAL executable (subprocess of <impl build>/apps/bloc under the sanitizer build), the
in-process probe (library: `set $ARG` + `prog` + `out`) and the Lean model (`cli …` driver line; the parser's verdict on
each text is handed to the model as a table, taken from the generator's AST and from the probe)."""
import json
import os
import re
import shutil
import subprocess
import tempfile
import time
from concurrent.futures import ThreadPoolExecutor

from .. import build, progen, run
from ..core import Check, log
from ..progen import I, L, S
from ..run import hx

# entries proposed for known_findings.json (used as a fallback while they are not merged there)
PROPOSED_FINDINGS = [
    {"property": "C19", "id": "C19.returned_table_bytes_not_printed", "status": "known",
     "region": "returned value is a table (level > 0), bytes or an object", "site": "apps/main.cpp:output",
     "witness": "return raw(\"abc\");   /   return tokenize(\"a,b\", \",\");",
     "expected": "the returned value is printed on the selected output (as `print` would: a dump line / string[2])",
     "observed": "nothing is printed, exit status 0",
     "what": "bloc FILE prints nothing for a returned table, bytes or object value (output() has no case for level > 0, TABCHAR, COMPLEX)"},
    {"property": "C19", "id": "C19.interactive_continues_after_return", "status": "known",
     "region": "a top-level `return` that is not the last statement, fed to bloc -i", "site": "apps/cli_parser.cpp:254-262",
     "witness": "return 1;\nprint \"x\";", "expected": "same printed results as bloc FILE: 1",
     "observed": "bloc -i echoes 1, clears the stop condition and goes on: x is printed too",
     "what": "interactive mode clears the stop condition after a top-level return and executes the following statements (batch stops)"},
    {"property": "C19", "id": "C19.interactive_function_redefinition", "status": "known",
     "region": "a function declared twice with calls in between", "site": "batch: Parser::parse declares everything before run",
     "witness": "function f() return integer is begin return 1; end;\nprint f();\nfunction f() return integer is begin return 2; end;\nprint f();",
     "expected": "same printed results in both modes", "observed": "bloc FILE prints 2 2, bloc -i prints 1 2",
     "what": "a program that redefines a function prints different results in batch (last definition everywhere) and in interactive mode"},
]

ARGDUMP = 'print "n=" + str($ARG.count());\ni = 0;\nwhile i < $ARG.count() loop\n  print "[" + $ARG.at(i) + "]";\n  i = i + 1;\nend loop;\n'

# the same program as a generator tree (source AND S-expression): the model runs it too
ARGDUMP_AST = [
    ("print", [("bin", "ADD", S("n="), ("call", "str", [("member", "count", ("var", "$ARG"), [])]))]),
    ("let", "I9", I(0)),
    ("while", ("bin", "LT", ("var", "I9"), ("member", "count", ("var", "$ARG"), [])),
     [("print", [("bin", "ADD", ("bin", "ADD", S("["), ("member", "at", ("var", "$ARG"), [("var", "I9")])), S("]"))]),
      ("let", "I9", ("bin", "ADD", ("var", "I9"), I(1)))]),
]

# goal 1 — the argv enumeration: option words x program word x what follows the program word
ENUM_PRE = [[], [b"--out=o.txt"], [b"--color"], [b"--debug"], [b"--debug=x"], [b"--parse"], [b"--out=a.txt", b"--out=o.txt"], [b"--out=o.txt", b"--out="],
            [b"--colour"], [b"--outfile"], [b"--debug=all"]]
ENUM_PROG = [b"p.bloc", b"-", b"./p.bloc"]
ENUM_TAIL = [[], [b"-v", b"tail"], [b"-1", b"-2.5"], [b"--out=trap.txt", b"tail"], [b"-n", b"3"], [b"-i"], [b"-e", b"1"], [b"-h"], [b"--help"], [b"--"],
             [b"-"], [b"-", b"-"], [b"", b""], [b"--debug=all"], [b"--cli", b"--expr"], [b"-x", b"--", b"-y", b"z"], [b"--out="], [b"-\xc3\xa9"], [b"p.bloc"],
             [b"a", b"-b", b"", b"--c=d", b"-"]]
ENUM_BAD = [[b"--", b"p.bloc"], [b"-v", b"p.bloc"], [b"-d", b"p.bloc"], [b"--d", b"p.bloc"], [b"-o", b"p.bloc"], [b"--ou=o.txt", b"p.bloc"], [b"-1", b"p.bloc"],
            [b"--color", b"--", b"-"], [b"--out=o.txt", b"-V", b"-"], [b"-\xc3\xa9", b"p.bloc"], [b"--out", b"o.txt", b"p.bloc"], [b"--out=o.txt", b"", b"x"],
            [b"-", b"p.bloc"], [b"--Out=o.txt", b"p.bloc"], [b"-E", b"1"], [b"-I"], [b"--debug=all", b"-q"], [b"--help", b"p.bloc"], [b"-h", b"-"]]

# goal 2 — physical line lengths (bytes, newline included) around the reader's 1023-byte buffer
LINE_LENGTHS = list(range(1020, 1031)) + list(range(2040, 2051)) + [3069, 3070, 20000]

ARGVECS = [
    [], [b"a"], [b"a", b"b c", b"d"], [b"with space", b"tab\there"], [b"\"quoted\"", b"it's", b"back\\slash"],
    ["héllo wörld".encode(), "日本語".encode(), b"\xf0\x9f\x98\x80"], [b"-x", b"--out=zz", b"-e", b"-i", b"-"],
    [b"", b"x", b""], [b"%s%d", b"$ARG", b";print 1;"], [("a%d" % k).encode() for k in range(40)], [b"x" * 3000],
    [b"--", b"-h", b"--help"],
]

PROBE = [("let", "ZZ", I(0)), ("for", "QQ", I(1), I(3), None, "auto", [("let", "ZZ", ("bin", "ADD", ("var", "ZZ"), ("var", "QQ")))]),
         ("let", "ZW", I(0)), ("while", ("bin", "LT", ("var", "ZW"), I(2)), [("let", "ZW", ("bin", "ADD", ("var", "ZW"), I(1)))]),
         ("begin", [("raise", "PROBE")], [("PROBE", [("print", [S("probe handled")])])]),
         ("print", [("var", "ZZ"), ("var", "ZW")])]


def dbl(x):
    return L("D:%016x" % progen.dbits(x))


# (source text of the returned expression, S-expression of it) — values of every type output() distinguishes
RETURNS = [
    ("7", "(lit I:7)"), ("(-9223372036854775807 - 1)", "(bin SUB (lit I:-9223372036854775807) (lit I:1))"),
    ("2.5", "(lit D:%016x)" % progen.dbits(2.5)), ("(0.1 + 0.2)", "(bin ADD (lit D:%016x) (lit D:%016x))" % (progen.dbits(0.1), progen.dbits(0.2))),
    ("(1.0 / 3.0)", "(bin DIV (lit D:%016x) (lit D:%016x))" % (progen.dbits(1.0), progen.dbits(3.0))),
    ("1e300 * 10.0", None), ("true", "(lit B:1)"), ("false", "(lit B:0)"),
    ('"plain"', "(lit S:%s)" % b"plain".hex()), ('""', "(lit S:)"), ('"two\\nlines\\n"', "(lit S:%s)" % b"two\nlines\n".hex()),
    ('"h\xc3\xa9 \\"q\\" \\\\"', "(lit S:%s)" % 'hé "q" \\'.encode().hex()), ('"%s"' % ("x" * 200), "(lit S:%s)" % (b"x" * 200).hex()),
    ("null", "(lit N:?0)"), ("int()", "(lit N:i0)"), ("str()", "(lit N:s0)"),
    ('tup(1, "a\\"b", 2.5, true)', "(call $tup (lit I:1) (lit S:%s) (lit D:%016x) (lit B:1))" % (b'a"b'.hex(), progen.dbits(2.5))),
    ('tup("x\\ty", raw("abc"), int())', "(call $tup (lit S:%s) (lit R:616263) (lit N:i0))" % b"x\ty".hex()),
    ('raw("abc")', "(call raw (lit S:616263))"), ('raw("")', "(call raw (lit S:))"), ('raw("0123456789abcdefXYZ\\n")', "(call raw (lit S:%s))" % b"0123456789abcdefXYZ\n".hex()),
    ('tokenize("a,b,c", ",")', "(call tokenize (lit S:612c622c63) (lit S:2c))"), ("$ARG", "(var $ARG)"),
]

BROKEN = [  # texts the parser rejects
    'print "a";\nx = = 1;\n', 'print "a"\nprint "b";\n', "x = nosuchfunction(1);\n", "if true then\n  print 1;\n", 'x = 1 + "a";\n',
    "return tup(1, null);\n", 'print 1;\nif 1 then print 1; end if;\n', "begin\nfunction f() return integer is begin return 1; end;\nend;\n", "for i in 1 to loop\nend loop;\n", "\n\n\n      y = (1 + ;\n", 'print "unterminated;\n', "end;\n", "x = 1;;;; y = ;\n",
]


class Case(object):
    def __init__(self, cid, kind, argv, stdin=b"", files=None, prog=None, src=None, sexp=None, items=None, nowrite=(), meta=None, expr=None):
        self.cid, self.kind, self.argv, self.stdin = cid, kind, [a if isinstance(a, bytes) else a.encode() for a in argv], stdin
        self.files = files or {}
        self.prog, self.src, self.sexp, self.items, self.nowrite = prog, src, sexp, items, list(nowrite)
        self.meta = meta or {}
        self.expr = expr            # (text, sexp or None)
        self.real = self.probe = self.model = None


def classify_err(b):
    if not b:
        return "empty"
    m = re.match(br"Error \((\d+):(\d+)\): [^\n]*\n$", b)
    if m:
        return "pos %d:%d" % (int(m.group(1)), int(m.group(2)))
    if re.match(br"Error: [^\n]*(\n[^\n]*)*\n$", b):
        return "msg"
    return "other:" + b[:200].decode("latin-1")


class C19(Check):
    pid = "C19"
    proof_modules = ["BlocV.Proofs.C19"]
    level = "proof"
    rule = ("real executable (subprocess, ASan+UBSan build) vs in-process library probe vs Lean model of apps/main.cpp, on: "
            "seeded random programs (progen) x argument vectors (empty, 40 words, blanks, quotes, non-ASCII, leading '-', empty word, "
            "3000-byte word) x {file, '-' with stdin, --out=FILE, --out + '-'}; one program per returned value type (integer, decimal, "
            "boolean, string incl. NUL-free edge cases, null, typed null, tuple, bytes, table, $ARG); texts the parser rejects (with and "
            "without a position); runtime errors; an argument-dump program per argument vector; option spellings by prefix, unknown "
            "options, -h, unreadable program, unwritable --out; -e with expressions split into words every way; -i fed by stdin "
            "(random programs statement by statement, errors followed by a probe sequence for control-state residue, returned value "
            "echo of every type, rejected text, exit). Compared: exit status, stdout bytes, stderr class (empty / message / "
            "message with line:column, same position), --out file bytes. distinct = (argv, program text, stdin).")
    trusted_base = Check.trusted_base + ["subprocess plumbing of vlib/props/c19.py (argv, stdin, cwd, files as given to the model)"]
    assumptions = ["the parser is outside the model: what Parser::parse / parseExpression / parseStatement make of a text is an input of the "
                   "model (taken from the generator's AST and the in-process probe)",
                   "stdio buffering, readline's echo of piped input and the Elapsed figure are normalised, not modelled"]

    def __init__(self, tier, seed):
        Check.__init__(self, tier, seed)
        have = {f["id"] for f in self.findings}
        self.findings += [dict(f, proposed=True) for f in PROPOSED_FINDINGS if f["id"] not in have]

    # ------------------------------------------------------------------------------------------------ cases
    def gen_cases(self):
        quick = self.tier == "quick"
        cases = []
        n = [0]
        self.longload = []

        def add(kind, argv, **kw):
            n[0] += 1
            c = Case("k%d" % n[0], kind, argv, **kw)
            cases.append(c)
            return c

        def prog_variants(kind, prog=None, src=None, sexp=None, args=(), combos=(0, 1, 2, 3), meta=None):
            if prog is not None:
                src, sexp = progen.program_src(prog), progen.program_sexp(prog)
            bs = src.encode("latin-1")
            for k in combos:
                if k == 0:
                    add(kind, [b"p.bloc"] + list(args), files={"p.bloc": bs}, src=src, sexp=sexp, meta=meta)
                elif k == 1:
                    add(kind, [b"-"] + list(args), stdin=bs, src=src, sexp=sexp, meta=meta)
                elif k == 2:
                    add(kind, [b"--out=o.txt", b"p.bloc"] + list(args), files={"p.bloc": bs}, src=src, sexp=sexp, meta=meta)
                elif k == 3:
                    add(kind, [b"--color", b"--out=sub.out", b"-"] + list(args), stdin=bs, src=src, sexp=sexp, meta=meta)
                elif k == 4:   # CRLF source
                    add(kind, [b"p.bloc"] + list(args), files={"p.bloc": bs.replace(b"\n", b"\r\n")}, src=src, sexp=sexp, meta=meta)

        # A. random programs
        for k in range(150 if quick else 1500):
            g = progen.Gen(self.rng, nvars=2, funcs=(k % 2 == 0), errors=0.12)
            prog = g.program(nstmts=self.rng.randint(3, 7), depth=3)
            if k % 3 == 0:
                prog.append(("return", g.expr(self.rng.choice("idbs"), 1, set())))
            combos = (0, 1, 2, 3, 4) if k % 5 == 0 else (k % 4, (k + 1) % 4)
            prog_variants("random", prog=prog, args=ARGVECS[k % len(ARGVECS)], combos=combos)
        # A2. long source lines (the file / stdin reader hands the scanner 1023-byte pieces): string literals of
        # 1000..3100 characters on one line, lengths printed and the text itself printed
        for ln in (1000, 1010, 1021, 1022, 1023, 1024, 1025, 2045, 2046, 2047, 3000, 3100):
            body = "".join(chr(97 + (i * 7) % 26) for i in range(ln))
            prog = [("print", [("call", "strlen", [S(body)])]), ("print", [S(body)]), ("print", [S("end")])]
            prog_variants("longline", prog=prog, combos=(0, 1, 4) if quick else (0, 1, 2, 3, 4))
        # A3. physical lines of 1020..1030, 2040..2050, … 20000 bytes (newline included): a long string literal printed
        # (any dropped / duplicated byte shows), followed on the NEXT line by a statement that must still be there;
        # through `bloc file`, `bloc -` (and CRLF variants at some lengths)
        dist = self.stats.setdefault("distribution", {})
        ll = dist.setdefault("longline_physical_lengths", {})
        for ln in LINE_LENGTHS:
            # one physical line `print "piece" "piece" … ;` of exactly ln bytes (newline included); pieces of <= 100 bytes (the
            # S-expression reader of the driver is quadratic in the length of an atom), all different
            def mk(sizes):
                return [("print", [S("".join(chr(97 + (i * 11 + k * 7 + ln) % 26) for i in range(z))) for k, z in enumerate(sizes)]),
                        ("print", [S("next line reached")])]
            k = -(-(ln - 7) // 105)                       # line = `print ("…") ("…") … ;\n` = 7 + sum(sizes) + 5 * k bytes
            tot = ln - 7 - 5 * k
            sizes = [tot // k + (1 if i < tot % k else 0) for i in range(k)]
            prog = mk(sizes)
            src = progen.program_src(prog)
            first = src.split("\n")[0]
            assert len(first) + 1 == ln, (len(first), ln)
            ll[str(ln)] = ll.get(str(ln), 0) + 2
            prog_variants("longline", prog=prog, combos=(0, 1, 4) if ln % 5 == 0 or ln >= 3000 else (0, 1))
            self.longload.append((ln, src, prog))
        # A4. goal 1: the argv enumeration — option words x program word x what follows it; the program dumps $ARG
        ad_src, ad_sx = progen.program_src(ARGDUMP_AST), progen.program_sexp(ARGDUMP_AST)
        ad_bs = ad_src.encode("latin-1")
        en = dist.setdefault("argvenum", {"pre": {}, "prog": {}, "tail_first_word": {}, "bad": 0})
        k = 0
        for pre in ENUM_PRE:
            for pw in ENUM_PROG:
                for tail in ENUM_TAIL:
                    k += 1
                    if quick and not (pw == b"-" or not pre or k % 3 == 0):
                        continue
                    av = pre + [pw] + tail
                    add("argvenum", av, files={"p.bloc": ad_bs}, stdin=ad_bs if pw == b"-" else b"", src=ad_src, sexp=ad_sx,
                        meta={"debugall": b"--debug=all" in pre})
                    en["pre"][" ".join(a.decode("latin-1") for a in pre) or "(none)"] = en["pre"].get(" ".join(a.decode("latin-1") for a in pre) or "(none)", 0) + 1
                    en["prog"][pw.decode()] = en["prog"].get(pw.decode(), 0) + 1
                    fw = (tail[0].decode("latin-1") if tail else "(no tail)")
                    fw = "(empty word)" if fw == "" else fw
                    en["tail_first_word"][fw] = en["tail_first_word"].get(fw, 0) + 1
        for av in ENUM_BAD:
            add("argvenum", av, files={"p.bloc": ad_bs}, stdin=ad_bs, src=ad_src, sexp=ad_sx, meta={"debugall": b"--debug=all" in av[:1]})
            en["bad"] += 1
        # B. one program per returned value type
        for src_e, sx_e in RETURNS:
            src = 'print "out";\nreturn %s;\n' % src_e
            sexp = None if sx_e is None else "(print (lit S:6f7574)) (return %s)" % sx_e
            prog_variants("return", src=src, sexp=sexp, args=[b"q", b"r s"], combos=(0, 2) if quick else (0, 1, 2, 3), meta={"ret": src_e})
        prog_variants("return", src='print "no return";\n', sexp="(print (lit S:%s))" % b"no return".hex(), combos=(0, 2))
        prog_variants("return", src='print "bare";\nreturn;\nprint "not reached";\n',
                      sexp="(print (lit S:62617265)) (return -) (print (lit S:%s))" % b"not reached".hex(), combos=(0, 2))
        prog_variants("return", src="", sexp="", combos=(0, 1, 2))
        # C. rejected texts, runtime errors
        for t in BROKEN:
            prog_variants("broken", src=t, sexp=None, args=[b"a"], combos=(0, 1, 2))
        for fail in [("let", "X", ("bin", "DIV", I(1), I(0))), ("raise", "E1"), ("let", "S9", ("call", "chr", [I(300)])),
                     ("let", "X8", ("call", "int", [S("xyz")])), ("raise", "DIVIDE_BY_ZERO")]:
            for wrap in (0, 1, 2):
                body = [("print", [S("before")]), fail, ("print", [S("not reached")])]
                if wrap == 1:
                    body = [("for", "K1", I(1), I(3), None, "auto", [("begin", body, [("E2", [("print", [S("wrong handler")])])])])]
                elif wrap == 2:
                    f = ("func", "FF", ["I7"], "i", body + [("return", I(1))], [])
                    body = [f, ("print", [("fcall", "FF", [I(1)])])]
                prog_variants("rterr", prog=body + [("print", [S("end")])], args=[b"a"], combos=(0, 1, 2, 3))
        # D. argument table
        for av in ARGVECS:
            prog_variants("argdump", src=ARGDUMP, sexp=None, args=av, combos=(0, 1, 2))
        # E. options
        ok_src = 'print "run";\nreturn 3;\n'
        ok_sx = "(print (lit S:72756e)) (return (lit I:3))"
        F = {"p.bloc": ok_src.encode("latin-1")}
        for argv in [[b"--outfoo", b"p.bloc"], [b"--out", b"p.bloc"], [b"--out=", b"p.bloc"], [b"--out=a.txt", b"--out=b.txt", b"p.bloc"],
                     [b"--output=a.txt", b"p.bloc"], [b"--colorful", b"p.bloc"], [b"--parse", b"p.bloc"], [b"--parsec", b"--color", b"p.bloc", b"--out=x"],
                     [b"p.bloc", b"--out=x.txt"], [b"-x", b"p.bloc"], [b"--ou", b"p.bloc"], [b"-h"], [b"--help"], [b"-help", b"p.bloc"], [b"--help=1"],
                     [b"-h", b"p.bloc"], [b"p.bloc", b"-h"], [b"--color", b"-q"], [b"-", b"-"], [b"nofile.bloc", b"a"], [b"", b"a"], [b"--out=o.txt", b"nofile.bloc"],
                     [b"--out=nodir/o.txt", b"p.bloc"], [b"--out=nodir/o.txt", b"nofile.bloc"], [b"--out=o.txt", b"--out=nodir/o2.txt", b"p.bloc"],
                     [b"./p.bloc"], [b"--out=./o.txt", b"./p.bloc", b"z"]]:
            add("option", argv, files=F, src=ok_src, sexp=ok_sx, stdin=ok_src.encode() if b"-" in argv else b"",
                nowrite=[a[6:] for a in argv if a.startswith(b"--out=nodir")])
        # F. expression mode
        exprs = [("1 + 2", "(bin ADD (lit I:1) (lit I:2))"), ('"a b" + "c"', "(bin ADD (lit S:612062) (lit S:63))"), ("1 / 0", "(bin DIV (lit I:1) (lit I:0))"),
                 ("1 +", None), ("", None), ("tokenize(\"a,b\", \",\")", "(call tokenize (lit S:612c62) (lit S:2c))"), ("raw(\"ab\")", "(call raw (lit S:6162))"),
                 ("null", "(lit N:?0)"), ("2.5 * 2", "(bin MUL (lit D:%016x) (lit I:2))" % progen.dbits(2.5)), ("true and false", "(bin BAND (lit B:1) (lit B:0))"),
                 ("chr(300)", "(call chr (lit I:300))"), ("$ARG", None), ('"x" ; print 2', "(lit S:78)"), ("(1", None), ('tup(1, "a")', "(call $tup (lit I:1) (lit S:61))")]
        for k in range(40 if quick else 400):
            g = progen.Gen(self.rng, nvars=1, funcs=False, errors=0.2)
            e = g.expr(self.rng.choice("idbs"), 2, set())
            try:
                exprs.append((progen.expr_src(e), progen.expr_sexp(e)))
            except ValueError:
                pass
        for text, sx in exprs:
            if not text:
                continue
            splits = [[text]]
            if " " in text:
                splits.append(text.split(" "))
            for opt in ([b"-e"], [b"--expr", b"--out=o.txt"], [b"-exp"]):
                for ws in splits:
                    add("expr", opt + [w.encode("latin-1") for w in ws], expr=(" ".join(ws) + " ;", sx))
        add("inter", [b"-e"], stdin=b"", items=[], src="")          # -e without an expression: interactive mode
        # G. interactive mode
        def inter(stmts, args=(), opt=(b"-i",), tail=b"", meta=None, raw_items=None):
            srcs = [progen.stmt_src(s, 0) for s in stmts]
            items = ["s%d:%s" % (t.count("\n"), hx(progen.stmt_sexp(s))) for s, t in zip(stmts, srcs)]
            text = "".join(srcs).encode("latin-1")
            if raw_items:
                for pos, (t, it) in sorted(raw_items.items(), reverse=True):
                    items.insert(pos, it)
                    srcs.insert(pos, t)
                text = "".join(srcs).encode("latin-1")
            add("inter", list(opt) + list(args), stdin=text + tail, items=items, src=text.decode("latin-1"), prog=stmts, meta=meta)

        for k in range(80 if quick else 800):
            g = progen.Gen(self.rng, nvars=2, funcs=(k % 2 == 0), errors=0.15)
            prog = g.program(nstmts=self.rng.randint(3, 6), depth=3)
            if k % 4 == 0:
                prog.append(("return", g.expr(self.rng.choice("idbs"), 1, set())))
            inter(prog, args=ARGVECS[k % 5], opt=[(b"-i",), (b"--cli",), (b"-interactive", b"--out=ignored.txt")][k % 3])
        fails = [("let", "X", ("bin", "DIV", I(1), I(0))), ("raise", "E1"), ("let", "S9", ("call", "chr", [I(300)])), ("let", "X8", ("call", "int", [S("xyz")]))]
        for fail in fails:
            for wrap in range(5):
                body = [("print", [S("before")]), fail, ("print", [S("not reached")])]
                if wrap == 1:
                    body = [("for", "K1", I(1), I(3), None, "auto", body)]
                elif wrap == 2:
                    body = [("for", "K1", I(1), I(3), None, "auto", [("begin", [("let", "W1", I(0)), ("while", ("bin", "LT", ("var", "W1"), I(2)),
                            [("let", "W1", ("bin", "ADD", ("var", "W1"), I(1)))] + body)], [("E2", [("print", [S("wrong handler")])])])])]
                elif wrap == 3:
                    f = ("func", "FF", ["I7"], "i", [("for", "K2", I(1), I(2), None, "auto", body), ("return", I(1))], [])
                    body = [f, ("for", "K3", I(1), I(2), None, "auto", [("print", [("fcall", "FF", [("var", "K3")])])])]
                elif wrap == 4:
                    body = [("if", [(L("B:1"), [("begin", [("raise", "E2")], [("E2", body)])])])]
                inter(body + PROBE + body + PROBE, meta={"residue": True})
        for src_e, sx_e in RETURNS:
            if sx_e is None or "\n" in src_e:
                continue
            t = "return %s;\n" % src_e
            add("inter", [b"-i", b"q"], stdin=('print "a";\n' + t + 'print "b";\n').encode("latin-1"),
                items=["s1:" + hx("(print (lit S:61))"), "s1:" + hx("(return %s)" % sx_e), "s1:" + hx("(print (lit S:62))")], src=t, meta={"ret": src_e})
        inter([("print", [S("a")]), ("print", [S("b")])], raw_items={1: ("x = = 1;\n", "b1:1:5")})
        inter([("print", [S("a")]), ("print", [S("b")])], raw_items={1: ("exit\n", "x")})
        inter([("print", [S("a")])], raw_items={1: ("exit;\n", "x")}, tail=b'print "after exit";\n')
        inter([("print", [S("a,b,c"), ("call", "chr", [I(300)])]), ("print", [S("next")])])      # output of a failing print is deferred
        inter([("print", [S("x")]), ("print", [S("a,b,c"), ("call", "chr", [I(300)])])])
        inter([], args=[b"only", b"args"])
        inter([("return", None), ("print", [S("after bare return")])])
        redef = [("func", "F1", [], "i", [("return", I(1))], []), ("print", [("fcall", "F1", [])]), ("func", "F1", [], "i", [("return", I(2))], []), ("print", [("fcall", "F1", [])])]
        inter(redef, meta={"redef": True})
        # $ARG in interactive mode: ALL words (the "program" word too) are arguments
        for av in ARGVECS:
            if not av or any(b"\n" in a for a in av) or av[0][:1] == b"-":
                continue
            text = 'print "n=" + str($ARG.count());\n' + "".join('print "[" + $ARG.at(%d) + "]";\n' % k for k in range(len(av)))
            add("interarg", [b"-i"] + av, stdin=text.encode(), items=[], src=text)
        self.stats["cases"] = len(cases)
        return cases

    # ------------------------------------------------------------------------------------------------ the three runs
    def run_real(self, cases, d):
        exe = os.path.join(d, "apps", "bloc")
        env = build.sanitizer_env()
        env["LD_LIBRARY_PATH"] = os.path.join(d, "blocc")
        env["ASAN_OPTIONS"] = "detect_leaks=0:abort_on_error=1:handle_abort=1:allocator_may_return_null=1"
        env["TERM"] = "dumb"
        root = tempfile.mkdtemp(prefix="c19-", dir="/var/tmp")

        def one(c):
            wd = os.path.join(root, c.cid)
            os.makedirs(wd)
            for fn, bs in c.files.items():
                with open(os.path.join(wd, fn), "wb") as f:
                    f.write(bs)
            try:
                p = subprocess.run([exe] + c.argv, input=c.stdin, stdout=subprocess.PIPE, stderr=subprocess.PIPE, cwd=wd, env=env, timeout=30)
                rc, out, err = p.returncode, p.stdout, p.stderr
            except subprocess.TimeoutExpired:
                rc, out, err = "timeout", b"", b""
            made = {}
            for fn in os.listdir(wd):
                if fn not in c.files:
                    made[fn] = open(os.path.join(wd, fn), "rb").read()
            c.real = {"rc": rc, "out": out, "err": err, "made": made}
            shutil.rmtree(wd, ignore_errors=True)

        try:
            with ThreadPoolExecutor(max_workers=16) as ex:
                list(ex.map(one, cases))
        finally:
            shutil.rmtree(root, ignore_errors=True)

    def program_args(self, c):
        """the words after the program name, as main() would take them (Python mirror used ONLY to feed the probe)"""
        av = c.argv
        i = 0
        while i < len(av) and av[i][:1] == b"-" and len(av[i]) != 1:
            i += 1
        return av[i + 1:]

    def run_probe(self, cases):
        hbin = build.harness_build(self.harness)
        lines = []
        for c in cases:
            if c.kind in ("expr", "inter", "interarg") or c.src is None:
                continue
            args = self.program_args(c)
            v = "Ts1[%s]" % ",".join("S:" + a.hex() for a in args)
            text = c.src.encode("latin-1").replace(b"\r", b"")
            lines.append("%s new 0 t|args 0 %s|prog 0 %s|out 0" % (c.cid, ",".join(a.hex() for a in args) or "-", hx(text)))
        res = run.run_harness(hbin, lines, timeout_s=20)
        for c in cases:
            r = res.get(c.cid)
            if r is None:
                continue
            if r.startswith("crash") or r.endswith("diverges"):
                c.probe = {"outcome": r, "out": None}
                continue
            parts = r.split("|")
            c.probe = {"outcome": parts[2] if len(parts) > 2 else "?", "out": bytes.fromhex(parts[3][4:]) if len(parts) > 3 and parts[3].startswith("out=") else None}

    def model_line(self, c):
        w = ["cli"] + ["A:" + a.hex() for a in c.argv] + ["S:" + c.stdin.hex()]
        for fn, bs in c.files.items():
            w.append("F:%s=%s" % (fn.encode().hex(), bs.hex()))
            if not fn.startswith("./"):
                w.append("F:%s=%s" % (("./" + fn).encode().hex(), bs.hex()))
        for p in c.nowrite:
            w.append("W:" + p.hex())
        if c.kind == "expr":
            text, sx = c.expr
            w.append("E:%s=%s" % (text.encode("latin-1").hex(), "perr" if sx is None else "ok:" + hx(sx)))
        elif c.kind in ("inter", "interarg"):
            w.append("I:" + ",".join(c.items))
        elif c.src is not None:
            text = c.src.encode("latin-1").replace(b"\r", b"")
            po = (c.probe or {}).get("outcome", "")
            if po.startswith("perr"):
                f = po.split()
                verdict = "perr:" + (f[2] if len(f) > 2 else "-")
            elif c.sexp is None:
                verdict = None       # the model cannot run this program: only the argument table / option logic is compared
            else:
                verdict = "ok:" + hx(c.sexp)
            if verdict:
                w.append("C:%s=%s" % (text.hex(), verdict))
        return " ".join(w)

    # ------------------------------------------------------------------------------------------------ judging
    def kf(self, fid, c, what_impl):
        entry = next((f for f in self.findings if f["id"] == fid and f.get("status", "known") == "known"), None)
        if entry is None:
            return False
        self.known_hits.setdefault(fid, {"what": entry["what"] + (" (proposed entry, see notes/NOTES-C19.md)" if entry.get("proposed") else ""),
                                         "example": (c.src or " ".join(a.decode("latin-1") for a in c.argv))[:100].replace("\n", " "), "impl": what_impl})
        return True

    def viol(self, what, c, m=None):
        r = c.real or {}
        self.violations.append({"what": what, "case": " ".join(repr(a.decode("latin-1")) for a in c.argv), "impl_ops": "bloc " + " ".join(a.decode("latin-1") for a in c.argv),
                                "impl": "rc=%s stdout=%r stderr=%r files=%r" % (r.get("rc"), r.get("out", b"")[:400], r.get("err", b"")[:300], {k: v[:200] for k, v in r.get("made", {}).items()}),
                                "model": (m or {}).get("raw", "")[:1500], "spec": None, "kf": None,
                                "meta": {"argv": [a.decode("latin-1") for a in c.argv], "stdin": c.stdin.decode("latin-1")[:3000], "src": c.src,
                                         "files": {k: v.decode("latin-1")[:3000] for k, v in c.files.items()}, "probe": str(c.probe)[:600], "kind": c.kind,
                                         "rerun": "cd <dir with the files>; LD_LIBRARY_PATH=<build>/blocc <build>/apps/bloc <argv> < stdin"}, "stderr_tail": r.get("err", b"")[-1500:].decode("latin-1")})

    def transcript_match(self, tr, real):
        """Sequential match of the model's transcript segments against the real stdout. Normalised, not modelled: the
        version line, readline's echo of the piped input line after a prompt, the Elapsed figure, message texts, and ONE stdio
        effect: what a failing `print` had already written stays in the context's stream buffer and comes out in front of the
        next thing written through that stream (or at exit). The bytes and their order are still checked exactly; only their
        position relative to the text written on the C stream `stdout` may be later. -> (ok, used_pending)"""
        pos = 0
        pending = b""
        used = False
        segs = tr.split(",")

        def rx(pat):
            nonlocal pos
            mm = re.compile(pat, re.S).match(real, pos)
            if not mm:
                return False
            pos = mm.end()
            return True

        for i, seg in enumerate(segs):
            if i == 0:
                b = bytes.fromhex(seg[1:])[len(b"HEADER"):]
                if not rx(br"BLOC version [^\n]*" + re.escape(b)):
                    return False, used
            elif seg == "P0":
                if not rx(br"(?:>>> [^\n]*\n|>>> )"):
                    return False, used
            elif seg == "P1":
                if not rx(br"(?:\.\.\. [^\n]*\n|\.\.\. )"):
                    return False, used
            elif seg == "E":
                if not rx(br"\nElapsed: [0-9.]+\n"):
                    return False, used
            elif seg.startswith("O"):
                # program output goes through the context's own stream: a `print` that fails (even if the error is then handled
                # inside the statement) leaves what it had written unflushed; it comes out in front of the next flush of
                # that stream. Accept the longest prefix present here, carry the rest over (checked, in order, later).
                whole = pending + bytes.fromhex(seg[1:])
                k = 0
                lim = min(len(whole), len(real) - pos)
                while k < lim and whole[k] == real[pos + k]:
                    k += 1
                if k < len(whole):
                    used = True
                pos += k
                pending = whole[k:]
            elif seg.startswith("T"):
                b = bytes.fromhex(seg[1:])
                if b.startswith(b"Error: rt") or b.startswith(b"Error: parse error") or b.startswith(b"Error ("):
                    if not rx(br"Error[^\n]*" + (b"\n" if b.endswith(b"\n") else b"")):
                        return False, used
                else:
                    if real[pos:pos + len(b)] != b:
                        return False, used
                    pos += len(b)
        return real[pos:] == pending, used

    def judge_case(self, c, mraw):
        self.evaluations += 1
        r = c.real
        m = {"raw": mraw}
        mm = re.match(r"^model=(.*?) out=([0-9a-f]*) err=([0-9a-f]*) file=(\S+) arg=(\S+) tr=(\S+)(?: spec=(\S*))?(?: flows=(\S*))?$", mraw or "")
        self.distinct.add((tuple(c.argv), c.src, c.stdin))
        st = self.stats.setdefault("by_kind", {})
        st[c.kind] = st.get(c.kind, 0) + 1
        if r["rc"] == "timeout":
            return self.viol("the executable did not finish within 30 s", c, m)
        if r["rc"] < 0 or b"Sanitizer" in r["err"] or b"runtime error:" in r["err"]:
            cls = run.classify_crash(r["err"].decode("latin-1"), r["rc"])
            if mm and mm.group(1).startswith("hazard"):
                self.stats["hazard_agreed"] = self.stats.get("hazard_agreed", 0) + 1
                return
            return self.viol("the executable crashed (%s)" % cls, c, m)
        if not mm:
            return self.viol("model gave no usable answer", c, m)
        mexit, mout, merr, mfile, marg, mtr, mspec, mflows = mm.groups()
        mout, merr = bytes.fromhex(mout), bytes.fromhex(merr)
        oc = self.stats.setdefault("impl_outcomes", {})
        key = "%s rc=%s err=%s" % (c.kind, r["rc"], classify_err(r["err"]).split(" ")[0])
        oc[key] = oc.get(key, 0) + 1
        if len(self.samples) < 12 and self.rng.random() < 0.03:
            self.samples.append({"argv": [a.decode("latin-1")[:40] for a in c.argv], "rc": r["rc"], "stdout": r["out"][:120].decode("latin-1"),
                                 "stderr": r["err"][:80].decode("latin-1"), "model": mraw[:160]})
        no_model_prog = c.kind not in ("expr", "inter") and c.src is not None and c.sexp is None and not (c.probe or {}).get("outcome", "").startswith("perr") \
            and marg != "-" and mexit == "exit:1" and b"text not in the table" in merr
        # ---- argument table (probe got the same words; the dump program prints them)
        if c.kind == "interarg":
            words = c.argv[1:]
            want_v = "Ts1[%s]" % ",".join("S:" + a.hex() for a in words)
            if marg != want_v:
                return self.viol("model $ARG (interactive) = %s, expected every word %s" % (marg, want_v), c, m)
            pat = b".*?".join([re.escape(b"\nn=%d\n" % len(words))] + [re.escape(b"\n[" + a.split(b"\0")[0] + b"]\n") for a in words])
            if r["rc"] != 0 or not re.search(pat, r["out"], re.S):
                return self.viol("$ARG as seen in interactive mode differs from the command-line words", c, m)
            return
        if c.kind == "argvenum" and mexit == "exit:0" and mtr == "-":
            args = self.program_args(c)
            want_v = "Ts1[%s]" % ",".join("S:" + a.hex() for a in args)
            if marg != want_v:
                return self.viol("model $ARG = %s, expected the words after the program word %s" % (marg, want_v), c, m)
            exp = b"n=%d\n" % len(args) + b"".join(b"[" + a + b"]\n" for a in args)
            sel = bytes.fromhex(mfile.partition(":")[2]) if mfile != "-" else mout
            if sel != exp:
                return self.viol("the model's selected output %r is not the dump of the words after the program word %r" % (sel[:200], exp[:200]), c, m)
            self.stats["argvenum_program_mode"] = self.stats.get("argvenum_program_mode", 0) + 1
        if c.kind == "argdump":
            args = self.program_args(c)
            want_v = "Ts1[%s]" % ",".join("S:" + a.hex() for a in args)
            if marg != want_v:
                return self.viol("model $ARG = %s, expected the words after the program name %s" % (marg, want_v), c, m)
            exp = b"n=%d\n" % len(args) + b"".join(b"[" + a.split(b"\0")[0] + b"]\n" for a in args)
            sel = r["made"].get("o.txt") if b"--out=o.txt" in c.argv[:1] else r["out"]
            if sel != exp or r["rc"] != 0:
                return self.viol("$ARG as seen by the program differs from the words after the program name: got %r want %r" % ((sel or b"")[:300], exp[:300]), c, m)
            if c.probe and c.probe.get("out") != exp:
                return self.viol("library probe with the same $ARG printed %r" % (c.probe.get("out") or b"")[:300], c, m)
            return
        if mexit in ("unmodelled", "oof"):
            self.stats[mexit] = self.stats.get(mexit, 0) + 1
            return
        if no_model_prog:
            # program the model cannot run (no S-expression): compare with the probe only
            po = c.probe or {}
            sel = next(iter(r["made"].values()), None) if any(a.startswith(b"--out=") for a in c.argv[:2]) else r["out"]
            if po.get("out") is not None and not (sel or b"").startswith(po["out"]):
                return self.viol("selected output does not start with the library's output %r" % po["out"][:200], c, m)
            if (r["rc"] == 0) != po.get("outcome", "").startswith("ok"):
                return self.viol("exit status %s but the library outcome is %s" % (r["rc"], po.get("outcome")), c, m)
            self.stats["probe_only"] = self.stats.get("probe_only", 0) + 1
            return
        if mexit.startswith("hazard"):
            return self.viol("model reaches a C-level hazard, the executable did not crash", c, m)
        want_rc = int(mexit.split(":")[1])
        if r["rc"] != want_rc:
            return self.viol("exit status %s, the model gives %d" % (r["rc"], want_rc), c, m)
        # ---- stdout
        if c.kind == "inter":
            okt, used = self.transcript_match(mtr, r["out"])
            if not okt:
                return self.viol("interactive transcript differs from the model's: model segments %s" % mtr[:600], c, m)
            if used:
                self.stats["inter_failing_print_output_deferred"] = self.stats.get("inter_failing_print_output_deferred", 0) + 1
        else:
            want_out = mout
            if want_out == b"USAGE":
                if not r["out"].startswith(b"usage: bloc"):
                    return self.viol("usage text expected on stdout", c, m)
            elif r["out"] != want_out:
                return self.viol("stdout differs from the model: got %r want %r" % (r["out"][:300], want_out[:300]), c, m)
        # ---- stderr class
        ce, cm = classify_err(r["err"]), classify_err(merr)
        if c.meta.get("debugall"):
            ce = cm           # --debug=all: the scanner/parser trace on stderr is not modelled
        if ce != cm:
            return self.viol("stderr class %s, the model gives %s" % (ce, cm), c, m)
        # ---- files created
        if mfile == "-":
            if r["made"]:
                return self.viol("unexpected files created: %s" % sorted(r["made"]), c, m)
        else:
            pa, _, co = mfile.partition(":")
            name = bytes.fromhex(pa).decode("latin-1")
            name = name[2:] if name.startswith("./") else name
            if set(r["made"]) != {name}:
                return self.viol("files created %s, the model gives %s" % (sorted(r["made"]), name), c, m)
            if r["made"][name] != bytes.fromhex(co):
                return self.viol("--out file differs from the model: got %r want %r" % (r["made"][name][:300], bytes.fromhex(co)[:300]), c, m)
        # ---- against the in-process library
        po = c.probe
        if po and po.get("out") is not None and c.kind not in ("expr", "inter", "option") and po["outcome"] != "?" and not (c.kind == "argvenum" and (marg == "-" or want_rc != 0 or mtr != "-")):
            sel = bytes.fromhex(mfile.partition(":")[2]) if mfile != "-" else r["out"]
            if not sel.startswith(po["out"]):
                return self.viol("selected output does not start with the library's output %r" % po["out"][:200], c, m)
            if (r["rc"] == 0) != po["outcome"].startswith("ok"):
                return self.viol("exit status %s but the library outcome is %s" % (r["rc"], po["outcome"]), c, m)
            if po["outcome"] == "ok-" and sel != po["out"]:
                return self.viol("nothing returned, yet the selected output %r is not the library's output %r" % (sel[:200], po["out"][:200]), c, m)
            if po["outcome"].startswith("perr"):
                f = po["outcome"].split()
                if len(f) > 2 and ce != "pos " + f[2]:
                    return self.viol("compile error at %s but stderr class is %s" % (f[2], ce), c, m)
                if len(f) <= 2:
                    # a ParseError without token: main.cpp prints "Error: …" (no program in the corpus reaches this branch)
                    return self.viol("compile error without a position: stderr class %s" % ce, c, m)
        # ---- against the specification
        if mspec is not None and mspec not in ("-", "eq", "ne"):
            sel = bytes.fromhex(mfile.partition(":")[2]) if mfile != "-" else r["out"]
            if mspec == "none":
                self.stats["spec_undetermined"] = self.stats.get("spec_undetermined", 0) + 1
            elif bytes.fromhex(mspec) != sel:
                if not (sel + b"" == mout or mfile != "-") or not self.kf("C19.returned_table_bytes_not_printed", c, "selected output %r" % sel[:80]):
                    return self.viol("selected output %r, the specification gives %r" % (sel[:200], bytes.fromhex(mspec)[:200]), c, m)
        if c.kind == "inter" and mflows is not None and mspec:
            flows = [f for f in mflows.split(",") if f]
            clean = all(f == "norm" for f in flows[:-1]) and (not flows or flows[-1] in ("norm", "ret"))
            if mspec == "ne":
                if c.meta.get("redef"):
                    self.kf("C19.interactive_function_redefinition", c, "printed results differ from batch")
                elif "ret" in flows[:-1]:
                    self.kf("C19.interactive_continues_after_return", c, "statements after a top-level return were executed")
                elif clean:
                    return self.viol("interactive mode printed other results than batch for a program without error or early return", c, m)
                else:
                    self.stats["inter_after_error"] = self.stats.get("inter_after_error", 0) + 1
            elif clean:
                self.stats["inter_eq_batch"] = self.stats.get("inter_eq_batch", 0) + 1

    def step_correspondence(self):
        try:
            d = build.impl_build()
            build.harness_build(self.harness)
        except build.BuildError as e:
            self.broken_ties.append("build: %s: %s" % (e.what, e.output[-800:]))
            return
        cases = self.gen_cases()
        t = time.time()
        self.run_probe(cases)
        self.stats["probe_s"] = round(time.time() - t, 1)
        t = time.time()
        self.run_real(cases, d)
        self.stats["real_s"] = round(time.time() - t, 1)
        t = time.time()
        model = run.run_driver(["%s %s" % (c.cid, self.model_line(c)) for c in cases], workers=8)
        self.stats["model_s"] = round(time.time() - t, 1)
        if "#driver-error" in model:
            self.broken_ties.append("driver: " + model["#driver-error"][-400:])
        for c in cases:
            self.judge_case(c, model.get(c.cid))
        # ---- the same process runs with NO parser table: Env.compile := the model's own front end on the program TEXT
        t = time.time()
        fe = [c for c in cases if c.kind in ("random", "longline", "broken", "rterr", "return", "argvenum") and c.src is not None and c.real
              and (c.kind != "random" or int(c.cid[1:]) % 3 == 0) and (c.kind != "argvenum" or int(c.cid[1:]) % 7 == 0)]
        lines = []
        for c in fe:
            w = ["cli", "X:1"] + ["A:" + a.hex() for a in c.argv] + ["S:" + c.stdin.hex()]
            for fn, bs in c.files.items():
                w += ["F:%s=%s" % (fn.encode().hex(), bs.hex()), "F:%s=%s" % (("./" + fn).encode().hex(), bs.hex())]
            lines.append("%s %s" % (c.cid, " ".join(w)))
        model = run.run_driver(lines, workers=8)
        if "#driver-error" in model:
            self.broken_ties.append("driver (front-end instance): " + model["#driver-error"][-400:])
        fs = self.stats.setdefault("distribution", {}).setdefault("front_end_instance", {"by_kind": {}, "agree": 0, "unsupported": 0, "unmodelled_or_oof": 0, "compile_errors": 0})
        for c in fe:
            mraw = model.get(c.cid, "")
            mm = re.match(r"^model=(\S+) out=([0-9a-f]*) err=([0-9a-f]*) file=(\S+) ", mraw)
            self.evaluations += 1
            if not mm:
                self.viol("front-end instance: the model gave no usable answer", c, {"raw": mraw})
                continue
            mexit, mout, merr, mfile = mm.groups()
            if mexit == "unsupported":
                fs["unsupported"] += 1
                continue
            if mexit in ("unmodelled", "oof") or mexit.startswith("hazard"):
                fs["unmodelled_or_oof"] += 1
                continue
            r = c.real
            if r["rc"] == "timeout" or r["rc"] < 0:
                continue
            fs["by_kind"][c.kind] = fs["by_kind"].get(c.kind, 0) + 1
            want_rc = int(mexit.split(":")[1])
            sel_real = r["out"]
            model_sel_empty = mout == "" and (mfile == "-" or mfile.partition(":")[2] == "")
            if r["rc"] == 1 and classify_err(r["err"]).startswith("pos ") and not (want_rc == 1 and model_sel_empty):
                # the C++ parser rejects the text at COMPILE time (undefined symbol, static type check: `Error (l:c): …`) where
                # Model/Parse + Elab have no such check (the model accepts, or fails only when the statement is reached):
                # a limit of the front-end model (not of the CLI model); counted here, listed in the evidence and in the notes
                fs.setdefault("cxx_rejects_where_front_end_model_accepts", []).append((c.src or "")[:60])
                continue
            if r["rc"] != want_rc:
                self.viol("front-end instance: exit status %s, the model (text -> front end -> interpreter) gives %d" % (r["rc"], want_rc), c, {"raw": mraw})
            elif bytes.fromhex(mout) != sel_real and bytes.fromhex(mout) != b"USAGE":
                self.viol("front-end instance: stdout %r, the model gives %r" % (sel_real[:200], bytes.fromhex(mout)[:200]), c, {"raw": mraw})
            elif mfile != "-" and r["made"].get(bytes.fromhex(mfile.partition(":")[0]).decode("latin-1").replace("./", "", 1)) != bytes.fromhex(mfile.partition(":")[2]):
                self.viol("front-end instance: --out file differs from the model's", c, {"raw": mraw})
            elif (classify_err(r["err"]) == "empty") != (merr == "") and not c.meta.get("debugall"):
                self.viol("front-end instance: stderr %r, the model gives %r" % (r["err"][:200], bytes.fromhex(merr)[:200]), c, {"raw": mraw})
            else:
                fs["agree"] += 1
                if want_rc == 1 and merr:
                    fs["compile_errors"] += 1
        self.stats["front_end_s"] = round(time.time() - t, 1)
        t = time.time()
        self.step_reader()
        self.stats["reader_s"] = round(time.time() - t, 1)

    # ------------------------------------------------------------------------------------------------ the reader alone
    def step_reader(self):
        """apps/read_file.cpp compiled from the tree under test (harness/c19reader.cpp) vs `readChunks` of Model/Cli.lean: the
        chunk returned by EVERY call, for small and real buffer sizes; and the model's chunks against the Spec (file minus CRs)."""
        try:
            hbin = build.harness_build("c19reader")
        except build.BuildError as e:
            self.broken_ties.append("build c19reader: %s: %s" % (e.what, e.output[-800:]))
            return
        rng = self.rng
        cases = []
        dist = self.stats.setdefault("distribution", {}).setdefault("reader", {"max": {}, "file_len": {}, "with_cr": 0, "no_final_newline": 0, "line_ge_max": 0})

        def add(mx, content):
            cases.append(("r%d" % len(cases), mx, content))
            dist["max"][str(mx)] = dist["max"].get(str(mx), 0) + 1
            b = "0" if not content else "1-9" if len(content) < 10 else "10-99" if len(content) < 100 else "100-999" if len(content) < 1000 else "1000+"
            dist["file_len"][b] = dist["file_len"].get(b, 0) + 1
            dist["with_cr"] += 1 if b"\r" in content else 0
            dist["no_final_newline"] += 1 if content and not content.endswith(b"\n") else 0
            dist["line_ge_max"] += 1 if any(len(l) + 1 >= mx for l in content.replace(b"\r", b"").split(b"\n")) else 0

        for mx in (1, 2, 3, 4, 7, 16, 1023):
            for ln in (0, 1, mx - 1, mx, mx + 1, 2 * mx - 1, 2 * mx, 2 * mx + 1, 3 * mx):
                if ln < 0:
                    continue
                line = bytes(97 + (i % 26) for i in range(ln))
                for tail in (b"", b"\n", b"\r\n", b"\r", b"\nX", b"\r\nX\r", b"\n\n"):
                    add(mx, line + tail)
                if ln >= 2:
                    add(mx, line[:ln - 1] + b"\r" + line[ln - 1:] + b"\n")           # CR right before the boundary byte
                    add(mx, line[:1] + b"\r\r" + line[1:])
        for _ in range(120 if self.tier == "quick" else 1500):
            mx = rng.choice([1, 2, 3, 5, 8, 1023])
            n = rng.choice([0, 1, 2, 5, 9, 17, 40, 300, 2500]) if mx != 1023 else rng.choice([1022, 1023, 1024, 2046, 2047, 3000, 5000])
            alphabet = rng.choice([b"ab\n\r", b"abcdefgh\n", b"a\r", b"\n\r", b"ab\n\r\x00\xff", b"abcdefghijklmnopqrstuvwxyz" * 4 + b"\n\r"])
            add(mx, bytes(rng.choice(alphabet) for _ in range(n)))
        lines = ["%s %d %s" % (cid, mx, content.hex()) for cid, mx, content in cases]
        p = subprocess.run([hbin], input=("\n".join(lines) + "\n").encode(), stdout=subprocess.PIPE, stderr=subprocess.PIPE, env=build.sanitizer_env(), timeout=300)
        real = {}
        for ln in p.stdout.decode("latin-1").split("\n"):
            cid, _, r = ln.partition(" ")
            if cid:
                real[cid] = r
        model = run.run_driver(["%s reader %d %s" % (cid, mx, content.hex()) for cid, mx, content in cases], workers=4)
        if "#driver-error" in model:
            self.broken_ties.append("driver: " + model["#driver-error"][-400:])
        self.stats["reader_cases"] = len(cases)
        for cid, mx, content in cases:
            self.evaluations += 1
            self.distinct.add(("reader", mx, content))
            r, m = real.get(cid), model.get(cid, "")
            desc = {"what": None, "case": "ReadFile::read, max_size=%d, file=%r" % (mx, content[:200]), "impl_ops": "c19reader %d %s" % (mx, content.hex()[:400]),
                    "impl": str(r)[:600] + (" | stderr: " + p.stderr.decode("latin-1")[-600:] if r is None else ""), "model": m[:600], "spec": None, "kf": None,
                    "meta": {"max": mx, "file_hex": content.hex()[:4000]}, "stderr_tail": p.stderr.decode("latin-1")[-800:]}
            mm = re.match(r"^chunks=([0-9a-f,]*) spec=(eq|ne)$", m)
            if r is None:
                desc["what"] = "the reader harness gave no answer (crash / sanitizer report: rc=%s)" % p.returncode
            elif not mm:
                desc["what"] = "the model gave no usable answer for the reader"
            elif r != "chunks=" + mm.group(1):
                desc["what"] = "ReadFile::read returns other chunks than the model's readChunks"
            elif mm.group(2) != "eq":
                desc["what"] = "the model's chunks do not concatenate to the file minus CRs (Spec)"
            elif b"".join(bytes.fromhex(x) for x in mm.group(1).split(",") if x) != content.replace(b"\r", b""):
                desc["what"] = "the chunks do not concatenate to the file minus CRs"
            if desc["what"]:
                self.violations.append(desc)

    def write_evidence(self, extra=None):
        extra = dict(extra or {})
        extra["input_distribution"] = self.stats.get("distribution", {})
        Check.write_evidence(self, extra)

    def replay(self, rep):
        for v in rep.get("violations", [])[:5]:
            print(json.dumps({k: v[k] for k in ("what", "case", "impl", "model")}, indent=1)[:3000])
        return self.run()
