"""C10 — string, bytes and conversion built-ins are total, 8-bit clean and consistent."""
import itertools
import re

from ..core import Case, Check, outcomes_agree
from ..run import hx
from .c04 import parse_dump

I64MIN, I64MAX = -2 ** 63, 2 ** 63 - 1
ALPHA = [0x20, 0x2c, 0x22, 0xe9, 0x00, 0x61, 0x42, 0x30, 0x78]
POS = ["I:%d" % v for v in (I64MIN, I64MIN + 1, -4, -3, -2, -1, 0, 1, 2, 3, 4, I64MAX - 1, I64MAX)] + \
      ["N:i0", "N:?0", "D:4004000000000000", "D:bff8000000000000", "D:46293e5939a08cea", "D:7ff8000000000000", "N:d0"]
POS_Q = ["I:%d" % v for v in (I64MIN, -3, -1, 0, 1, 2, 3, I64MAX)] + ["N:i0", "N:?0", "D:4004000000000000", "D:46293e5939a08cea"]

PRELUDE = ("function ids(s) return string is begin return s; end;\n"
           "function idi(i) return integer is begin return i; end;\n"
           "function idr(r) return bytes is begin return r; end;\n"
           "function idd(d) return decimal is begin return d; end;\n"
           "function idb(b) return boolean is begin return b; end;\n")


def S(bs):
    return "S:" + bytes(bs).hex()


def R(bs):
    return "R:" + bytes(bs).hex()


def strings(maxlen):
    out = []
    for n in range(maxlen + 1):
        for t in itertools.product(ALPHA, repeat=n):
            out.append(list(t))
    return out


def ident(v):
    """identity user function that turns the argument into a temporary of the same value"""
    if v.startswith(("S:", "N:s")):
        return "ids"
    if v.startswith(("I:", "N:i")):
        return "idi"
    if v.startswith(("R:", "N:r")):
        return "idr"
    if v.startswith(("D:", "N:d")):
        return "idd"
    if v.startswith(("B:", "N:b")):
        return "idb"
    return None


class C10(Check):
    pid = "C10"
    proof_modules = ["BlocV.Proofs.C10"]
    rule = ("built-in × argument tuples: every byte string up to a bounded length over the alphabet {space, ',', '\"', "
            "0xE9, NUL, 'a', 'B', '0', 'x'} × a position/count lattice {INT64_MIN, INT64_MIN+1, −4..4, INT64_MAX−1, "
            "INT64_MAX, typed null, untyped null, decimals 2.5, −1.5, 1e30, NaN}; arguments stored exactly into variables; "
            "each call evaluated twice (arguments as variables, and as temporaries through identity functions); the results, "
            "the error code and the argument variables after the call are compared with the Lean model; substr/subraw at "
            "INT64_MIN and hex with pad counts up to INT64_MAX (the regions of the repaired overflow findings) are part of the "
            "lattice for every string; abs over an integer/decimal lattice and pow over integer pairs (exact modulo 2^64, "
            "negative exponents, zero base) and mixed/decimal pairs are compared likewise; isnum/num "
            "consistency is checked on the implementation alone (strtod is not modelled). distinct = (built-in, arguments).")
    assumptions = ["strtod (num/isnum of strings) is trusted libc; only isnum(s) <=> num(s) succeeds is checked, on the implementation",
                   "toupper/tolower are modelled in the C locale (ASCII letters only)",
                   "std::pow / std::abs on doubles (pow with a decimal operand, abs of a decimal) are the platform's libm on both sides "
                   "(Lean Float.pow / Float.abs): compared bit-exactly, not proved"]

    def hazard_kf(self, c, hazard):
        # A model hazard names a finding id; only an entry with status "known" suppresses anything. All C10 hazard
        # findings (floatToInt, signedOverflow of substr/subraw/hex, nullDeref of strpos) are "fixed": the model has no
        # hazard outcome left on these built-ins, and a crash of the implementation is a violation.
        name = c.model_line.split()[1]
        return "C10.%s.%s" % (name, hazard)

    def call_case(self, cid, name, vals):
        names = ["x", "y", "z"][:len(vals)]
        setup = ["set 0 %s %s" % (hx(n.upper()), v) for n, v in zip(names, vals)]
        call1 = "%s(%s)" % (name, ", ".join(names))
        tmpargs = []
        for n, v in zip(names, vals):
            f = ident(v)
            tmpargs.append("%s(%s)" % (f, n) if f else n)
        call2 = "%s(%s)" % (name, ", ".join(tmpargs))
        src = PRELUDE + "r = %s;\nq = %s;\n" % (call1, call2)
        impl = "|".join(["new 0"] + setup + ["prog 0 " + hx(src), "dump 0"])
        return Case(cid, "bi %s %s" % (name, " ".join(vals)), impl, {"vals": vals, "call": call1})

    def gen_cases(self):
        quick = self.tier == "quick"
        cases = []
        n = 0

        def add(name, *vals):
            nonlocal n
            n += 1
            cases.append(self.call_case("c%d" % n, name, list(vals)))

        pos = POS_Q if quick else POS
        strs2 = strings(2)
        strs3 = strings(3)
        base = strs2 if quick else strs3
        nulls = ["N:s0", "N:?0"]
        # substr family: every position of the lattice with every string — INT64_MIN (the repaired `c - a` overflow of
        # substr/subraw, commit e2c4824) and the out-of-range decimals (OUT_OF_RANGE since bf3229b) included
        for s in (strings(1) + [[0x61, 0x20, 0x42], [0x61, 0, 0x42, 0xe9]] if quick else strs2):
            mypos = pos
            for a in mypos:
                add("substr", S(s), a)
                add("subraw", R(s), a)
                add("lsubstr", S(s), a)
                add("rsubstr", S(s), a)
                for b in mypos:
                    add("substr", S(s), a, b)
                    add("subraw", R(s), a, b)
        for v in nulls:
            for a in pos[:6]:
                add("substr", v, a)
                add("lsubstr", v, a)
                add("substr", v, a, "I:1")
        add("subraw", "N:r0", "I:0")
        add("subraw", "N:?0", "I:0", "I:1")
        # one-argument string functions over all short strings
        for s in base:
            for f in ("trim", "ltrim", "rtrim", "upper", "lower", "strlen", "b64enc", "b64dec", "hash", "int", "raw", "str"):
                add(f, S(s))
            for f in ("b64enc", "b64dec", "hash", "int", "str"):
                add(f, R(s))
        # longer / structured strings
        extra = [list(b"  hello  "), list(b"\tx\n"), list(range(256)), list(b"QUJD"), list(b"QUI="), list(b"QQ=="), list(b"QQ"),
                 list(b"QUJ"), list(b"Q"), list(b"-_,."), list(b"+12"), list(b"-9223372036854775808"), list(b"9223372036854775808"),
                 list(b"0x10"), list(b" 0XfF"), list(b"0x"), list(b"-0x1"), list(b"0xffffffffffffffff"), list(b"0x10000000000000000"),
                 list(b"12abc"), list(b""), list(b"   "), list(b"+"), list(b"1e5"), list(b"99999999999999999999")]
        for _ in range(60 if quick else 600):
            ln = self.rng.randint(4, 40)
            extra.append([self.rng.choice(ALPHA + list(range(65, 91)) + [43, 47, 61]) for _ in range(ln)])
        for s in extra:
            for f in ("trim", "ltrim", "rtrim", "upper", "lower", "strlen", "b64enc", "b64dec", "hash", "int", "raw", "str"):
                add(f, S(s))
            for f in ("b64enc", "b64dec", "hash", "int"):
                add(f, R(s))
        for v in nulls + ["N:r0"]:
            for f in ("trim", "upper", "strlen", "b64enc", "b64dec", "hash", "int", "raw", "str"):
                add(f, v)
        # strpos / replace / tokenize over pairs (and triples) of short strings
        pairs = strings(1) + [[0x61, 0x61], [0x61, 0x2c], [0x2c, 0x2c], [0x20, 0x20], [0, 0]]
        hay = strings(2) + [[0x61, 0x2c, 0x2c, 0x61], [0x2c, 0x61, 0x2c], [0x61, 0x61, 0x61, 0x61], [0, 0x61, 0, 0x61]]
        for h in hay:
            for nd in pairs:
                add("strpos", S(h), S(nd))
                add("tokenize", S(h), S(nd))
                add("tokenize", S(h), S(nd), "B:1")
                add("tokenize", S(h), S(nd), "B:0")
                few = h in ([0x61, 0x61], [0x61, 0x2c]) and nd == [0x61]
                for p in ((pos if few else [q for q in pos if q not in ("N:i0",) and not q.startswith("D:46")]) if len(h) == 2 and len(nd) == 1
                          else ["I:0", "I:1", "I:-1", "I:5", "N:?0"]):
                    add("strpos", S(h), S(nd), p)
                for rp in ([[], [0x78], [0x61, 0x61], [0x2c]]):
                    add("replace", S(h), S(nd), S(rp))
                add("replace", S(h), S(nd), "N:s0")
                add("replace", S(h), S(nd), "N:?0")
        for v in nulls:
            add("strpos", v, S([0x61]))
            add("strpos", S([0x61]), v)
            add("replace", v, S([0x61]), S([0x62]))
            add("replace", S([0x61]), v, S([0x62]))
            add("tokenize", v, S([0x2c]))
            add("tokenize", S([0x61]), v)
            add("tokenize", S([0x61]), S([0x2c]), "N:b0")
        # chr / hex / raw(n, b) / hash(x, n)
        ints = [I64MIN, -256, -1, 0, 1, 9, 10, 15, 16, 65, 127, 128, 255, 256, 257, 4095, 65535, 2 ** 31, 2 ** 32 - 1, 2 ** 32,
                2 ** 32 + 1, 2 ** 60 + 11, I64MAX]
        for i in ints:
            add("chr", "I:%d" % i)
            add("hex", "I:%d" % i)
            add("str", "I:%d" % i)
            # pad counts: negative, none, 1..16, beyond 16, and the region of the repaired `n += 1` overflow
            # (n > INT64_MAX - 15, commit cbe22cc: n is clamped to 16 first)
            for k in (I64MIN, -1, 0, 1, 2, 8, 15, 16, 17, 31, I64MAX - 20, I64MAX - 15, I64MAX - 14, I64MAX - 1, I64MAX):
                add("hex", "I:%d" % i, "I:%d" % k)
            add("hash", S(list(b"abc")), "I:%d" % i)
            add("hash", R([0xe9, 0x80, 0xff]), "I:%d" % i)
            if -2 < i < 300:
                add("raw", "I:3", "I:%d" % i)
            if -2 < i < 70:
                add("raw", "I:%d" % i, "I:65")
                add("raw", "I:%d" % i)
        for v in ("N:i0", "N:d0", "N:?0", "D:4050400000000000", "D:c050400000000000", "D:406fffffffffffff", "D:4070000000000000",
                  "D:7ff8000000000000", "D:46293e5939a08cea", "D:bfe0000000000000"):
            add("chr", v)
            add("hex", v)
            add("hex", "I:255", v)
            add("hash", S(list(b"abc")), v)
            add("raw", "I:2", v)
            add("raw", v)
        # abs / pow (builtin_abs.cpp after fde74fa: abs(INT64_MIN) wraps; builtin_pow.cpp after eec6e8e: integer x integer
        # exact modulo 2^64 like `**`, 1/(b**-n) truncated for a negative exponent, DIVIDE_BY_ZERO for 0 ** negative)
        from .c03 import double_lattice
        absints = sorted(set(ints + [I64MIN + 1, -2, 2, 3, -3, 2 ** 53 + 1, -(2 ** 53) - 1, 2 ** 62, -(2 ** 62), I64MAX - 1]))
        for i in absints:
            add("abs", "I:%d" % i)
        dl = double_lattice()
        for b in dl + [0x8000000000000000, 0xbff8000000000000, 0xfff0000000000000, 0x7ff8000000000000, 0xc3e0000000000000]:
            add("abs", "D:%016x" % b)
        for v in ("N:i0", "N:d0", "N:?0"):
            add("abs", v)
        bases = [I64MIN, I64MIN + 1, -(2 ** 32), -16, -3, -2, -1, 0, 1, 2, 3, 7, 10, 16, 255, 2 ** 31, 2 ** 32, 2 ** 32 + 1, 3037000500, 2 ** 53 + 1, I64MAX - 1, I64MAX]
        exps = [I64MIN, I64MIN + 1, -3, -2, -1, 0, 1, 2, 3, 5, 7, 31, 32, 39, 62, 63, 64, 65, 127, 2 ** 32, I64MAX - 1, I64MAX]
        for a in bases:
            for e in exps:
                add("pow", "I:%d" % a, "I:%d" % e)
        for _ in range(200 if quick else 4000):
            add("pow", "I:%d" % self.rng.randint(I64MIN, I64MAX), "I:%d" % self.rng.choice([self.rng.randint(0, 70), self.rng.randint(-5, 5), self.rng.randint(I64MIN, I64MAX)]))
        for a in ("N:i0", "N:d0", "N:?0", "I:2", "D:4000000000000000"):
            for e in ("N:i0", "N:d0", "N:?0", "I:3", "D:3fe0000000000000"):
                add("pow", a, e)
        for a in ("I:2", "I:-8", "I:0", "D:4004000000000000", "D:c000000000000000", "D:0000000000000000", "D:7ff0000000000000"):
            for e in ("D:3fe0000000000000", "D:4008000000000000", "D:bff0000000000000", "I:3", "I:-2", "I:0", "D:7ff8000000000000"):
                add("pow", a, e)
        # decimals to text
        for b in double_lattice() + [self.rng.getrandbits(64) for _ in range(300 if quick else 5000)]:
            add("str", "D:%016x" % b)
        for _ in range(300 if quick else 5000):
            add("str", "I:%d" % self.rng.randint(I64MIN, I64MAX))
            add("int", S(list(str(self.rng.randint(I64MIN, I64MAX)).encode())))
        for b in ("B:1", "B:0", "N:b0"):
            add("str", b)
            add("int", b)
        # isnum / num consistency, on the implementation alone
        numstrs = ["12", "1.5e3", "  -7.25", "12abc", "abc", "", "   ", "1e308", "1e999", "-1e400", "1e-999", "0x1p3", "0x1p99999", "inf",
                   "nan", "-inf", "+.5", ".", "e5", "1e", "1e+", "0x", " 1", "1 ", "--1", "1e-400", "4.9e-324", "2e-324", "1.7976931348623159e308"]
        for s in numstrs:
            for mk in (S, R):
                n += 1
                v = mk(list(s.encode()))
                cases.append(Case("c%d" % n, "", "|".join(["new 0", "set 0 %s %s" % (hx("X"), v), "prog 0 " + hx("a = isnum(x);"),
                                                     "prog 0 " + hx("b = num(x);"), "dump 0"]), {"isnum": s}))
        self.stats["cases"] = n
        return cases

    def judge(self, c, iraw, m, stderr):
        if "isnum" in c.meta:
            self.evaluations += 0
            parts = iraw.split("|")
            d = parse_dump(parts[-1]) if parts[-1].startswith("dump=") else None
            self.distinct.add(("isnum", c.meta["isnum"]))
            if d is None or "A" not in d["syms"] or len(parts) < 5:
                return self.record_violation("isnum/num consistency program failed", c, iraw[:200], m, stderr)
            a = d["syms"]["A"][2].replace("/l", "")
            numok = parts[-2] == "ok-"
            if (a == "B:1") != numok:
                return self.record_violation("isnum(%r) = %s but num() %s (%s)" % (c.meta["isnum"], a, "succeeds" if numok else "fails", parts[-2]), c, a, m)
            return
        mout = m.get("model")
        if iraw.startswith("crash") or iraw.endswith("diverges"):
            prog, dump = iraw, ""
        else:
            parts = iraw.split("|")
            prog, dump = parts[-2], parts[-1]
        self.tally(c, prog, m)
        self.distinct.add(c.model_line)
        if len(self.samples) < 12 and self.rng.random() < 0.002:
            self.samples.append({"case": c.model_line, "impl": prog, "model": mout})
        if mout is None:
            return self.record_violation("model gave no answer", c, prog, m)
        if mout == "unmodelled":
            self.stats["unmodelled"] = self.stats.get("unmodelled", 0) + 1
            return
        if mout.startswith("hazard ") or not mout.startswith("ok "):
            # errors / hazards: generic comparison (hazard regions via hazard_kf)
            c2 = Case(c.cid, c.model_line, c.impl_line, c.meta, pick=-2)
            if prog.startswith("crash") or prog.endswith("diverges"):
                return Check.judge(self, Case(c.cid, c.model_line, c.impl_line, c.meta), prog, m, stderr)
            return Check.judge(self, c2, iraw, m, stderr)
        if prog != "ok-":
            return self.record_violation("call fails in the implementation but the model returns a value", c, prog, m, stderr)
        d = parse_dump(dump)
        want = mout[3:]
        for r in ("R", "Q"):
            got = d["syms"].get(r, ("", "", "?"))[2].replace("/l", "").replace("/t", "")
            if got != want:
                return self.record_violation("%s (%s) gives %s, the model gives %s" % (c.meta["call"], "variables" if r == "R" else "temporaries", got, want), c, got, m)
        for name, v in zip(("X", "Y", "Z"), c.meta["vals"]):
            got = d["syms"].get(name, ("", "", "?"))[2].replace("/l", "").replace("/t", "")
            if got != v:
                return self.record_violation("argument variable %s changed by %s: %s" % (name, c.meta["call"], got), c, got, m)
