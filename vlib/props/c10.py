"""C10 — string, bytes and conversion built-ins are total, 8-bit clean and consistent."""
import itertools
import re

from ..core import Case, Check, outcomes_agree
from ..run import hx
from .c04 import parse_dump

I64MIN, I64MAX = -2 ** 63, 2 ** 63 - 1
ALPHA = [0x20, 0x2c, 0x22, 0xe9, 0x00, 0x61, 0x42, 0x30, 0x78]
POS = ["I:%d" % v for v in (I64MIN, I64MIN + 1, -4, -3, -2, -1, 0, 1, 2, 3, 4, I64MAX - 1, I64MAX)] + \
      ["N:i0", "N:?0", "D:4004000000000000", "D:bff8000000000000", "D:46293e5939a08cea", "D:7ff8000000000000", "N:d0"]
POS_Q = ["I:%d" % v for v in (I64MIN, -3, -1, 0, 1, 2, 3, I64MAX)] + ["N:i0", "N:?0", "D:4004000000000000", "D:46293e5939a08cea"]

PRELUDE = ("function ids(s) return string is begin return s; end;\n"
           "function idi(i) return integer is begin return i; end;\n"
           "function idr(r) return bytes is begin return r; end;\n"
           "function idd(d) return decimal is begin return d; end;\n"
           "function idb(b) return boolean is begin return b; end;\n")


def S(bs):
    return "S:" + bytes(bs).hex()


def R(bs):
    return "R:" + bytes(bs).hex()


def strings(maxlen):
    out = []
    for n in range(maxlen + 1):
        for t in itertools.product(ALPHA, repeat=n):
            out.append(list(t))
    return out


def ident(v):
    """identity user function that turns the argument into a temporary of the same value"""
    if v.startswith(("S:", "N:s")):
        return "ids"
    if v.startswith(("I:", "N:i")):
        return "idi"
    if v.startswith(("R:", "N:r")):
        return "idr"
    if v.startswith(("D:", "N:d")):
        return "idd"
    if v.startswith(("B:", "N:b")):
        return "idb"
    return None


# ---- round C10: num / isnum (std::stod), num(str(d)), the numeric built-ins ------------------------------------
NUM_ALPHA3 = [0x20, 0x2d, 0x2e, 0x30, 0x31, 0x65, 0x78, 0x70, 0x6e, 0x00]            # ' ' - . 0 1 e x p n NUL
NUM_ALPHA2 = sorted(set(NUM_ALPHA3 + [0x2b, 0x39, 0x45, 0x50, 0x58, 0x69, 0x66, 0x61, 0x46, 0x28, 0x29, 0x09, 0x0b,
                                      0x0d, 0xe9, 0x49, 0x4e, 0x5f, 0x2c]))
NUMSTR_FINDING = {
    "property": "C10", "id": "C10.num.subnormal.erange", "status": "known",
    "site": "blocc/builtin/builtin_num.cpp:48-59 (catch std::out_of_range -> EXC_RT_OUT_OF_RANGE), builtin_isnum.cpp:44-54",
    "witness": "num(str(x)) with x = 5e-324 stored exactly (any subnormal), x = 2.2250738585072014e-308 (smallest normal) or "
               "x = 1.7976931348623157e308 (largest double); also num(\"1e-310\"), isnum(\"1e-310\") = false",
    "what": "num(str(d)) raises OUT_OF_RANGE (and isnum(str(d)) is false) for every subnormal d, the smallest normal and the largest "
            "double: std::stod throws std::out_of_range whenever glibc strtod sets ERANGE, which it also does for a representable "
            "but tiny and inexact result (and %.16g of DBL_MAX rounds above DBL_MAX)",
    "why_recorded": "the property demands num(str(d)) = d up to the printed precision for all double values; the call fails instead "
                    "of returning the nearest double (Proofs/C10.lean num_str_subnormal_fails)"}
MATH1 = ["floor", "ceil", "sqrt", "exp", "log", "log10", "sin", "cos", "tan", "asin", "acos", "atan", "sinh", "cosh", "tanh"]


def _bits_to_float(b):
    import struct
    return struct.unpack("<d", struct.pack("<Q", b))[0]


def _float_to_bits(x):
    import struct
    return struct.unpack("<Q", struct.pack("<d", x))[0]


def decimal_boundary_strings(rng, count):
    """decimal texts at rounding boundaries: the exact midpoint between two adjacent doubles (a tie, to be rounded to
    even), and the midpoint with its last digit moved by one (just below / just above), in plain and exponent form"""
    from decimal import Decimal, getcontext
    getcontext().prec = 1200
    out = []
    specials = [0x0000000000000001, 0x0000000000000002, 0x000ffffffffffffe, 0x000fffffffffffff, 0x0010000000000000,
                0x0010000000000001, 0x7feffffffffffffe, 0x7fefffffffffffff, 0x3ff0000000000000, 0x433fffffffffffff,
                0x4340000000000000, 0x3fb999999999999a]
    bits = specials + [rng.getrandbits(63) % 0x7ff0000000000000 for _ in range(count)]
    for b in bits:
        lo = Decimal(_bits_to_float(b))
        hi = Decimal(_bits_to_float(b + 1)) if b + 1 < 0x7ff0000000000000 else Decimal(2) ** 1024
        mid = (lo + hi) / 2
        t = format(mid, "f") if abs(mid.adjusted()) < 25 else format(mid, "e").replace("e+", "e")
        out.append(t)
        # neighbours of the tie: bump the last significant digit of the mantissa
        m, _, e = t.partition("e")
        if m[-1] not in "09.":
            for d in (-1, 1):
                out.append(m[:-1] + chr(ord(m[-1]) + d) + (("e" + e) if e else ""))
        out.append(m + "0000000000000000000000001" + (("e" + e) if e else ""))
    return out


def grammar_number(rng):
    """one string of the std::stod grammar (and near misses)"""
    ws = rng.choice(["", "", "", " ", "  ", "\t", "\n ", "\v\f\r"])
    sign = rng.choice(["", "", "", "-", "+", "--", "+-"])
    kind = rng.random()
    if kind < 0.08:
        body = rng.choice(["inf", "INF", "Infinity", "infinit", "iNf", "in", "nan", "NaN", "nan(", "nan()", "nan(12)", "nan(zz_9)x", "na"])
    elif kind < 0.33:
        ip = "".join(rng.choice("0123456789abcdefABCDEF") for _ in range(rng.choice([0, 1, 1, 2, 5, 14, 17])))
        fp = rng.choice(["", "", "."]) and "." + "".join(rng.choice("0123456789abcdef") for _ in range(rng.choice([0, 1, 3, 13, 16])))
        ex = rng.choice(["", "", "p", "p+", "p-", "P"])
        if ex:
            ex += rng.choice(["", str(rng.randint(0, 9)), str(rng.randint(0, 1100)), str(rng.choice([1021, 1022, 1023, 1024, 1074, 1075, 1076, 1126])),
                              "99999999999999999999"])
        body = rng.choice(["0x", "0X", "0x", "x", "0"]) + ip + fp + ex
    else:
        ip = "".join(rng.choice("0123456789") for _ in range(rng.choice([0, 1, 1, 2, 3, 8, 17, 21, 40])))
        fp = rng.choice(["", ".", "."]) and "." + "".join(rng.choice("0123456789") for _ in range(rng.choice([0, 1, 2, 6, 17, 30])))
        ex = rng.choice(["", "", "e", "E", "e+", "e-", "E-"])
        if ex:
            ex += rng.choice(["", str(rng.randint(0, 30)), str(rng.randint(280, 345)), str(rng.choice([307, 308, 309, 323, 324, 325])), "0000000000000000000012",
                              "99999999999999999999"])
        body = ip + fp + ex
    tail = rng.choice(["", "", "", " ", "x", "e", ".", "\0" + "9", ",5", "f"])
    return (ws + sign + body + tail).encode().decode("unicode_escape").encode("latin-1")


class C10(Check):
    pid = "C10"
    proof_modules = ["BlocV.Proofs.C10"]
    rule = ("built-in × argument tuples: every byte string up to a bounded length over the alphabet {space, ',', '\"', "
            "0xE9, NUL, 'a', 'B', '0', 'x'} × a position/count lattice {INT64_MIN, INT64_MIN+1, −4..4, INT64_MAX−1, "
            "INT64_MAX, typed null, untyped null, decimals 2.5, −1.5, 1e30, NaN}; arguments stored exactly into variables; "
            "each call evaluated twice (arguments as variables, and as temporaries through identity functions); the results, "
            "the error code and the argument variables after the call are compared with the Lean model; substr/subraw at "
            "INT64_MIN and hex with pad counts up to INT64_MAX (the regions of the repaired overflow findings) are part of the "
            "lattice for every string; abs over an integer/decimal lattice and pow over integer pairs (exact modulo 2^64, "
            "negative exponents, zero base) and mixed/decimal pairs are compared likewise. Round C10: num / isnum of strings "
            "and bytes against the exact model of std::stod (every string up to length 3 over {' ','-','.','0','1','e','x','p','n',NUL}, "
            "up to length 2 over 29 characters, grammar-generated decimal / hexadecimal / inf / nan texts with near misses, garbage "
            "tails and extreme exponents, exact midpoints between adjacent doubles and their neighbours) — value compared bit for "
            "bit, error code compared; num(str(d)) over the double lattice, random bit patterns and doubles with 1..17-digit texts; "
            "bool / isnull / typeof / sign / round / the fifteen libm functions / max / min / mod / atan2 / clamp / pi ee phi over "
            "integer and double lattices with typed and untyped nulls. distinct = (built-in, arguments).")
    assumptions = ["glibc strtod is correctly rounded (nearest, ties to even) with ERANGE on overflow and on results that are tiny after "
                   "rounding and inexact: that is what Model/Strtod.lean states; compared bit-exactly on the generated texts",
                   "libm functions (floor ceil sqrt exp log log10 sin cos tan asin acos atan sinh cosh tanh atan2 pow fmod) are the platform's "
                   "on both sides (Lean Float.* compiles to the same C functions): compared bit-exactly, not proved",
                   "toupper/tolower are modelled in the C locale (ASCII letters only)",
                   "std::pow / std::abs on doubles (pow with a decimal operand, abs of a decimal) are the platform's libm on both sides "
                   "(Lean Float.pow / Float.abs): compared bit-exactly, not proved"]

    def hazard_kf(self, c, hazard):
        # A model hazard names a finding id; only an entry with status "known" suppresses anything. All C10 hazard
        # findings (floatToInt, signedOverflow of substr/subraw/hex, nullDeref of strpos) are "fixed": the model has no
        # hazard outcome left on these built-ins, and a crash of the implementation is a violation.
        name = c.model_line.split()[1]
        return "C10.%s.%s" % (name, hazard)

    def call_case(self, cid, name, vals):
        names = ["x", "y", "z"][:len(vals)]
        setup = ["set 0 %s %s" % (hx(n.upper()), v) for n, v in zip(names, vals)]
        call1 = "%s(%s)" % (name, ", ".join(names))
        tmpargs = []
        for n, v in zip(names, vals):
            f = ident(v)
            tmpargs.append("%s(%s)" % (f, n) if f else n)
        call2 = "%s(%s)" % (name, ", ".join(tmpargs))
        src = PRELUDE + "r = %s;\nq = %s;\n" % (call1, call2)
        impl = "|".join(["new 0"] + setup + ["prog 0 " + hx(src), "dump 0"])
        return Case(cid, "bi %s %s" % (name, " ".join(vals)), impl, {"vals": vals, "call": call1})

    def gen_cases(self):
        quick = self.tier == "quick"
        cases = []
        n = 0

        def add(name, *vals):
            nonlocal n
            n += 1
            cases.append(self.call_case("c%d" % n, name, list(vals)))

        pos = POS_Q if quick else POS
        strs2 = strings(2)
        strs3 = strings(3)
        base = strs2 if quick else strs3
        nulls = ["N:s0", "N:?0"]
        # substr family: every position of the lattice with every string — INT64_MIN (the repaired `c - a` overflow of
        # substr/subraw, commit e2c4824) and the out-of-range decimals (OUT_OF_RANGE since bf3229b) included
        for s in (strings(1) + [[0x61, 0x20, 0x42], [0x61, 0, 0x42, 0xe9]] if quick else strs2):
            mypos = pos
            for a in mypos:
                add("substr", S(s), a)
                add("subraw", R(s), a)
                add("lsubstr", S(s), a)
                add("rsubstr", S(s), a)
                for b in mypos:
                    add("substr", S(s), a, b)
                    add("subraw", R(s), a, b)
        for v in nulls:
            for a in pos[:6]:
                add("substr", v, a)
                add("lsubstr", v, a)
                add("substr", v, a, "I:1")
        add("subraw", "N:r0", "I:0")
        add("subraw", "N:?0", "I:0", "I:1")
        # one-argument string functions over all short strings
        for s in base:
            for f in ("trim", "ltrim", "rtrim", "upper", "lower", "strlen", "b64enc", "b64dec", "hash", "int", "raw", "str"):
                add(f, S(s))
            for f in ("b64enc", "b64dec", "hash", "int", "str"):
                add(f, R(s))
        # longer / structured strings
        extra = [list(b"  hello  "), list(b"\tx\n"), list(range(256)), list(b"QUJD"), list(b"QUI="), list(b"QQ=="), list(b"QQ"),
                 list(b"QUJ"), list(b"Q"), list(b"-_,."), list(b"+12"), list(b"-9223372036854775808"), list(b"9223372036854775808"),
                 list(b"0x10"), list(b" 0XfF"), list(b"0x"), list(b"-0x1"), list(b"0xffffffffffffffff"), list(b"0x10000000000000000"),
                 list(b"12abc"), list(b""), list(b"   "), list(b"+"), list(b"1e5"), list(b"99999999999999999999")]
        for _ in range(60 if quick else 600):
            ln = self.rng.randint(4, 40)
            extra.append([self.rng.choice(ALPHA + list(range(65, 91)) + [43, 47, 61]) for _ in range(ln)])
        for s in extra:
            for f in ("trim", "ltrim", "rtrim", "upper", "lower", "strlen", "b64enc", "b64dec", "hash", "int", "raw", "str"):
                add(f, S(s))
            for f in ("b64enc", "b64dec", "hash", "int"):
                add(f, R(s))
        for v in nulls + ["N:r0"]:
            for f in ("trim", "upper", "strlen", "b64enc", "b64dec", "hash", "int", "raw", "str"):
                add(f, v)
        # strpos / replace / tokenize over pairs (and triples) of short strings
        pairs = strings(1) + [[0x61, 0x61], [0x61, 0x2c], [0x2c, 0x2c], [0x20, 0x20], [0, 0]]
        hay = strings(2) + [[0x61, 0x2c, 0x2c, 0x61], [0x2c, 0x61, 0x2c], [0x61, 0x61, 0x61, 0x61], [0, 0x61, 0, 0x61]]
        for h in hay:
            for nd in pairs:
                add("strpos", S(h), S(nd))
                add("tokenize", S(h), S(nd))
                add("tokenize", S(h), S(nd), "B:1")
                add("tokenize", S(h), S(nd), "B:0")
                few = h in ([0x61, 0x61], [0x61, 0x2c]) and nd == [0x61]
                for p in ((pos if few else [q for q in pos if q not in ("N:i0",) and not q.startswith("D:46")]) if len(h) == 2 and len(nd) == 1
                          else ["I:0", "I:1", "I:-1", "I:5", "N:?0"]):
                    add("strpos", S(h), S(nd), p)
                for rp in ([[], [0x78], [0x61, 0x61], [0x2c]]):
                    add("replace", S(h), S(nd), S(rp))
                add("replace", S(h), S(nd), "N:s0")
                add("replace", S(h), S(nd), "N:?0")
        for v in nulls:
            add("strpos", v, S([0x61]))
            add("strpos", S([0x61]), v)
            add("replace", v, S([0x61]), S([0x62]))
            add("replace", S([0x61]), v, S([0x62]))
            add("tokenize", v, S([0x2c]))
            add("tokenize", S([0x61]), v)
            add("tokenize", S([0x61]), S([0x2c]), "N:b0")
        # chr / hex / raw(n, b) / hash(x, n)
        ints = [I64MIN, -256, -1, 0, 1, 9, 10, 15, 16, 65, 127, 128, 255, 256, 257, 4095, 65535, 2 ** 31, 2 ** 32 - 1, 2 ** 32,
                2 ** 32 + 1, 2 ** 60 + 11, I64MAX]
        for i in ints:
            add("chr", "I:%d" % i)
            add("hex", "I:%d" % i)
            add("str", "I:%d" % i)
            # pad counts: negative, none, 1..16, beyond 16, and the region of the repaired `n += 1` overflow
            # (n > INT64_MAX - 15, commit cbe22cc: n is clamped to 16 first)
            for k in (I64MIN, -1, 0, 1, 2, 8, 15, 16, 17, 31, I64MAX - 20, I64MAX - 15, I64MAX - 14, I64MAX - 1, I64MAX):
                add("hex", "I:%d" % i, "I:%d" % k)
            add("hash", S(list(b"abc")), "I:%d" % i)
            add("hash", R([0xe9, 0x80, 0xff]), "I:%d" % i)
            if -2 < i < 300:
                add("raw", "I:3", "I:%d" % i)
            if -2 < i < 70:
                add("raw", "I:%d" % i, "I:65")
                add("raw", "I:%d" % i)
        for v in ("N:i0", "N:d0", "N:?0", "D:4050400000000000", "D:c050400000000000", "D:406fffffffffffff", "D:4070000000000000",
                  "D:7ff8000000000000", "D:46293e5939a08cea", "D:bfe0000000000000"):
            add("chr", v)
            add("hex", v)
            add("hex", "I:255", v)
            add("hash", S(list(b"abc")), v)
            add("raw", "I:2", v)
            add("raw", v)
        # abs / pow (builtin_abs.cpp after fde74fa: abs(INT64_MIN) wraps; builtin_pow.cpp after eec6e8e: integer x integer
        # exact modulo 2^64 like `**`, 1/(b**-n) truncated for a negative exponent, DIVIDE_BY_ZERO for 0 ** negative)
        from .c03 import double_lattice
        absints = sorted(set(ints + [I64MIN + 1, -2, 2, 3, -3, 2 ** 53 + 1, -(2 ** 53) - 1, 2 ** 62, -(2 ** 62), I64MAX - 1]))
        for i in absints:
            add("abs", "I:%d" % i)
        dl = double_lattice()
        for b in dl + [0x8000000000000000, 0xbff8000000000000, 0xfff0000000000000, 0x7ff8000000000000, 0xc3e0000000000000]:
            add("abs", "D:%016x" % b)
        for v in ("N:i0", "N:d0", "N:?0"):
            add("abs", v)
        bases = [I64MIN, I64MIN + 1, -(2 ** 32), -16, -3, -2, -1, 0, 1, 2, 3, 7, 10, 16, 255, 2 ** 31, 2 ** 32, 2 ** 32 + 1, 3037000500, 2 ** 53 + 1, I64MAX - 1, I64MAX]
        exps = [I64MIN, I64MIN + 1, -3, -2, -1, 0, 1, 2, 3, 5, 7, 31, 32, 39, 62, 63, 64, 65, 127, 2 ** 32, I64MAX - 1, I64MAX]
        for a in bases:
            for e in exps:
                add("pow", "I:%d" % a, "I:%d" % e)
        for _ in range(200 if quick else 4000):
            add("pow", "I:%d" % self.rng.randint(I64MIN, I64MAX), "I:%d" % self.rng.choice([self.rng.randint(0, 70), self.rng.randint(-5, 5), self.rng.randint(I64MIN, I64MAX)]))
        for a in ("N:i0", "N:d0", "N:?0", "I:2", "D:4000000000000000"):
            for e in ("N:i0", "N:d0", "N:?0", "I:3", "D:3fe0000000000000"):
                add("pow", a, e)
        for a in ("I:2", "I:-8", "I:0", "D:4004000000000000", "D:c000000000000000", "D:0000000000000000", "D:7ff0000000000000"):
            for e in ("D:3fe0000000000000", "D:4008000000000000", "D:bff0000000000000", "I:3", "I:-2", "I:0", "D:7ff8000000000000"):
                add("pow", a, e)
        # decimals to text
        for b in double_lattice() + [self.rng.getrandbits(64) for _ in range(300 if quick else 5000)]:
            add("str", "D:%016x" % b)
        for _ in range(300 if quick else 5000):
            add("str", "I:%d" % self.rng.randint(I64MIN, I64MAX))
            add("int", S(list(str(self.rng.randint(I64MIN, I64MAX)).encode())))
        for b in ("B:1", "B:0", "N:b0"):
            add("str", b)
            add("int", b)
        # ---- round C10 -------------------------------------------------------------------------------------------
        fam = {}

        def count(family, k=1):
            fam[family] = fam.get(family, 0) + k

        # num / isnum of strings and bytes against the model of std::stod (Model/Strtod.lean), bit-exact doubles:
        # (a) every string up to length 3 over {' ', '-', '.', '0', '1', 'e', 'x', 'p', 'n', NUL}, every string up to
        #     length 2 over a 29-character alphabet (signs, digits, exponent/hex markers, inf/nan letters, white space,
        #     a high byte); (b) grammar-generated numbers (decimal / hexadecimal / inf / nan, near misses, garbage tails,
        #     extreme exponents); (c) rounding boundaries: exact midpoints between adjacent doubles (ties), their
        #     neighbours, the subnormal / overflow thresholds
        numstrs = []
        for ln in range(4):
            for t in itertools.product(NUM_ALPHA3, repeat=ln):
                numstrs.append(bytes(t))
        count("num.exhaustive3", len(numstrs))
        k0 = len(numstrs)
        for ln in (1, 2):
            for t in itertools.product(NUM_ALPHA2, repeat=ln):
                if not set(t) <= set(NUM_ALPHA3):
                    numstrs.append(bytes(t))
        count("num.exhaustive2", len(numstrs) - k0)
        fixed = ["12", "1.5e3", "  -7.25", "12abc", "abc", "", "   ", "1e308", "1e999", "-1e400", "1e-999", "0x1p3", "0x1p99999", "inf",
                 "nan", "-inf", "+.5", ".", "e5", "1e", "1e+", "0x", " 1", "1 ", "--1", "1e-400", "4.9e-324", "2e-324", "1.7976931348623159e308",
                 "0x0.fffffffffffff8p-1022", "0x0.fffffffffffffcp-1022", "0x0.fffffffffffffbp-1022", "0x1p-1074", "0x1p-1075", "0x1.8p-1074",
                 "0x1.fffffffffffff8p1023", "0x1.fffffffffffff7p1023", "0x1p1024", "0x.", "0x.8", "0xp3", "0x1p", "0x1.p1", "0X1P1",
                 "0x0p99999999999999999999", "0e99999999999999999999", "1e-99999999999999999999", "INFINITY", "infinit", "NaN(123)",
                 "nan(", "-nan", "1.", ".5", "+.5e+2", "1 e5", "- 1", "1.5p3", "0x-1", "1_000", "1,5", "2.2250738585072011e-308",
                 "2.2250738585072014e-308", "2.225073858507201383e-308", "1.7976931348623157e308", "1.7976931348623158e308",
                 "2.4703282292062327e-324", "2.4703282292062328e-324", "9007199254740993", "9007199254740992.5", "0.1", "1e23", "8.5e22",
                 "1e-310", "123456789012345678", "0.30000000000000004"]
        numstrs += [x.encode() for x in fixed]
        count("num.fixed", len(fixed))
        g = [grammar_number(self.rng) for _ in range(700 if quick else 12000)]
        numstrs += g
        count("num.grammar", len(g))
        bnd = [x.encode() for x in decimal_boundary_strings(self.rng, 40 if quick else 1500)]
        numstrs += bnd
        count("num.boundary", len(bnd))
        for i, bs in enumerate(numstrs):
            add("num", S(list(bs)))
            add("isnum", S(list(bs)))
            if i % 7 == 0:
                add("num", R(list(bs)))
                add("isnum", R(list(bs)))
        # num / isnum / bool / isnull / typeof of the other types
        others = ["N:s0", "N:r0", "N:i0", "N:d0", "N:b0", "N:?0", "B:1", "B:0", "I:0", "I:-1", "I:%d" % I64MIN, "I:%d" % I64MAX,
                  "I:9007199254740993", "I:-9007199254740993", "D:0000000000000000", "D:8000000000000000", "D:7ff8000000000000",
                  "D:7ff0000000000000", "D:3fb999999999999a", "D:0000000000000001", S([]), S(list(b"1")), R(list(b"1")), R([])]
        for v in others:
            for f in ("num", "isnum", "bool", "isnull", "typeof"):
                if f == "bool" and v[:2] in ("S:", "R:") or f == "bool" and v in ("N:s0", "N:r0"):
                    continue    # BOOLExpression::parse refuses string / bytes operands (hand-written signature, not in Gen.builtinSigs)
                add(f, v)
                count("conv.types")
        # num(str(d)): the text of a double read back (model: fmt16g then stod; implementation: one expression)
        from .c03 import double_lattice as _dl
        rt = list(_dl()) + [0x0000000000000001, 0x000fffffffffffff, 0x0010000000000000, 0x8000000000000001]
        for _ in range(250 if quick else 6000):
            rt.append(self.rng.getrandbits(64))
        for _ in range(250 if quick else 6000):
            # doubles with a short decimal text: k significant digits, moderate exponent
            k = self.rng.randint(1, 17)
            txt = "%de%d" % (self.rng.randint(10 ** (k - 1), 10 ** k - 1), self.rng.randint(-30, 30) - k)
            rt.append(_float_to_bits(float(txt)))
        for b in rt:
            n += 1
            v = "D:%016x" % b
            src = PRELUDE + "r = num(str(x));\nq = num(str(idd(x)));\n"
            cases.append(Case("c%d" % n, "numstr " + v, "|".join(["new 0", "set 0 %s %s" % (hx("X"), v), "prog 0 " + hx(src), "dump 0"]),
                              {"vals": [v], "call": "num(str(x))", "numstr": b}))
        count("numstr", len(rt))
        # numeric built-ins over an operand lattice
        ilat = [I64MIN, I64MIN + 1, -(2 ** 53) - 1, -1000, -3, -2, -1, 0, 1, 2, 3, 7, 10, 100, 2 ** 31, 2 ** 53, 2 ** 53 + 1, 2 ** 62, I64MAX - 1, I64MAX]
        dlat = sorted(set(_dl() + [0x3fe0000000000001, 0x3fdfffffffffffff, 0xbfe0000000000000, 0x4004000000000000, 0xc004000000000000,
                                   0x400921fb54442d18, 0x3ff921fb54442d18, 0x4005bf0a8b145769, 0x40862e42fefa39ef, 0x40862e42fefa39f0,
                                   0xc0874910d52d3051, 0x4197d78400000000, 0x3e7ad7f29abcaf48, 0x8000000000000001, 0xfff8000000000000]))
        ivals = ["I:%d" % i for i in ilat]
        dvals = ["D:%016x" % b for b in dlat] + ["D:%016x" % self.rng.getrandbits(64) for _ in range(20 if quick else 400)]
        nullv = ["N:i0", "N:d0", "N:?0"]
        for f in MATH1 + ["sign", "round", "bool", "isnull", "typeof", "isnum", "num"]:
            for v in ivals + dvals + nullv:
                add(f, v)
                count("math1")
        for v in dvals + ivals[:8]:
            for k in ("I:0", "I:1", "I:2", "I:-1", "I:15", "I:308", "I:309", "I:-324", "N:i0", "N:?0", "D:4004000000000000", "D:46293e5939a08cea"):
                add("round", v, k)
                count("round2")
        pairs = ivals[::2] + dvals[::3] + nullv
        small = ["I:0", "I:-1", "I:3", "I:%d" % I64MIN, "D:0000000000000000", "D:8000000000000000", "D:4004000000000000", "D:c008000000000000",
                 "D:7ff8000000000000", "D:7ff0000000000000", "N:i0", "N:d0", "N:?0"]
        for f in ("max", "min", "mod", "atan2"):
            for a in pairs:
                for b in small:
                    add(f, a, b)
                    add(f, b, a)
                    count("math2", 2)
        cl = ["I:-5", "I:0", "I:7", "I:%d" % I64MIN, "I:%d" % I64MAX, "N:i0", "N:?0"]
        cd = ["D:c014000000000000", "D:0000000000000000", "D:8000000000000000", "D:401c000000000000", "D:7ff8000000000000", "D:fff0000000000000", "N:d0", "N:?0"]
        for lat in (cl, cd):
            for a in lat:
                for b in lat:
                    for c_ in lat:
                        add("clamp", a, b, c_)
                        count("clamp")
        for a, b, c_ in (("I:1", "D:0000000000000000", "I:2"), ("D:3ff0000000000000", "I:0", "I:2"), ("I:1", "I:0", "D:4000000000000000")):
            add("clamp", a, b, c_)
        # int(decimal): the asymmetric range test [-2^63, 2^63) (seeded mutation C03-m2), truncation toward zero
        for b in dlat + [0xc3e0000000000000, 0xc3e0000000000001, 0xc3dfffffffffffff, 0x43e0000000000000, 0x43dfffffffffffff,
                         0xbfefffffffffffff, 0x3fefffffffffffff, 0xc000000000000001] + [self.rng.getrandbits(64) for _ in range(40 if quick else 2000)]:
            add("int", "D:%016x" % b)
            count("int.decimal")
        for cst in ("pi", "ee", "phi"):
            n += 1
            cases.append(Case("c%d" % n, "bi " + cst, "|".join(["new 0", "prog 0 " + hx("r = %s;\nq = %s;\n" % (cst, cst)), "dump 0"]),
                              {"vals": [], "call": cst}))
            count("const")
        self.stats["families_C10"] = fam
        self.stats["numstr"] = {"same": 0, "diff": 0, "error": 0, "diff_by_digits": {}, "same_by_digits": {}}
        self.stats["cases"] = n
        return cases

    def judge(self, c, iraw, m, stderr):
        if "numstr" in c.meta and m.get("note"):
            kind, _, txt = m["note"].partition(":")
            st = self.stats["numstr"]
            digits = len([ch for ch in bytes.fromhex(txt).split(b"e")[0] if 0x30 <= ch <= 0x39])
            lead = len(bytes.fromhex(txt).split(b"e")[0].lstrip(b"-0.")) if txt else 0
            sig = len([ch for ch in bytes.fromhex(txt).split(b"e")[0].lstrip(b"-0.") if 0x30 <= ch <= 0x39])
            if not (m.get("model") or "").startswith("ok "):
                st["error"] += 1
                # finding C10.num.subnormal.erange (status known): str() of a finite double gives a text that num() refuses.
                # Nothing is suppressed: the error code is still compared with the model below.
                pp = iraw.split("|")
                if len(pp) >= 2 and pp[-2].startswith("rerr") and pp[-2].split()[1:2] == (m.get("model") or "").split()[1:2]:
                    self.known_hits.setdefault(NUMSTR_FINDING["id"], {"what": NUMSTR_FINDING["what"], "example": "num(str(x)), x = %s" % c.meta["vals"][0],
                                                                      "impl": pp[-2]})
            else:
                st[kind] += 1
                key = kind + "_by_digits"
                st[key][str(sig)] = st[key].get(str(sig), 0) + 1
        mout = m.get("model")
        if iraw.startswith("crash") or iraw.endswith("diverges"):
            prog, dump = iraw, ""
        else:
            parts = iraw.split("|")
            prog, dump = parts[-2], parts[-1]
        self.tally(c, prog, m)
        self.distinct.add(c.model_line)
        if len(self.samples) < 12 and self.rng.random() < 0.002:
            self.samples.append({"case": c.model_line, "impl": prog, "model": mout})
        if mout is None:
            return self.record_violation("model gave no answer", c, prog, m)
        if mout == "unmodelled":
            self.stats["unmodelled"] = self.stats.get("unmodelled", 0) + 1
            return
        if mout.startswith("hazard ") or not mout.startswith("ok "):
            # errors / hazards: generic comparison (hazard regions via hazard_kf)
            c2 = Case(c.cid, c.model_line, c.impl_line, c.meta, pick=-2)
            if prog.startswith("crash") or prog.endswith("diverges"):
                return Check.judge(self, Case(c.cid, c.model_line, c.impl_line, c.meta), prog, m, stderr)
            return Check.judge(self, c2, iraw, m, stderr)
        if prog != "ok-":
            return self.record_violation("call fails in the implementation but the model returns a value", c, prog, m, stderr)
        d = parse_dump(dump)
        want = mout[3:]
        for r in ("R", "Q"):
            got = d["syms"].get(r, ("", "", "?"))[2].replace("/l", "").replace("/t", "")
            if got != want:
                return self.record_violation("%s (%s) gives %s, the model gives %s" % (c.meta["call"], "variables" if r == "R" else "temporaries", got, want), c, got, m)
        for name, v in zip(("X", "Y", "Z"), c.meta["vals"]):
            got = d["syms"].get(name, ("", "", "?"))[2].replace("/l", "").replace("/t", "")
            if v.startswith("D:") and (int(v[2:], 16) & 0x7fffffffffffffff) > 0x7ff0000000000000:
                v = "D:7ff8000000000000"    # the probe prints every NaN as the canonical one (payloads / sign are not compared)
            if got != v:
                return self.record_violation("argument variable %s changed by %s: %s" % (name, c.meta["call"], got), c, got, m)
